(* C09_Model: executable model of muduo's two poller back-ends and of Channel's event dispatch
   (muduo/net/Channel.{h,cc}, Poller.{h,cc}, poller/EPollPoller.cc, poller/PollPoller.cc).
   Concrete state = the private fields the code reads: per Channel object {fd_, events_, index_,
   addedToLoop_}; EPollPoller: channels_, the kernel's interest list of the epoll instance, the
   size of the result array events_; PollPoller: channels_, pollfds_.
   A failed assert on a documented precondition of the Channel API is [Rejected]; a failed internal
   assertion, an out-of-bounds vector access, a null dereference or a LOG_SYSFATAL is [Fault].
   Three booleans select the shape of the code; their values for the current tree are regenerated
   from the AST (Gen_C09) and instantiated in ep_step_current / pp_step_current:
   [ri]  PollPoller::removeChannel resets the channel's index to -1           (finding F-1, fixed bbde8b0)
   [se]  EPollPoller::updateChannel only records (kDeleted) a channel whose interest is empty instead of
         EPOLL_CTL_ADDing it                                                    (finding F-14, fixed a5a0563)
   [ne]  PollPoller::updateChannel's new-entry branch stores -fd-1 for an empty interest      (same)
   No proofs in this file. *)
From Coq Require Import List ZArith NArith Lia Bool Arith.
From Muduo Require Import Gen_Consts Gen_C09.
Import ListNotations.

Inductive res (A : Type) : Type :=
| Ok (a : A)
| Rejected   (* caller violated a documented precondition of the Channel API *)
| Fault.     (* internal assertion failure / out-of-bounds / fatal kernel error: a bug *)
Arguments Ok {A} a.
Arguments Rejected {A}.
Arguments Fault {A}.

Definition bind {A B} (x : res A) (f : A -> res B) : res B :=
  match x with Ok a => f a | Rejected => Rejected | Fault => Fault end.
Notation "x <- e ;; k" := (bind e (fun x => k)) (at level 61, e at next level, right associativity).

(* ---- condition bits: Linux ABI values of <poll.h> (checked by the driver's "abi=" line; the
        static_asserts at the top of EPollPoller.cc say the EPOLL* values are the same) ------- *)
Definition POLLIN : N := 1.
Definition POLLPRI : N := 2.
Definition POLLOUT : N := 4.
Definition POLLERR : N := 8.
Definition POLLHUP : N := 16.
Definition POLLNVAL : N := 32.
Definition POLLRDHUP : N := 8192.
(* conditions the kernel reports whether or not they were asked for *)
Definition EHN : N := 56.

Definition kNoneEvent : N := Z.to_N Gen_Consts.Channel_kNoneEvent.
Definition kReadEvent : N := Z.to_N Gen_Consts.Channel_kReadEvent.
Definition kWriteEvent : N := Z.to_N Gen_Consts.Channel_kWriteEvent.
Definition kNew : Z := Gen_Consts.EPollPoller_kNew.
Definition kAdded : Z := Gen_Consts.EPollPoller_kAdded.
Definition kDeleted : Z := Gen_Consts.EPollPoller_kDeleted.
Definition kInitEventListSize : nat := Z.to_nat Gen_Consts.EPollPoller_kInitEventListSize.
Definition grow_factor : nat := Z.to_nat Gen_C09.EPollPoller_grow_factor.

(* ---- Channel objects ------------------------------------------------------------------- *)
Record chan := mkChan { fd : nat; events : N; index : Z; added : bool }.

Definition upd {A} (m : nat -> option A) (k : nat) (v : option A) : nat -> option A :=
  fun x => if Nat.eqb x k then v else m x.

Definition objmap := nat -> option chan.

Definition set_index (ch : chan) (i : Z) : chan := mkChan (fd ch) (events ch) i (added ch).
Definition isNone (ch : chan) : bool := N.eqb (events ch) kNoneEvent.

Inductive uop := UEnableR | UDisableR | UEnableW | UDisableW | UDisableAll.

(* Channel.h:62-66 *)
Definition apply_uop (u : uop) (ev : N) : N :=
  match u with
  | UEnableR => N.lor ev kReadEvent
  | UDisableR => N.ldiff ev kReadEvent
  | UEnableW => N.lor ev kWriteEvent
  | UDisableW => N.ldiff ev kWriteEvent
  | UDisableAll => kNoneEvent
  end.

Inductive op :=
| New (c f : nat)                 (* construct Channel object c on descriptor f *)
| Del (c : nat)                   (* destroy it *)
| Upd (u : uop) (c : nat)         (* enable/disable Reading/Writing, disableAll; each calls update() *)
| Remove (c : nat)                (* Channel::remove() *)
| Poll (ready : nat -> N) (choice : list nat).

(* revents the kernel reports for an entry (f, ev) given the descriptor's condition *)
Definition revents_of (ready : nat -> N) (f : nat) (ev : N) : N := N.land (ready f) (N.lor ev EHN).

(* ---- Channel::handleEventWithGuard, Channel.cc:83-114 ------------------------------------ *)
Inductive cb := CbClose | CbError | CbRead | CbWrite.
Definition has (r m : N) : bool := negb (N.eqb (N.land r m) 0).
Definition dispatch (r : N) : list cb :=
  (if has r POLLHUP && negb (has r POLLIN) then [CbClose] else []) ++
  (if has r (N.lor POLLERR POLLNVAL) then [CbError] else []) ++
  (if has r (N.lor POLLIN (N.lor POLLPRI POLLRDHUP)) then [CbRead] else []) ++
  (if has r POLLOUT then [CbWrite] else []).

Definition active := list (nat * N).      (* (Channel object, revents) *)
Definition callbacks (a : active) : list (nat * cb) :=
  flat_map (fun cr => map (pair (fst cr)) (dispatch (snd cr))) a.

(* ---- EPOLL back-end ------------------------------------------------------------------------ *)
Record kent := mkKent { k_fd : nat; k_ev : N; k_cid : nat }.   (* epoll_event{events, data.ptr} *)
Record ep := mkEp {
  e_objs : objmap;
  e_map  : nat -> option nat;   (* channels_ : fd -> Channel* *)
  e_kern : list kent;           (* interest list of the epoll instance (kernel) *)
  e_cap  : nat;                 (* events_.size() *)
  e_kerr : nat                  (* failed EPOLL_CTL_DEL (LOG_SYSERR, execution continues) *)
}.

Definition ep_init : ep := mkEp (fun _ => None) (fun _ => None) [] kInitEventListSize 0.

Fixpoint klookup (l : list kent) (f : nat) : option kent :=
  match l with
  | [] => None
  | k :: t => if Nat.eqb (k_fd k) f then Some k else klookup t f
  end.
Definition kmod (l : list kent) (f : nat) (ev : N) (c : nat) : list kent :=
  map (fun k => if Nat.eqb (k_fd k) f then mkKent f ev c else k) l.
Definition kdel (l : list kent) (f : nat) : list kent :=
  filter (fun k => negb (Nat.eqb (k_fd k) f)) l.

Definition ep_set_objs (st : ep) (o : objmap) : ep := mkEp o (e_map st) (e_kern st) (e_cap st) (e_kerr st).
Definition ep_set_map (st : ep) (m : nat -> option nat) : ep := mkEp (e_objs st) m (e_kern st) (e_cap st) (e_kerr st).
Definition ep_set_kern (st : ep) (k : list kent) : ep := mkEp (e_objs st) (e_map st) k (e_cap st) (e_kerr st).

Inductive ctl := CtlAdd | CtlMod | CtlDel.

(* EPollPoller::update, EPollPoller.cc:172-192, with the kernel's epoll_ctl: ADD of a present
   descriptor = EEXIST, MOD/DEL of an absent one = ENOENT; a failed ADD/MOD is LOG_SYSFATAL
   (abort), a failed DEL is LOG_SYSERR *)
Definition ep_ctl (o : ctl) (c : nat) (ch : chan) (st : ep) : res ep :=
  let f := fd ch in
  match o, klookup (e_kern st) f with
  | CtlAdd, None => Ok (ep_set_kern st (e_kern st ++ [mkKent f (events ch) c]))
  | CtlAdd, Some _ => Fault
  | CtlMod, Some _ => Ok (ep_set_kern st (kmod (e_kern st) f (events ch) c))
  | CtlMod, None => Fault
  | CtlDel, Some _ => Ok (ep_set_kern st (kdel (e_kern st) f))
  | CtlDel, None => Ok (mkEp (e_objs st) (e_map st) (e_kern st) (e_cap st) (S (e_kerr st)))
  end.

(* EPollPoller::updateChannel, EPollPoller.cc:107-157 *)
Definition ep_updateChannel (se : bool) (c : nat) (st : ep) : res ep :=
  match e_objs st c with
  | None => Rejected
  | Some ch =>
    let f := fd ch in
    if Z.eqb (index ch) kNew || Z.eqb (index ch) kDeleted then
      st1 <- (if Z.eqb (index ch) kNew then
                match e_map st f with
                | None => Ok (ep_set_map st (upd (e_map st) f (Some c)))
                | Some _ => Rejected            (* a second channel on a registered descriptor *)
                end
              else
                match e_map st f with
                | Some c' => if Nat.eqb c' c then Ok st else Fault
                | None => Fault
                end) ;;
      if se && isNone ch then
        (* nothing to watch: known to the poller (channels_), not in the epoll set *)
        Ok (ep_set_objs st1 (upd (e_objs st1) c (Some (set_index ch kDeleted))))
      else
        let ch' := set_index ch kAdded in
        ep_ctl CtlAdd c ch' (ep_set_objs st1 (upd (e_objs st1) c (Some ch')))
    else
      match e_map st f with
      | Some c' =>
        if Nat.eqb c' c && Z.eqb (index ch) kAdded then
          if isNone ch then
            st1 <- ep_ctl CtlDel c ch st ;;
            Ok (ep_set_objs st1 (upd (e_objs st1) c (Some (set_index ch kDeleted))))
          else ep_ctl CtlMod c ch st
        else Fault
      | None => Fault
      end
  end.

(* Channel::remove + EPollPoller::removeChannel, Channel.cc:59-64, EPollPoller.cc:151-170 *)
Definition ep_removeChannel (c : nat) (st : ep) : res ep :=
  match e_objs st c with
  | None => Rejected
  | Some ch =>
    if negb (isNone ch) then Rejected else
    match e_map st (fd ch) with
    | Some c' =>
      if Nat.eqb c' c then
        if Z.eqb (index ch) kAdded || Z.eqb (index ch) kDeleted then
          let st1 := ep_set_map st (upd (e_map st) (fd ch) None) in
          st2 <- (if Z.eqb (index ch) kAdded then ep_ctl CtlDel c ch st1 else Ok st1) ;;
          Ok (ep_set_objs st2 (upd (e_objs st2) c (Some (mkChan (fd ch) (events ch) kNew false))))
        else Fault
      else Rejected
    | None => Rejected
    end
  end.

(* what the kernel has ready: every interest entry whose reported conditions are non-empty *)
Definition ep_full (st : ep) (ready : nat -> N) : active :=
  flat_map (fun k => let r := revents_of ready (k_fd k) (k_ev k) in
                     if N.eqb r 0 then [] else [(k_cid k, r)]) (e_kern st).

(* the kernel returns some [k] of the ready entries, in some order: [choice] decides *)
Fixpoint take_nth {A} (i : nat) (l : list A) : option (A * list A) :=
  match l with
  | [] => None
  | x :: t => match i with
              | 0 => Some (x, t)
              | S j => match take_nth j t with Some (y, t') => Some (y, x :: t') | None => None end
              end
  end.
Fixpoint pick {A} (k : nat) (choice : list nat) (l : list A) : list A :=
  match k with
  | 0 => []
  | S k' => match take_nth (Nat.modulo (hd 0 choice) (length l)) l with
            | Some (x, l') => x :: pick k' (tl choice) l'
            | None => []
            end
  end.

(* the debug-build checks of EPollPoller::fillActiveChannels *)
Definition ep_fill_ok (st : ep) (cr : nat * N) : bool :=
  match e_objs st (fst cr) with
  | Some ch => match e_map st (fd ch) with Some c' => Nat.eqb c' (fst cr) | None => false end
  | None => false
  end.

(* EPollPoller::poll, EPollPoller.cc:55-87 *)
Definition ep_poll (ready : nat -> N) (choice : list nat) (st : ep) : res (ep * active) :=
  let full := ep_full st ready in
  let n := Nat.min (length full) (e_cap st) in
  let act := pick n choice full in
  if forallb (ep_fill_ok st) act then
    let cap' := if Nat.ltb 0 n && Nat.eqb n (e_cap st) then grow_factor * e_cap st else e_cap st in
    Ok (mkEp (e_objs st) (e_map st) (e_kern st) cap' (e_kerr st), act)
  else Fault.

Definition ep_step (se : bool) (st : ep) (o : op) : res (ep * active) :=
  match o with
  | New c f =>
      match e_objs st c with
      | Some _ => Rejected
      | None => Ok (ep_set_objs st (upd (e_objs st) c (Some (mkChan f kNoneEvent (-1) false))), [])
      end
  | Del c =>
      match e_objs st c with
      | Some ch => if added ch then Rejected   (* ~Channel: assert(!addedToLoop_) *)
                   else Ok (ep_set_objs st (upd (e_objs st) c None), [])
      | None => Rejected
      end
  | Upd u c =>
      match e_objs st c with
      | Some ch =>
          let ch' := mkChan (fd ch) (apply_uop u (events ch)) (index ch) true in
          st' <- ep_updateChannel se c (ep_set_objs st (upd (e_objs st) c (Some ch'))) ;; Ok (st', [])
      | None => Rejected
      end
  | Remove c => st' <- ep_removeChannel c st ;; Ok (st', [])
  | Poll ready choice => ep_poll ready choice st
  end.

(* the epoll back-end of the tree as it is now *)
Definition ep_step_current := ep_step Gen_C09.EPollPoller_add_skips_empty_interest.

(* ---- POLL back-end -------------------------------------------------------------------------- *)
Record pfd := mkPfd { p_fd : Z; p_ev : N }.      (* struct pollfd without revents *)
Record pp := mkPp {
  p_objs : objmap;
  p_map  : nat -> option nat;   (* channels_ *)
  p_pfds : list pfd             (* pollfds_ *)
}.
Definition pp_init : pp := mkPp (fun _ => None) (fun _ => None) [].

Definition neg_fd (f : nat) : Z := (- Z.of_nat f - 1)%Z.

Fixpoint set_nth {A} (i : nat) (x : A) (l : list A) : list A :=
  match l with
  | [] => []
  | y :: t => match i with 0 => x :: t | S j => y :: set_nth j x t end
  end.

(* PollPoller::updateChannel, PollPoller.cc:75-115 *)
Definition pp_updateChannel (ne : bool) (c : nat) (st : pp) : res pp :=
  match p_objs st c with
  | None => Rejected
  | Some ch =>
    let f := fd ch in
    if Z.ltb (index ch) 0 then
      match p_map st f with
      | Some _ => Rejected                      (* a second channel on a registered descriptor *)
      | None =>
          let idx := Z.of_nat (length (p_pfds st)) in
          Ok (mkPp (upd (p_objs st) c (Some (set_index ch idx)))
                   (upd (p_map st) f (Some c))
                   (p_pfds st ++ [mkPfd (if ne && isNone ch then neg_fd f else Z.of_nat f) (events ch)]))
      end
    else
      match p_map st f with
      | Some c' =>
        if Nat.eqb c' c then
          match nth_error (p_pfds st) (Z.to_nat (index ch)) with
          | None => Fault
          | Some p =>
            if Z.eqb (p_fd p) (Z.of_nat f) || Z.eqb (p_fd p) (neg_fd f) then
              let nf := if isNone ch then neg_fd f else Z.of_nat f in
              Ok (mkPp (p_objs st) (p_map st) (set_nth (Z.to_nat (index ch)) (mkPfd nf (events ch)) (p_pfds st)))
            else Fault
          end
        else Rejected          (* another channel is registered on this descriptor *)
      | None => Fault
      end
  end.

(* Channel::remove + PollPoller::removeChannel, PollPoller.cc:112-141.
   [ri] = the function ends with channel->set_index(-1) *)
Definition pp_removeChannel (ri : bool) (c : nat) (st : pp) : res pp :=
  match p_objs st c with
  | None => Rejected
  | Some ch =>
    if negb (isNone ch) then Rejected else
    match p_map st (fd ch) with
    | Some c' =>
      if Nat.eqb c' c then
        let n := length (p_pfds st) in
        let idx := Z.to_nat (index ch) in
        if Z.leb 0 (index ch) && Nat.ltb idx n then
          match nth_error (p_pfds st) idx with
          | None => Fault
          | Some p =>
            if Z.eqb (p_fd p) (neg_fd (fd ch)) && N.eqb (p_ev p) (events ch) then
              let m1 := upd (p_map st) (fd ch) None in
              let final := mkChan (fd ch) (events ch) (if ri then (-1)%Z else index ch) false in
              if Nat.eqb idx (n - 1) then
                Ok (mkPp (upd (p_objs st) c (Some final)) m1 (removelast (p_pfds st)))
              else
                match nth_error (p_pfds st) (n - 1) with
                | None => Fault
                | Some lastp =>
                  let atEnd := p_fd lastp in
                  let key := Z.to_nat (if Z.ltb atEnd 0 then (- atEnd - 1)%Z else atEnd) in
                  match m1 key with
                  | None => Fault                       (* channels_[key] inserts NULL: null dereference *)
                  | Some c2 =>
                    match p_objs st c2 with
                    | None => Fault
                    | Some ch2 =>
                      let objs1 := upd (p_objs st) c2 (Some (set_index ch2 (Z.of_nat idx))) in
                      Ok (mkPp (upd objs1 c (Some final)) m1
                               (removelast (set_nth idx lastp (p_pfds st))))
                    end
                  end
                end
            else Fault
          end
        else Fault
      else Rejected
    | None => Rejected
    end
  end.

(* ::poll + PollPoller::fillActiveChannels, PollPoller.cc:33-73: entries with a negative fd are
   ignored by the kernel; the others get revents; every entry with revents > 0 is looked up *)
Fixpoint pp_fill (st : pp) (ready : nat -> N) (l : list pfd) : res active :=
  match l with
  | [] => Ok []
  | p :: t =>
      let r := if Z.ltb (p_fd p) 0 then 0%N else revents_of ready (Z.to_nat (p_fd p)) (p_ev p) in
      if N.eqb r 0 then pp_fill st ready t
      else
        match p_map st (Z.to_nat (p_fd p)) with
        | None => Fault
        | Some c =>
          match p_objs st c with
          | None => Fault
          | Some ch => if Z.eqb (Z.of_nat (fd ch)) (p_fd p)
                       then rest <- pp_fill st ready t ;; Ok ((c, r) :: rest)
                       else Fault
          end
        end
  end.

Definition pp_step (ri ne : bool) (st : pp) (o : op) : res (pp * active) :=
  match o with
  | New c f =>
      match p_objs st c with
      | Some _ => Rejected
      | None => Ok (mkPp (upd (p_objs st) c (Some (mkChan f kNoneEvent (-1) false))) (p_map st) (p_pfds st), [])
      end
  | Del c =>
      match p_objs st c with
      | Some ch => if added ch then Rejected
                   else Ok (mkPp (upd (p_objs st) c None) (p_map st) (p_pfds st), [])
      | None => Rejected
      end
  | Upd u c =>
      match p_objs st c with
      | Some ch =>
          let ch' := mkChan (fd ch) (apply_uop u (events ch)) (index ch) true in
          st' <- pp_updateChannel ne c (mkPp (upd (p_objs st) c (Some ch')) (p_map st) (p_pfds st)) ;; Ok (st', [])
      | None => Rejected
      end
  | Remove c => st' <- pp_removeChannel ri c st ;; Ok (st', [])
  | Poll ready _ => a <- pp_fill st ready (p_pfds st) ;; Ok (st, a)
  end.

(* the poll back-end of the tree as it is now *)
Definition pp_step_current :=
  pp_step Gen_C09.PollPoller_remove_resets_index Gen_C09.PollPoller_new_entry_negates_empty.

(* ---- runs ------------------------------------------------------------------------------------ *)
Fixpoint ep_run (se : bool) (st : ep) (ops : list op) : res (ep * list active) :=
  match ops with
  | [] => Ok (st, [])
  | o :: t => r <- ep_step se st o ;; r' <- ep_run se (fst r) t ;; Ok (fst r', snd r :: snd r')
  end.
Fixpoint pp_run (ri ne : bool) (st : pp) (ops : list op) : res (pp * list active) :=
  match ops with
  | [] => Ok (st, [])
  | o :: t => r <- pp_step ri ne st o ;; r' <- pp_run ri ne (fst r) t ;; Ok (fst r', snd r :: snd r')
  end.
Definition ep_run_current := ep_run Gen_C09.EPollPoller_add_skips_empty_interest.

Definition pp_run_current :=
  pp_run Gen_C09.PollPoller_remove_resets_index Gen_C09.PollPoller_new_entry_negates_empty.

(* ---- abstract specification: the interest map  Channel object -> subscribed conditions -------- *)
Record sch := mkSch {
  s_fd : nat;
  s_ev : N;          (* subscribed conditions *)
  s_reg : bool;      (* registered with the loop (updated and not removed since) *)
  s_rm : bool        (* ghost: this object has been removed at least once *)
}.
Definition spec := nat -> option sch.
Definition spec0 : spec := fun _ => None.

Definition spec_step (sp : spec) (o : op) : spec :=
  match o with
  | New c f => upd sp c (Some (mkSch f 0 false false))
  | Del c => upd sp c None
  | Upd u c => match sp c with
               | Some s => upd sp c (Some (mkSch (s_fd s) (apply_uop u (s_ev s)) true (s_rm s)))
               | None => sp
               end
  | Remove c => match sp c with
                | Some s => upd sp c (Some (mkSch (s_fd s) (s_ev s) false true))
                | None => sp
                end
  | Poll _ _ => sp
  end.
Definition spec_run (sp : spec) (ops : list op) : spec := fold_left spec_step ops sp.

Definition fd_taken (sp : spec) (f : nat) : Prop :=
  exists c s, sp c = Some s /\ s_reg s = true /\ s_fd s = f.

(* the documented preconditions of the Channel API *)
Definition sguard (sp : spec) (o : op) : Prop :=
  match o with
  | New c _ => sp c = None
  | Del c => exists s, sp c = Some s /\ s_reg s = false
  | Upd _ c => exists s, sp c = Some s /\ (s_reg s = true \/ ~ fd_taken sp (s_fd s))
  | Remove c => exists s, sp c = Some s /\ s_reg s = true /\ s_ev s = 0%N
  | Poll _ _ => True
  end.

(* extra hypothesis 1 (finding F-14, needed only for the OLD shapes se = false / ne = false): no update
   that leaves the interest empty is applied to a channel whose interest is already empty or that is
   not registered ("redundant disable") *)
Definition sclean (sp : spec) (o : op) : Prop :=
  match o with
  | Upd u c => forall s, sp c = Some s -> apply_uop u (s_ev s) = 0%N -> s_reg s = true /\ s_ev s <> 0%N
  | _ => True
  end.
(* extra hypothesis 2 (finding F-1, only for the poll back-end without the index reset):
   no update of a Channel object that has been removed *)
Definition sfresh (sp : spec) (o : op) : Prop :=
  match o with
  | Upd _ c => forall s, sp c = Some s -> s_rm s = false
  | _ => True
  end.

Fixpoint hist_ok (extra : spec -> op -> Prop) (sp : spec) (ops : list op) : Prop :=
  match ops with
  | [] => True
  | o :: t => sguard sp o /\ extra sp o /\ hist_ok extra (spec_step sp o) t
  end.

(* what Poll has to report *)
Definition spec_reports (sp : spec) (ready : nat -> N) (c : nat) (r : N) : Prop :=
  exists s, sp c = Some s /\ s_reg s = true /\ s_ev s <> 0%N /\
            r = N.land (ready (s_fd s)) (N.lor (s_ev s) EHN) /\ r <> 0%N.

(* ---- Channel::handleEvent, Channel.cc:66-81: the tie_ guard ----------------------------------------
   [tied] = tie() was called on the channel; [alive] = tie_.lock() yields a non-null guard (the owner
   object still exists).  handleEventWithGuard runs iff the channel is untied or its owner is alive. *)
Definition handle_runs (tied alive : bool) : bool := if tied then alive else true.
Definition handle_event (tied alive : bool) (r : N) : list cb :=
  if handle_runs tied alive then dispatch r else [].

(* the callback codes used by the generated Gen_C09.Channel_handleEventWithGuard_calls *)
Definition cb_of_code (k : N) : cb :=
  match k with 0%N => CbClose | 1%N => CbError | 2%N => CbRead | _ => CbWrite end.

(* ---- one iteration of EventLoop::loop() around a poller, EventLoop.cc:110-129 -----------------------
   activeChannels_ is filled by poll() and then EVERY element of that snapshot gets handleEvent with
   the revents stored at poll time, whatever earlier callbacks of the same batch did to its interest.
   [h c k] = the Channel API calls the k-callback of channel c makes (on any channel);
   [runs c] = handleEventWithGuard of c runs (untied, or tied and owner alive).
   While dispatching, EventLoop::removeChannel asserts that the removed channel is the one being
   handled or is not in activeChannels_ (EventLoop.cc:212-216) and ~Channel asserts !eventHandling_
   (Channel.cc:39): violations are [Rejected] like the other documented preconditions.
   The assert compares OBJECTS (pointers): a Channel destroyed during the batch leaves the snapshot
   ([snap_step]), so a fresh object constructed under the same id is not "in activeChannels_"
   (assuming the allocator does not hand out the address of the destroyed object again). *)
Definition handlers := nat -> cb -> list op.

Definition in_snap (c : nat) (snap : list nat) : bool := existsb (Nat.eqb c) snap.

Definition loop_guard (snap : list nat) (cur : nat) (o : op) : bool :=
  match o with
  | Remove c => Nat.eqb c cur || negb (in_snap c snap)
  | Del c => negb (Nat.eqb c cur)
  | Poll _ _ => false                 (* a callback does not re-enter poll() *)
  | _ => true
  end.

Definition snap_step (snap : list nat) (o : op) : list nat :=
  match o with
  | Del c => filter (fun x => negb (Nat.eqb x c)) snap
  | _ => snap
  end.
Definition snap_run (snap : list nat) (ops : list op) : list nat := fold_left snap_step ops snap.

Definition callbacks_g (runs : nat -> bool) (a : active) : list (nat * cb) :=
  flat_map (fun cr => map (pair (fst cr)) (if runs (fst cr) then dispatch (snd cr) else [])) a.
Definition batch_ops (h : handlers) (log : list (nat * cb)) : list op :=
  flat_map (fun ck => h (fst ck) (snd ck)) log.

Section LoopIter.
Variable S : Type.
Variable step : S -> op -> res (S * active).

Fixpoint run_cb_ops (snap : list nat) (cur : nat) (st : S) (ops : list op) : res (S * list nat) :=
  match ops with
  | [] => Ok (st, snap)
  | o :: t => if loop_guard snap cur o then r <- step st o ;; run_cb_ops (snap_step snap o) cur (fst r) t else Rejected
  end.

Fixpoint dispatch_cbs (h : handlers) (snap : list nat) (cur : nat) (st : S) (ks : list cb)
  : res (S * list nat * list (nat * cb)) :=
  match ks with
  | [] => Ok (st, snap, [])
  | k :: t => r1 <- run_cb_ops snap cur st (h cur k) ;;
              r <- dispatch_cbs h (snd r1) cur (fst r1) t ;; Ok (fst r, (cur, k) :: snd r)
  end.

Fixpoint dispatch_batch (h : handlers) (runs : nat -> bool) (snap : list nat) (st : S) (act : active)
  : res (S * list (nat * cb)) :=
  match act with
  | [] => Ok (st, [])
  | cr :: t => r1 <- dispatch_cbs h snap (fst cr) st (if runs (fst cr) then dispatch (snd cr) else []) ;;
               r2 <- dispatch_batch h runs (snd (fst r1)) (fst (fst r1)) t ;; Ok (fst r2, snd r1 ++ snd r2)
  end.

(* poll, then dispatch the snapshot: (state, activeChannels_, callbacks run in order) *)
Definition loop_iter (h : handlers) (runs : nat -> bool) (st : S) (ready : nat -> N) (choice : list nat)
  : res (S * active * list (nat * cb)) :=
  r <- step st (Poll ready choice) ;;
  d <- dispatch_batch h runs (map fst (snd r)) (fst r) (snd r) ;;
  Ok (fst d, snd r, snd d).
End LoopIter.

Definition ep_loop_iter := loop_iter ep ep_step_current.
Definition pp_loop_iter_current := loop_iter pp pp_step_current.

(* the callbacks of one batch respect the preconditions (Channel API + the two loop asserts) *)
Fixpoint cb_ops_ok (snap : list nat) (cur : nat) (sp : spec) (ops : list op) : Prop :=
  match ops with
  | [] => True
  | o :: t => loop_guard snap cur o = true /\ sguard sp o /\ cb_ops_ok (snap_step snap o) cur (spec_step sp o) t
  end.
Fixpoint batch_ok (h : handlers) (snap : list nat) (sp : spec) (log : list (nat * cb)) : Prop :=
  match log with
  | [] => True
  | ck :: t => cb_ops_ok snap (fst ck) sp (h (fst ck) (snd ck)) /\
               batch_ok h (snap_run snap (h (fst ck) (snd ck))) (spec_run sp (h (fst ck) (snd ck))) t
  end.

(* ---- the loop's own descriptors: wake-up eventfd and timerfd (EventLoop.cc:234-252, TimerQueue.cc:57-66)
   environment = eventfd counter, number of unread timer expirations, condition of every other descriptor *)
Record kenv := mkKenv { k_wake : N; k_texp : N; k_rd : nat -> N }.

(* eventfd(2): readable iff the counter is non-zero (always writable here); timerfd: readable iff an
   expiration is unread *)
Definition eventfd_ready (cnt : N) : N := if N.ltb 0 cnt then N.lor POLLIN POLLOUT else POLLOUT.
Definition timerfd_ready (n : N) : N := if N.ltb 0 n then POLLIN else 0%N.
Definition env_ready (wfd tfd : nat) (e : kenv) : nat -> N :=
  fun f => if Nat.eqb f wfd then eventfd_ready (k_wake e)
           else if Nat.eqb f tfd then timerfd_ready (k_texp e) else k_rd e f.

(* read(2) on an eventfd / timerfd with a buffer of [size] bytes: EINVAL below 8 bytes (nothing
   consumed); otherwise the counter is returned and reset (a semaphore eventfd is decremented) *)
Definition fd_read (sem : bool) (size : Z) (cnt : N) : N :=
  if Z.ltb size 8 then cnt else if sem then N.pred cnt else 0%N.
Definition cb_read (reads sem : bool) (size : Z) (cnt : N) : N := if reads then fd_read sem size cnt else cnt.

(* EventLoop::handleRead and TimerQueue::handleRead (readTimerfd), parameterised by what the source does *)
Definition handleRead_env (reads sem : bool) (size : Z) (e : kenv) : kenv :=
  mkKenv (cb_read reads sem size (k_wake e)) (k_texp e) (k_rd e).
Definition timerRead_env (reads : bool) (size : Z) (e : kenv) : kenv :=
  mkKenv (k_wake e) (cb_read reads false size (k_texp e)) (k_rd e).

(* environment effect of each callback: the read callbacks of the wake-up channel [wc] and of the
   timer channel [tc] are the two functions above, everything else is the user's *)
Definition loop_effects (wake_rd timer_rd : kenv -> kenv) (wc tc : nat) (user : nat -> cb -> kenv -> kenv)
  : nat -> cb -> kenv -> kenv :=
  fun c k => if Nat.eqb c wc then (match k with CbRead => wake_rd | _ => fun e => e end)
             else if Nat.eqb c tc then (match k with CbRead => timer_rd | _ => fun e => e end)
             else user c k.
Definition apply_effects (eff : nat -> cb -> kenv -> kenv) (log : list (nat * cb)) (e : kenv) : kenv :=
  fold_left (fun e ck => eff (fst ck) (snd ck) e) log e.

Section LoopEnv.
Variable S : Type.
Variable step : S -> op -> res (S * active).
(* one iteration with the environment: poll sees env_ready; the callbacks' effects are applied in order *)
Definition loop_iter_env (h : handlers) (runs : nat -> bool) (eff : nat -> cb -> kenv -> kenv)
  (wfd tfd : nat) (st : S) (e : kenv) (choice : list nat) : res (S * active * list (nat * cb) * kenv) :=
  r <- loop_iter S step h runs st (env_ready wfd tfd e) choice ;;
  Ok (r, apply_effects eff (snd r) e).
End LoopEnv.

(* ---- the whole iteration: dispatch, then doPendingFunctors (EventLoop.cc:110-129, 254-269) -----------
   A functor (id) makes Channel API calls and may queue further functors: [fb id] = (calls, queued ids).
   Callbacks may queue functors too ([hq c k]).  doPendingFunctors swaps the queue into a local vector and
   runs every element: everything pending at that moment -- what was queued before the poll and what the
   callbacks of this batch queued -- runs in THIS iteration; what the functors themselves queue stays
   pending for the next one.  While the functors run eventHandling_ is false: no batch assert applies. *)
Definition fnbody := nat -> list op * list nat.

(* EventLoop::queueInLoop calls wakeup() iff .. (EventLoop.cc:169) *)
Definition queue_wakes (inLoopThread callingPending looping : bool) : bool :=
  negb inLoopThread || callingPending || negb looping.

Section LoopFull.
Variable S : Type.
Variable step : S -> op -> res (S * active).

Fixpoint run_ops (st : S) (ops : list op) : res S :=
  match ops with
  | [] => Ok st
  | Poll _ _ :: _ => Rejected            (* a functor does not re-enter poll() *)
  | o :: t => r <- step st o ;; run_ops (fst r) t
  end.

Fixpoint run_functors (fb : fnbody) (st : S) (ids : list nat) : res (S * list nat) :=
  match ids with
  | [] => Ok (st, [])
  | i :: t => st1 <- run_ops st (fst (fb i)) ;; r <- run_functors fb st1 t ;; Ok (fst r, snd (fb i) ++ snd r)
  end.

(* (state, activeChannels_, callbacks run, functors run, functors left pending) *)
Definition loop_iter_full (h : handlers) (hq : nat -> cb -> list nat) (fb : fnbody) (runs : nat -> bool)
  (st : S) (ready : nat -> N) (choice : list nat) (pending : list nat)
  : res (S * active * list (nat * cb) * list nat * list nat) :=
  r <- loop_iter S step h runs st ready choice ;;
  let ran := pending ++ flat_map (fun ck => hq (fst ck) (snd ck)) (snd r) in
  f <- run_functors fb (fst (fst r)) ran ;;
  Ok (fst f, snd (fst r), snd r, ran, snd f).
End LoopFull.

Definition ep_loop_iter_full := loop_iter_full ep ep_step_current.
Definition pp_loop_iter_full_current := loop_iter_full pp pp_step_current.

(* the functors' calls respect the Channel API preconditions *)
Fixpoint ops_ok (sp : spec) (ops : list op) : Prop :=
  match ops with
  | [] => True
  | o :: t => (match o with Poll _ _ => False | _ => True end) /\ sguard sp o /\ ops_ok (spec_step sp o) t
  end.
Fixpoint functors_ok (fb : fnbody) (sp : spec) (ids : list nat) : Prop :=
  match ids with
  | [] => True
  | i :: t => ops_ok sp (fst (fb i)) /\ functors_ok fb (spec_run sp (fst (fb i))) t
  end.
Definition functors_ops (fb : fnbody) (ids : list nat) : list op := flat_map (fun i => fst (fb i)) ids.
Definition functors_queued (fb : fnbody) (ids : list nat) : list nat := flat_map (fun i => snd (fb i)) ids.

(* ---- several iterations, with the environment: wake-ups, timer expirations, readiness, queued tasks ----
   [qw] = the wake-up guard of queueInLoop (queue_wakes, or the function generated from the source). *)
Definition wake_add (n : nat) (e : kenv) : kenv := mkKenv (k_wake e + N.of_nat n) (k_texp e) (k_rd e).

Inductive ext :=
| XWake                       (* wakeup() from anywhere *)
| XTimer                      (* the timerfd becomes due *)
| XFd (f : nat) (bits : N)    (* the condition of descriptor f changes *)
| XQueue (id : nat).          (* queueInLoop from another thread *)

Definition apply_ext (qw : bool -> bool -> bool -> bool) (ep : kenv * list nat) (x : ext) : kenv * list nat :=
  let (e, p) := ep in
  match x with
  | XWake => (wake_add 1 e, p)
  | XTimer => (mkKenv (k_wake e) (k_texp e + 1) (k_rd e), p)
  | XFd f b => (mkKenv (k_wake e) (k_texp e) (fun x => if Nat.eqb x f then b else k_rd e x), p)
  | XQueue i => ((if qw false false true then wake_add 1 e else e), p ++ [i])
  end.

Section LoopRun.
Variable S : Type.
Variable step : S -> op -> res (S * active).
Variables (h : handlers) (hq : nat -> cb -> list nat) (fb : fnbody) (runs : nat -> bool).
Variable eff : nat -> cb -> kenv -> kenv.
Variable qw : bool -> bool -> bool -> bool.
Variables (wfd tfd : nat).

(* one iteration with the environment: the callbacks' effects, then one wakeup() per functor queued by
   a callback (if qw true false true) and per functor queued by a running functor (if qw true true true) *)
Definition loop_iter_full_env (st : S) (e : kenv) (pending : list nat) (choice : list nat)
  : res (S * kenv * list nat * (active * list (nat * cb) * list nat)) :=
  r <- loop_iter_full S step h hq fb runs st (env_ready wfd tfd e) choice pending ;;
  match r with
  | (st', act, log, ran, pend') =>
      let queued_by_cbs := flat_map (fun ck => hq (fst ck) (snd ck)) log in
      let e1 := apply_effects eff log e in
      let e2 := if qw true false true then wake_add (length queued_by_cbs) e1 else e1 in
      let e3 := if qw true true true then wake_add (length pend') e2 else e2 in
      Ok (st', e3, pend', (act, log, ran))
  end.

(* a run: before each poll some external events happen.  Returns the final state and, per iteration,
   (environment at poll time, queue at poll time, what the iteration did) *)
Fixpoint loop_run (st : S) (e : kenv) (pending : list nat) (ins : list (list ext * list nat))
  : res (S * kenv * list nat * list (kenv * list nat * (active * list (nat * cb) * list nat))) :=
  match ins with
  | [] => Ok (st, e, pending, [])
  | (xs, choice) :: t =>
      let ep := fold_left (apply_ext qw) xs (e, pending) in
      r <- loop_iter_full_env st (fst ep) (snd ep) choice ;;
      match r with
      | (st', e', p', out) =>
          r2 <- loop_run st' e' p' t ;;
          match r2 with (st2, e2, p2, outs) => Ok (st2, e2, p2, (fst ep, snd ep, out) :: outs) end
      end
  end.
End LoopRun.

(* ---- Poller::newDefaultPoller (DefaultPoller.cc:18-28) and Poller::hasChannel (Poller.cc:24-29) ---------- *)
Inductive backend := BEpoll | BPoll.
Definition default_backend (muduo_use_poll_set : bool) : backend := if muduo_use_poll_set then BPoll else BEpoll.

(* it != channels_.end() && it->second == channel, for it = channels_.find(channel->fd()) *)
Definition ep_hasChannel (st : ep) (c : nat) : bool :=
  match e_objs st c with
  | Some ch => match e_map st (fd ch) with Some c' => Nat.eqb c' c | None => false end
  | None => false
  end.
Definition pp_hasChannel (st : pp) (c : nat) : bool :=
  match p_objs st c with
  | Some ch => match p_map st (fd ch) with Some c' => Nat.eqb c' c | None => false end
  | None => false
  end.
