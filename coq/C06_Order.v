(* C06_Order: callbacks run in deadline order.  Once a timer A is registered under deadline dA, no
   callback filed under a later deadline runs before A's callback does -- unless A is deleted without
   ever running (cancelled).  Proved for every continuation from every reachable state. *)
From Coq Require Import List ZArith Bool Lia Sorted Arith Permutation.
From Muduo Require Import Gen_Consts Gen_C06 C06_Model C06_Proofs C06_Hist.
Import ListNotations.
Local Open Scope Z_scope.

Lemma step_gone : forall st o st' ev s, step st o = Ok (st', ev) -> gone st s -> gone st' s /\ norun s ev.
Proof.
  intros st o st' ev s H G. destruct o as [c|script|]; cbn [step] in H.
  - eapply cb_step_gone; eauto.
  - eapply fire_gone; eauto.
  - eapply run_functors_gone; [exact H|]. exact G.
Qed.

(* ------------------------------------------------------------------ a registered timer stays registered, or dies *)
Definition reg (st : state) (a : Z) (o : tobj) : Prop :=
  hget a (heap st) = Some o /\ In (o_exp o, a) (timers st).

Lemma run_cbs_reg : forall ex st script now X st' ev a o, Inv st -> DInv st (X ++ padds (pending st)) ->
  incl (map snd ex) X -> reg st a o -> run_cbs st ex script now = Ok (st', ev) ->
  reg st' a o \/ gone st' (o_seq o).
Proof.
  induction ex as [|[d b] ex IH]; intros st script now X st' ev a o I D Sub [G Hi] H; cbn [run_cbs] in H.
  - inversion H; subst. left; split; auto.
  - destruct (deref st b) as [ob| |]; cbn [bind] in H; try discriminate.
    destruct (cb_run st (hd [] script)) as [[st1 e1]| |] eqn:E1; cbn [bind] in H; try discriminate.
    destruct (run_cbs st1 ex (tl script) now) as [[st2 e2]| |] eqn:E2; cbn [bind] in H; try discriminate.
    inversion H; subst st2 ev; clear H.
    pose proof (cb_run_good (hd [] script) st X I D) as G1. rewrite E1 in G1. destruct G1 as (I1 & D1 & _ & _). cbn [fst] in *.
    destruct (cb_run_reg _ _ _ _ _ _ _ _ I D G Hi E1) as [[G' Hi']|Gn].
    + eapply IH; [exact I1 | exact D1 | | split; eauto | exact E2]. intros x Hx. apply Sub. right; auto.
    + right. eapply run_cbs_gone; eauto.
Qed.

Lemma reset_loop_reg : forall ex st now P st' a o, Inv st -> DInv st (map snd ex ++ P) -> (ex <> [] -> 0 < now) ->
  reg st a o -> reset_loop st ex now = Ok st' -> reg st' a o.
Proof.
  induction ex as [|[d b] ex IH]; intros st now P st' a o I D Pn [G Hi] H; cbn [reset_loop] in H.
  - inversion H; subst. split; auto.
  - cbn [map snd app] in D. destruct D as [N Dt]. inversion N as [|x l NIa N']; subst.
    destruct (Dt b (or_introl eq_refl)) as [[ob [Gb Po]] NDb].
    assert (Nab : b <> a) by (intros ->; eapply NDb; eauto).
    assert (Pnow : 0 < now) by (apply Pn; discriminate).
    unfold deref in H. rewrite Gb in H. cbn [bind] in H.
    destruct (o_repeat ob && negb (kmem (b, o_seq ob) (canceling st))) eqn:Br.
    + apply andb_true_iff in Br as [Rp _]. unfold o_repeat in Rp. apply Z.ltb_lt in Rp.
      set (o' := mkT (o_seq ob) (now + o_iv ob) (o_iv ob)) in *.
      set (st1 := set_heap st (hput b o' (heap st))) in *.
      assert (I1 : Inv st1) by (apply inv_hput_det; auto).
      assert (G1 : hget b (heap st1) = Some o') by (apply hget_hput_same).
      assert (P1 : 0 < o_exp o') by (cbn; lia).
      destruct (insert_shape st1 b o' I1 G1 NDb P1) as (t' & a' & E & I2 & M & _).
      rewrite E in H. cbn [bind] in H.
      assert (D2 : DInv (set_sets st1 t' a') (map snd ex ++ P)).
      { split; auto. intros c Hc. assert (b <> c) by (intros ->; auto).
        destruct (Dt c (or_intror Hc)) as [[oc [Gc Pc]] NDc]. split.
        - exists oc. unfold st1. cbn [heap set_sets set_heap]. rewrite hget_hput_other; auto.
        - intros d' Hd'. cbn in Hd'. apply M in Hd' as [Eq|Hd']; [inversion Eq; congruence| eapply NDc; eauto]. }
      eapply (IH (set_sets st1 t' a') now P st' a o I2 D2 (fun _ => Pnow)); [|exact H].
      split; [unfold st1; cbn [heap set_sets set_heap]; rewrite hget_hput_other; auto|].
      cbn [timers set_sets]. apply M. right. exact Hi.
    + set (st1 := set_heap st (hdel b (heap st))) in *.
      assert (I1 : Inv st1) by (apply inv_hdel_det; auto).
      assert (D1 : DInv st1 (map snd ex ++ P)).
      { split; auto. intros c Hc. assert (b <> c) by (intros ->; auto).
        cbn. apply detc_hdel with (ts := timers st); auto. apply Dt. right; auto. }
      eapply (IH st1 now P st' a o I1 D1 (fun _ => Pnow)); [|exact H].
      split; [unfold st1; cbn [heap set_heap]; rewrite hget_hdel_other; auto | exact Hi].
Qed.

(* an expiry sampled before A's deadline: A stays registered (or is cancelled by a callback) and does not run *)
Lemma fire_reg : forall st script st' ev a o hl, Top st -> HI noR st hl -> reg st a o -> clk st < o_exp o ->
  fire st script = Ok (st', ev) ->
  (reg st' a o \/ gone st' (o_seq o)) /\ norun (o_seq o) ev /\
  (forall s dl n t, In (ERun s dl n t) ev -> dl <= clk st).
Proof.
  intros st script st' ev a o hl T HH [G Hi] Lt H.
  pose proof (fire_hist st script hl T HH) as GH. rewrite H in GH. cbn [good fst snd] in GH. destruct GH as (_ & RL & _).
  pose proof T as (I & _).
  assert (Early : forall s dl n t, In (ERun s dl n t) ev -> exists a', In (dl, a') (timers st) /\ dl <= clk st /\ seqof (heap st) a' = s).
  { intros s dl n t Hr. assert (Hq : In (s, dl, n) (rlog ev)) by (apply rlog_in; eauto).
    rewrite RL in Hq. apply in_map_iff in Hq as ([d' a'] & Eq & Hd). cbn [fst snd] in Eq. inversion Eq; subst.
    apply (due_iff _ _ _ I) in Hd as [Hd Le]. eauto. }
  destruct (fire_decomp _ _ _ _ T H) as (ex & rest & act & st4 & evs & st6 & KS & Eapp & Lex & I3 & D3 & ER & I4 & D4 & C4 & EL & I6 & Eh & Et & _ & En & _).
  destruct (consume_same st) as (Eh0 & Et0 & _).
  split; [|split].
  - assert (Hrest : In (o_exp o, a) rest).
    { rewrite Eapp in Hi. apply in_app_iff in Hi as [Hi|Hi]; auto. apply Lex in Hi. lia. }
    set (st3 := set_canceling (set_calling (set_sets (consume st) rest act) true) []) in *.
    assert (R3 : reg st3 a o) by (split; [cbn; rewrite Eh0; auto | cbn; auto]).
    destruct (run_cbs_reg _ _ _ _ _ _ _ _ _ I3 D3 (incl_refl _) R3 ER) as [R4|Gn].
    + left. assert (Pn : ex <> [] -> 0 < clk st).
      { destruct ex as [|[d1 a1] ex']; [congruence|]. intros _.
        assert (0 < d1) by (eapply (i_pos _ _ _ _ I); rewrite Eapp; left; eauto).
        pose proof (Lex d1 a1 (or_introl eq_refl)). lia. }
      assert (R5 : reg (set_calling st4 false) a o) by exact R4.
      pose proof (reset_loop_reg ex (set_calling st4 false) (clk st) (padds (pending st4)) st6 a o I4 D4 Pn R5 EL) as [G6 T6].
      split; [rewrite Eh; auto | rewrite Et; auto].
    + right. assert (G5 : gone (set_calling st4 false) (o_seq o)) by exact Gn.
      pose proof (reset_loop_gone _ _ _ _ _ EL G5) as G6. unfold gone in *. rewrite Eh, En. exact G6.
  - intros dl n t Hr. destruct (Early _ _ _ _ Hr) as (a' & Hd & Le & Es).
    destruct (i_ta _ _ _ _ I _ _ Hd) as (o' & G' & Eo' & _). unfold seqof in Es. rewrite G' in Es.
    assert (a' = a) by (eapply (i_sq _ _ _ _ I); eauto). subst a'. rewrite G in G'. inversion G'; subst o'. lia.
  - intros s dl n t Hr. destruct (Early _ _ _ _ Hr) as (a' & _ & Le & _). exact Le.
Qed.

Lemma run_functors_reg : forall fs st st' ev a o, Inv st -> DInv st (padds fs) -> reg st a o ->
  run_functors st fs = Ok (st', ev) -> reg st' a o \/ gone st' (o_seq o).
Proof.
  induction fs as [|[b|b s] r IH]; intros st st' ev a o I D [G Hi] H; cbn [run_functors] in H.
  - inversion H; subst. left; split; auto.
  - cbn [padds] in D. destruct D as [N Dt]. inversion N as [|x l NIb N']; subst.
    destruct (Dt b (or_introl eq_refl)) as [[ob [Gb Pob]] NDb].
    assert (D' : DInv st (padds r)) by (split; auto; intros c Hc; apply Dt; right; auto).
    pose proof (add_in_loop_good st b ob _ I Gb NDb Pob D' NIb) as GA.
    destruct (add_in_loop st b) as [[st1 e1]| |] eqn:E1; cbn [bind good] in *; try discriminate.
    destruct (run_functors st1 r) as [[st2 e2]| |] eqn:E2; cbn [bind] in H; try discriminate.
    inversion H; subst. destruct GA as (I1 & D1 & _ & _ & Eh & _). cbn [fst] in *.
    eapply IH; [exact I1 | exact D1 | | exact E2]. split; [rewrite Eh; auto|]. eapply add_in_loop_timers; eauto.
  - cbn [padds] in D. pose proof (cancel_good st b s _ I D) as GC.
    destruct (cancel_in_loop st b s) as [st1| |] eqn:E1; cbn [bind good] in *; try discriminate.
    destruct GC as (I1 & D1 & _ & _).
    assert (E1' : cb_step st (CCancel b s) = Ok (st1, [])) by (cbn [cb_step]; rewrite E1; reflexivity).
    destruct (cb_step_obj _ _ _ _ _ _ I G E1') as [[G' T']|[_ Gn]].
    + eapply IH; [exact I1 | exact D1 | split; eauto | exact H].
    + right. eapply run_functors_gone; eauto.
Qed.

Lemma step_reg : forall st o st' ev a ob hl, Top st -> HI noR st hl -> reg st a ob ->
  (forall script, o = Fire script -> clk st < o_exp ob) -> step st o = Ok (st', ev) ->
  (reg st' a ob \/ gone st' (o_seq ob)) /\ norun (o_seq ob) ev /\
  (forall s dl n t, In (ERun s dl n t) ev -> dl < o_exp ob).
Proof.
  intros st o st' ev a ob hl T HH R Lt H. pose proof T as (I & D & _). destruct o as [c|script|]; cbn [step] in H.
  - destruct (cb_step_shape _ _ _ _ H) as (_ & NR & _).
    assert (NE : forall s dl n t, ~ In (ERun s dl n t) ev) by (intros; eapply rlog_nil_norun; eauto).
    split; [|split; [intros dl n t; apply NE | intros s dl n t Hr; exfalso; eapply NE; eauto]].
    destruct R as [G Hi]. destruct (cb_step_obj _ _ _ _ _ _ I G H) as [[G' T']|[_ Gn]]; [left; split; auto | right; auto].
  - destruct (fire_reg _ _ _ _ _ _ _ T HH R (Lt _ eq_refl) H) as (A & B & C). split; auto. split; auto.
    intros s dl n t Hr. specialize (C _ _ _ _ Hr). specialize (Lt _ eq_refl). lia.
  - destruct (run_functors_shape _ _ _ _ H) as (_ & NR & _).
    assert (NE : forall s dl n t, ~ In (ERun s dl n t) ev) by (intros; eapply rlog_nil_norun; eauto).
    split; [|split; [intros dl n t; apply NE | intros s dl n t Hr; exfalso; eapply NE; eauto]].
    exact (run_functors_reg (pending st) (set_pending st []) st' ev a ob I D R H).
Qed.

(* ------------------------------------------------------------------ order on the log *)
Section Order.
Variables sA dA : Z.
Definition isA (e : event) : bool := match e with ERun s dl _ _ => (s =? sA) && (dl =? dA) | _ => false end.
Definition isB (e : event) : bool := match e with ERun _ dl _ _ => dA <? dl | _ => false end.
(* every run filed under a deadline later than dA is preceded by the run of A under dA *)
Fixpoint ordb (ev : list event) : Prop :=
  match ev with [] => True | e :: r => if isA e then True else isB e = false /\ ordb r end.

Lemma ordb_app : forall l1 l2, ordb l1 -> (existsb isA l1 = true \/ ordb l2) -> ordb (l1 ++ l2).
Proof.
  induction l1 as [|e l1 IH]; intros l2 H1 H2; cbn [app ordb existsb] in *.
  - destruct H2; [discriminate|auto].
  - destruct (isA e); auto. destruct H1 as [B H1]. split; auto.
Qed.
Lemma ordb_split : forall l1 e l2, ordb (l1 ++ e :: l2) -> isB e = true -> isA e = false -> existsb isA l1 = true.
Proof.
  induction l1 as [|x l1 IH]; intros e l2 H B A; cbn [app ordb existsb] in *.
  - rewrite A in H. destruct H; congruence.
  - destruct (isA x); auto. destruct H as [_ H]. cbn [orb]. eauto.
Qed.
Lemma ordb_quiet : forall l, (forall e, In e l -> isB e = false) -> ordb l.
Proof.
  induction l as [|e l IH]; intros H; cbn [ordb]; auto. destruct (isA e); auto. split; [apply H; left; auto|].
  apply IH. intros x Hx. apply H. right; auto.
Qed.
Lemma existsb_isA : forall l, existsb isA l = true -> exists n t, In (ERun sA dA n t) l.
Proof.
  intros l H. apply existsb_exists in H as (e & Hi & A). destruct e as [s dl n t| | |]; cbn [isA] in A; try discriminate.
  apply andb_true_iff in A as [E1 E2]. apply Z.eqb_eq in E1, E2. subst. eauto.
Qed.

(* within one expiry: the runs come in the order of the sorted due list *)
Definition isAr (r : Z * Z * Z) : bool := (fst (fst r) =? sA) && (snd (fst r) =? dA).
Definition isBr (r : Z * Z * Z) : bool := dA <? snd (fst r).
Fixpoint ordr (l : list (Z * Z * Z)) : Prop :=
  match l with [] => True | e :: r => if isAr e then True else isBr e = false /\ ordr r end.
Lemma ordb_rlog : forall ev, ordr (rlog ev) -> ordb ev.
Proof.
  induction ev as [|e ev IH]; intros H; cbn [ordb rlog] in *; auto.
  destruct e as [s dl n t| | |]; cbn [isA isB]; auto.
  cbn [ordr] in H. unfold isAr, isBr in H. cbn [fst snd] in H. destruct ((s =? sA) && (dl =? dA)); auto.
  destruct H; auto.
Qed.
Lemma ordr_sorted : forall (f : key -> Z) now l a, Srt l -> In (dA, a) l -> f (dA, a) = sA ->
  ordr (map (fun k => (f k, fst k, now)) l).
Proof.
  intros f now l a. induction l as [|k l IH]; intros S Hi Ef; cbn [map ordr]; auto.
  unfold isAr, isBr. cbn [fst snd]. destruct ((f k =? sA) && (fst k =? dA)) eqn:EA; auto.
  destruct Hi as [->|Hi].
  - cbn [fst] in EA. rewrite Ef, !Z.eqb_refl in EA. discriminate.
  - apply Srt_inv in S as [S F]. split; [|eapply IH; eauto].
    rewrite Forall_forall in F. specialize (F _ Hi). apply klt_iff in F. cbn [fst snd] in F. apply Z.ltb_ge. lia.
Qed.
End Order.

(* ------------------------------------------------------------------ the invariant of a continuation *)
Definition Kord (a : Z) (oA : tobj) (st : state) (log : list event) : Prop :=
  (norun (o_seq oA) log /\ gone st (o_seq oA)) \/
  (ordb (o_seq oA) (o_exp oA) log /\
   (existsb (isA (o_seq oA) (o_exp oA)) log = true \/ (norun (o_seq oA) log /\ reg st a oA))).

Lemma order_step : forall a oA st o log hl st' ev, Top st -> HI noR st hl -> Kord a oA st log ->
  step st o = Ok (st', ev) -> Kord a oA st' (log ++ ev).
Proof.
  intros a oA st o log hl st' ev T HH K H. unfold Kord in *.
  destruct K as [[NR Gn]|[Ob [Ex|[NR R]]]].
  - left. destruct (step_gone _ _ _ _ _ H Gn) as [Gn' NR']. split; auto. apply norun_app; auto.
  - right. split; [apply ordb_app; auto|]. left. rewrite existsb_app, Ex. reflexivity.
  - assert (Quiet : (forall script, o = Fire script -> clk st < o_exp oA) ->
             (norun (o_seq oA) (log ++ ev) /\ gone st' (o_seq oA)) \/
             (ordb (o_seq oA) (o_exp oA) (log ++ ev) /\
              (existsb (isA (o_seq oA) (o_exp oA)) (log ++ ev) = true \/ (norun (o_seq oA) (log ++ ev) /\ reg st' a oA)))).
    { intros Lt. destruct (step_reg _ _ _ _ _ _ _ T HH R Lt H) as (RG & NR' & Early).
      assert (NRa : norun (o_seq oA) (log ++ ev)) by (apply norun_app; auto).
      destruct RG as [R'|Gn']; [right|left; auto]. split; [|right; auto].
      apply ordb_app; auto. right. apply ordb_quiet. intros e He. destruct e as [s dl n t| | |]; cbn [isB]; auto.
      apply Z.ltb_ge. specialize (Early _ _ _ _ He). lia. }
    destruct o as [c|script|]; try (apply Quiet; intros script0 E0; discriminate).
    destruct (Z.lt_ge_cases (clk st) (o_exp oA)) as [Lt|Ge]; [apply Quiet; intros; auto|].
    (* the expiry takes A *)
    right. cbn [step] in H. pose proof (fire_hist st script hl T HH) as GH. rewrite H in GH. cbn [good fst snd] in GH.
    destruct GH as (_ & RL & _). pose proof T as (I & _). destruct R as [G Hi].
    assert (Hd : In (o_exp oA, a) (due st)) by (apply due_iff; auto; split; auto; lia).
    assert (Hr : In (o_seq oA, o_exp oA, clk st) (rlog ev)).
    { rewrite RL. apply in_map_iff. exists (o_exp oA, a). cbn [fst snd]. unfold seqof. rewrite G. auto. }
    apply rlog_in in Hr as [t Ht].
    assert (ExA : existsb (isA (o_seq oA) (o_exp oA)) ev = true).
    { apply existsb_exists. eexists. split; [exact Ht|]. cbn [isA]. rewrite !Z.eqb_refl. reflexivity. }
    split; [|left; rewrite existsb_app, ExA; apply orb_true_r].
    apply ordb_app; auto. right. apply ordb_rlog. rewrite RL.
    apply (ordr_sorted (o_seq oA) (o_exp oA) (fun k => seqof (heap st) (snd k)) (clk st) (due st) a); auto.
    + apply due_sorted; auto.
    + cbn [snd]. unfold seqof. rewrite G. reflexivity.
Qed.

Lemma order_run : forall a oA ops st log hl st' ev, Top st -> HI noR st hl -> Kord a oA st log ->
  run st ops = Ok (st', ev) -> Kord a oA st' (log ++ ev).
Proof.
  intros a oA. induction ops as [|o r IH]; intros st log hl st' ev T HH K H; cbn [run] in H.
  - inversion H; subst. rewrite app_nil_r. auto.
  - pose proof (step_good st o T) as G.
    destruct (step st o) as [[st1 e1]| |] eqn:E1; cbn [bind good] in *; try discriminate.
    destruct (run st1 r) as [[st2 e2]| |] eqn:E2; cbn [bind] in H; try discriminate.
    inversion H; subst. rewrite app_assoc. cbn [fst] in G.
    apply (IH st1 (log ++ e1) (hl ++ e1) st' e2 G); [exact (step_hist st o hl st1 e1 T HH E1) | | exact E2].
    exact (order_step a oA st o log hl st1 e1 T HH K E1).
Qed.

(* Deadline order.  A is registered under deadline dA at a reachable state.  For every continuation:
   every callback filed under a deadline later than dA is preceded (in that continuation) by A's
   callback filed under dA -- or else A never runs at all and its Timer object is dead at the end
   (it was cancelled). *)
Lemma deadline_order : forall c ops st evs a oA ops2 st2 evs2,
  run (init c) ops = Ok (st, evs) -> hget a (heap st) = Some oA -> In (o_exp oA, a) (timers st) ->
  run st ops2 = Ok (st2, evs2) ->
  (forall l1 s dl n t l2, evs2 = l1 ++ ERun s dl n t :: l2 -> o_exp oA < dl ->
      exists nA tA, In (ERun (o_seq oA) (o_exp oA) nA tA) l1) \/
  ((forall dl n t, ~ In (ERun (o_seq oA) dl n t) evs2) /\ gone st2 (o_seq oA)).
Proof.
  intros c ops st evs a oA ops2 st2 evs2 H G Hi H2.
  assert (K0 : Kord a oA st []).
  { right. split; [exact I|]. right. split; [apply norun_nil | split; auto]. }
  pose proof (order_run a oA ops2 st [] evs st2 evs2 (reach_top _ _ _ _ H) (reach_hist _ _ _ _ H) K0 H2) as K.
  cbn [app] in K. destruct K as [[NR Gn]|[Ob _]]; [right; auto|left].
  intros l1 s dl n t l2 E Lt. rewrite E in Ob. eapply existsb_isA. eapply ordb_split; [exact Ob| |].
  - cbn [isB]. apply Z.ltb_lt. auto.
  - cbn [isA]. destruct (Z.eqb_spec dl (o_exp oA)); [lia|]. apply andb_false_r.
Qed.
