(* C06_Order: callbacks run in deadline order.  Once a timer A is registered under deadline dA, no
   callback filed under a later deadline runs before A's callback does -- unless A is deleted without
   ever running (cancelled).  Proved for every continuation from every reachable state. *)
From Coq Require Import List ZArith Bool Lia Sorted Arith Permutation.
From Muduo Require Import Gen_Consts Gen_C06 C06_Model C06_Proofs C06_Hist.
Import ListNotations.
Local Open Scope Z_scope.

Lemma step_gone : forall st o st' ev s, step st o = Ok (st', ev) -> gone st s -> gone st' s /\ norun s ev.
Proof.
  intros st o st' ev s H G. destruct o as [c|script|]; cbn [step] in H.
  - eapply cb_step_gone; eauto.
  - eapply fire_gone; eauto.
  - eapply run_functors_gone; [exact H|]. exact G.
Qed.

(* ------------------------------------------------------------------ a registered timer stays registered, or dies *)
Definition reg (st : state) (a : Z) (o : tobj) : Prop :=
  hget a (heap st) = Some o /\ In (o_exp o, a) (timers st).

Lemma run_cbs_reg : forall ex st script now X st' ev a o, Inv st -> DInv st (X ++ detq st) ->
  incl (map snd ex) X -> reg st a o -> run_cbs st ex script now = Ok (st', ev) ->
  reg st' a o \/ gone st' (o_seq o).
Proof.
  induction ex as [|[d b] ex IH]; intros st script now X st' ev a o I D Sub [G Hi] H; cbn [run_cbs] in H.
  - inversion H; subst. left; split; auto.
  - destruct (deref st b) as [ob| |]; cbn [bind] in H; try discriminate.
    destruct (cb_run st (hd [] script)) as [[st1 e1]| |] eqn:E1; cbn [bind] in H; try discriminate.
    destruct (run_cbs st1 ex (tl script) now) as [[st2 e2]| |] eqn:E2; cbn [bind] in H; try discriminate.
    inversion H; subst st2 ev; clear H.
    pose proof (cb_run_good (hd [] script) st X I D) as G1. rewrite E1 in G1. destruct G1 as (I1 & D1 & _ & _). cbn [fst] in *.
    destruct (cb_run_reg _ _ _ _ _ _ _ _ I D G Hi E1) as [[G' Hi']|Gn].
    + eapply IH; [exact I1 | exact D1 | | split; eauto | exact E2]. intros x Hx. apply Sub. right; auto.
    + right. eapply run_cbs_gone; eauto.
Qed.

Lemma reset_loop_reg : forall ex st now P st' a o, Inv st -> DInv st (map snd ex ++ P) -> (ex <> [] -> 0 < now) ->
  reg st a o -> reset_loop st ex now = Ok st' -> reg st' a o.
Proof.
  induction ex as [|[d b] ex IH]; intros st now P st' a o I D Pn [G Hi] H; cbn [reset_loop] in H.
  - inversion H; subst. split; auto.
  - cbn [map snd app] in D. destruct D as [N Dt]. inversion N as [|x l NIa N']; subst.
    destruct (Dt b (or_introl eq_refl)) as [[ob [Gb Po]] NDb].
    assert (Nab : b <> a) by (intros ->; eapply NDb; eauto).
    assert (Pnow : 0 < now) by (apply Pn; discriminate).
    unfold deref in H. rewrite Gb in H. cbn [bind] in H.
    destruct (o_repeat ob && negb (kmem (b, o_seq ob) (canceling st))) eqn:Br.
    + apply andb_true_iff in Br as [Rp _]. unfold o_repeat in Rp. apply Z.leb_le in Rp.
      set (o' := mkT (o_seq ob) (now + o_iv ob) (o_iv ob)) in *.
      set (st1 := set_heap st (hput b o' (heap st))) in *.
      assert (I1 : Inv st1) by (apply inv_hput_det; auto).
      assert (G1 : hget b (heap st1) = Some o') by (apply hget_hput_same).
      assert (P1 : 0 < o_exp o') by (cbn; lia).
      destruct (insert_shape st1 b o' I1 G1 NDb P1) as (t' & a' & E & I2 & M & _).
      rewrite E in H. cbn [bind] in H.
      assert (D2 : DInv (set_sets st1 t' a') (map snd ex ++ P)).
      { split; auto. intros c Hc. assert (b <> c) by (intros ->; auto).
        destruct (Dt c (or_intror Hc)) as [[oc [Gc Pc]] NDc]. split.
        - exists oc. unfold st1. cbn [heap set_sets set_heap]. rewrite hget_hput_other; auto.
        - intros d' Hd'. cbn in Hd'. apply M in Hd' as [Eq|Hd']; [inversion Eq; congruence| eapply NDc; eauto]. }
      eapply (IH (set_sets st1 t' a') now P st' a o I2 D2 (fun _ => Pnow)); [|exact H].
      split; [unfold st1; cbn [heap set_sets set_heap]; rewrite hget_hput_other; auto|].
      cbn [timers set_sets]. apply M. right. exact Hi.
    + set (st1 := set_heap st (hdel b (heap st))) in *.
      assert (I1 : Inv st1) by (apply inv_hdel_det; auto).
      assert (D1 : DInv st1 (map snd ex ++ P)).
      { split; auto. intros c Hc. assert (b <> c) by (intros ->; auto).
        cbn. apply detc_hdel with (ts := timers st); auto. apply Dt. right; auto. }
      eapply (IH st1 now P st' a o I1 D1 (fun _ => Pnow)); [|exact H].
      split; [unfold st1; cbn [heap set_heap]; rewrite hget_hdel_other; auto | exact Hi].
Qed.

(* an expiry sampled before A's deadline: A stays registered (or is cancelled by a callback) and does not run *)
Lemma fire_reg : forall st script st' ev a o hl, Top st -> HI noR st hl -> reg st a o -> clk st < o_exp o ->
  fire st script = Ok (st', ev) ->
  (reg st' a o \/ gone st' (o_seq o)) /\ norun (o_seq o) ev /\
  (forall s dl n t, In (ERun s dl n t) ev -> dl <= clk st).
Proof.
  intros st script st' ev a o hl T HH [G Hi] Lt H.
  pose proof (fire_hist st script hl T HH) as GH. rewrite H in GH. cbn [good fst snd] in GH. destruct GH as (_ & RL & _).
  pose proof T as (I & _).
  assert (Early : forall s dl n t, In (ERun s dl n t) ev -> exists a', In (dl, a') (timers st) /\ dl <= clk st /\ seqof (heap st) a' = s).
  { intros s dl n t Hr. assert (Hq : In (s, dl, n) (rlog ev)) by (apply rlog_in; eauto).
    rewrite RL in Hq. apply in_map_iff in Hq as ([d' a'] & Eq & Hd). cbn [fst snd] in Eq. inversion Eq; subst.
    apply (due_iff _ _ _ I) in Hd as [Hd Le]. eauto. }
  destruct (fire_decomp _ _ _ _ T H) as (ex & rest & act & st4 & evs & st6 & KS & Eapp & Lex & I3 & D3 & ER & I4 & D4 & C4 & EL & I6 & Eh & Et & _ & En & _).
  destruct (consume_same st) as (Eh0 & Et0 & _).
  split; [|split].
  - assert (Hrest : In (o_exp o, a) rest).
    { rewrite Eapp in Hi. apply in_app_iff in Hi as [Hi|Hi]; auto. apply Lex in Hi. lia. }
    set (st3 := set_canceling (set_calling (set_sets (consume st) rest act) true) []) in *.
    assert (R3 : reg st3 a o) by (split; [cbn; rewrite Eh0; auto | cbn; auto]).
    destruct (run_cbs_reg _ _ _ _ _ _ _ _ _ I3 D3 (incl_refl _) R3 ER) as [R4|Gn].
    + left. assert (Pn : ex <> [] -> 0 < clk st).
      { destruct ex as [|[d1 a1] ex']; [congruence|]. intros _.
        assert (0 < d1) by (eapply (i_pos _ _ _ _ I); rewrite Eapp; left; eauto).
        pose proof (Lex d1 a1 (or_introl eq_refl)). lia. }
      assert (R5 : reg (set_calling st4 false) a o) by exact R4.
      pose proof (reset_loop_reg ex (set_calling st4 false) (clk st) (detq st4) st6 a o I4 D4 Pn R5 EL) as [G6 T6].
      split; [rewrite Eh; auto | rewrite Et; auto].
    + right. assert (G5 : gone (set_calling st4 false) (o_seq o)) by exact Gn.
      pose proof (reset_loop_gone _ _ _ _ _ EL G5) as G6. unfold gone in *. rewrite Eh, En. exact G6.
  - intros dl n t Hr. destruct (Early _ _ _ _ Hr) as (a' & Hd & Le & Es).
    destruct (i_ta _ _ _ _ I _ _ Hd) as (o' & G' & Eo' & _). unfold seqof in Es. rewrite G' in Es.
    assert (a' = a) by (eapply (i_sq _ _ _ _ I); eauto). subst a'. rewrite G in G'. inversion G'; subst o'. lia.
  - intros s dl n t Hr. destruct (Early _ _ _ _ Hr) as (a' & _ & Le & _). exact Le.
Qed.

Lemma run_functors_reg : forall fs st st' ev a o, Inv st -> DInv st (padds fs ++ detq st) -> reg st a o ->
  run_functors st fs = Ok (st', ev) -> reg st' a o \/ gone st' (o_seq o).
Proof.
  induction fs as [|[b|b s|cs] r IH]; intros st st' ev a o I D [G Hi] H; cbn [run_functors] in H.
  - inversion H; subst. left; split; auto.
  - cbn [padds app] in D. destruct D as [N Dt]. inversion N as [|x l NIb N']; subst.
    destruct (Dt b (or_introl eq_refl)) as [[ob [Gb Pob]] NDb].
    assert (D' : DInv st (padds r ++ detq st)) by (split; auto; intros c Hc; apply Dt; right; auto).
    pose proof (add_in_loop_good st b ob _ I Gb NDb Pob D' NIb) as GA.
    destruct (add_in_loop st b) as [[st1 e1]| |] eqn:E1; cbn [bind good] in *; try discriminate.
    destruct (run_functors st1 r) as [[st2 e2]| |] eqn:E2; cbn [bind] in H; try discriminate.
    inversion H; subst. destruct GA as (I1 & D1 & _ & F1 & Eh & _). cbn [fst] in *.
    rewrite <- (detq_frame _ _ F1) in D1.
    eapply IH; [exact I1 | exact D1 | | exact E2]. split; [rewrite Eh; auto|]. eapply add_in_loop_timers; eauto.
  - cbn [padds] in D. pose proof (cancel_good st b s _ I D) as GC.
    destruct (cancel_in_loop st b s) as [st1| |] eqn:E1; cbn [bind good] in *; try discriminate.
    destruct GC as (I1 & D1 & _ & F1). rewrite <- (detq_frame _ _ F1) in D1.
    assert (E1' : cb_step st (CCancel b s) = Ok (st1, [])) by (cbn [cb_step]; rewrite E1; reflexivity).
    destruct (cb_step_obj _ _ _ _ _ _ I G E1') as [[G' T']|[_ Gn]].
    + eapply IH; [exact I1 | exact D1 | split; eauto | exact H].
    + right. eapply run_functors_gone; eauto.
  - cbn [padds] in D. pose proof (cb_run_good cs st (padds r) I D) as GC.
    destruct (cb_run st cs) as [[st1 e1]| |] eqn:E1; cbn [bind good] in *; try discriminate.
    destruct (run_functors st1 r) as [[st2 e2]| |] eqn:E2; cbn [bind] in H; try discriminate.
    inversion H; subst. destruct GC as (I1 & D1 & _ & _). cbn [fst] in *.
    destruct (cb_run_reg _ _ _ _ _ _ _ _ I D G Hi E1) as [[G' Hi']|Gn].
    + eapply IH; [exact I1 | exact D1 | split; eauto | exact E2].
    + right. eapply run_functors_gone; eauto.
Qed.

Lemma step_reg : forall st o st' ev a ob hl, Top st -> HI noR st hl -> reg st a ob ->
  (forall script, o = Fire script -> clk st < o_exp ob) -> step st o = Ok (st', ev) ->
  (reg st' a ob \/ gone st' (o_seq ob)) /\ norun (o_seq ob) ev /\
  (forall s dl n t, In (ERun s dl n t) ev -> dl < o_exp ob).
Proof.
  intros st o st' ev a ob hl T HH R Lt H. pose proof T as (I & D & _). destruct o as [c|script|]; cbn [step] in H.
  - destruct (cb_step_shape _ _ _ _ H) as (_ & NR & _).
    assert (NE : forall s dl n t, ~ In (ERun s dl n t) ev) by (intros; eapply rlog_nil_norun; eauto).
    split; [|split; [intros dl n t; apply NE | intros s dl n t Hr; exfalso; eapply NE; eauto]].
    destruct R as [G Hi]. destruct (cb_step_obj _ _ _ _ _ _ I G H) as [[G' T']|[_ Gn]]; [left; split; auto | right; auto].
  - destruct (fire_reg _ _ _ _ _ _ _ T HH R (Lt _ eq_refl) H) as (A & B & C). split; auto. split; auto.
    intros s dl n t Hr. specialize (C _ _ _ _ Hr). specialize (Lt _ eq_refl). lia.
  - destruct (run_functors_shape _ _ _ _ H) as (_ & NR & _).
    assert (NE : forall s dl n t, ~ In (ERun s dl n t) ev) by (intros; eapply rlog_nil_norun; eauto).
    split; [|split; [intros dl n t; apply NE | intros s dl n t Hr; exfalso; eapply NE; eauto]].
    exact (run_functors_reg (pending st) (set_pending st []) st' ev a ob I D R H).
Qed.

(* ------------------------------------------------------------------ order on the log *)
Section Order.
Variables sA dA : Z.
Definition isA (e : event) : bool := match e with ERun s dl _ _ => (s =? sA) && (dl =? dA) | _ => false end.
Definition isB (e : event) : bool := match e with ERun _ dl _ _ => dA <? dl | _ => false end.
(* every run filed under a deadline later than dA is preceded by the run of A under dA *)
Fixpoint ordb (ev : list event) : Prop :=
  match ev with [] => True | e :: r => if isA e then True else isB e = false /\ ordb r end.

Lemma ordb_app : forall l1 l2, ordb l1 -> (existsb isA l1 = true \/ ordb l2) -> ordb (l1 ++ l2).
Proof.
  induction l1 as [|e l1 IH]; intros l2 H1 H2; cbn [app ordb existsb] in *.
  - destruct H2; [discriminate|auto].
  - destruct (isA e); auto. destruct H1 as [B H1]. split; auto.
Qed.
Lemma ordb_split : forall l1 e l2, ordb (l1 ++ e :: l2) -> isB e = true -> isA e = false -> existsb isA l1 = true.
Proof.
  induction l1 as [|x l1 IH]; intros e l2 H B A; cbn [app ordb existsb] in *.
  - rewrite A in H. destruct H; congruence.
  - destruct (isA x); auto. destruct H as [_ H]. cbn [orb]. eauto.
Qed.
Lemma ordb_quiet : forall l, (forall e, In e l -> isB e = false) -> ordb l.
Proof.
  induction l as [|e l IH]; intros H; cbn [ordb]; auto. destruct (isA e); auto. split; [apply H; left; auto|].
  apply IH. intros x Hx. apply H. right; auto.
Qed.
Lemma existsb_isA : forall l, existsb isA l = true -> exists n t, In (ERun sA dA n t) l.
Proof.
  intros l H. apply existsb_exists in H as (e & Hi & A). destruct e as [s dl n t| | |]; cbn [isA] in A; try discriminate.
  apply andb_true_iff in A as [E1 E2]. apply Z.eqb_eq in E1, E2. subst. eauto.
Qed.

(* within one expiry: the runs come in the order of the sorted due list *)
Definition isAr (r : Z * Z * Z) : bool := (fst (fst r) =? sA) && (snd (fst r) =? dA).
Definition isBr (r : Z * Z * Z) : bool := dA <? snd (fst r).
Fixpoint ordr (l : list (Z * Z * Z)) : Prop :=
  match l with [] => True | e :: r => if isAr e then True else isBr e = false /\ ordr r end.
Lemma ordb_rlog : forall ev, ordr (rlog ev) -> ordb ev.
Proof.
  induction ev as [|e ev IH]; intros H; cbn [ordb rlog] in *; auto.
  destruct e as [s dl n t| | |]; cbn [isA isB]; auto.
  cbn [ordr] in H. unfold isAr, isBr in H. cbn [fst snd] in H. destruct ((s =? sA) && (dl =? dA)); auto.
  destruct H; auto.
Qed.
Lemma ordr_sorted : forall (f : key -> Z) now l a, Srt l -> In (dA, a) l -> f (dA, a) = sA ->
  ordr (map (fun k => (f k, fst k, now)) l).
Proof.
  intros f now l a. induction l as [|k l IH]; intros S Hi Ef; cbn [map ordr]; auto.
  unfold isAr, isBr. cbn [fst snd]. destruct ((f k =? sA) && (fst k =? dA)) eqn:EA; auto.
  destruct Hi as [->|Hi].
  - cbn [fst] in EA. rewrite Ef, !Z.eqb_refl in EA. discriminate.
  - apply Srt_inv in S as [S F]. split; [|eapply IH; eauto].
    rewrite Forall_forall in F. specialize (F _ Hi). apply klt_iff in F. cbn [fst snd] in F. apply Z.ltb_ge. lia.
Qed.
End Order.

(* ------------------------------------------------------------------ the invariant of a continuation *)
Definition Kord (a : Z) (oA : tobj) (st : state) (log : list event) : Prop :=
  (norun (o_seq oA) log /\ gone st (o_seq oA)) \/
  (ordb (o_seq oA) (o_exp oA) log /\
   (existsb (isA (o_seq oA) (o_exp oA)) log = true \/ (norun (o_seq oA) log /\ reg st a oA))).

Lemma order_step : forall a oA st o log hl st' ev, Top st -> HI noR st hl -> Kord a oA st log ->
  step st o = Ok (st', ev) -> Kord a oA st' (log ++ ev).
Proof.
  intros a oA st o log hl st' ev T HH K H. unfold Kord in *.
  destruct K as [[NR Gn]|[Ob [Ex|[NR R]]]].
  - left. destruct (step_gone _ _ _ _ _ H Gn) as [Gn' NR']. split; auto. apply norun_app; auto.
  - right. split; [apply ordb_app; auto|]. left. rewrite existsb_app, Ex. reflexivity.
  - assert (Quiet : (forall script, o = Fire script -> clk st < o_exp oA) ->
             (norun (o_seq oA) (log ++ ev) /\ gone st' (o_seq oA)) \/
             (ordb (o_seq oA) (o_exp oA) (log ++ ev) /\
              (existsb (isA (o_seq oA) (o_exp oA)) (log ++ ev) = true \/ (norun (o_seq oA) (log ++ ev) /\ reg st' a oA)))).
    { intros Lt. destruct (step_reg _ _ _ _ _ _ _ T HH R Lt H) as (RG & NR' & Early).
      assert (NRa : norun (o_seq oA) (log ++ ev)) by (apply norun_app; auto).
      destruct RG as [R'|Gn']; [right|left; auto]. split; [|right; auto].
      apply ordb_app; auto. right. apply ordb_quiet. intros e He. destruct e as [s dl n t| | |]; cbn [isB]; auto.
      apply Z.ltb_ge. specialize (Early _ _ _ _ He). lia. }
    destruct o as [c|script|]; try (apply Quiet; intros script0 E0; discriminate).
    destruct (Z.lt_ge_cases (clk st) (o_exp oA)) as [Lt|Ge]; [apply Quiet; intros; auto|].
    (* the expiry takes A *)
    right. cbn [step] in H. pose proof (fire_hist st script hl T HH) as GH. rewrite H in GH. cbn [good fst snd] in GH.
    destruct GH as (_ & RL & _). pose proof T as (I & _). destruct R as [G Hi].
    assert (Hd : In (o_exp oA, a) (due st)) by (apply due_iff; auto; split; auto; lia).
    assert (Hr : In (o_seq oA, o_exp oA, clk st) (rlog ev)).
    { rewrite RL. apply in_map_iff. exists (o_exp oA, a). cbn [fst snd]. unfold seqof. rewrite G. auto. }
    apply rlog_in in Hr as [t Ht].
    assert (ExA : existsb (isA (o_seq oA) (o_exp oA)) ev = true).
    { apply existsb_exists. eexists. split; [exact Ht|]. cbn [isA]. rewrite !Z.eqb_refl. reflexivity. }
    split; [|left; rewrite existsb_app, ExA; apply orb_true_r].
    apply ordb_app; auto. right. apply ordb_rlog. rewrite RL.
    apply (ordr_sorted (o_seq oA) (o_exp oA) (fun k => seqof (heap st) (snd k)) (clk st) (due st) a); auto.
    + apply due_sorted; auto.
    + cbn [snd]. unfold seqof. rewrite G. reflexivity.
Qed.

Lemma order_run : forall a oA ops st log hl st' ev, Top st -> HI noR st hl -> Kord a oA st log ->
  run st ops = Ok (st', ev) -> Kord a oA st' (log ++ ev).
Proof.
  intros a oA. induction ops as [|o r IH]; intros st log hl st' ev T HH K H; cbn [run] in H.
  - inversion H; subst. rewrite app_nil_r. auto.
  - pose proof (step_good st o T) as G.
    destruct (step st o) as [[st1 e1]| |] eqn:E1; cbn [bind good] in *; try discriminate.
    destruct (run st1 r) as [[st2 e2]| |] eqn:E2; cbn [bind] in H; try discriminate.
    inversion H; subst. rewrite app_assoc. cbn [fst] in G.
    apply (IH st1 (log ++ e1) (hl ++ e1) st' e2 G); [exact (step_hist st o hl st1 e1 T HH E1) | | exact E2].
    exact (order_step a oA st o log hl st1 e1 T HH K E1).
Qed.

(* Deadline order.  A is registered under deadline dA at a reachable state.  For every continuation:
   every callback filed under a deadline later than dA is preceded (in that continuation) by A's
   callback filed under dA -- or else A never runs at all and its Timer object is dead at the end
   (it was cancelled). *)
Lemma deadline_order : forall c ops st evs a oA ops2 st2 evs2,
  run (init c) ops = Ok (st, evs) -> hget a (heap st) = Some oA -> In (o_exp oA, a) (timers st) ->
  run st ops2 = Ok (st2, evs2) ->
  (forall l1 s dl n t l2, evs2 = l1 ++ ERun s dl n t :: l2 -> o_exp oA < dl ->
      exists nA tA, In (ERun (o_seq oA) (o_exp oA) nA tA) l1) \/
  ((forall dl n t, ~ In (ERun (o_seq oA) dl n t) evs2) /\ gone st2 (o_seq oA)).
Proof.
  intros c ops st evs a oA ops2 st2 evs2 H G Hi H2.
  assert (K0 : Kord a oA st []).
  { right. split; [exact I|]. right. split; [apply norun_nil | split; auto]. }
  pose proof (order_run a oA ops2 st [] evs st2 evs2 (reach_top _ _ _ _ H) (reach_hist _ _ _ _ H) K0 H2) as K.
  cbn [app] in K. destruct K as [[NR Gn]|[Ob _]]; [right; auto|left].
  intros l1 s dl n t l2 E Lt. rewrite E in Ob. eapply existsb_isA. eapply ordb_split; [exact Ob| |].
  - cbn [isB]. apply Z.ltb_lt. auto.
  - cbn [isA]. destruct (Z.eqb_spec dl (o_exp oA)); [lia|]. apply andb_false_r.
Qed.

(* ------------------------------------------------------------------ no cancel of A's id: A cannot die before it runs *)
Fixpoint cb_cancels (a s : Z) (c : cbop) : bool :=
  match c with
  | CCancel a' s' | CFCancel a' s' => (a' =? a) && (s' =? s)
  | CQueue cs => existsb (cb_cancels a s) cs          (* a user functor that will issue the cancel *)
  | _ => false
  end.
Definition op_cancels (a s : Z) (o : op) : bool :=
  match o with Cb c => cb_cancels a s c | Fire script => existsb (existsb (cb_cancels a s)) script | RunPending => false end.
Definition pf_cancels (a s : Z) (f : pfun) : bool :=
  match f with PCancel a' s' => (a' =? a) && (s' =? s) | PAdd _ => false | PUser cs => existsb (cb_cancels a s) cs end.

Lemma cb_step_nc : forall st c st' ev b o, Inv st -> reg st b o -> cb_cancels b (o_seq o) c = false ->
  existsb (pf_cancels b (o_seq o)) (pending st) = false -> cb_step st c = Ok (st', ev) ->
  reg st' b o /\ existsb (pf_cancels b (o_seq o)) (pending st') = false.
Proof.
  intros st c st' ev b o I [G Hi] NC NP H.
  destruct (cb_step_obj _ _ _ _ _ _ I G H) as [[G' T']|[HA Gn]].
  - split; [split; auto|]. destruct c as [d|w iv a|a s|w iv a|a s|w iv a|a|cs]; cbn [cb_step] in H.
    + destruct (d <? 0); inversion H; subst. exact NP.
    + destruct (alloc st w iv a) as [[st1 s]| |] eqn:EA; cbn [bind] in H; try discriminate.
      destruct (add_in_loop st1 a) as [[st2 e]| |] eqn:EL; cbn [bind] in H; try discriminate.
      inversion H; subst. destruct (alloc_shape _ _ _ _ _ _ EA) as (_ & _ & _ & _ & _ & _ & _ & _ & Ep & _).
      destruct (add_in_loop_shape _ _ _ _ EL) as (_ & _ & _ & _ & _ & _ & Ep2 & _). rewrite Ep2, Ep. exact NP.
    + destruct (cancel_in_loop st a s) as [st1| |] eqn:EC; cbn [bind] in H; try discriminate. inversion H; subst.
      destruct (cancel_shape _ _ _ _ EC) as (_ & _ & Ep & _). rewrite Ep. exact NP.
    + destruct (alloc st w iv a) as [[st1 s]| |] eqn:EA; cbn [bind] in H; try discriminate. inversion H; subst.
      destruct (alloc_shape _ _ _ _ _ _ EA) as (_ & _ & _ & _ & _ & _ & _ & _ & Ep & _).
      cbn [pending set_pending]. rewrite Ep, existsb_app, NP. reflexivity.
    + inversion H; subst. cbn [pending set_pending]. rewrite existsb_app, NP. cbn [existsb pf_cancels cb_cancels] in *.
      rewrite NC. reflexivity.
    + destruct (alloc st w iv a) as [[st1 s]| |] eqn:EA; cbn [bind] in H; try discriminate. inversion H; subst.
      destruct (alloc_shape _ _ _ _ _ _ EA) as (_ & _ & _ & _ & _ & _ & _ & _ & Ep & _).
      cbn [pending set_inflight]. rewrite Ep. exact NP.
    + destruct (zmem a (inflight st)); inversion H; subst. cbn [pending set_pending set_inflight].
      rewrite existsb_app, NP. reflexivity.
    + inversion H; subst. cbn [pending set_pending]. rewrite existsb_app, NP. cbn [existsb pf_cancels]. cbn [cb_cancels] in NC.
      rewrite NC. reflexivity.
  - (* the object died: only a cancel of exactly its id does that *)
    exfalso. destruct c as [d|w iv a|a s|w iv a|a s|w iv a|a|cs]; cbn [cb_step] in H.
    + destruct (d <? 0); inversion H; subst. destruct Gn as [_ Gn]. eapply Gn; eauto.
    + destruct (alloc st w iv a) as [[st1 s]| |] eqn:EA; cbn [bind] in H; try discriminate.
      destruct (add_in_loop st1 a) as [[st2 e]| |] eqn:EL; cbn [bind] in H; try discriminate.
      inversion H; subst. destruct (alloc_shape _ _ _ _ _ _ EA) as (_ & _ & Eh & G0 & _).
      destruct (add_in_loop_shape _ _ _ _ EL) as (Eh2 & _). destruct Gn as [_ Gn]. eapply (Gn b o); auto.
      rewrite Eh2, Eh. rewrite hget_cons_other; auto. intros ->. congruence.
    + destruct (cancel_in_loop st a s) as [st1| |] eqn:EC; cbn [bind] in H; try discriminate. inversion H; subst.
      unfold cancel_in_loop in EC. rewrite (sizes_agree_inv _ I) in EC. cbn [assert bind] in EC.
      destruct (kmem (a, s) (active st)) eqn:KM.
      * apply kmem_iff in KM. destruct (i_at _ _ _ _ I _ _ KM) as (oa & Ga & Es & _).
        destruct (Z.eq_dec a b) as [->|N].
        -- rewrite G in Ga. inversion Ga; subst oa. cbn [cb_cancels] in NC. rewrite Es, !Z.eqb_refl in NC. discriminate.
        -- unfold deref in EC. rewrite Ga in EC. cbn [bind] in EC.
           destruct (kerase _ (timers st)); try discriminate. destruct (kerase _ (active st)); try discriminate.
           inversion EC; subst. destruct Gn as [_ Gn]. eapply (Gn b o); auto. cbn. rewrite hget_hdel_other; auto.
      * destruct (calling st); inversion EC; subst; destruct Gn as [_ Gn]; eapply (Gn b o); eauto.
    + destruct (alloc st w iv a) as [[st1 s]| |] eqn:EA; cbn [bind] in H; try discriminate. inversion H; subst.
      destruct (alloc_shape _ _ _ _ _ _ EA) as (_ & _ & Eh & G0 & _). destruct Gn as [_ Gn]. eapply (Gn b o); auto.
      cbn. rewrite Eh. rewrite hget_cons_other; auto. intros ->. congruence.
    + inversion H; subst. destruct Gn as [_ Gn]. eapply Gn; eauto.
    + destruct (alloc st w iv a) as [[st1 s]| |] eqn:EA; cbn [bind] in H; try discriminate. inversion H; subst.
      destruct (alloc_shape _ _ _ _ _ _ EA) as (_ & _ & Eh & G0 & _). destruct Gn as [_ Gn]. eapply (Gn b o); auto.
      cbn. rewrite Eh. rewrite hget_cons_other; auto. intros ->. congruence.
    + destruct (zmem a (inflight st)); inversion H; subst. destruct Gn as [_ Gn]. eapply (Gn b o); eauto.
    + inversion H; subst. destruct Gn as [_ Gn]. eapply Gn; eauto.
Qed.

Lemma cb_run_nc : forall cs st X st' ev b o, Inv st -> DInv st (X ++ detq st) -> reg st b o ->
  existsb (cb_cancels b (o_seq o)) cs = false -> existsb (pf_cancels b (o_seq o)) (pending st) = false ->
  cb_run st cs = Ok (st', ev) -> reg st' b o /\ existsb (pf_cancels b (o_seq o)) (pending st') = false.
Proof.
  induction cs as [|c r IH]; intros st X st' ev b o I D R NC NP H; cbn [cb_run] in H.
  - inversion H; subst; auto.
  - cbn [existsb] in NC. apply orb_false_iff in NC as [NC1 NC2].
    pose proof (cb_step_good st c X I D) as G1.
    destruct (cb_step st c) as [[st1 e1]| |] eqn:E1; try discriminate.
    + destruct (cb_run st1 r) as [[st2 e2]| |] eqn:E2; cbn [bind] in H; try discriminate.
      inversion H; subst. destruct G1 as (I1 & D1 & _). cbn [fst] in *.
      destruct (cb_step_nc _ _ _ _ _ _ I R NC1 NP E1) as [R1 NP1]. eapply IH; eauto.
    + destruct (cb_run st r) as [[st2 e2]| |] eqn:E2; cbn [bind] in H; try discriminate.
      inversion H; subst. eapply IH; eauto.
Qed.

Lemma script_nc_split : forall (f : cbop -> bool) script, existsb (existsb f) script = false ->
  existsb f (hd [] script) = false /\ existsb (existsb f) (tl script) = false.
Proof. intros f [|g r] H; cbn in *; auto. apply orb_false_iff in H. exact H. Qed.

Lemma run_cbs_nc : forall ex st script now X st' ev b o, Inv st -> DInv st (X ++ detq st) ->
  incl (map snd ex) X -> reg st b o -> existsb (existsb (cb_cancels b (o_seq o))) script = false ->
  existsb (pf_cancels b (o_seq o)) (pending st) = false -> run_cbs st ex script now = Ok (st', ev) ->
  reg st' b o /\ existsb (pf_cancels b (o_seq o)) (pending st') = false.
Proof.
  induction ex as [|[d a] ex IH]; intros st script now X st' ev b o I D Sub R NC NP H; cbn [run_cbs] in H.
  - inversion H; subst; auto.
  - destruct (deref st a) as [oa| |]; cbn [bind] in H; try discriminate.
    destruct (cb_run st (hd [] script)) as [[st1 e1]| |] eqn:E1; cbn [bind] in H; try discriminate.
    destruct (run_cbs st1 ex (tl script) now) as [[st2 e2]| |] eqn:E2; cbn [bind] in H; try discriminate.
    inversion H; subst st2 ev; clear H. destruct (script_nc_split _ _ NC) as [NC1 NC2].
    pose proof (cb_run_good (hd [] script) st X I D) as G1. rewrite E1 in G1. destruct G1 as (I1 & D1 & _ & _). cbn [fst] in *.
    destruct (cb_run_nc _ _ _ _ _ _ _ I D R NC1 NP E1) as [R1 NP1].
    eapply (IH st1 (tl script) now X st' e2 b o I1 D1); eauto. intros x Hx. apply Sub. right; auto.
Qed.

Lemma run_functors_nc : forall fs st st' ev b o, Inv st -> DInv st (padds fs ++ detq st) -> reg st b o ->
  existsb (pf_cancels b (o_seq o)) fs = false -> existsb (pf_cancels b (o_seq o)) (pending st) = false ->
  run_functors st fs = Ok (st', ev) ->
  reg st' b o /\ existsb (pf_cancels b (o_seq o)) (pending st') = false.
Proof.
  induction fs as [|[a|a s|cs] r IH]; intros st st' ev b o I D [G Hi] NP NQ H; cbn [run_functors] in H.
  - inversion H; subst. split; [split|]; auto.
  - cbn [padds app] in D. destruct D as [N Dt]. inversion N as [|x l NIa N']; subst.
    destruct (Dt a (or_introl eq_refl)) as [[oa [Ga Poa]] NDa].
    assert (D' : DInv st (padds r ++ detq st)) by (split; auto; intros c Hc; apply Dt; right; auto).
    pose proof (add_in_loop_good st a oa _ I Ga NDa Poa D' NIa) as GA.
    destruct (add_in_loop st a) as [[st1 e1]| |] eqn:E1; cbn [bind good] in *; try discriminate.
    destruct (run_functors st1 r) as [[st2 e2]| |] eqn:E2; cbn [bind] in H; try discriminate.
    inversion H; subst. destruct GA as (I1 & D1 & _ & F1 & Eh & _). cbn [fst] in *.
    rewrite <- (detq_frame _ _ F1) in D1. destruct F1 as (_ & Fp & _).
    cbn [existsb pf_cancels orb] in NP.
    assert (R1 : reg st1 b o) by (split; [rewrite Eh; auto | eapply add_in_loop_timers; eauto]).
    apply (IH st1 st' e2 b o I1 D1 R1 NP); [rewrite Fp; exact NQ | exact E2].
  - cbn [padds] in D. cbn [existsb] in NP. apply orb_false_iff in NP as [NP1 NP2].
    pose proof (cancel_good st a s _ I D) as GC.
    destruct (cancel_in_loop st a s) as [st1| |] eqn:E1; cbn [bind good] in *; try discriminate.
    destruct GC as (I1 & D1 & _ & F1). rewrite <- (detq_frame _ _ F1) in D1. destruct F1 as (_ & Fp & _).
    assert (E1' : cb_step st (CCancel a s) = Ok (st1, [])) by (cbn [cb_step]; rewrite E1; reflexivity).
    assert (NC : cb_cancels b (o_seq o) (CCancel a s) = false) by exact NP1.
    destruct (cb_step_nc _ _ _ _ _ _ I (conj G Hi) NC NQ E1') as [R1 NQ1].
    apply (IH st1 st' ev b o I1 D1 R1 NP2 NQ1 H).
  - cbn [padds] in D. cbn [existsb] in NP. apply orb_false_iff in NP as [NP1 NP2]. cbn [pf_cancels] in NP1.
    pose proof (cb_run_good cs st (padds r) I D) as GC.
    destruct (cb_run st cs) as [[st1 e1]| |] eqn:E1; cbn [bind good] in *; try discriminate.
    destruct (run_functors st1 r) as [[st2 e2]| |] eqn:E2; cbn [bind] in H; try discriminate.
    inversion H; subst. destruct GC as (I1 & D1 & _ & _). cbn [fst] in *.
    destruct (cb_run_nc _ _ _ _ _ _ _ I D (conj G Hi) NP1 NQ E1) as [R1 NQ1].
    apply (IH st1 st' e2 b o I1 D1 R1 NP2 NQ1 E2).
Qed.

Lemma fire_nc : forall st script st' ev a o, Top st -> reg st a o -> clk st < o_exp o ->
  existsb (existsb (cb_cancels a (o_seq o))) script = false ->
  existsb (pf_cancels a (o_seq o)) (pending st) = false -> fire st script = Ok (st', ev) ->
  reg st' a o /\ existsb (pf_cancels a (o_seq o)) (pending st') = false.
Proof.
  intros st script st' ev a o T [G Hi] Lt NC NP H. pose proof T as (I & _).
  destruct (fire_decomp _ _ _ _ T H) as (ex & rest & act & st4 & evs & st6 & KS & Eapp & Lex & I3 & D3 & ER & I4 & D4 & C4 & EL & I6 & Eh & Et & _ & _ & Ep & _).
  destruct (consume_same st) as (Eh0 & _ & _ & _ & Ep0 & _).
  assert (Hrest : In (o_exp o, a) rest).
  { rewrite Eapp in Hi. apply in_app_iff in Hi as [Hi|Hi]; auto. apply Lex in Hi. lia. }
  set (st3 := set_canceling (set_calling (set_sets (consume st) rest act) true) []) in *.
  assert (R3 : reg st3 a o) by (split; [cbn; rewrite Eh0; auto | cbn; auto]).
  assert (NP3 : existsb (pf_cancels a (o_seq o)) (pending st3) = false) by (unfold st3; cbn; rewrite Ep0; exact NP).
  destruct (run_cbs_nc _ _ _ _ _ _ _ _ _ I3 D3 (incl_refl _) R3 NC NP3 ER) as [R4 NP4].
  assert (Pn : ex <> [] -> 0 < clk st).
  { destruct ex as [|[d1 a1] ex']; [congruence|]. intros _.
    assert (0 < d1) by (eapply (i_pos _ _ _ _ I); rewrite Eapp; left; eauto).
    pose proof (Lex d1 a1 (or_introl eq_refl)). lia. }
  assert (R5 : reg (set_calling st4 false) a o) by exact R4.
  pose proof (reset_loop_reg ex (set_calling st4 false) (clk st) (detq st4) st6 a o I4 D4 Pn R5 EL) as [G6 T6].
  pose proof (reset_loop_good ex (set_calling st4 false) (clk st) (detq st4) I4 D4 Pn) as GL.
  rewrite EL in GL. cbn [good] in GL. destruct GL as (_ & _ & (_ & F2 & _)). cbn in F2.
  split; [split; [rewrite Eh; auto | rewrite Et; auto]|]. rewrite Ep, F2. exact NP4.
Qed.

Lemma step_nc : forall st o st' ev a ob, Top st -> reg st a ob ->
  (forall script, o = Fire script -> clk st < o_exp ob) -> op_cancels a (o_seq ob) o = false ->
  existsb (pf_cancels a (o_seq ob)) (pending st) = false -> step st o = Ok (st', ev) ->
  reg st' a ob /\ existsb (pf_cancels a (o_seq ob)) (pending st') = false.
Proof.
  intros st o st' ev a ob T R Lt NC NP H. pose proof T as (I & D & _). destruct o as [c|script|]; cbn [step op_cancels] in *.
  - eapply cb_step_nc; eauto.
  - eapply fire_nc; eauto.
  - exact (run_functors_nc (pending st) (set_pending st []) st' ev a ob I D R NP eq_refl H).
Qed.

(* the continuation invariant when no cancel of A's id is issued *)
Definition Kord2 (a : Z) (oA : tobj) (st : state) (log : list event) : Prop :=
  ordb (o_seq oA) (o_exp oA) log /\
  (existsb (isA (o_seq oA) (o_exp oA)) log = true \/
   (norun (o_seq oA) log /\ reg st a oA /\ existsb (pf_cancels a (o_seq oA)) (pending st) = false)).

Lemma order_step2 : forall a oA st o log hl st' ev, Top st -> HI noR st hl -> Kord2 a oA st log ->
  op_cancels a (o_seq oA) o = false -> step st o = Ok (st', ev) -> Kord2 a oA st' (log ++ ev).
Proof.
  intros a oA st o log hl st' ev T HH [Ob K] NC H.
  assert (K1 : Kord a oA st log).
  { right. split; auto. destruct K as [Ex|(NR & R & _)]; auto. }
  pose proof (order_step a oA st o log hl st' ev T HH K1 H) as K1'.
  destruct K as [Ex|(NR & R & NP)].
  - split; [apply ordb_app; auto|]. left. rewrite existsb_app, Ex. reflexivity.
  - destruct (Z.lt_ge_cases (clk st) (o_exp oA)) as [Lt|Ge].
    + destruct (step_nc st o st' ev a oA T R (fun _ _ => Lt) NC NP H) as [R' NP'].
      destruct (step_reg _ _ _ _ _ _ _ T HH R (fun _ _ => Lt) H) as (_ & NR' & _).
      destruct K1' as [[_ Gn]|[Ob' _]].
      * exfalso. destruct R' as [G' _]. destruct Gn as [_ Gn]. eapply Gn; eauto.
      * split; auto. right. split; [apply norun_app; auto|]. auto.
    + destruct o as [c|script|].
      * assert (NF : forall script, Cb c = Fire script -> clk st < o_exp oA) by (intros; discriminate).
        destruct (step_nc st (Cb c) st' ev a oA T R NF NC NP H) as [R' NP'].
        destruct (step_reg _ _ _ _ _ _ _ T HH R NF H) as (_ & NR' & _).
        destruct K1' as [[_ Gn]|[Ob' _]].
        -- exfalso. destruct R' as [G' _]. destruct Gn as [_ Gn]. eapply Gn; eauto.
        -- split; auto. right. split; [apply norun_app; auto|]. auto.
      * (* the expiry takes A: it has run *)
        destruct K1' as [[NRa _]|[Ob' [Ex'|[NRa _]]]].
        -- exfalso. pose proof T as (I & _). destruct R as [G Hi].
           pose proof (fire_hist st script hl T HH) as GH. cbn [step] in H. rewrite H in GH. cbn [good fst snd] in GH.
           destruct GH as (_ & RL & _).
           assert (Hr : In (o_seq oA, o_exp oA, clk st) (rlog ev)).
           { rewrite RL. apply in_map_iff. exists (o_exp oA, a). cbn [fst snd]. unfold seqof. rewrite G. split; auto.
             apply due_iff; [exact I|]. split; [exact Hi|lia]. }
           apply rlog_in in Hr as [t Ht]. eapply NRa. apply in_or_app. right. exact Ht.
        -- split; auto.
        -- exfalso. pose proof T as (I & _). destruct R as [G Hi].
           pose proof (fire_hist st script hl T HH) as GH. cbn [step] in H. rewrite H in GH. cbn [good fst snd] in GH.
           destruct GH as (_ & RL & _).
           assert (Hr : In (o_seq oA, o_exp oA, clk st) (rlog ev)).
           { rewrite RL. apply in_map_iff. exists (o_exp oA, a). cbn [fst snd]. unfold seqof. rewrite G. split; auto.
             apply due_iff; [exact I|]. split; [exact Hi|lia]. }
           apply rlog_in in Hr as [t Ht]. eapply NRa. apply in_or_app. right. exact Ht.
      * assert (NF : forall script, RunPending = Fire script -> clk st < o_exp oA) by (intros; discriminate).
        destruct (step_nc st RunPending st' ev a oA T R NF NC NP H) as [R' NP'].
        destruct (step_reg _ _ _ _ _ _ _ T HH R NF H) as (_ & NR' & _).
        destruct K1' as [[_ Gn]|[Ob' _]].
        -- exfalso. destruct R' as [G' _]. destruct Gn as [_ Gn]. eapply Gn; eauto.
        -- split; auto. right. split; [apply norun_app; auto|]. auto.
Qed.

Lemma order_run2 : forall a oA ops st log hl st' ev, Top st -> HI noR st hl -> Kord2 a oA st log ->
  forallb (fun o => negb (op_cancels a (o_seq oA) o)) ops = true ->
  run st ops = Ok (st', ev) -> Kord2 a oA st' (log ++ ev).
Proof.
  intros a oA. induction ops as [|o r IH]; intros st log hl st' ev T HH K NC H; cbn [run] in H.
  - inversion H; subst. rewrite app_nil_r. auto.
  - cbn [forallb] in NC. apply andb_true_iff in NC as [NC1 NC2]. apply negb_true_iff in NC1.
    pose proof (step_good st o T) as G.
    destruct (step st o) as [[st1 e1]| |] eqn:E1; cbn [bind good] in *; try discriminate.
    destruct (run st1 r) as [[st2 e2]| |] eqn:E2; cbn [bind] in H; try discriminate.
    inversion H; subst. rewrite app_assoc. cbn [fst] in G.
    apply (IH st1 (log ++ e1) (hl ++ e1) st' e2 G); [exact (step_hist st o hl st1 e1 T HH E1) | | exact NC2 | exact E2].
    exact (order_step2 a oA st o log hl st1 e1 T HH K NC1 E1).
Qed.

(* Deadline order, unconditional form.  A is registered under dA at a reachable state and no cancel of
   A's id is queued; the continuation issues no cancel (loop-thread or foreign, top-level or from a
   callback) of A's id.  Then every callback filed under a later deadline is preceded by A's
   callback filed under dA, and at the end A has run or is still registered. *)
Lemma deadline_order_nocancel : forall c ops st evs a oA ops2 st2 evs2,
  run (init c) ops = Ok (st, evs) -> hget a (heap st) = Some oA -> In (o_exp oA, a) (timers st) ->
  existsb (pf_cancels a (o_seq oA)) (pending st) = false ->
  forallb (fun o => negb (op_cancels a (o_seq oA) o)) ops2 = true ->
  run st ops2 = Ok (st2, evs2) ->
  (forall l1 s dl n t l2, evs2 = l1 ++ ERun s dl n t :: l2 -> o_exp oA < dl ->
      exists nA tA, In (ERun (o_seq oA) (o_exp oA) nA tA) l1) /\
  ((exists nA tA, In (ERun (o_seq oA) (o_exp oA) nA tA) evs2) \/
   (hget a (heap st2) = Some oA /\ In (o_exp oA, a) (timers st2))).
Proof.
  intros c ops st evs a oA ops2 st2 evs2 H G Hi NP NC H2.
  assert (K0 : Kord2 a oA st []).
  { split; [exact I|]. right. split; [apply norun_nil|]. split; [split; auto|auto]. }
  pose proof (order_run2 a oA ops2 st [] evs st2 evs2 (reach_top _ _ _ _ H) (reach_hist _ _ _ _ H) K0 NC H2) as [Ob K].
  cbn [app] in *. split.
  - intros l1 s dl n t l2 E Lt. rewrite E in Ob. eapply existsb_isA. eapply ordb_split; [exact Ob| |].
    + cbn [isB]. apply Z.ltb_lt. auto.
    + cbn [isA]. destruct (Z.eqb_spec dl (o_exp oA)); [lia|]. apply andb_false_r.
  - destruct K as [Ex|(_ & R & _)]; [left; apply existsb_isA; auto | right; exact R].
Qed.
