(* Properties_C17: log text equals printf output, stays in bounds and carries true metadata.
   Only statements, closed by [exact], with Print Assumptions and non-vacuity examples.
   The model (C17_Model) is tied to muduo/base/LogStream.{h,cc}, Logging.{h,cc}, Thread.cc by
   the regenerated tables, constants, guards, gates and ladders (Gen_Consts, Gen_C17) and by
   the correspondence check (bin/check C17).  That the time and thread id in a line are the
   TRUE ones is correspondence-only (harness: gettimeofday before/after, gettid of the emitting
   thread, also in a forked child); so is the equality of the abstract %.12g oracle with glibc. *)
From Coq Require Import Reals.
From Flocq Require Core BinarySingleNaN Binary Bits.   (* qualified names only *)
From Coq Require Import List ZArith Lia Bool Arith NArith.
From Coq.Strings Require Import Byte.
From Muduo Require Import Base_Bytes Gen_Consts Gen_C17 C17_Model C17_Proofs C17_Units C17_G12 C17_Tid C17_Flocq C17_FlocqBits.
Import ListNotations.
Local Open Scope Z_scope.

(* ---- integers and pointers: exactly printf's characters ------------------------------- *)

(* For EVERY v : Z (hence every width and signedness, INT64_MIN included): a '-' iff v < 0,
   followed by the canonical decimal numeral of |v| (digits only, at least one, no leading
   zero except "0", value |v| when read back as atoi does).  The 19 table entries are a side
   condition closed by computation inside the proof (dec_table_ok). *)
Theorem C17_decimal_exact : forall v, exists ds,
  convert v = (if v <? 0 then [x2d] else []) ++ ds /\ canonical_dec ds (Z.abs v).
Proof. exact convert_exact. Qed.
Print Assumptions C17_decimal_exact.

(* canonical numerals are unique: [convert v] IS what %d / %ld / %lld / %u / %lu / %llu print *)
Theorem C17_decimal_unique : forall l1 l2 n, canonical_dec l1 n -> canonical_dec l2 n -> l1 = l2.
Proof. exact (canonical_unique 10 dec_char dec_val ltac:(lia) dec_val_char). Qed.
Print Assumptions C17_decimal_unique.

(* operator<<(const void* ) prints "0x" followed by the canonical upper-case hexadecimal numeral *)
Theorem C17_hex_exact : forall fmt_g p, 0 <= p ->
  exists hs, item_text fmt_g (IPtr p) = [x30; x78] ++ hs /\ canonical_hex hs p.
Proof. intros fmt_g p Hp. exists (convertHex p). split; [reflexivity|]. apply convertHex_exact. exact Hp. Qed.
Print Assumptions C17_hex_exact.

Theorem C17_hex_unique : forall l1 l2 n, canonical_hex l1 n -> canonical_hex l2 n -> l1 = l2.
Proof. exact (canonical_unique 16 hex_char hex_val ltac:(lia) hex_val_char). Qed.
Print Assumptions C17_hex_unique.

(* ---- the fixed buffer ------------------------------------------------------------------ *)

(* side conditions on the regenerated constants (closed by computation: a changed constant
   re-runs them) and agreement of the regenerated guards with the model's guards *)
Theorem C17_side_conditions :
  (21 <= kMaxNumericSize)%nat /\ (25 <= kMaxNumericSize)%nat /\
  (kMaxNumericSize <= kSmallBuffer)%nat /\ (1 <= kSmallBuffer)%nat /\ (1 <= kLargeBuffer)%nat /\
  (forall a l, Gen_C17.append_fits (Z.of_nat a) (Z.of_nat l) = C17_Model.append_fits a l) /\
  (forall a, Gen_C17.integer_fits (Z.of_nat a) = numeric_fits a) /\
  (forall a, Gen_C17.pointer_fits (Z.of_nat a) = numeric_fits a) /\
  (forall a, Gen_C17.double_fits (Z.of_nat a) = numeric_fits a) /\
  Gen_C17.double_format_is_12g = true.
Proof.
  exact (conj kmax_holds_integer (conj kmax_holds_double (conj ksmall_holds_numeric (conj ksmall_pos
        (conj klarge_pos (conj append_fits_gen (conj integer_fits_gen (conj pointer_fits_gen
        (conj double_fits_gen double_format_gen))))))))).
Qed.
Print Assumptions C17_side_conditions.

(* Any sequence of insertions of any type into a buffer of any capacity >= 1 (a [Fault] is a
   store or a cursor position outside data_, including the NUL that convert / snprintf store one
   past the characters, and the NUL of debugString): never a fault; if every item is a value of
   its C++ type the run succeeds, the cursor stays strictly inside, and the contents are exactly
   the texts of those items that fitted ([kept], decided per item by the two fit tests), in
   order -- a concatenation of whole item texts. *)
Theorem C17_in_bounds_any_g : forall fmt_g, (forall d, (length (fmt_g d) <= 24)%nat) ->
  forall c items, (1 <= c)%nat ->
  run fmt_g (empty c) items <> Fault /\
  (Forall (fun it => item_ok it = true) items ->
   exists b, run fmt_g (empty c) items = Ok b /\ cap b = c /\ (flen b < c)%nat /\
             debugString b = Ok b /\
             data b = kept fmt_g c [] items /\
             exists ks, subseq ks items /\ data b = concat (map (item_text fmt_g) ks)).
Proof.
  intros fmt_g Hg c items Hc.
  assert (Hinv : inv (empty c)) by (unfold inv, empty, flen; cbn; lia).
  split; [apply (run_no_fault fmt_g Hg); exact Hinv|].
  intros Hok. destruct (run_ok fmt_g Hg items _ Hinv Hok) as [b [E [Hcap [Hb Hd]]]].
  exists b. cbn [cap data empty] in *. repeat split; auto.
  - rewrite <- Hcap. exact Hb.
  - apply debugString_ok. exact Hb.
  - destruct (kept_subseq fmt_g c items []) as [ks [Hs Hk]]. exists ks. split; [exact Hs|].
    rewrite Hd, Hk. reflexivity.
Qed.
Print Assumptions C17_in_bounds_any_g.

(* nothing is left out while the texts and one numeric headroom fit *)
Theorem C17_nothing_dropped_when_room : forall fmt_g c items,
  (total_len fmt_g items + kMaxNumericSize <= c)%nat ->
  kept fmt_g c [] items = concat (map (item_text fmt_g) items).
Proof. intros fmt_g c items H. apply (kept_all fmt_g c items []). cbn [length]. lia. Qed.
Print Assumptions C17_nothing_dropped_when_room.

(* ---- operator<<(double): snprintf("%.12g") ------------------------------------------------- *)
(* fmt_g12 (C17_Model) computes the text from the 64 bits: sign; inf / nan; 0; otherwise the decimal
   exponent X (10^X <= |x| < 10^(X+1)), |x| rounded to 12 significant digits (ties to even), the
   %g rule with P = 12 (style f with precision 11-X if -4 <= X < 12, else style e with precision
   11; trailing zeros and a bare '.' removed; exponent with at least two digits).
   (1) EVERY 64-bit pattern gives at most 19 characters: the 24 that C17_in_bounds_any_g assumes of
   its oracle is a theorem for this text.  (2) The decimal exponent is exact and the digits are in
   [10^11, 10^12) for every rational in the range of binary64 magnitudes.  That the real library
   prints this text is tested (differential run of the extracted fmt_g12 against glibc). *)
Theorem C17_g12_length : forall bits, (length (fmt_g12 bits) <= 19)%nat.
Proof. exact fmt_g12_length. Qed.
Print Assumptions C17_g12_length.

Theorem C17_g12_digits : forall N D, in_range N D ->
  dec_exp_ok N D (dec_exp N D) = true /\
  10 ^ 11 <= fst (round12 N D) < 10 ^ 12 /\ -401 <= snd (round12 N D) <= 401.
Proof. exact (fun N D R => conj (dec_exp_spec N D R) (round12_range N D R)). Qed.
Print Assumptions C17_g12_digits.

(* Specification (Flocq, real numbers): [dec_sig12 x] = round radix10 (FLX_exp 12) ZnearestE x, x
   correctly rounded to 12 significant decimal digits.  (1) round12 IS that rounding; (2) the fields
   read off the 64 bits are Flocq's decoding IEEE754.Bits.b64_of_bits; (3) for a finite non-zero
   double the text is the sign followed by the %g rendering of (k, X) with k * 10^(X-11) =
   dec_sig12 |x|, 10^11 <= k < 10^12. *)
Theorem C17_g12_spec :
  (forall N D, in_range N D ->
     Defs.F2R (Defs.Float radix10 (fst (round12 N D)) (snd (round12 N D) - 11)) = dec_sig12 (IZR N / IZR D)) /\
  (forall bits, 0 <= bits < 2 ^ 64 -> bits / 2 ^ 52 mod 2 ^ 11 <> 2047 -> bits mod 2 ^ 63 <> 0 ->
     exists k X, 10 ^ 11 <= k < 10 ^ 12 /\
       Defs.F2R (Defs.Float radix10 k (X - 11)) = dec_sig12 (Rabs (Binary.B2R 53 1024 (Bits.b64_of_bits bits))) /\
       fmt_g12 bits = (if bits / 2 ^ 63 mod 2 =? 1 then [x2d] else []) ++ g12_text k X).
Proof. exact (conj round12_is_round fmt_g12_spec). Qed.
Print Assumptions C17_g12_spec.

Lemma g12_len24 : forall d, (length (fmt_g12 d) <= 24)%nat.
Proof. intros d. pose proof (fmt_g12_length d). lia. Qed.
Print Assumptions g12_len24.

(* C17_in_bounds without an assumption about the %.12g text: the stream with the model's fmt_g12 *)
Theorem C17_in_bounds : forall c items, (1 <= c)%nat ->
  run fmt_g12 (empty c) items <> Fault /\
  (Forall (fun it => item_ok it = true) items ->
   exists b, run fmt_g12 (empty c) items = Ok b /\ cap b = c /\ (flen b < c)%nat /\
             debugString b = Ok b /\
             data b = kept fmt_g12 c [] items /\
             exists ks, subseq ks items /\ data b = concat (map (item_text fmt_g12) ks)).
Proof. exact (C17_in_bounds_any_g fmt_g12 g12_len24). Qed.
Print Assumptions C17_in_bounds.

(* LogStream.h operators, Fmt and strerror_tl as regenerated from the sources (the model's item
   texts for bool and NULL are these regenerated literals; a Fmt item is a value iff its text passed
   the constructor's length assert) *)
Theorem C17_stream_ops_generated :
  bool_true_text = [x31] /\ bool_false_text = [x30] /\ null_text_gen = [x28;x6e;x75;x6c;x6c;x29] /\
  append_ops_shape_ok = true /\ Fmt_length_assert_is_lt = true /\ Fmt_shape_ok = true /\
  (1 <= Fmt_buf_size <= Z.of_nat kMaxNumericSize) /\ strerror_tl_shape_ok = true.
Proof. exact stream_ops_gen. Qed.
Print Assumptions C17_stream_ops_generated.

(* ---- Logger ------------------------------------------------------------------------------ *)

(* When the line fits (with one numeric headroom to spare) the bytes handed to the output
   function are exactly date(17) '.' us(6) ['Z'] ' ' tid ' ' LEVEL(6) [errno text] [func ' ']
   message " - " basename ':' line '\n'; the hypothesis [cache_coherent] is what the per-thread
   cache t_lastSecond / t_time must satisfy (it is re-established by every line, second
   conjunct; it is NOT re-established across Logger::setTimeZone: see C17_time_cache_refuted). *)
Theorem C17_line_shape_any_g : forall fmt_g, (forall d, (length (fmt_g d) <= 24)%nat) ->
  forall th r, cache_coherent th r -> req_ok r ->
  (length (line_text fmt_g r) + kMaxNumericSize <= kSmallBuffer)%nat ->
  (exists b, snd (log_line fmt_g th r) = Ok b /\ data b = line_text fmt_g r) /\
  (let th' := fst (log_line fmt_g th r) in
   lastSecond th' = lq_seconds r /\ firstn 17 (t_time th') = time_text (lq_dt r)) /\
  length (time_text (lq_dt r)) = 17%nat /\ length (level_name (lq_level r)) = 6%nat /\
  (0 <= lq_micros r < 1000000 -> length (fmt_d x30 6 (lq_micros r)) = 6%nat) /\
  (0 <= lq_tid r < 100000 -> length (tid_text (lq_tid r)) = 6%nat).
Proof.
  intros fmt_g Hg th r Hc Hok Hfit.
  destruct (line_shape fmt_g Hg th r Hc Hok Hfit) as [b [E [Hd _]]].
  split; [exists b; auto|]. split; [apply cache_after; [exact Hc|exact (proj1 Hok)]|].
  split; [apply time_text_length; exact (proj1 Hok)|]. split; [apply level_name_length|].
  split.
  - intros H. apply fmt_d_length; [lia|]. change (10 ^ Z.of_nat 6) with 1000000. lia.
  - intros H. unfold tid_text. rewrite app_length, fmt_d_length; [reflexivity|lia|].
    change (10 ^ Z.of_nat 5) with 100000. lia.
Qed.
Print Assumptions C17_line_shape_any_g.

(* Logger::Impl::formatTime as regenerated from Logging.cc (Gen_C17): the per-thread cache is
   refreshed when `seconds != t_lastSecond`; the snprintf format of t_time prints
   "YYYYMMDD HH:MM:SS"; the branch taken when a zone is configured prints ".uuuuuu " (8 bytes), the
   other ".uuuuuuZ " (9 bytes), each after 17 bytes of t_time; t_time (64 bytes) holds the 17
   characters and the NUL.  The model's format_time interprets these regenerated formats and
   lengths (mini_printf); this theorem is the side condition under which it is the specification
   format_time_spec used by C17_line_shape (an edited format, length, swapped branch or refresh
   test in the source re-runs it and fails). *)
Theorem C17_logger_time_generated :
  cache_refresh_is_ne = true /\
  (forall d, mini_printf time_format (dt_fields d) = time_text d) /\
  (forall us, mini_printf us_format_zone [us] = [x2e] ++ fmt_d x30 6 us ++ [x20]) /\
  (forall us, mini_printf us_format_utc [us] = [x2e] ++ fmt_d x30 6 us ++ [x5a; x20]) /\
  time_len_zone = 17 /\ time_len_utc = 17 /\ us_len_zone = 8 /\ us_len_utc = 9 /\
  (17 < Z.to_nat Logging_t_time_size)%nat /\ (1 <= Z.to_nat Logging_errnobuf_size)%nat.
Proof. exact logger_time_gen. Qed.
Print Assumptions C17_logger_time_generated.

(* The per-thread second cache over a whole sequence of lines of one thread, starting from the
   zero-initialised cache: as long as the zone is not changed in between (the broken-down time of
   every line is ONE function F of its second) and no line is stamped with second 0 of the epoch,
   EVERY line that fits carries the true date/time text of its own second -- cache hits included.
   (C17_time_cache_refuted below: not so across Logger::setTimeZone.) *)
Theorem C17_time_cache_partial_any_g : forall fmt_g, (forall d, (length (fmt_g d) <= 24)%nat) ->
  forall F rs, Forall (line_ok fmt_g F) rs ->
  Forall2 (fun r out => exists b, out = Ok b /\ data b = line_text fmt_g r) rs (log_lines fmt_g tls0 rs).
Proof. exact (fun fmt_g Hg F rs H => lines_shape fmt_g Hg F rs tls0 (cache_for_tls0 F) H). Qed.
Print Assumptions C17_time_cache_partial_any_g.

Theorem C17_line_shape : forall th r, cache_coherent th r -> req_ok r ->
  (length (line_text fmt_g12 r) + kMaxNumericSize <= kSmallBuffer)%nat ->
  (exists b, snd (log_line fmt_g12 th r) = Ok b /\ data b = line_text fmt_g12 r) /\
  (let th' := fst (log_line fmt_g12 th r) in
   lastSecond th' = lq_seconds r /\ firstn 17 (t_time th') = time_text (lq_dt r)) /\
  length (time_text (lq_dt r)) = 17%nat /\ length (level_name (lq_level r)) = 6%nat /\
  (0 <= lq_micros r < 1000000 -> length (fmt_d x30 6 (lq_micros r)) = 6%nat) /\
  (0 <= lq_tid r < 100000 -> length (tid_text (lq_tid r)) = 6%nat).
Proof. exact (C17_line_shape_any_g fmt_g12 g12_len24). Qed.
Print Assumptions C17_line_shape.

Theorem C17_time_cache_partial : forall F rs, Forall (line_ok fmt_g12 F) rs ->
  Forall2 (fun r out => exists b, out = Ok b /\ data b = line_text fmt_g12 r) rs (log_lines fmt_g12 tls0 rs).
Proof. exact (C17_time_cache_partial_any_g fmt_g12 g12_len24). Qed.
Print Assumptions C17_time_cache_partial.

(* ---- the thread id in a line is the emitting thread's own -------------------------------------- *)
(* Side conditions on the regenerated tid cache (CurrentThread.h/.cc, Thread.cc): the format of
   cacheTid's snprintf renders "%5d "; t_tidString (32 bytes) holds it; t_cachedTid starts as 0;
   cacheTid() and tid() have the guarded shape; ThreadNameInitializer's constructor registers
   afterFork as the atfork CHILD handler and the static object exists; and the handler, statement
   by statement (abstract interpretation af_resets), leaves the cache empty or freshly rendered. *)
Theorem C17_tid_cache_generated :
  ((forall k, mini_printf tid_format [k] = tid_text k) /\ (12 < Z.to_nat tid_string_size)%nat /\
   cachedTid_init = 0 /\ atfork_child_registered = true /\ cacheTid_shape_ok = true /\ tid_shape_ok = true) /\
  af_resets afterFork_steps = true.
Proof. exact (conj tid_gen_side afterFork_resets). Qed.
Print Assumptions C17_tid_cache_generated.

(* Every thread of every process: follow the thread-local tid cache along ANY history of log
   lines, forks (into the child: TLS copied, new kernel tid, atfork child handler) and thread starts
   (fresh TLS, new kernel tid), starting from the zero-initialised cache: every line logged carries
   the "%5d " rendering of the kernel thread id of the thread that logs it. *)
Theorem C17_tid_text_matches_tid : forall h k, ktid_ok k -> Forall hop_ok h ->
  Forall (fun p => snd p = tid_text (fst p)) (lineage k tidc0 h).
Proof. exact (fun h k Hk Hh => lineage_true h k tidc0 Hk (tidc0_good k) Hh). Qed.
Print Assumptions C17_tid_text_matches_tid.

(* a handler that only sets t_cachedTid (without re-rendering t_tidString) is rejected by the
   abstract interpretation, and indeed the forked child would log its parent's id *)
Example ex_tid_stale :
  af_resets [AfSetTid; AfOther; AfCallTid] = false /\
  lineage 100 tidc0 [HLog; HFork 200; HLog; HSpawn 300; HLog] =
    [(100, tid_text 100); (200, tid_text 200); (300, tid_text 300)].
Proof. vm_compute. split; reflexivity. Qed.

(* When does a line fit?  strerror_tl returns a C string held in t_errnobuf (regenerated size, 512):
   at most size-1 characters; thread ids are below 10^7 (kernel limit 2^22).  Then everything but
   the function name, the message and the base name takes at most 76 + size characters. *)
Theorem C17_line_fits : forall fmt_g r, req_ok r -> 0 <= lq_tid r < 10 ^ 7 ->
  (match lq_errno r with Some (_, txt) => (length (until_nul txt) < Z.to_nat Logging_errnobuf_size)%nat | None => True end) ->
  (length (func_text r) + total_len fmt_g (lq_msg r) + length (basename (until_nul (lq_path r))) +
   (76 + Z.to_nat Logging_errnobuf_size) + kMaxNumericSize <= kSmallBuffer)%nat ->
  (length (line_text fmt_g r) + kMaxNumericSize <= kSmallBuffer)%nat.
Proof. exact line_fits. Qed.
Print Assumptions C17_line_fits.

(* the date text of a line is stale when the zone was changed within the second the cache is
   labelled with: same second, now zone UTC+8, line still shows the UTC text *)
Definition ex_dt_utc := mkDT 2023 11 14 22 13 20.
Definition ex_dt_east8 := mkDT 2023 11 15 6 13 20.
Definition ex_req (zone : bool) (dt : datetime) : logreq :=
  mkReq 1700000000 123456 zone dt 4711 INFO None None [x61; x2f; x62; x2e; x63; x63] 12 [ICStr (Some [x68; x69])].
Theorem C17_time_cache_refuted : exists fmt_g th r,
  th = fst (log_line fmt_g tls0 (ex_req false ex_dt_utc)) /\ req_ok r /\
  ~ (forall b, snd (log_line fmt_g th r) = Ok b -> firstn 17 (data b) = time_text (lq_dt r)).
Proof.
  exists (fun _ => []), (fst (log_line (fun _ => []) tls0 (ex_req false ex_dt_utc))), (ex_req true ex_dt_east8).
  split; [reflexivity|]. split.
  - unfold req_ok, dt_ok. cbn. repeat split; try lia. repeat constructor.
  - intros H. specialize (H _ eq_refl). vm_compute in H. discriminate.
Qed.
Print Assumptions C17_time_cache_refuted.

(* TRACE / DEBUG / INFO lines are emitted iff the configured level is at most theirs; WARN and
   above (LOG_SYSERR = ERROR, LOG_SYSFATAL = FATAL) always; the levels are ordered as named;
   the regenerated gates are the model's. *)
Theorem C17_level_gate : forall m cfg,
  macro_emits m cfg = (level_num WARN <=? level_num (macro_level m)) || (level_num cfg <=? level_num (macro_level m)).
Proof. exact level_gate. Qed.
Print Assumptions C17_level_gate.

Theorem C17_level_gate_generated : forall cfg,
  gate_LOG_TRACE (level_num cfg) = macro_emits LOG_TRACE cfg /\
  gate_LOG_DEBUG (level_num cfg) = macro_emits LOG_DEBUG cfg /\
  gate_LOG_INFO (level_num cfg) = macro_emits LOG_INFO cfg /\
  gate_LOG_WARN (level_num cfg) = macro_emits LOG_WARN cfg /\
  gate_LOG_ERROR (level_num cfg) = macro_emits LOG_ERROR cfg /\
  gate_LOG_FATAL (level_num cfg) = macro_emits LOG_FATAL cfg /\
  gate_LOG_SYSERR (level_num cfg) = macro_emits LOG_SYSERR cfg /\
  gate_LOG_SYSFATAL (level_num cfg) = macro_emits LOG_SYSFATAL cfg.
Proof. exact gates_gen. Qed.
Print Assumptions C17_level_gate_generated.

Theorem C17_level_order :
  level_num TRACE < level_num DEBUG < level_num INFO /\
  level_num INFO < level_num WARN < level_num ERROR /\ level_num ERROR < level_num FATAL.
Proof. exact level_order. Qed.
Print Assumptions C17_level_order.

(* the base name is the part of the path after its last '/', the whole path if there is none *)
Theorem C17_basename : forall p, exists pre,
  p = pre ++ basename p /\ ~ In x2f (basename p) /\ (pre = [] \/ exists q, pre = q ++ [x2f]).
Proof. exact basename_spec. Qed.
Print Assumptions C17_basename.

(* ---- non-vacuity ----------------------------------------------------------------------- *)

Example ex_int64_min : convert (- 2 ^ 63) =
  [x2d; x39; x32; x32; x33; x33; x37; x32; x30; x33; x36; x38; x35; x34; x37; x37; x35; x38; x30; x38].
Proof. vm_compute. reflexivity. Qed.

(* a run that fills a 64-byte buffer: the 20-character number no longer fits (headroom 48),
   the two characters after it do *)
Example ex_whole_items :
  run (fun _ => [x31]) (empty 64) [IStr (repeat x61 20); IInt TULongLong (2 ^ 64 - 1); IChar x62; IBool true]
  = Ok (mkF 64 (repeat x61 20 ++ [x62; x31])).
Proof. vm_compute. reflexivity. Qed.

Example ex_line :
  match snd (log_line (fun _ => []) tls0 (ex_req false ex_dt_utc)) with
  | Ok b => data b = line_text (fun _ => []) (ex_req false ex_dt_utc) /\ length (data b) = 51%nat
  | _ => False
  end.
Proof. vm_compute. split; reflexivity. Qed.

(* the hypotheses of C17_time_cache_partial and C17_line_fits are inhabited: a line of second
   1700000000 with F constant; 3364 characters are left for function name, message and base name *)
Example ex_line_ok : line_ok (fun _ => []) (fun _ => ex_dt_utc) (ex_req false ex_dt_utc) /\
                     (76 + Z.to_nat Logging_errnobuf_size + kMaxNumericSize + 3364 <= kSmallBuffer)%nat.
Proof.
  split; [|apply Nat.leb_le; vm_compute; reflexivity].
  split; [|split; [reflexivity|split; [discriminate|apply Nat.leb_le; vm_compute; reflexivity]]].
  unfold req_ok, dt_ok. cbn [ex_req ex_dt_utc lq_dt lq_msg lq_errno lq_line lq_micros
    dt_year dt_month dt_day dt_hour dt_minute dt_second].
  split; [lia|]. split; [repeat constructor|]. split; [exact I|]. split; lia.
Qed.

Example ex_gate : macro_emits LOG_DEBUG INFO = false /\ macro_emits LOG_INFO INFO = true /\
                  macro_emits LOG_WARN FATAL = true.
Proof. vm_compute. repeat split. Qed.

(* ---- formatSI / formatIEC ------------------------------------------------------------------ *)
(* formatSI / formatIEC of the model compute the binary64 operations of the code exactly, in Z:
   int64 -> double (round to nearest even at 53 bits), the IEEE quotient by the unit, printf's
   correctly rounded %.<p>f -- all through one primitive, [rne] = a rational rounded to the nearest
   integer, ties to even (C17_Model).  The ladders (tests, precisions, divisors, unit letters) are
   regenerated from LogStream.cc on every run (Gen_C17), so every statement below is re-proved for
   the ladder the source has now.  That the conversion and the quotient of the model are IEEE-754
   binary64 operations is C17_binary64_semantics (Flocq); that the hardware computes those, and
   that glibc's %.<p>f is correctly rounded, is established by the correspondence run only (every
   rung bound +-3, the neighbours at the spacing of doubles, decimal ties, dense random n against
   the real functions). *)

(* The model's conversion and quotient ARE IEEE-754 binary64 operations: [rnd64] is Flocq's
   [round radix2 (FLT_exp (-1074) 53) ZnearestE], rounding to nearest, ties to even, into the
   binary64 format on real numbers (the specification of Flocq's Binary.Bdiv / binary_normalize);
   [b64_value m e] is the real number m * 2^e.  (1) static_cast<double>(n) for every n >= 0;
   (2) a / b for all positive integers below 2^64; (3) the two in sequence as formatSI / formatIEC
   use them; (4) every divisor of the regenerated ladders is itself a binary64 number.  This is one
   of the FIVE statements of C17 about real numbers -- with C17_g12_spec, C17_ieee754_bit_level,
   C17_printf_fixed_spec and C17_thresholds_are_binary64 --: they depend on the axioms of Coq's Reals
   (printed after each, named in the trusted base); every other theorem is closed under the global
   context.  printf's %.<p>f (fixed_scaled) has its specification in C17_printf_fixed_spec; that glibc
   prints the exact binary value correctly rounded to nearest even is tested by the correspondence
   run only. *)
Theorem C17_binary64_semantics :
  (forall n, 0 <= n -> IZR (to_double n) = rnd64 (IZR n)) /\
  (forall a b m e, 0 < a < 2 ^ 64 -> 0 < b < 2 ^ 64 -> div_double a b = (m, e) ->
     b64_value m e = rnd64 (IZR a / IZR b)) /\
  (forall n d m e, 0 < n < 2 ^ 63 -> 0 < d < 2 ^ 64 -> div_double (to_double n) d = (m, e) ->
     b64_value m e = rnd64 (rnd64 (IZR n) / IZR d)) /\
  forallb divisor_exact si_ladder = true /\ forallb divisor_exact iec_ladder = true.
Proof. exact binary64_semantics. Qed.
Print Assumptions C17_binary64_semantics.

(* Bit level: the same values are those of Flocq's IEEE-754 binary64 OPERATIONS on
   [binary_float 53 1024]: [b64_of_Z n] = binary_normalize mode_NE n 0 (integer -> double, what
   static_cast<double>(int64_t) is), [b64_div] = Bdiv mode_NE (operator/), Bltb (operator<).
   All results are finite (no overflow, no NaN).  d must be a binary64 number itself
   (to_double d = d: checked for every ladder divisor in C17_binary64_semantics). *)
Theorem C17_ieee754_bit_level :
  (forall n, 0 <= n < 2 ^ 64 ->
     BinarySingleNaN.B2R (b64_of_Z n) = IZR (to_double n) /\ BinarySingleNaN.is_finite (b64_of_Z n) = true) /\
  (forall n d m e, 0 < n < 2 ^ 63 -> 0 < d < 2 ^ 64 -> to_double d = d ->
     div_double (to_double n) d = (m, e) ->
     BinarySingleNaN.B2R (b64_div (b64_of_Z n) (b64_of_Z d)) = b64_value m e /\
     BinarySingleNaN.is_finite (b64_div (b64_of_Z n) (b64_of_Z d)) = true) /\
  (forall n (y : binary64) num den, 0 <= n < 2 ^ 64 -> 0 < den ->
     BinarySingleNaN.is_finite y = true -> BinarySingleNaN.B2R y = (IZR num / IZR den)%R ->
     BinarySingleNaN.Bltb (b64_of_Z n) y = (to_double n * den <? num)).
Proof. exact ieee754_bit_level. Qed.
Print Assumptions C17_ieee754_bit_level.

(* printf "%.<p>f": the SPECIFICATION is [dec_fix p x] = x rounded to the nearest multiple of
   10^-p, ties to the even multiple (Flocq: round radix10 (FIX_exp (-p)) ZnearestE) -- what a
   correctly rounding printf prints in round-to-nearest mode.  (1) the model's fixed_scaled IS that
   rounding of the exact binary value m * 2^e, as the integer ZnearestE (x * 10^p); (2) end to end:
   on a rung with a unit, the characters in front of the unit are the decimal numeral with exactly
   p decimals of dec_fix p ((double)n / d), both operations being Flocq's IEEE-754 ones.
   That glibc's printf implements this specification is tested (correspondence run), not proved. *)
Theorem C17_printf_fixed_spec :
  (forall p m e, 0 <= p ->
     fixed_scaled p (m, e) = nearest_even (b64_value m e * IZR (10 ^ p)) /\
     dec_fix p (b64_value m e) = Defs.F2R (Defs.Float radix10 (fixed_scaled p (m, e)) (- p))) /\
  (forall n p d u, 0 < n < 2 ^ 63 -> 0 <= p -> 0 < d < 2 ^ 64 -> to_double d = d ->
     let x := BinarySingleNaN.B2R (b64_div (b64_of_Z n) (b64_of_Z d)) in
     exists k body, render (RFix p d u) n = body ++ u /\ fixed_numeral body p k /\
       k = nearest_even (x * IZR (10 ^ p)) /\ dec_fix p x = Defs.F2R (Defs.Float radix10 k (- p))).
Proof. exact printf_fixed_spec. Qed.
Print Assumptions C17_printf_fixed_spec.

(* the number printed is monotone in n for a fixed format (rne is monotone on rationals, hence so
   are the conversion, the quotient and the decimal rounding): the reason why a rung is bounded by
   its last n *)
Theorem C17_rendering_monotone : forall p d n1 n2, 0 <= p -> 0 < d -> 0 <= n1 <= n2 ->
  to_double n1 <= to_double n2 /\ scaled p d n1 <= scaled p d n2 /\
  (length (render (RFix p d []) n1) <= length (render (RFix p d []) n2))%nat.
Proof.
  exact (fun p d n1 n2 Hp Hd Hn =>
    conj (to_double_mono n1 n2 (proj2 Hn))
         (conj (scaled_mono p d n1 n2 Hp Hd Hn)
               (render_len_mono (RFix p d []) n1 n2
                  (andb_true_intro (conj (proj2 (Z.leb_le 0 p) Hp) (proj2 (Z.ltb_lt 0 d) Hd))) Hn))).
Qed.
Print Assumptions C17_rendering_monotone.

(* property text: "formatSI ... render every n >= 0 in at most 5 ... characters": ALL n of int64 *)
Theorem C17_si_width : forall n, 0 <= n < 2 ^ 63 -> (length (formatSI n) <= 5)%nat.
Proof. exact si_width. Qed.
Print Assumptions C17_si_width.

(* "... formatIEC ... at most 6 characters" *)
Theorem C17_iec_width : forall n, 0 <= n < 2 ^ 63 -> (length (formatIEC n) <= 6)%nat.
Proof. exact iec_width. Qed.
Print Assumptions C17_iec_width.

(* what was computed to get there: for every rung of the regenerated ladders a last n exists
   (found by search for the tests made on double(n)), the format is well formed, and the text at
   that n has at most 5 / 6 characters; each ladder ends with an else *)
Theorem C17_ladders_covered :
  (forallb (rung_ok 5) si_ladder = true /\ existsb is_else si_ladder = true) /\
  (forallb (rung_ok 6) iec_ladder = true /\ existsb is_else iec_ladder = true).
Proof. exact (conj si_ladder_ok iec_ladder_ok). Qed.
Print Assumptions C17_ladders_covered.

(* Three significant digits, no leading zero: on every rung with a unit the number printed, scaled by
   10^p, is at least 100 (value >= 1.00 / 10.0 / 100 units) and at most 1023 (1000..1023 only at the
   top of a %.0f rung); without a unit n <= 1023.  Lower ends: every n of a rung has failed the
   previous tests, hence is >= the first integer failing the previous test (computed; for a test on
   the double by search + one evaluation), and the printed number is monotone. *)
Theorem C17_significant_digits : forall n, 0 <= n < 2 ^ 63 ->
  (sig_low (select n si_ladder) n /\ sig_high (select n si_ladder) n) /\
  (sig_low (select n iec_ladder) n /\ sig_high (select n iec_ladder) n).
Proof. exact (fun n Hn => conj (si_significant n Hn) (iec_significant n Hn)). Qed.
Print Assumptions C17_significant_digits.

(* "within rounding error of n": on the plain rung the text is the decimal numeral of n; on every
   other rung it is <canonical integer part>[.<p digits>]<unit> denoting k / 10^p units of d with
   |k * d - n * 10^p| <= d / 2 + 3 * 2^-53 * n * 10^p, i.e. half a unit of the last printed digit
   plus the effect (relative 3 * 2^-53) of the two binary64 roundings before printf's *)
Theorem C17_units_accurate : forall n, 0 <= n < 2 ^ 63 ->
  rendered_ok (select n si_ladder) (formatSI n) n /\ rendered_ok (select n iec_ladder) (formatIEC n) n.
Proof. exact (fun n Hn => conj (si_accurate n Hn) (iec_accurate n Hn)). Qed.
Print Assumptions C17_units_accurate.

(* the unit letters of the ladders name their divisors: k M G T P E = 10^3..10^18, Ki..Ei = 2^10..2^60 *)
Theorem C17_units_named :
  units_in unit_table_si si_ladder = true /\ units_in unit_table_iec iec_ladder = true.
Proof. exact units_named. Qed.
Print Assumptions C17_units_named.

(* half a unit of the last digit ALONE does not hold (so the second term above is needed): *)
Theorem C17_half_unit_alone_refuted :
  select 9145000000000001 si_ladder = RFix 2 (10 ^ 15) [x50] /\
  formatSI 9145000000000001 = [x39; x2e; x31; x34; x50] /\
  10 ^ 15 < 2 * Z.abs (914 * 10 ^ 15 - 9145000000000001 * 10 ^ 2).
Proof. exact half_unit_alone_refuted. Qed.
Print Assumptions C17_half_unit_alone_refuted.

(* F-9 regression facts.  F-9: formatSI returned "100.0P" (6 characters) for
   99949999999999992..99949999999999999; fixed in the source by commit af480e4 (that rung is now
   chosen on the double).  (1) For the ladder as it was before the fix -- the regenerated ladder
   with every test made on the integer -- the eight integers still print "100.0P": the width
   theorem is false for that ladder, so if the fix is lost (si_ladder then IS that ladder)
   C17_si_width / C17_ladders_covered no longer check.  (2) With the regenerated ladder they print
   "100P", their lower neighbour "99.9P". *)
Theorem C17_si_width_prefix_ladder_refuted :
  forallb (fun n => match render (select n (map on_int si_ladder)) n with
                    | [x31; x30; x30; x2e; x30; x50] => true | _ => false end) f9_range = true.
Proof. exact si_on_int_refuted. Qed.
Print Assumptions C17_si_width_prefix_ladder_refuted.

Theorem C17_f9_fixed :
  forallb (fun n => match formatSI n with [x31; x30; x30; x50] => true | _ => false end) f9_range = true /\
  formatSI 99949999999999991 = [x39; x39; x2e; x39; x50].
Proof. exact f9_fixed. Qed.
Print Assumptions C17_f9_fixed.

(* non-vacuity: the widths are attained (values inside a rung, not at an edge), a test made on the
   double has its last n found by the search, the domain of the F-9 facts *)
Example ex_si : formatSI 12345 = [x31; x32; x2e; x33; x6b] /\ formatIEC 2048 = [x32; x2e; x30; x30; x4b; x69] /\
                length (formatSI 1234) = 5%nat /\ length (formatIEC 2048) = 6%nat /\
                rung_last (OnDouble 99950000000000000 1) = Some 99949999999999991 /\
                f9_range = [99949999999999992; 99949999999999993; 99949999999999994; 99949999999999995;
                            99949999999999996; 99949999999999997; 99949999999999998; 99949999999999999].
Proof. vm_compute. repeat split. Qed.

(* The bounds of the OnDouble rungs ARE binary64 numbers (the side condition of the third conjunct of
   C17_ieee754_bit_level, which links the model's test [to_double n * den <? num] to operator< on
   doubles only for a finite double of value num/den).  [threshold_exact] (C17_Flocq) checks one rung:
   num, den > 0, den = 2^k, num = m * 2^j exactly with j = max 0 (log2 num - 52), m < 2^53,
   -1074 <= j - k <= 971.  (1) it holds for every rung of both REGENERATED ladders (by computation, on
   every check: an edited bound that is not a double fails here); (2) hence for every OnDouble rung of
   either ladder there is a finite Flocq binary64 X with B2R X = num/den exactly, and the model's test
   is Bltb (double of n) X -- `n < X` on doubles -- for every 0 <= n < 2^64.  Uses the Reals axioms. *)
Theorem C17_thresholds_are_binary64 :
  (forallb threshold_exact si_ladder = true /\ forallb threshold_exact iec_ladder = true) /\
  (forall num den f, In (OnDouble num den, f) (si_ladder ++ iec_ladder) ->
     0 < den /\
     exists y : binary64, BinarySingleNaN.is_finite y = true /\ BinarySingleNaN.B2R y = (IZR num / IZR den)%R /\
       forall n, 0 <= n < 2 ^ 64 -> BinarySingleNaN.Bltb (b64_of_Z n) y = (to_double n * den <? num)).
Proof. exact thresholds_are_binary64. Qed.
Print Assumptions C17_thresholds_are_binary64.

(* non-vacuity: the ladders do contain OnDouble rungs with a proper fraction as bound
   (Ki*9.995 = 5626684784446013 / 2^39) and one with more than 53 bits (99950000000000000 = m * 2^4) *)
Example ex_thresholds :
  In (OnDouble 5626684784446013 549755813888, RFix 2 1024 [x4b; x69]) (si_ladder ++ iec_ladder) /\
  In (OnDouble 99950000000000000 1, RFix 1 1000000000000000 [x50]) (si_ladder ++ iec_ladder) /\
  threshold_exact (OnDouble 99950000000000001 1, RInt) = false.
Proof. vm_compute. split; [auto 40|]. split; [auto 40|reflexivity]. Qed.
