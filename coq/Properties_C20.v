(* Properties_C20: calendar, time-zone, address conversions agree with the platform and
   round-trip.  Only statements, closed by [exact], with Print Assumptions and
   non-vacuity examples.

   getJulianDayNumber, getYearMonthDay, weekDay, fillHMS, BreakTime, fromUtcTime and the
   constants are Gen_C20.*: regenerated from muduo/base/Date.{h,cc} and TimeZone.cc by
   lib/gen_C20.py on every run, so these theorems are re-checked against what the source
   says now.  The time-zone lookup, the text forms and the address forms are the
   hand-written C20_Model, tied to the C++ by the correspondence check (bin/check C20).
   "Agrees with the platform" is a statement about glibc: Coq proves equality with the
   mathematical specification (proleptic Gregorian count, POSIX formula, last transition
   <= t, printf-style digits), the harness shows specification and glibc coincide. *)
From Coq Require Import List ZArith Lia Bool Arith NArith.
From Coq.Strings Require Import Byte.
From Coq Require Import Reals.
From Flocq Require Import Core.
From Muduo Require Import Base_Bytes Gen_C20 Gen_C20Net Gen_C20Tz Gen_C20Ts C20_Model C20_TzGen C20_TsGen C20_NetModel C20_Ip6Model
  C20_TzifModel Gen_C20Tzif
  C20_Proofs C20_TzProofs C20_TzLink C20_TextProofs C20_TsLink C20_NetProofs C20_Ip6Proofs C20_TzifProofs C20_TzifLink C20_FlocqProofs.
Import ListNotations.
Local Open Scope Z_scope.

(* ------------------------------------------------------------------ calendar *)

(* Day number and year-month-day map one-to-one over 1900-01-01 .. 2500-12-31
   (jdn_first = 2415021 .. jdn_last = 2634531, 219 511 days), both directions. *)
Theorem C20_calendar_roundtrip :
  (forall j, jdn_first <= j <= jdn_last ->
     exists y m d, getYearMonthDay j = (y, m, d) /\ valid_date y m d = true /\
                   getJulianDayNumber y m d = j) /\
  (forall y m d, valid_date y m d = true ->
     jdn_first <= getJulianDayNumber y m d <= jdn_last /\
     getYearMonthDay (getJulianDayNumber y m d) = (y, m, d)).
Proof. exact calendar_roundtrip. Qed.
Print Assumptions C20_calendar_roundtrip.

(* Equality with the independently defined proleptic Gregorian day count (leap rule,
   month lengths, summation of year and month lengths from 1900-01-01). *)
Theorem C20_matches_gregorian :
  (forall y m d, valid_date y m d = true ->
     getJulianDayNumber y m d = jdn_first + greg_day_count y m d) /\
  (forall j y m d, jdn_first <= j <= jdn_last -> getYearMonthDay j = (y, m, d) ->
     valid_date y m d = true /\ greg_day_count y m d = j - jdn_first).
Proof. exact matches_gregorian. Qed.
Print Assumptions C20_matches_gregorian.

(* 0 = Sunday; anchored at 1970-01-01 = Thursday *)
Theorem C20_weekday : forall y m d, valid_date y m d = true ->
  weekDay (getJulianDayNumber y m d) = spec_weekday y m d /\
  0 <= weekDay (getJulianDayNumber y m d) <= 6.
Proof. exact weekday_correct. Qed.
Print Assumptions C20_weekday.

(* On the range no int intermediate of the C++ leaves the 32-bit range, so the Z
   semantics of the generated functions is the C semantics (no undefined behaviour). *)
Theorem C20_no_int_overflow :
  (forall j, jdn_first <= j <= jdn_last -> getYearMonthDay_fits j = true /\ weekDay_fits j = true) /\
  (forall y m d, valid_date y m d = true -> getJulianDayNumber_fits y m d = true) /\
  (forall t, utc_first <= t < utc_end -> BreakTime_fits t = true) /\
  (forall dt, valid_datetime dt = true ->
     fromUtcTime_fits (year dt) (month dt) (day dt) (hour dt) (minute dt) (second dt) = true).
Proof. exact no_int_overflow. Qed.
Print Assumptions C20_no_int_overflow.

(* ------------------------------------------------------------------ UTC break-down *)

(* utc_first = 1900-01-01 00:00:00Z, utc_end = 2501-01-01 00:00:00Z (negative times included) *)
Theorem C20_utc_roundtrip :
  (forall t, utc_first <= t < utc_end ->
     valid_datetime (break_utc t) = true /\ fromUtc (break_utc t) = t) /\
  (forall dt, valid_datetime dt = true ->
     utc_first <= fromUtc dt < utc_end /\ break_utc (fromUtc dt) = dt).
Proof. exact utc_roundtrip_both. Qed.
Print Assumptions C20_utc_roundtrip.

(* the POSIX.1 seconds-since-the-epoch formula, i.e. what gmtime_r/timegm implement *)
Theorem C20_matches_posix : forall dt, valid_datetime dt = true ->
  fromUtc dt = posix_seconds (year dt) (month dt) (day dt) (hour dt) (minute dt) (second dt).
Proof. exact matches_posix. Qed.
Print Assumptions C20_matches_posix.

(* ... and the break-down side stated directly: the fields BreakTime produces for t are valid and
   the POSIX formula maps them to t, for every instant of the range *)
Theorem C20_breaktime_matches_posix : forall t, utc_first <= t < utc_end ->
  let dt := break_utc t in
  valid_datetime dt = true /\
  posix_seconds (year dt) (month dt) (day dt) (hour dt) (minute dt) (second dt) = t.
Proof. exact breaktime_matches_posix. Qed.
Print Assumptions C20_breaktime_matches_posix.

Example C20_calendar_nonvacuous :
  valid_date 2000 2 29 = true /\ getJulianDayNumber 2000 2 29 = 2451604 /\
  getYearMonthDay 2451604 = (2000, 2, 29) /\ weekDay 2451604 = 2 /\
  valid_date 1900 2 29 = false /\ break_utc (-1) = mkDT 1969 12 31 23 59 59 /\
  fromUtc (mkDT 2038 1 19 3 14 8) = 2147483648.
Proof. vm_compute. repeat split; reflexivity. Qed.

(* ------------------------------------------------------------------ time zones *)

(* findLocalTime(utcTime), i.e. std::upper_bound as the libstdc++ binary search plus the
   hand-written edge handling, selects the record of the LAST transition <= t; record 0
   when there is none (no transitions, or t before the first); the last transition's
   record from the last transition on.  For every table whose utc column is sorted, hence
   (second part) for every well-formed table. *)
Theorem C20_lookup_is_last_le :
  (forall tb t, sorted_utc (trans tb) = true -> find_utc tb t = spec_type tb t) /\
  (forall tb, wf tb = true -> sorted_utc (trans tb) = true).
Proof. exact (conj lookup_is_last_le wf_sorted). Qed.
Print Assumptions C20_lookup_is_last_le.

(* TimeZone::Data::findLocalTime, BOTH overloads, are not only modelled by hand: Gen_C20Tz holds the
   decision trees obtained by symbolic execution of the C++ statements (iterators as indices,
   `const LocalTime*` as record index, std::upper_bound as the libstdc++ loop on the column the
   comparator reads), regenerated on every run.  For ALL tables and arguments they are the
   hand-written find_utc / find_local the theorems of this section speak about; the extracted
   model runs the generated ones.  Data::addTransition's shifted-local column is [tloc]. *)
Theorem C20_findLocalTime_generated :
  (forall tb t, findLocalTime_utc tb t = find_utc tb t) /\
  (forall tb lt post, findLocalTime_local tb lt post = find_local tb (fromUtc lt) post) /\
  (forall tb tr, addTransition_localtime tb (tutc tr) (tidx tr) = tloc tb tr) /\
  (forall tb t, toLocalTime_g tb t = toLocalTime tb t) /\
  (forall tb dt post, fromLocalTime_g tb dt post = fromLocalTime tb dt post).
Proof.
  exact (conj findLocalTime_utc_link (conj findLocalTime_local_link (conj addTransition_localtime_link
          (conj toLocalTime_g_link fromLocalTime_g_link)))).
Qed.
Print Assumptions C20_findLocalTime_generated.

(* toLocalTime / fromLocalTime on civil fields are the seconds-level functions whenever the
   local time falls in 1900..2500 *)
Theorem C20_local_civil : forall tb t post, sorted_utc (trans tb) = true ->
  utc_first <= t + offset_at tb t < utc_end ->
  toLocalTime tb t = (break_utc (t + offset_at tb t), offset_at tb t) /\
  fromLocalTime tb (fst (toLocalTime tb t)) post = fromLocalSeconds tb (t + offset_at tb t) post.
Proof.
  intros tb t post Hs Hr. exact (conj (toLocalTime_spec tb t Hs) (fromLocalTime_of_toLocalTime tb t post Hs Hr)).
Qed.
Print Assumptions C20_local_civil.

(* FULL STATEMENT (false for the code as it is, see C20_local_roundtrip_refuted):
     for every well-formed table and every instant t, with L the local time of t,
     fromLocalTime L post = t for the post that names t's side of a repeated hour.
   PROVED (all well-formed tables, all instants; s = number of transitions <= t, U/O the
   instant / offset of a transition, OB the offset in force before it, nT their number):
   (1) t is the latest or only instant of its local time  => postTransition=true returns t
       (no exception: also at the first and last transition);
   (2) t is the earliest or only instant and its local time is not in the repeated window
       of the NEXT transition => postTransition=false returns t;
   (3) t lies in the repeated window before transition s, 1 <= s and s+1 < nT
       => postTransition=false returns t (the earlier instant), =true the later one.
   MISSING: case (3) when transition s is the first (s = 0) or the last (s+1 = nT) of the
   table: the code returns the later instant for both flags (findings/C20.md); what it does
   there is stated by C20_local_edge_behaviour / C20_local_last_transition_defect below. *)
Theorem C20_local_roundtrip_partial : forall tb t, wf tb = true ->
  let s := seg tb t in let L := t + offset_at tb t in
  ((s = nT tb \/ L < U tb s + O tb s) -> fromLocalSeconds tb L true = t) /\
  ((s = 0%nat \/ U tb (s - 1) + OB tb (s - 1) <= L) -> (s = nT tb \/ L < U tb s + O tb s) ->
     fromLocalSeconds tb L false = t) /\
  ((1 <= s)%nat -> (S s < nT tb)%nat -> U tb s + O tb s <= L ->
     fromLocalSeconds tb L false = t /\ fromLocalSeconds tb L true = L - O tb s).
Proof.
  intros tb t Hw. exact (conj (local_later tb t Hw) (conj (local_only_or_first tb t Hw) (local_earlier tb t Hw))).
Qed.
Print Assumptions C20_local_roundtrip_partial.

(* a skipped local time at transition j (any but the first of the table): the requested
   side of the transition decides the offset.  MISSING: j = 0 (the code answers with
   record 0 for both flags). *)
Theorem C20_local_skipped_partial : forall tb j L post, wf tb = true -> (1 <= j < nT tb)%nat ->
  U tb j + OB tb j <= L < U tb j + O tb j ->
  fromLocalSeconds tb L post = L - (if post then O tb j else OB tb j).
Proof. exact local_skipped. Qed.
Print Assumptions C20_local_skipped_partial.

(* The three theorems above speak about every local time there is: a local time L is the local
   time of some instant, or it falls into the gap of a forward transition. *)
Theorem C20_local_cover : forall tb L, wf tb = true ->
  (exists t, t + offset_at tb t = L) \/
  (exists j, (j < nT tb)%nat /\ U tb j + OB tb j <= L < U tb j + O tb j).
Proof. exact local_cover. Qed.
Print Assumptions C20_local_cover.

(* What the code does in the cases the partial theorems leave out (all well-formed tables):
   - from the local image of the LAST transition on, the last transition's record for both flags;
   - before the local image of the FIRST transition, record 0 for both flags (this includes a
     skipped local time at the first transition); inside the repeated window of the first
     transition, the first transition's record for both flags. *)
Theorem C20_local_edge_behaviour : forall tb L post, wf tb = true -> (1 <= nT tb)%nat ->
  (U tb (nT tb - 1) + O tb (nT tb - 1) <= L -> fromLocalSeconds tb L post = L - O tb (nT tb - 1)) /\
  (L < U tb 0 + O tb 0 -> fromLocalSeconds tb L post = L - off_of tb 0) /\
  (U tb 0 + O tb 0 <= L < U tb 0 + OB tb 0 -> fromLocalSeconds tb L post = L - O tb 0).
Proof.
  intros tb L post Hw Hn. destruct (local_at_first tb L post Hw Hn) as [H1 H2].
  exact (conj (local_at_last tb L post Hw Hn) (conj H1 H2)).
Qed.
Print Assumptions C20_local_edge_behaviour.

(* the finding at the last transition, exactly: in EVERY well-formed table, for EVERY instant t of
   the repeated window before the last transition, both flags return the later instant *)
Theorem C20_local_last_transition_defect : forall tb t, wf tb = true ->
  let s := seg tb t in let L := t + offset_at tb t in
  S s = nT tb -> U tb s + O tb s <= L ->
  forall post, fromLocalSeconds tb L post = t + (OB tb s - O tb s) /\ t < t + (OB tb s - O tb s).
Proof. exact local_last_defect. Qed.
Print Assumptions C20_local_last_transition_defect.

(* the finding at the first transition, exactly: in EVERY well-formed table (a) every instant before
   the first transition whose local time is repeated after it is answered with the later instant
   for both flags, (b) every local time in the gap of the first transition is answered with record
   0 for postTransition=true, never with the first transition's offset *)
Theorem C20_local_first_transition_defect : forall tb, wf tb = true -> (1 <= nT tb)%nat ->
  (forall t, let L := t + offset_at tb t in
     seg tb t = 0%nat -> U tb 0 + O tb 0 <= L ->
     forall post, fromLocalSeconds tb L post = t + (OB tb 0 - O tb 0) /\ t < t + (OB tb 0 - O tb 0)) /\
  (forall L, U tb 0 + OB tb 0 <= L < U tb 0 + O tb 0 ->
     fromLocalSeconds tb L true = L - OB tb 0 /\ L - OB tb 0 <> L - O tb 0).
Proof. exact local_first_defect. Qed.
Print Assumptions C20_local_first_transition_defect.

Theorem C20_local_roundtrip_refuted :
  exists tb t, wf tb = true /\ forall post, fromLocalSeconds tb (t + offset_at tb t) post <> t.
Proof. exact local_roundtrip_refuted. Qed.
Print Assumptions C20_local_roundtrip_refuted.

Theorem C20_local_first_transition_refuted :
  (wf tb_witness_first = true /\
   forall post, fromLocalSeconds tb_witness_first (99000 + offset_at tb_witness_first 99000) post <> 99000) /\
  (wf tb_witness_skip = true /\ fromLocalSeconds tb_witness_skip 104000 true <> 104000 - 7200).
Proof. exact local_first_transition_refuted. Qed.
Print Assumptions C20_local_first_transition_refuted.

(* non-vacuity: a well-formed table with a skipped and a repeated hour in the middle *)
Example C20_tz_nonvacuous :
  let tb := mkTz [mkTr 1000000 1; mkTr 2000000 0; mkTr 3000000 1; mkTr 4000000 0] [3600; 7200] in
  wf tb = true /\ seg tb 1999000 = 1%nat /\ nT tb = 4%nat /\
  U tb 1 + O tb 1 <= 1999000 + offset_at tb 1999000 /\
  fromLocalSeconds tb (1999000 + offset_at tb 1999000) false = 1999000 /\
  fromLocalSeconds tb (1999000 + offset_at tb 1999000) true = 2002600 /\
  fromLocalSeconds tb (3000000 + 3600 + 10) true = 3000000 + 10 - 3600 /\
  fromLocalSeconds tb (3000000 + 3600 + 10) false = 3000000 + 10.
Proof. vm_compute. repeat split; try reflexivity; discriminate. Qed.

(* ------------------------------------------------------------------ the TZif reader *)

(* [tzif_parse] models detail::readTimeZoneFile / readDataBlock statement by statement
   (C20_TzifModel; compared with the real reader on every leap-second-free file under
   /usr/share/zoneinfo, on files written by an independent encoder and on malformed variants).
   Whatever bytes it accepts: every transition's type index is valid (Data::addTransition's
   localtimes.at()), so the decidable well-formedness predicate of the lookup theorems comes
   down to "at least one type" and the spacing of the instants. *)
Theorem C20_tzif_parse_shape : forall file tb, tzif_parse file = TzOk tb ->
  Forall (fun tr => (tidx tr < length (offs tb))%nat) (trans tb) /\
  wf tb = (0 <? length (offs tb))%nat && wf_gaps tb (off_of tb 0) (trans tb).
Proof. intros file tb H. exact (conj (tzif_parse_idx file tb H) (tzif_parse_wf file tb H)). Qed.
Print Assumptions C20_tzif_parse_shape.

(* the parts of the reader that are GENERATED (Gen_C20Tz: the rejection tests on the six counts,
   which count bounds which loop / reserve / readBytes, the version-2 skip with its int
   multiplications, magic and version literals, header field lengths, both skip constants, the
   v1 flags) are consistent with each other for all count values: the addTransition loop runs over
   exactly the entries the two reading loops filled, every reserve gets the bound of its loop *)
Theorem C20_tzif_generated_plan : forall a b c d e f,
  readDataBlock_nadd a b c d e f = readDataBlock_ntimes a b c d e f /\
  readDataBlock_nidx a b c d e f = readDataBlock_ntimes a b c d e f /\
  readDataBlock_reserve_times a b c d e f = readDataBlock_ntimes a b c d e f /\
  readDataBlock_reserve_idx a b c d e f = readDataBlock_nidx a b c d e f /\
  readDataBlock_reserve_types a b c d e f = readDataBlock_ntypes a b c d e f.
Proof. exact reader_plan_consistent. Qed.
Print Assumptions C20_tzif_generated_plan.

(* None of the reader is hand-written any more: detail::File::readInt64 / readInt32 / readUInt8 /
   readBytes / skip, readDataBlock and readTimeZoneFile (with its try / catch) are translated
   statement by statement from TimeZone.cc into Gen_C20Tzif (reader monad: value | std::logic_error
   thrown | outside the C++ semantics); only fread / fseek / std::vector semantics are library
   definitions.  For EVERY file the generated reader is the reference reader the theorems above
   are proved for (the extracted model runs the generated one). *)
Theorem C20_tzif_reader_generated :
  (forall file, tzif_parse_g file = tzif_parse file) /\
  (forall file c v1, db_to_tz (readDataBlock_g file c v1) = readDataBlock c v1) /\
  (forall c, File_readInt32 c = lift (readInt32 c)) /\ (forall c, File_readInt64 c = lift (readInt64 c)) /\
  (forall c, File_readUInt8 c = lift (readUInt8 c)).
Proof.
  exact (conj tzif_parse_g_link (conj readDataBlock_link (conj File_readInt32_link (conj File_readInt64_link File_readUInt8_link)))).
Qed.
Print Assumptions C20_tzif_reader_generated.

(* ... and when that predicate computes to true on the parsed table, the lookup theorems apply
   to it: toLocalTime uses the last transition <= t, fromLocalTime inverts it as stated in
   C20_local_roundtrip_partial / C20_local_skipped_partial. *)
Theorem C20_tzif_lookup : forall file tb, tzif_parse file = TzOk tb -> wf tb = true ->
  (forall t, find_utc tb t = spec_type tb t) /\
  (forall t, let s := seg tb t in let L := t + offset_at tb t in
     ((s = nT tb \/ L < U tb s + O tb s) -> fromLocalSeconds tb L true = t) /\
     ((s = 0%nat \/ U tb (s - 1) + OB tb (s - 1) <= L) -> (s = nT tb \/ L < U tb s + O tb s) ->
        fromLocalSeconds tb L false = t) /\
     ((1 <= s)%nat -> (S s < nT tb)%nat -> U tb s + O tb s <= L ->
        fromLocalSeconds tb L false = t /\ fromLocalSeconds tb L true = L - O tb s)) /\
  (forall j L post, (1 <= j < nT tb)%nat -> U tb j + OB tb j <= L < U tb j + O tb j ->
     fromLocalSeconds tb L post = L - (if post then O tb j else OB tb j)).
Proof.
  intros file tb _ Hw. split; [|split].
  - intros t. exact (lookup_wf tb t Hw).
  - intros t. exact (conj (local_later tb t Hw) (conj (local_only_or_first tb t Hw) (local_earlier tb t Hw))).
  - intros j L post. exact (local_skipped tb j L post Hw).
Qed.
Print Assumptions C20_tzif_lookup.

(* The reader reads back what an RFC 8536 writer without leap seconds wrote ([encode_v1_g] /
   [encode_v2_g]: header, six counts, transition times of 4 / 8 bytes, type indices, ttinfo
   entries, designation (abbreviation) characters, standard/wall and UT/local indicators, footer),
   for EVERY table whose values fit the format ([encodable]), ANY isdst byte and ANY designation
   index byte in each ttinfo entry ([tts]: one pair per local time type -- the reader stores them,
   the conversions never look at them), any designation / indicator / footer bytes: the 32-bit
   data of a file whose version byte is not '2' (version 1, and -- as the source documents --
   versions 3 and 4 as well), the 64-bit data of a version-2 file whatever its 32-bit half holds.
   `6 * typecnt` of the first header is computed in int by the C++.  Every shipped DST zone is such
   a file (isdst = 1, designation index > 0 on some type).  Last two conjuncts: the writer
   [encode_v1] / [encode_v2] of the examples (isdst = 0, index 0 everywhere) is the special case
   [tts_zero]. *)
Theorem C20_tzif_reads_rfc8536 :
  (forall version tb tts abbr isstd isut tail, version <> x32 -> encodable 4 tb abbr isstd isut ->
     length tts = length (offs tb) ->
     tzif_parse (encode_v1_g version tb tts abbr isstd isut tail) = TzOk tb) /\
  (forall tb1 tts1 abbr1 isstd1 isut1 tb tts abbr isstd isut footer,
     encodable 4 tb1 abbr1 isstd1 isut1 -> length tts1 = length (offs tb1) ->
     6 * Z.of_nat (length (offs tb1)) < 2 ^ 31 ->
     encodable 8 tb abbr isstd isut -> length tts = length (offs tb) ->
     tzif_parse (encode_v2_g tb1 tts1 abbr1 isstd1 isut1 tb tts abbr isstd isut footer) = TzOk tb) /\
  (forall version tb abbr isstd isut tail,
     encode_v1 version tb abbr isstd isut tail = encode_v1_g version tb (tts_zero tb) abbr isstd isut tail) /\
  (forall tb1 abbr1 isstd1 isut1 tb abbr isstd isut footer,
     encode_v2 tb1 abbr1 isstd1 isut1 tb abbr isstd isut footer =
     encode_v2_g tb1 (tts_zero tb1) abbr1 isstd1 isut1 tb (tts_zero tb) abbr isstd isut footer).
Proof. exact (conj parse_encode_v1_g (conj parse_encode_v2_g (conj encode_v1_zero encode_v2_zero))). Qed.
Print Assumptions C20_tzif_reads_rfc8536.

(* non-vacuity: a version-2 file with an empty 32-bit half and two transitions in the 64-bit
   half (one beyond 2038); a truncated file, a file announcing a leap second and a type index
   out of range are rejected *)
Example C20_tzif_nonvacuous :
  let tb := mkTz [mkTr 1000000 1; mkTr 5000000000 0] [3600; 7200] in
  let f := encode_v2 tb_empty [x00] [] [] tb [x41; x00] [x00; x01] [] [x0a; x55; x0a] in
  encodable 4 tb_empty [x00] [] [] /\ encodable 8 tb [x41; x00] [x00; x01] [] /\
  tzif_parse f = TzOk tb /\ wf tb = true /\ length f = 132%nat /\
  tzif_parse (firstn 100 f) = TzFail /\
  tzif_parse (firstn 79 f ++ [x00; x00; x00; x01] ++ skipn 83 f) = TzFail /\
  tzif_parse (encode_v1 x00 (mkTz [mkTr 5 2] [0; 0]) [x00] [] [] []) = TzFail /\
  tzif_parse (encode_v1 x33 (mkTz [mkTr 5 1] [0; 60]) [x00] [] [] []) = TzOk (mkTz [mkTr 5 1] [0; 60]) /\
  tzif_parse (encode_v1 x33 (mkTz [mkTr 5 1] [0; 60]) [] [] [] []) = TzUndefined.
Proof.
  cbv zeta. split; [exact encodable_empty|]. split.
  - unfold encodable. cbn [trans offs length tutc tidx].
    repeat split; auto; try (cbn; lia);
      repeat constructor; unfold signed_range; cbn; lia.
  - vm_compute. repeat split; reflexivity.
Qed.

(* non-vacuity with a DST-like file: two local time types, LMT (isdst 0, designation index 0) and
   CEST (isdst 1, designation index 4), designation table "LMT\0CEST\0", both indicator arrays
   present; as version-1 file and as 64-bit half of a version-2 file whose 32-bit half carries
   other pairs.  The hypotheses hold, the reader returns the table, and the file is NOT one the
   all-zero writer can produce. *)
Example C20_tzif_dst_nonvacuous :
  let tb := mkTz [mkTr 1000000 1; mkTr 5000000000 0; mkTr 5010000000 1] [3208; 7200] in
  let tb1 := mkTz [mkTr 1000000 1] [3208; 7200] in
  let tts := [(x00, x00); (x01, x04)] in
  let abbr := [x4c; x4d; x54; x00; x43; x45; x53; x54; x00] in
  let f1 := encode_v1_g x00 tb1 tts abbr [x00; x01] [x00; x00] [] in
  let f2 := encode_v2_g tb1 [(x01, x00); (xff, x07)] abbr [] [] tb tts abbr [x00; x01] [x00; x00] [x0a; x43; x45; x54; x0a] in
  encodable 4 tb1 abbr [x00; x01] [x00; x00] /\ encodable 4 tb1 abbr [] [] /\
  encodable 8 tb abbr [x00; x01] [x00; x00] /\ length tts = length (offs tb) /\
  tzif_parse f1 = TzOk tb1 /\ tzif_parse f2 = TzOk tb /\ wf tb = true /\
  firstn 6 (skipn 55 f1) = [x00; x00; x1c; x20; x01; x04] /\
  f1 <> encode_v1 x00 tb1 abbr [x00; x01] [x00; x00] [].
Proof.
  cbv zeta. split; [|split; [|split]].
  1-3: unfold encodable; cbn [trans offs length tutc tidx];
    repeat split; auto; try (cbn; lia);
    repeat constructor; unfold signed_range; cbn; lia.
  vm_compute. repeat split; try reflexivity. discriminate.
Qed.

(* ------------------------------------------------------------------ text and byte order *)

(* Timestamp::toString reads back (microseconds >= 0) *)
Theorem C20_timestamp_text_roundtrip : forall us, 0 <= us < 10 ^ 26 ->
  ts_parse (ts_toString us) = Some us.
Proof. exact timestamp_text_roundtrip. Qed.
Print Assumptions C20_timestamp_text_roundtrip.

(* Timestamp::toFormattedString(true) has the fixed-column shape and reads back, for every
   non-negative timestamp whose date is in 1900..2500 *)
Theorem C20_timestamp_formatted_roundtrip : forall us,
  utc_first * 1000000 <= us < utc_end * 1000000 -> 0 <= us ->
  length (ts_toFormatted us true) = 24%nat /\ ts_parseFormatted (ts_toFormatted us true) = us.
Proof. exact timestamp_formatted_len_roundtrip. Qed.
Print Assumptions C20_timestamp_formatted_roundtrip.

(* Timestamp::toString / toFormattedString assembled from the formats, argument expressions and
   buffer sizes GENERATED from Timestamp.cc (snprintf interpreter C20_TsGen.printf_z; gmtime_r =
   the generated BreakTime) are those specifications -- toString for EVERY int64 value (its
   32-byte buffer never truncates), toFormattedString for non-negative timestamps dated
   1900..2500 -- hence read back *)
Theorem C20_timestamp_text_generated :
  (forall us, ts_toString_g us = ts_toString us) /\
  (forall us, 0 <= us < 10 ^ 26 -> ts_parse (ts_toString_g us) = Some us) /\
  (forall us b, utc_first * 1000000 <= us < utc_end * 1000000 -> 0 <= us ->
     ts_toFormatted_g us b = ts_toFormatted us b) /\
  (forall us, utc_first * 1000000 <= us < utc_end * 1000000 -> 0 <= us ->
     length (ts_toFormatted_g us true) = 24%nat /\ ts_parseFormatted (ts_toFormatted_g us true) = us).
Proof.
  split; [exact ts_toString_link|]. split.
  - intros us H. rewrite ts_toString_link. exact (timestamp_text_roundtrip us H).
  - split; [exact ts_toFormatted_link|].
    intros us Hr H0. rewrite (ts_toFormatted_link us true Hr H0). exact (timestamp_formatted_len_roundtrip us Hr H0).
Qed.
Print Assumptions C20_timestamp_text_generated.

(* Timestamp arithmetic GENERATED from Timestamp.h: fromUnixTime and secondsSinceEpoch /
   microsecond remainder are inverse (C division: for every us one way, for t >= 0 the other), no
   int64 overflow for |t| <= 9e12; addTime adds the int64 delta that timeDifference's int64
   difference recovers (the double multiplication / division by the same generated constant
   10^6 is the platform's and is compared with IEEE arithmetic by the harness) *)
Theorem C20_timestamp_arith :
  (forall us, Timestamp_fromUnixTime (Timestamp_secondsSinceEpoch us) (Z.rem us kMicroSecondsPerSecond) = us) /\
  (forall t m, 0 <= t -> 0 <= m < 1000000 ->
     Timestamp_secondsSinceEpoch (Timestamp_fromUnixTime t m) = t /\
     Z.rem (Timestamp_fromUnixTime t m) kMicroSecondsPerSecond = m) /\
  (forall t m, -9000000000000 <= t <= 9000000000000 -> -2147483648 <= m <= 2147483647 ->
     Timestamp_fromUnixTime_fits t m = true) /\
  (forall us d, Timestamp_timeDifference_diff (Timestamp_addTime us d) us = d) /\
  (forall hi lo, Timestamp_addTime lo (Timestamp_timeDifference_diff hi lo) = hi) /\
  Timestamp_timeDifference_divisor = 1000000 /\ Timestamp_addTime_factor = 1000000.
Proof. exact timestamp_arith. Qed.
Print Assumptions C20_timestamp_arith.

(* Timestamp::addTime's `static_cast<int64_t>(seconds * kMicroSecondsPerSecond)` in IEEE-754 binary64
   (Flocq: round to nearest-even of the real product, then truncation; the factor is the GENERATED
   constant).  The microsecond delta is exact -- the truncation of the exact product, nothing rounded --
   whenever the significand of [seconds] times 5^6 fits 53 bits AND the truncated product is an
   int64_t: every double m * 2^e with |m| * 15625 < 2^53 whose product with 10^6 lies inside int64
   (hypothesis -2^63 <= Ztrunc (s * 10^6) < 2^63: outside it the C++ cast is undefined and [Ztrunc]
   would not stand for it; the hypothesis also forces |s| < 2^44, so s and the product are finite
   doubles although the Flocq format used is unbounded above), in particular every whole number of
   seconds up to 576 460 752 303 and every n / 2^k in that range (both inside int64, stated); the bound
   is sharp for whole seconds (576 460 752 305 s is rounded).  Everything else is left to the
   differential run against the FPU.  Depends on the axioms of Coq's Reals. *)
Theorem C20_addtime_exactness :
  (forall m e, Z.abs m * 15625 < 2 ^ 53 -> -1080 <= e ->
     let s := F2R (Float radix2 m e) in
     - 2 ^ 63 <= Ztrunc (s * 1000000) < 2 ^ 63 ->
     rnd64 (s * IZR Timestamp_addTime_factor) = (s * IZR Timestamp_addTime_factor)%R /\
     addTime_delta s = Ztrunc (s * 1000000) /\ - 2 ^ 63 <= addTime_delta s < 2 ^ 63) /\
  (forall n, Z.abs n <= 576460752303 ->
     addTime_delta (IZR n) = n * 1000000 /\ - 2 ^ 63 <= n * 1000000 < 2 ^ 63 /\
     forall t, addTime_value t (IZR n) = t + n * 1000000) /\
  (forall n k, Z.abs n * 15625 < 2 ^ 53 -> 0 <= k <= 1080 ->
     addTime_delta (IZR n / IZR (2 ^ k)) = Ztrunc (IZR n / IZR (2 ^ k) * 1000000) /\
     - 2 ^ 63 <= addTime_delta (IZR n / IZR (2 ^ k)) < 2 ^ 63) /\
  rnd64 (IZR 576460752305 * IZR Timestamp_addTime_factor) <> (IZR 576460752305 * IZR Timestamp_addTime_factor)%R.
Proof.
  exact (conj addTime_product_exact_int64 (conj addTime_whole_seconds_int64 (conj addTime_binary_fraction_int64 addTime_rounding_witness))).
Qed.
Print Assumptions C20_addtime_exactness.

(* Date::toIsoString (format, arguments and buffer size GENERATED from Date.cc, over the generated
   getYearMonthDay): "YYYY-MM-DD" of the day's date for every day 1900-01-01..2500-12-31, and it
   reads back *)
Theorem C20_date_iso_roundtrip :
  (forall j, jdn_first <= j <= jdn_last ->
     exists y m d, getYearMonthDay j = (y, m, d) /\ valid_date y m d = true /\
                   date_toIsoString_g j = date_iso y m d /\ date_iso_parse (date_toIsoString_g j) = (y, m, d)) /\
  (forall y m d, valid_date y m d = true -> date_iso_parse (date_iso y m d) = (y, m, d)).
Proof.
  split; [|exact date_iso_roundtrip].
  intros j Hj. destruct (date_toIsoString_link j Hj) as (y & m & d & Hg & Hv & He).
  exists y, m, d. rewrite He. repeat split; auto. exact (date_iso_roundtrip y m d Hv).
Qed.
Print Assumptions C20_date_iso_roundtrip.

(* big-endian encodings: all widths, all values (Base_Bytes, shared with C10/C18) *)
Theorem C20_byte_order : forall n x,
  (0 <= x < 256 ^ Z.of_nat n -> be_decode (be_encode n x) = x) /\
  ((0 < n)%nat -> signed_range n x -> be_decode_signed (be_encode n x) = x) /\
  length (be_encode n x) = n.
Proof.
  intros n x. exact (conj (be_unsigned_roundtrip n x) (conj (fun H => be_signed_roundtrip n x H) (be_encode_length n x))).
Qed.
Print Assumptions C20_byte_order.

(* sockets::hostToNetwork16/32/64 and networkToHost16/32/64 -- the functions GENERATED from
   muduo/net/Endian.h (Gen_C20Net), glibc's htobeN / beNtoh being __bswap_N on this platform --
   for every value of their width: what hostToNetworkN stores in memory (little-endian host:
   [le_encode]) is the big-endian image of its argument; networkToHostN of n bytes loaded from
   memory is the big-endian value of those bytes; the two are inverse to each other. *)
Theorem C20_endian_helpers :
  (forall x, 0 <= x < 2 ^ 16 -> le_encode 2 (Endian_hostToNetwork16 x) = be_encode 2 x) /\
  (forall x, 0 <= x < 2 ^ 32 -> le_encode 4 (Endian_hostToNetwork32 x) = be_encode 4 x) /\
  (forall x, 0 <= x < 2 ^ 64 -> le_encode 8 (Endian_hostToNetwork64 x) = be_encode 8 x) /\
  (forall l, length l = 2%nat -> Endian_networkToHost16 (le_decode l) = be_decode l) /\
  (forall l, length l = 4%nat -> Endian_networkToHost32 (le_decode l) = be_decode l) /\
  (forall l, length l = 8%nat -> Endian_networkToHost64 (le_decode l) = be_decode l) /\
  (forall x, 0 <= x < 2 ^ 16 -> Endian_networkToHost16 (Endian_hostToNetwork16 x) = x /\
                                 Endian_hostToNetwork16 (Endian_networkToHost16 x) = x) /\
  (forall x, 0 <= x < 2 ^ 32 -> Endian_networkToHost32 (Endian_hostToNetwork32 x) = x /\
                                 Endian_hostToNetwork32 (Endian_networkToHost32 x) = x) /\
  (forall x, 0 <= x < 2 ^ 64 -> Endian_networkToHost64 (Endian_hostToNetwork64 x) = x /\
                                 Endian_hostToNetwork64 (Endian_networkToHost64 x) = x).
Proof. exact endian_helpers. Qed.
Print Assumptions C20_endian_helpers.

(* inet_pton(AF_INET) (inet_ntop(AF_INET) a) = a for all 2^32 addresses; the text has no ':' *)
Theorem C20_ipv4_roundtrip : forall a b c d,
  pton4 (ntop4 [a; b; c; d]) = Some [a; b; c; d] /\ has_colon (ntop4 [a; b; c; d]) = false.
Proof. intros a b c d. exact (conj (ipv4_roundtrip a b c d) (ntop4_no_colon a b c d)). Qed.
Print Assumptions C20_ipv4_roundtrip.

(* InetAddress(text, port, ipv6) -- family test, sockets::fromIpPort and InetAddress::port() put
   together from the facts GENERATED from InetAddress.cc / SocketsOps.cc.  On a dotted quad:
   AF_INET, the same four bytes, the port stored in network byte order ([port_store] = most
   significant byte first) and read back by port(), toIp gives the text back.  With the ipv6 flag
   or any text containing ':': AF_INET6, the port stored the same way, the address inet_pton gave
   (zero if it failed). *)
Theorem C20_inet_make : forall pton6,
  (forall a b c d p, 0 <= p < 65536 ->
     let sa := inet_make pton6 (ntop4 [a; b; c; d]) p false in
     sa_family sa = AF_INET /\ sa_addr sa = [a; b; c; d] /\ sa_port sa = port_store p /\ inet_port sa = p /\
     forall ntop6, toIp ntop6 sa = ntop4 [a; b; c; d]) /\
  (forall ip p flag, 0 <= p < 65536 -> (flag = true \/ has_colon ip = true) ->
     let sa := inet_make pton6 ip p flag in
     sa_family sa = AF_INET6 /\ sa_port sa = port_store p /\ inet_port sa = p /\
     sa_addr sa = match pton6 ip with Some a => a | None => zero_bytes 16 end).
Proof. intros pton6. exact (conj (inet_make_ipv4 pton6) (inet_make_v6 pton6)). Qed.
Print Assumptions C20_inet_make.

(* InetAddress(port, loopbackOnly, ipv6): family, port in network order, 0.0.0.0 / 127.0.0.1
   (kInaddrAny / kInaddrLoopback through hostToNetwork32) or :: / ::1 *)
Theorem C20_inet_port_only : forall p lo v6, 0 <= p < 65536 ->
  let sa := inet_port_only p lo v6 in
  sa_family sa = (if v6 then AF_INET6 else AF_INET) /\ sa_port sa = port_store p /\ inet_port sa = p /\
  sa_addr sa = (if v6 then (if lo then zero_bytes 15 ++ [x01] else zero_bytes 16)
                else (if lo then [x7f; x00; x00; x01] else [x00; x00; x00; x00])).
Proof. exact inet_port_only_spec. Qed.
Print Assumptions C20_inet_port_only.

(* sockets::toIpPort: "ip:port" / "[ip6]:port" splits back into (is it IPv6, ip text, port),
   whatever inet_ntop(AF_INET6) printed (platform function, a parameter); the port is read in
   network byte order *)
Theorem C20_ipport_roundtrip : forall ntop6 sa p,
  0 <= p < 65536 -> sa_port sa = port_store p ->
  (sa_family sa = AF_INET \/ sa_family sa = AF_INET6) ->
  (sa_family sa = AF_INET -> exists a b c d, sa_addr sa = [a; b; c; d]) ->
  parse_ipport (toIpPort ntop6 sa) = Some (sa_family sa =? AF_INET6, toIp ntop6 sa, p).
Proof. exact ipport_roundtrip. Qed.
Print Assumptions C20_ipport_roundtrip.

(* InetAddress::toIp() / toIpPort() with their scratch arrays -- array sizes GENERATED from
   InetAddress.cc, the size assertions of sockets::toIp and the '[' offset of sockets::toIpPort
   GENERATED from SocketsOps.cc: no assertion fires and nothing is truncated, i.e. the strings are
   those of the unbounded model above, for every address and port, provided the IPv6 text has at
   most INET6_ADDRSTRLEN - 1 = 45 characters (discharged for the RFC 5952 printer by
   C20_ipv6_roundtrip below; the IPv4 text is proved <= 15).  In numbers: size >= longest text + 1. *)
Theorem C20_inet_buffers :
  (forall ntop6 sa p, (sa_family sa = AF_INET6 -> (length (ntop6 (sa_addr sa)) <= 45)%nat) ->
     0 <= p < 65536 -> sa_port sa = port_store p ->
     (sa_family sa = AF_INET \/ sa_family sa = AF_INET6) ->
     (sa_family sa = AF_INET -> exists a b c d, sa_addr sa = [a; b; c; d]) ->
     inet_toIp ntop6 sa = Some (toIp ntop6 sa) /\ inet_toIpPort ntop6 sa = Some (toIpPort ntop6 sa)) /\
  (InetAddress_toIpPort_bufsize >= 1 + 45 + 2 + 5 + 1 /\ InetAddress_toIp_bufsize >= 45 + 1 /\
   InetAddress_toIpPort_bufsize - SocketsOps_toIpPort_v6_off >= SocketsOps_toIp_need6 /\
   InetAddress_toIp_bufsize >= SocketsOps_toIp_need6 /\ SocketsOps_toIp_need6 >= 45 + 1 /\ SocketsOps_toIp_need4 >= 15 + 1) /\
  (forall a b c d, (length (ntop4 [a; b; c; d]) <= 15)%nat).
Proof. exact (conj inet_buffers (conj inet_buffer_sizes ntop4_len)). Qed.
Print Assumptions C20_inet_buffers.

(* InetAddress::setScopeId (family test GENERATED): stored for IPv6 only, a no-op on IPv4, and
   invisible to toIp / toIpPort / port() *)
Theorem C20_inet_scope_id : forall ntop6 sa id,
  toIp ntop6 (set_scope_id sa id) = toIp ntop6 sa /\ toIpPort ntop6 (set_scope_id sa id) = toIpPort ntop6 sa /\
  inet_toIp ntop6 (set_scope_id sa id) = inet_toIp ntop6 sa /\ inet_toIpPort ntop6 (set_scope_id sa id) = inet_toIpPort ntop6 sa /\
  inet_port (set_scope_id sa id) = inet_port sa /\
  (sa_family sa = AF_INET -> set_scope_id sa id = sa) /\
  (sa_family sa = AF_INET6 -> sa_scope (set_scope_id sa id) = id).
Proof. exact scope_id_invisible. Qed.
Print Assumptions C20_inet_scope_id.

(* inet_ntop(AF_INET6) / inet_pton(AF_INET6) as Gallina functions (C20_Ip6Model: RFC 5952 text --
   lower-case groups without leading zeros, the leftmost longest run of >= 2 zero groups as "::",
   dotted quad for IPv4-compatible / IPv4-mapped addresses; the reader accepts every compression
   form, upper case, embedded IPv4) -- compared with glibc on structured and random addresses and
   texts by the harness.  For ALL 2^128 addresses the text reads back to the address, and it is at
   most 39 <= INET6_ADDRSTRLEN - 1 characters; hence the buffer theorem needs no platform
   hypothesis for this printer. *)
Theorem C20_ipv6_roundtrip :
  (forall a, length a = 16%nat -> pton6 (ntop6 a) = Some a /\ (length (ntop6 a) <= 39)%nat) /\
  (forall sa p, 0 <= p < 65536 -> sa_port sa = port_store p -> sa_family sa = AF_INET6 -> length (sa_addr sa) = 16%nat ->
     inet_toIp ntop6 sa = Some (toIp ntop6 sa) /\ inet_toIpPort ntop6 sa = Some (toIpPort ntop6 sa) /\
     parse_ipport (toIpPort ntop6 sa) = Some (true, ntop6 (sa_addr sa), p) /\
     pton6 (ntop6 (sa_addr sa)) = Some (sa_addr sa)).
Proof.
  split.
  - intros a Hl. exact (conj (ipv6_roundtrip a Hl) (ntop6_length a Hl)).
  - intros sa p Hp Hport Hf Hl.
    pose proof (ntop6_length _ Hl) as H39.
    destruct (inet_buffers ntop6 sa p ltac:(intros _; lia) Hp Hport (or_intror Hf)
                ltac:(intros E; rewrite E in Hf; discriminate)) as [B1 B2].
    pose proof (ipport_roundtrip ntop6 sa p Hp Hport (or_intror Hf) ltac:(intros E; rewrite E in Hf; discriminate)) as R.
    rewrite Hf in R. rewrite (toIp_v6 ntop6 sa Hf) in R.
    exact (conj B1 (conj B2 (conj R (ipv6_roundtrip _ Hl)))).
Qed.
Print Assumptions C20_ipv6_roundtrip.

Example C20_text_nonvacuous :
  ts_toString_g 1234567890123456 = [x31;x32;x33;x34;x35;x36;x37;x38;x39;x30;x2e;x31;x32;x33;x34;x35;x36] /\
  date_toIsoString_g 2451604 = [x32;x30;x30;x30;x2d;x30;x32;x2d;x32;x39] /\
  inet_toIpPort (fun _ => repeat x66 39) (inet_port_only 65535 true true) = Some ([x5b] ++ repeat x66 39 ++ [x5d;x3a;x36;x35;x35;x33;x35]) /\
  ntop4 [xff; x00; x0a; x09] = [x32;x35;x35;x2e;x30;x2e;x31;x30;x2e;x39] /\
  pton4 [x30;x31;x2e;x32;x2e;x33;x2e;x34] = None /\
  port_store 8080 = [x1f; x90] /\ sa_port (inet_port_only 8080 true false) = [x1f; x90] /\
  Endian_hostToNetwork32 16909060 = 67305985 /\ le_encode 4 67305985 = [x01; x02; x03; x04] /\
  toIpPort (fun _ => [x3a; x3a; x31]) (inet_port_only 8080 true true) = [x5b;x3a;x3a;x31;x5d;x3a;x38;x30;x38;x30].
Proof. vm_compute. repeat split; reflexivity. Qed.
