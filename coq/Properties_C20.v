(* Properties_C20: calendar, time-zone, address conversions agree with the platform and
   round-trip.  Only statements, closed by [exact], with Print Assumptions and
   non-vacuity examples.

   getJulianDayNumber, getYearMonthDay, weekDay, fillHMS, BreakTime, fromUtcTime and the
   constants are Gen_C20.*: regenerated from muduo/base/Date.{h,cc} and TimeZone.cc by
   lib/gen_C20.py on every run, so these theorems are re-checked against what the source
   says now.  The time-zone lookup, the text forms and the address forms are the
   hand-written C20_Model, tied to the C++ by the correspondence check (bin/check C20).
   "Agrees with the platform" is a statement about glibc: Coq proves equality with the
   mathematical specification (proleptic Gregorian count, POSIX formula, last transition
   <= t, printf-style digits), the harness shows specification and glibc coincide. *)
From Coq Require Import List ZArith Lia Bool Arith NArith.
From Coq.Strings Require Import Byte.
From Muduo Require Import Base_Bytes Gen_C20 C20_Model C20_Proofs C20_TzProofs C20_TextProofs.
Import ListNotations.
Local Open Scope Z_scope.

(* ------------------------------------------------------------------ calendar *)

(* Day number and year-month-day map one-to-one over 1900-01-01 .. 2500-12-31
   (jdn_first = 2415021 .. jdn_last = 2634531, 219 511 days), both directions. *)
Theorem C20_calendar_roundtrip :
  (forall j, jdn_first <= j <= jdn_last ->
     exists y m d, getYearMonthDay j = (y, m, d) /\ valid_date y m d = true /\
                   getJulianDayNumber y m d = j) /\
  (forall y m d, valid_date y m d = true ->
     jdn_first <= getJulianDayNumber y m d <= jdn_last /\
     getYearMonthDay (getJulianDayNumber y m d) = (y, m, d)).
Proof. exact calendar_roundtrip. Qed.
Print Assumptions C20_calendar_roundtrip.

(* Equality with the independently defined proleptic Gregorian day count (leap rule,
   month lengths, summation of year and month lengths from 1900-01-01). *)
Theorem C20_matches_gregorian :
  (forall y m d, valid_date y m d = true ->
     getJulianDayNumber y m d = jdn_first + greg_day_count y m d) /\
  (forall j y m d, jdn_first <= j <= jdn_last -> getYearMonthDay j = (y, m, d) ->
     valid_date y m d = true /\ greg_day_count y m d = j - jdn_first).
Proof. exact matches_gregorian. Qed.
Print Assumptions C20_matches_gregorian.

(* 0 = Sunday; anchored at 1970-01-01 = Thursday *)
Theorem C20_weekday : forall y m d, valid_date y m d = true ->
  weekDay (getJulianDayNumber y m d) = spec_weekday y m d /\
  0 <= weekDay (getJulianDayNumber y m d) <= 6.
Proof. exact weekday_correct. Qed.
Print Assumptions C20_weekday.

(* On the range no int intermediate of the C++ leaves the 32-bit range, so the Z
   semantics of the generated functions is the C semantics (no undefined behaviour). *)
Theorem C20_no_int_overflow :
  (forall j, jdn_first <= j <= jdn_last -> getYearMonthDay_fits j = true /\ weekDay_fits j = true) /\
  (forall y m d, valid_date y m d = true -> getJulianDayNumber_fits y m d = true) /\
  (forall t, utc_first <= t < utc_end -> BreakTime_fits t = true) /\
  (forall dt, valid_datetime dt = true ->
     fromUtcTime_fits (year dt) (month dt) (day dt) (hour dt) (minute dt) (second dt) = true).
Proof. exact no_int_overflow. Qed.
Print Assumptions C20_no_int_overflow.

(* ------------------------------------------------------------------ UTC break-down *)

(* utc_first = 1900-01-01 00:00:00Z, utc_end = 2501-01-01 00:00:00Z (negative times included) *)
Theorem C20_utc_roundtrip :
  (forall t, utc_first <= t < utc_end ->
     valid_datetime (break_utc t) = true /\ fromUtc (break_utc t) = t) /\
  (forall dt, valid_datetime dt = true ->
     utc_first <= fromUtc dt < utc_end /\ break_utc (fromUtc dt) = dt).
Proof. exact utc_roundtrip_both. Qed.
Print Assumptions C20_utc_roundtrip.

(* the POSIX.1 seconds-since-the-epoch formula, i.e. what gmtime_r/timegm implement *)
Theorem C20_matches_posix : forall dt, valid_datetime dt = true ->
  fromUtc dt = posix_seconds (year dt) (month dt) (day dt) (hour dt) (minute dt) (second dt).
Proof. exact matches_posix. Qed.
Print Assumptions C20_matches_posix.

Example C20_calendar_nonvacuous :
  valid_date 2000 2 29 = true /\ getJulianDayNumber 2000 2 29 = 2451604 /\
  getYearMonthDay 2451604 = (2000, 2, 29) /\ weekDay 2451604 = 2 /\
  valid_date 1900 2 29 = false /\ break_utc (-1) = mkDT 1969 12 31 23 59 59 /\
  fromUtc (mkDT 2038 1 19 3 14 8) = 2147483648.
Proof. vm_compute. repeat split; reflexivity. Qed.
