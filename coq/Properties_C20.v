(* Properties_C20: calendar, time-zone, address conversions agree with the platform and
   round-trip.  Only statements, closed by [exact], with Print Assumptions and
   non-vacuity examples.

   getJulianDayNumber, getYearMonthDay, weekDay, fillHMS, BreakTime, fromUtcTime and the
   constants are Gen_C20.*: regenerated from muduo/base/Date.{h,cc} and TimeZone.cc by
   lib/gen_C20.py on every run, so these theorems are re-checked against what the source
   says now.  The time-zone lookup, the text forms and the address forms are the
   hand-written C20_Model, tied to the C++ by the correspondence check (bin/check C20).
   "Agrees with the platform" is a statement about glibc: Coq proves equality with the
   mathematical specification (proleptic Gregorian count, POSIX formula, last transition
   <= t, printf-style digits), the harness shows specification and glibc coincide. *)
From Coq Require Import List ZArith Lia Bool Arith NArith.
From Coq.Strings Require Import Byte.
From Muduo Require Import Base_Bytes Gen_C20 C20_Model C20_Proofs C20_TzProofs C20_TextProofs.
Import ListNotations.
Local Open Scope Z_scope.

(* ------------------------------------------------------------------ calendar *)

(* Day number and year-month-day map one-to-one over 1900-01-01 .. 2500-12-31
   (jdn_first = 2415021 .. jdn_last = 2634531, 219 511 days), both directions. *)
Theorem C20_calendar_roundtrip :
  (forall j, jdn_first <= j <= jdn_last ->
     exists y m d, getYearMonthDay j = (y, m, d) /\ valid_date y m d = true /\
                   getJulianDayNumber y m d = j) /\
  (forall y m d, valid_date y m d = true ->
     jdn_first <= getJulianDayNumber y m d <= jdn_last /\
     getYearMonthDay (getJulianDayNumber y m d) = (y, m, d)).
Proof. exact calendar_roundtrip. Qed.
Print Assumptions C20_calendar_roundtrip.

(* Equality with the independently defined proleptic Gregorian day count (leap rule,
   month lengths, summation of year and month lengths from 1900-01-01). *)
Theorem C20_matches_gregorian :
  (forall y m d, valid_date y m d = true ->
     getJulianDayNumber y m d = jdn_first + greg_day_count y m d) /\
  (forall j y m d, jdn_first <= j <= jdn_last -> getYearMonthDay j = (y, m, d) ->
     valid_date y m d = true /\ greg_day_count y m d = j - jdn_first).
Proof. exact matches_gregorian. Qed.
Print Assumptions C20_matches_gregorian.

(* 0 = Sunday; anchored at 1970-01-01 = Thursday *)
Theorem C20_weekday : forall y m d, valid_date y m d = true ->
  weekDay (getJulianDayNumber y m d) = spec_weekday y m d /\
  0 <= weekDay (getJulianDayNumber y m d) <= 6.
Proof. exact weekday_correct. Qed.
Print Assumptions C20_weekday.

(* On the range no int intermediate of the C++ leaves the 32-bit range, so the Z
   semantics of the generated functions is the C semantics (no undefined behaviour). *)
Theorem C20_no_int_overflow :
  (forall j, jdn_first <= j <= jdn_last -> getYearMonthDay_fits j = true /\ weekDay_fits j = true) /\
  (forall y m d, valid_date y m d = true -> getJulianDayNumber_fits y m d = true) /\
  (forall t, utc_first <= t < utc_end -> BreakTime_fits t = true) /\
  (forall dt, valid_datetime dt = true ->
     fromUtcTime_fits (year dt) (month dt) (day dt) (hour dt) (minute dt) (second dt) = true).
Proof. exact no_int_overflow. Qed.
Print Assumptions C20_no_int_overflow.

(* ------------------------------------------------------------------ UTC break-down *)

(* utc_first = 1900-01-01 00:00:00Z, utc_end = 2501-01-01 00:00:00Z (negative times included) *)
Theorem C20_utc_roundtrip :
  (forall t, utc_first <= t < utc_end ->
     valid_datetime (break_utc t) = true /\ fromUtc (break_utc t) = t) /\
  (forall dt, valid_datetime dt = true ->
     utc_first <= fromUtc dt < utc_end /\ break_utc (fromUtc dt) = dt).
Proof. exact utc_roundtrip_both. Qed.
Print Assumptions C20_utc_roundtrip.

(* the POSIX.1 seconds-since-the-epoch formula, i.e. what gmtime_r/timegm implement *)
Theorem C20_matches_posix : forall dt, valid_datetime dt = true ->
  fromUtc dt = posix_seconds (year dt) (month dt) (day dt) (hour dt) (minute dt) (second dt).
Proof. exact matches_posix. Qed.
Print Assumptions C20_matches_posix.

Example C20_calendar_nonvacuous :
  valid_date 2000 2 29 = true /\ getJulianDayNumber 2000 2 29 = 2451604 /\
  getYearMonthDay 2451604 = (2000, 2, 29) /\ weekDay 2451604 = 2 /\
  valid_date 1900 2 29 = false /\ break_utc (-1) = mkDT 1969 12 31 23 59 59 /\
  fromUtc (mkDT 2038 1 19 3 14 8) = 2147483648.
Proof. vm_compute. repeat split; reflexivity. Qed.

(* ------------------------------------------------------------------ time zones *)

(* findLocalTime(utcTime), i.e. std::upper_bound as the libstdc++ binary search plus the
   hand-written edge handling, selects the record of the LAST transition <= t; record 0
   when there is none (no transitions, or t before the first); the last transition's
   record from the last transition on.  For every table whose utc column is sorted, hence
   (second part) for every well-formed table. *)
Theorem C20_lookup_is_last_le :
  (forall tb t, sorted_utc (trans tb) = true -> find_utc tb t = spec_type tb t) /\
  (forall tb, wf tb = true -> sorted_utc (trans tb) = true).
Proof. exact (conj lookup_is_last_le wf_sorted). Qed.
Print Assumptions C20_lookup_is_last_le.

(* toLocalTime / fromLocalTime on civil fields are the seconds-level functions whenever the
   local time falls in 1900..2500 *)
Theorem C20_local_civil : forall tb t post, sorted_utc (trans tb) = true ->
  utc_first <= t + offset_at tb t < utc_end ->
  toLocalTime tb t = (break_utc (t + offset_at tb t), offset_at tb t) /\
  fromLocalTime tb (fst (toLocalTime tb t)) post = fromLocalSeconds tb (t + offset_at tb t) post.
Proof.
  intros tb t post Hs Hr. exact (conj (toLocalTime_spec tb t Hs) (fromLocalTime_of_toLocalTime tb t post Hs Hr)).
Qed.
Print Assumptions C20_local_civil.

(* FULL STATEMENT (false for the code as it is, see C20_local_roundtrip_refuted):
     for every well-formed table and every instant t, with L the local time of t,
     fromLocalTime L post = t for the post that names t's side of a repeated hour.
   PROVED (all well-formed tables, all instants; s = number of transitions <= t, U/O the
   instant / offset of a transition, OB the offset in force before it, nT their number):
   (1) t is the latest or only instant of its local time  => postTransition=true returns t
       (no exception: also at the first and last transition);
   (2) t is the earliest or only instant and its local time is not in the repeated window
       of the NEXT transition => postTransition=false returns t;
   (3) t lies in the repeated window before transition s, 1 <= s and s+1 < nT
       => postTransition=false returns t (the earlier instant), =true the later one.
   MISSING: case (3) when transition s is the first (s = 0) or the last (s+1 = nT) of the
   table: the code returns the later instant for both flags (findings/C20.md). *)
Theorem C20_local_roundtrip_partial : forall tb t, wf tb = true ->
  let s := seg tb t in let L := t + offset_at tb t in
  ((s = nT tb \/ L < U tb s + O tb s) -> fromLocalSeconds tb L true = t) /\
  ((s = 0%nat \/ U tb (s - 1) + OB tb (s - 1) <= L) -> (s = nT tb \/ L < U tb s + O tb s) ->
     fromLocalSeconds tb L false = t) /\
  ((1 <= s)%nat -> (S s < nT tb)%nat -> U tb s + O tb s <= L ->
     fromLocalSeconds tb L false = t /\ fromLocalSeconds tb L true = L - O tb s).
Proof.
  intros tb t Hw. exact (conj (local_later tb t Hw) (conj (local_only_or_first tb t Hw) (local_earlier tb t Hw))).
Qed.
Print Assumptions C20_local_roundtrip_partial.

(* a skipped local time at transition j (any but the first of the table): the requested
   side of the transition decides the offset.  MISSING: j = 0 (the code answers with
   record 0 for both flags). *)
Theorem C20_local_skipped_partial : forall tb j L post, wf tb = true -> (1 <= j < nT tb)%nat ->
  U tb j + OB tb j <= L < U tb j + O tb j ->
  fromLocalSeconds tb L post = L - (if post then O tb j else OB tb j).
Proof. exact local_skipped. Qed.
Print Assumptions C20_local_skipped_partial.

Theorem C20_local_roundtrip_refuted :
  exists tb t, wf tb = true /\ forall post, fromLocalSeconds tb (t + offset_at tb t) post <> t.
Proof. exact local_roundtrip_refuted. Qed.
Print Assumptions C20_local_roundtrip_refuted.

Theorem C20_local_first_transition_refuted :
  (wf tb_witness_first = true /\
   forall post, fromLocalSeconds tb_witness_first (99000 + offset_at tb_witness_first 99000) post <> 99000) /\
  (wf tb_witness_skip = true /\ fromLocalSeconds tb_witness_skip 104000 true <> 104000 - 7200).
Proof. exact local_first_transition_refuted. Qed.
Print Assumptions C20_local_first_transition_refuted.

(* non-vacuity: a well-formed table with a skipped and a repeated hour in the middle *)
Example C20_tz_nonvacuous :
  let tb := mkTz [mkTr 1000000 1; mkTr 2000000 0; mkTr 3000000 1; mkTr 4000000 0] [3600; 7200] in
  wf tb = true /\ seg tb 1999000 = 1%nat /\ nT tb = 4%nat /\
  U tb 1 + O tb 1 <= 1999000 + offset_at tb 1999000 /\
  fromLocalSeconds tb (1999000 + offset_at tb 1999000) false = 1999000 /\
  fromLocalSeconds tb (1999000 + offset_at tb 1999000) true = 2002600 /\
  fromLocalSeconds tb (3000000 + 3600 + 10) true = 3000000 + 10 - 3600 /\
  fromLocalSeconds tb (3000000 + 3600 + 10) false = 3000000 + 10.
Proof. vm_compute. repeat split; try reflexivity; discriminate. Qed.

(* ------------------------------------------------------------------ text and byte order *)

(* Timestamp::toString reads back (microseconds >= 0) *)
Theorem C20_timestamp_text_roundtrip : forall us, 0 <= us < 10 ^ 26 ->
  ts_parse (ts_toString us) = Some us.
Proof. exact timestamp_text_roundtrip. Qed.
Print Assumptions C20_timestamp_text_roundtrip.

(* Timestamp::toFormattedString(true) has the fixed-column shape and reads back, for every
   non-negative timestamp whose date is in 1900..2500 *)
Theorem C20_timestamp_formatted_roundtrip : forall us,
  utc_first * 1000000 <= us < utc_end * 1000000 -> 0 <= us ->
  length (ts_toFormatted us true) = 24%nat /\ ts_parseFormatted (ts_toFormatted us true) = us.
Proof. exact timestamp_formatted_len_roundtrip. Qed.
Print Assumptions C20_timestamp_formatted_roundtrip.

(* big-endian helpers: all widths, all values (shared with C10/C18) *)
Theorem C20_byte_order : forall n x,
  (0 <= x < 256 ^ Z.of_nat n -> be_decode (be_encode n x) = x) /\
  ((0 < n)%nat -> signed_range n x -> be_decode_signed (be_encode n x) = x) /\
  length (be_encode n x) = n.
Proof.
  intros n x. exact (conj (be_unsigned_roundtrip n x) (conj (fun H => be_signed_roundtrip n x H) (be_encode_length n x))).
Qed.
Print Assumptions C20_byte_order.

(* inet_pton(AF_INET) (inet_ntop(AF_INET) a) = a for all 2^32 addresses; the text has no ':' *)
Theorem C20_ipv4_roundtrip : forall a b c d,
  pton4 (ntop4 [a; b; c; d]) = Some [a; b; c; d] /\ has_colon (ntop4 [a; b; c; d]) = false.
Proof. intros a b c d. exact (conj (ipv4_roundtrip a b c d) (ntop4_no_colon a b c d)). Qed.
Print Assumptions C20_ipv4_roundtrip.

(* InetAddress(text, port, false) on a dotted quad: AF_INET, the same four bytes, the port in
   network order, toIp gives the text back; any text with ':' selects AF_INET6 *)
Theorem C20_inet_make : forall pton6,
  (forall a b c d p, 0 <= p < 65536 ->
     let sa := inet_make pton6 (ntop4 [a; b; c; d]) p false in
     sa_family sa = AF_INET /\ sa_addr sa = [a; b; c; d] /\ port_load (sa_port sa) = p /\
     forall ntop6, toIp ntop6 sa = ntop4 [a; b; c; d]) /\
  (forall ip p flag, has_colon ip = true -> sa_family (inet_make pton6 ip p flag) = AF_INET6).
Proof. intros pton6. exact (conj (inet_make_ipv4 pton6) (inet_make_colon pton6)). Qed.
Print Assumptions C20_inet_make.

(* toIpPort: "ip:port" / "[ip6]:port" splits back into family, ip text and port, whatever
   inet_ntop(AF_INET6) printed (platform function, a parameter) *)
Theorem C20_ipport_roundtrip : forall ntop6 sa p,
  0 <= p < 65536 -> sa_port sa = port_store p ->
  (sa_family sa = AF_INET -> exists a b c d, sa_addr sa = [a; b; c; d]) ->
  parse_ipport (toIpPort ntop6 sa) =
    Some (match sa_family sa with AF_INET6 => true | AF_INET => false end, toIp ntop6 sa, p).
Proof. exact ipport_roundtrip. Qed.
Print Assumptions C20_ipport_roundtrip.

Example C20_text_nonvacuous :
  ts_toString 1234567890123456 = [x31;x32;x33;x34;x35;x36;x37;x38;x39;x30;x2e;x31;x32;x33;x34;x35;x36] /\
  ntop4 [xff; x00; x0a; x09] = [x32;x35;x35;x2e;x30;x2e;x31;x30;x2e;x39] /\
  pton4 [x30;x31;x2e;x32;x2e;x33;x2e;x34] = None /\
  port_store 8080 = [x1f; x90].
Proof. vm_compute. repeat split; reflexivity. Qed.
