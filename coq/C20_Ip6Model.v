(* C20_Ip6Model: inet_ntop(AF_INET6) / inet_pton(AF_INET6) as specifications of the platform
   functions muduo delegates to (RFC 5952 text: lower-case hex groups without leading zeros,
   the leftmost longest run of two or more zero groups replaced by "::", dotted quad for
   IPv4-compatible / IPv4-mapped addresses; reader: every compression form RFC 4291 allows).
   No proofs.  Compared with glibc on structured and random addresses / texts by the harness. *)
From Coq Require Import List ZArith Bool Arith NArith.
From Coq.Strings Require Import Byte.
From Muduo Require Import Base_Bytes C20_Model C20_NetModel.
Import ListNotations.
Local Open Scope Z_scope.

(* ---- 16 bytes <-> 8 words ---- *)
Fixpoint words (l : list byte) : list Z :=
  match l with
  | h :: lo :: r => (Z_of_byte h * 256 + Z_of_byte lo) :: words r
  | _ => []
  end.
Definition bytes_of_words (ws : list Z) : list byte :=
  flat_map (fun w => [byte_of_Z (w / 256); byte_of_Z (w mod 256)]) ws.

(* ---- hex groups ---- *)
Definition hexdigit (d : Z) : byte := byte_of_Z (if d <? 10 then 48 + d else 87 + d).
Definition hexval (b : byte) : option Z :=
  let c := Z_of_byte b in
  if (48 <=? c) && (c <=? 57) then Some (c - 48)
  else if (97 <=? c) && (c <=? 102) then Some (c - 87)
  else if (65 <=? c) && (c <=? 70) then Some (c - 55)
  else None.

(* "%x" of a 16-bit word *)
Definition hex16 (w : Z) : list byte :=
  let d3 := hexdigit (w / 4096) in let d2 := hexdigit ((w / 256) mod 16) in
  let d1 := hexdigit ((w / 16) mod 16) in let d0 := hexdigit (w mod 16) in
  if w <? 16 then [d0] else if w <? 256 then [d1; d0] else if w <? 4096 then [d2; d1; d0] else [d3; d2; d1; d0].

Fixpoint hex_acc (l : list byte) (acc : Z) : option Z :=
  match l with
  | [] => Some acc
  | b :: r => match hexval b with Some d => hex_acc r (acc * 16 + d) | None => None end
  end.
(* one to four hex digits, either case *)
Definition parse_hex16 (f : list byte) : option Z :=
  match f with
  | [] => None
  | _ => if (length f <=? 4)%nat then hex_acc f 0 else None
  end.

(* ---- the run of zero groups "::" stands for: leftmost longest, at least two ---- *)
Fixpoint zlen (ws : list Z) : nat :=
  match ws with
  | w :: r => if w =? 0 then S (zlen r) else O
  | [] => O
  end.
Fixpoint best_from (ws : list Z) (i : nat) : option (nat * nat) :=
  match ws with
  | [] => None
  | _ :: r =>
    let here := zlen ws in
    match best_from r (S i) with
    | Some (b, l) => if (here <? l)%nat then Some (b, l) else if (2 <=? here)%nat then Some (i, here) else Some (b, l)
    | None => if (2 <=? here)%nat then Some (i, here) else None
    end
  end.
Definition best_run (ws : list Z) : option (nat * nat) := best_from ws 0.

Definition dcolon : list byte := [ch_colon; ch_colon].

(* inet_ntop(AF_INET6, a) for 16 bytes a *)
Definition ntop6 (a : list byte) : list byte :=
  let ws := words a in
  match best_run ws with
  | None => join ch_colon (map hex16 ws)
  | Some (b, l) =>
    if (b =? 0)%nat && ((l =? 6)%nat || ((l =? 5)%nat && (nth 5 ws 0 =? 65535))) then
      dcolon ++ (if (l =? 5)%nat then hex16 65535 ++ [ch_colon] else []) ++ ntop4 (skipn 12 a)
    else join ch_colon (map hex16 (firstn b ws)) ++ dcolon ++ join ch_colon (map hex16 (skipn (b + l) ws))
  end.

(* ---- reader ---- *)
Definition is_colon (b : byte) : bool := Byte.eqb b ch_colon.

(* split at the first "::" *)
Fixpoint split_dcolon (l : list byte) : option (list byte * list byte) :=
  match l with
  | a :: t =>
    match t with
    | b :: r => if is_colon a && is_colon b then Some ([], r)
                else match split_dcolon t with Some (x, y) => Some (a :: x, y) | None => None end
    | [] => None
    end
  | [] => None
  end.

Definition has_dot (f : list byte) : bool := existsb (fun b => Byte.eqb b ch_dot) f.

(* the words of a colon-separated side; a dotted quad is allowed as its last field when [v4] *)
Fixpoint side_words (v4 : bool) (fs : list (list byte)) : option (list Z) :=
  match fs with
  | [] => Some []
  | [f] =>
    if v4 && has_dot f then
      match pton4 f with Some q => Some (words q) | None => None end
    else match parse_hex16 f with Some w => Some [w] | None => None end
  | f :: r =>
    match parse_hex16 f, side_words v4 r with
    | Some w, Some ws => Some (w :: ws)
    | _, _ => None
    end
  end.
Definition parse_side (v4 : bool) (s : list byte) : option (list Z) :=
  match s with [] => Some [] | _ => side_words v4 (split_all ch_colon s) end.

(* inet_pton(AF_INET6, text) *)
Definition pton6 (text : list byte) : option (list byte) :=
  match split_dcolon text with
  | None =>
    match parse_side true text with
    | Some ws => if (length ws =? 8)%nat then Some (bytes_of_words ws) else None
    | None => None
    end
  | Some (L, R) =>
    match parse_side false L, parse_side true R with
    | Some wl, Some wr =>
      if (length wl + length wr <=? 7)%nat
      then Some (bytes_of_words (wl ++ repeat 0 (8 - length wl - length wr) ++ wr)) else None
    | _, _ => None
    end
  end.
