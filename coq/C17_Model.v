(* C17_Model: executable model of muduo's log formatting
   (muduo/base/LogStream.{h,cc}, Logging.{h,cc}, the tid text of Thread.cc).
   Written as the code is: digit generation least-significant digit first through the
   symmetric table with C++ truncating division (Z.quot / Z.rem), sign, reverse; every
   store the C++ performs into FixedBuffer::data_ goes through the bounds-checked [poke]
   (a store or a cursor position outside data_ is [Fault]); an argument that is not a value
   of the C++ parameter type is [Rejected].
   Tables, fit tests, level gates and the formatSI/formatIEC ladders come from Gen_C17
   (regenerated from the sources on every run).  No proofs in this file. *)
From Coq Require Import List ZArith Lia Bool Arith NArith.
From Coq.Strings Require Import Byte.
From Muduo Require Import Base_Bytes Gen_Consts Gen_C17.
Import ListNotations.
Local Open Scope Z_scope.

Inductive res (A : Type) : Type :=
| Ok (a : A)
| Rejected   (* not a value of the parameter type *)
| Fault.     (* store / cursor outside data_, or out of fuel: a bug *)
Arguments Ok {A} a.
Arguments Rejected {A}.
Arguments Fault {A}.

Definition kMaxNumericSize : nat := Z.to_nat Gen_Consts.LogStream_kMaxNumericSize.
Definition kSmallBuffer    : nat := Z.to_nat Gen_Consts.LogStream_kSmallBuffer.
Definition kLargeBuffer    : nat := Z.to_nat Gen_Consts.LogStream_kLargeBuffer.

(* ---- detail::convert / convertHex, LogStream.cc:47-85 ---------------------- *)

(* zero[lsd] with zero = digits + zero_off; lsd in -9..9 *)
Definition zero_at (lsd : Z) : byte := nth (Z.to_nat (zero_off + lsd)) digits x00.
Definition hex_at (lsd : Z) : byte := nth (Z.to_nat lsd) digitsHex x00.

(* do { lsd = i % base; i /= base; *p++ = tab[lsd]; } while (i != 0);   (digits LSD first) *)
Fixpoint conv_loop (tab : Z -> byte) (base : Z) (fuel : nat) (i : Z) : option (list byte) :=
  match fuel with
  | O => None
  | S f =>
      let lsd := Z.rem i base in
      let i' := Z.quot i base in
      if i' =? 0 then Some [tab lsd]
      else match conv_loop tab base f i' with
           | Some r => Some (tab lsd :: r)
           | None => None
           end
  end.

Definition conv_fuel (v : Z) : nat := S (Z.to_nat (Z.log2 (Z.abs v))).

(* the characters convert() leaves in buf[0..len): digits, then '-' if value < 0, reversed.
   (It also stores a NUL at buf[len]: see [put_numeric].) *)
Definition convert_opt (v : Z) : option (list byte) :=
  match conv_loop zero_at 10 (conv_fuel v) v with
  | Some ds => Some (rev (ds ++ (if v <? 0 then [x2d] else [])))
  | None => None
  end.
Definition convert (v : Z) : list byte :=
  match convert_opt v with Some s => s | None => [] end.

Definition convertHex_opt (v : Z) : option (list byte) :=
  match conv_loop hex_at 16 (conv_fuel v) v with
  | Some ds => Some (rev ds)
  | None => None
  end.
Definition convertHex (v : Z) : list byte :=
  match convertHex_opt v with Some s => s | None => [] end.

(* ---- FixedBuffer<SIZE>, LogStream.h:24-77 ---------------------------------- *)

Record fbuf := mkF {
  cap  : nat;          (* sizeof data_ *)
  data : list byte     (* data_[0 .. cur_) *)
}.
Definition empty (c : nat) : fbuf := mkF c [].
Definition flen (b : fbuf) : nat := length (data b).          (* length() *)
Definition avail (b : fbuf) : nat := cap b - flen b.           (* avail()  *)

(* store [bytes] at cur_, then cur_ += adv.  Everything stored must lie inside data_, the
   cursor must stay inside, and it must not move over bytes that were not stored. *)
Definition poke (b : fbuf) (bytes : list byte) (adv : nat) : res fbuf :=
  if ((flen b + length bytes <=? cap b) && (adv <=? length bytes))%nat
  then Ok (mkF (cap b) (data b ++ firstn adv bytes))
  else Fault.

Definition append_fits (av len : nat) : bool := (len <? av)%nat.         (* avail() > len *)
Definition numeric_fits (av : nat) : bool := (kMaxNumericSize <=? av)%nat. (* avail() >= kMaxNumericSize *)

(* append(buf, len) *)
Definition append (b : fbuf) (s : list byte) : res fbuf :=
  if append_fits (avail b) (length s) then poke b s (length s) else Ok b.

(* formatInteger / operator<<(const void* ): text generated in place followed by a NUL *)
Definition put_numeric (b : fbuf) (s : list byte) : res fbuf :=
  if numeric_fits (avail b) then poke b (s ++ [x00]) (length s) else Ok b.

(* operator<<(double): len = snprintf(current(), kMaxNumericSize, "%.12g", v); add(len).
   snprintf stores at most kMaxNumericSize-1 characters and a NUL, and returns the full length. *)
Definition put_double (b : fbuf) (t : list byte) : res fbuf :=
  if numeric_fits (avail b)
  then poke b (firstn (kMaxNumericSize - 1) t ++ [x00]) (length t)
  else Ok b.

(* debugString(): *cur_ = '\0' *)
Definition debugString (b : fbuf) : res fbuf := poke b [x00] 0.

(* ---- LogStream operators as item producers --------------------------------- *)

Inductive ity := TShort | TUShort | TInt | TUInt | TLong | TULong | TLongLong | TULongLong.

Definition ity_lo (t : ity) : Z :=
  match t with
  | TShort => - 2 ^ 15 | TInt => - 2 ^ 31 | TLong | TLongLong => - 2 ^ 63
  | TUShort | TUInt | TULong | TULongLong => 0
  end.
Definition ity_hi (t : ity) : Z :=   (* exclusive *)
  match t with
  | TShort => 2 ^ 15 | TUShort => 2 ^ 16 | TInt => 2 ^ 31 | TUInt => 2 ^ 32
  | TLong | TLongLong => 2 ^ 63 | TULong | TULongLong => 2 ^ 64
  end.

Inductive item :=
| IBool (v : bool)
| IChar (c : byte)
| ICStr (s : option (list byte))   (* const char*: None = NULL; otherwise the bytes up to the first NUL count *)
| IStr (s : list byte)             (* std::string / StringPiece / append(data, len): any bytes *)
| IInt (t : ity) (v : Z)           (* short and unsigned short are widened to int / unsigned first: value kept *)
| IPtr (p : Z)                     (* const void*, as uintptr_t *)
| IDouble (d : Z)                  (* a double (float is widened first), identified by its 64 bits *)
| IFmt (s : list byte).            (* Fmt(fmt, val): the bytes its snprintf produced; the constructor asserts length < sizeof buf_ *)

Definition item_ok (it : item) : bool :=
  match it with
  | IInt t v => (ity_lo t <=? v) && (v <? ity_hi t)
  | IPtr p => (0 <=? p) && (p <? 2 ^ 64)
  | IDouble d => (0 <=? d) && (d <? 2 ^ 64)
  | IFmt s => Z.of_nat (length s) <? Fmt_buf_size         (* assert(size_t(length_) < sizeof buf_) *)
  | _ => true
  end.

Fixpoint until_nul (s : list byte) : list byte :=     (* strlen *)
  match s with
  | [] => []
  | c :: r => if Byte.eqb c x00 then [] else c :: until_nul r
  end.

Definition null_text : list byte := null_text_gen.   (* "(null)": the literal operator<<(const char* ) appends for NULL, regenerated *)

Section Stream.
  (* snprintf("%.12g") of the double with these 64 bits: an oracle (glibc), DESIGN 3.4 *)
  Variable fmt_g : Z -> list byte.

  (* what the item contributes when it fits *)
  Definition item_text (it : item) : list byte :=
    match it with
    | IBool v => if v then bool_true_text else bool_false_text     (* v ? "1" : "0", regenerated *)
    | IChar c => [c]
    | ICStr None => null_text
    | ICStr (Some s) => until_nul s
    | IStr s => s
    | IInt _ v => convert v
    | IPtr p => x30 :: x78 :: convertHex p
    | IDouble d => fmt_g d
    | IFmt s => s
    end.

  Definition is_numeric (it : item) : bool :=
    match it with IInt _ _ | IPtr _ | IDouble _ => true | _ => false end.

  Definition put (b : fbuf) (it : item) : res fbuf :=
    if negb (item_ok it) then Rejected else
    match it with
    | IDouble d => put_double b (fmt_g d)
    | IInt _ _ | IPtr _ => put_numeric b (item_text it)
    | _ => append b (item_text it)
    end.

  Fixpoint run (b : fbuf) (items : list item) : res fbuf :=
    match items with
    | [] => Ok b
    | it :: r => match put b it with
                 | Ok b' => run b' r
                 | Rejected => Rejected
                 | Fault => Fault
                 end
    end.

  (* the specification side of "only whole items are left out": which items fit *)
  Definition fits (c len : nat) (it : item) : bool :=
    if is_numeric it then numeric_fits (c - len) else append_fits (c - len) (length (item_text it)).

  Fixpoint kept (c : nat) (acc : list byte) (items : list item) : list byte :=
    match items with
    | [] => acc
    | it :: r => if fits c (length acc) it then kept c (acc ++ item_text it) r else kept c acc r
    end.

  (* ---- Logger, Logging.cc:116-201 ------------------------------------------ *)

  Inductive level := TRACE | DEBUG | INFO | WARN | ERROR | FATAL.
  Definition level_num (l : level) : Z :=
    match l with
    | TRACE => Logger_TRACE | DEBUG => Logger_DEBUG | INFO => Logger_INFO
    | WARN => Logger_WARN | ERROR => Logger_ERROR | FATAL => Logger_FATAL
    end.
  Definition level_name (l : level) : list byte := nth (Z.to_nat (level_num l)) LogLevelName [].

  Inductive macro := LOG_TRACE | LOG_DEBUG | LOG_INFO | LOG_WARN | LOG_ERROR | LOG_FATAL
                   | LOG_SYSERR | LOG_SYSFATAL.

  (* the `if (Logger::logLevel() <= Logger::X)` in front of LOG_TRACE / LOG_DEBUG / LOG_INFO *)
  Definition macro_emits (m : macro) (cfg : level) : bool :=
    match m with
    | LOG_TRACE => level_num cfg <=? level_num TRACE
    | LOG_DEBUG => level_num cfg <=? level_num DEBUG
    | LOG_INFO  => level_num cfg <=? level_num INFO
    | _ => true
    end.
  Definition macro_level (m : macro) : level :=
    match m with
    | LOG_TRACE => TRACE | LOG_DEBUG => DEBUG | LOG_INFO => INFO | LOG_WARN => WARN
    | LOG_ERROR | LOG_SYSERR => ERROR | LOG_FATAL | LOG_SYSFATAL => FATAL
    end.
  (* LOG_TRACE and LOG_DEBUG use the constructor that also streams __func__ and ' ' *)
  Definition macro_has_func (m : macro) : bool :=
    match m with LOG_TRACE | LOG_DEBUG => true | _ => false end.

  (* SourceFile: data_ = after the last '/' (strrchr), the whole path if there is none *)
  Definition basename (p : list byte) : list byte :=
    fold_left (fun acc c => if Byte.eqb c x2f then [] else acc ++ [c]) p [].

  (* printf "%<w>d" with blank or zero padding, for v >= 0 *)
  Definition pad (c : byte) (w : nat) (s : list byte) : list byte := repeat c (w - length s) ++ s.
  Definition fmt_d (c : byte) (w : nat) (v : Z) : list byte := pad c w (convert v).

  Record datetime := mkDT { dt_year : Z; dt_month : Z; dt_day : Z; dt_hour : Z; dt_minute : Z; dt_second : Z }.

  (* "%4d%02d%02d %02d:%02d:%02d" *)
  Definition time_text (d : datetime) : list byte :=
    fmt_d x20 4 (dt_year d) ++ fmt_d x30 2 (dt_month d) ++ fmt_d x30 2 (dt_day d) ++ [x20] ++
    fmt_d x30 2 (dt_hour d) ++ [x3a] ++ fmt_d x30 2 (dt_minute d) ++ [x3a] ++ fmt_d x30 2 (dt_second d).

  (* snprintf / Fmt restricted to the conversions %d, %<w>d, %0<w>d (w one digit), every other byte
     copied: enough for the REGENERATED formats of Logger::Impl::formatTime (Gen_C17.time_format,
     us_format_zone, us_format_utc; the generator refuses any other conversion).  The format is
     first cut into pieces, then the pieces are rendered with the arguments. *)
  Inductive piece := PLit (c : byte) | PDec (padc : option byte) (w : nat).
  Definition width_of (w : byte) : nat := Z.to_nat (Z_of_byte w - 48).
  Fixpoint parse_fmt (fmt : list byte) {struct fmt} : list piece :=
    match fmt with
    | [] => []
    | c :: rest =>
        if Byte.eqb c x25 then
          match rest with
          | [] => [PLit c]
          | f :: rest1 =>
              if Byte.eqb f x64 then PDec None 0 :: parse_fmt rest1
              else match rest1 with
                   | [] => PLit c :: parse_fmt rest
                   | g :: rest2 =>
                       if Byte.eqb g x64 then PDec (Some x20) (width_of f) :: parse_fmt rest2
                       else match rest2 with
                            | [] => PLit c :: parse_fmt rest
                            | h :: rest3 =>
                                if Byte.eqb f x30 && Byte.eqb h x64
                                then PDec (Some x30) (width_of g) :: parse_fmt rest3
                                else PLit c :: parse_fmt rest
                            end
                   end
          end
        else PLit c :: parse_fmt rest
    end.
  Fixpoint render_pieces (ps : list piece) (args : list Z) : list byte :=
    match ps with
    | [] => []
    | PLit c :: r => c :: render_pieces r args
    | PDec pc w :: r =>
        match args with
        | a :: ar => (match pc with Some c => fmt_d c w a | None => convert a end) ++ render_pieces r ar
        | [] => []
        end
    end.
  Definition mini_printf (fmt : list byte) (args : list Z) : list byte := render_pieces (parse_fmt fmt) args.

  (* per-thread cache t_lastSecond / t_time, Logging.cc:38-40 (zero-initialised, char t_time[64]) *)
  Record tls := mkTLS { lastSecond : Z; t_time : list byte }.
  Definition tls0 : tls := mkTLS 0 (repeat x00 (Z.to_nat Logging_t_time_size)).
  Definition dt_fields (d : datetime) : list Z :=
    [dt_year d; dt_month d; dt_day d; dt_hour d; dt_minute d; dt_second d].
  (* snprintf(t_time, sizeof(t_time), time_format, year, month, day, hour, minute, second) *)
  Definition cached_time_text (d : datetime) : list byte :=
    firstn (Z.to_nat Logging_t_time_size - 1) (mini_printf time_format (dt_fields d)).

  (* CurrentThread::cacheTid: "%5d " *)
  Definition tid_text (tid : Z) : list byte := fmt_d x20 5 tid ++ [x20].

  Record logreq := mkReq {
    lq_seconds : Z;                 (* time_ / 1000000 *)
    lq_micros : Z;                  (* time_ % 1000000 *)
    lq_zone : bool;                 (* g_logTimeZone.valid() *)
    lq_dt : datetime;               (* toLocalTime / toUtcTime of lq_seconds (C20) *)
    lq_tid : Z;
    lq_level : level;
    lq_errno : option (Z * list byte);      (* savedErrno <> 0 with strerror_tl's text *)
    lq_func : option (list byte);           (* __func__ for the TRACE/DEBUG constructor *)
    lq_path : list byte;                    (* __FILE__ *)
    lq_line : Z;
    lq_msg : list item
  }.

  (* Impl::formatTime: `if (seconds != t_lastSecond)` refresh the cached text of the second; then,
     per branch of `if (g_logTimeZone.valid())`, Fmt us(<format>, microseconds) and
     stream_ << T(t_time, <n>) << T(us.data(), <m>) -- formats and lengths regenerated (Gen_C17) *)
  Definition format_time (th : tls) (r : logreq) : tls * list item :=
    let th' := if lq_seconds r =? lastSecond th then th
               else mkTLS (lq_seconds r) (cached_time_text (lq_dt r)) in
    let us := mini_printf (if lq_zone r then us_format_zone else us_format_utc) [lq_micros r] in
    (th', [IStr (firstn (Z.to_nat (if lq_zone r then time_len_zone else time_len_utc)) (t_time th'));
           IStr (firstn (Z.to_nat (if lq_zone r then us_len_zone else us_len_utc)) us)]).

  Definition prefix_items (th : tls) (r : logreq) : tls * list item :=
    let '(th', tm) := format_time th r in
    (th', tm ++ [IStr (tid_text (lq_tid r)); IStr (firstn 6 (level_name (lq_level r)))] ++
          (match lq_errno r with
           | Some (e, txt) => [ICStr (Some txt); ICStr (Some [x20;x28;x65;x72;x72;x6e;x6f;x3d]);
                               IInt TInt e; ICStr (Some [x29;x20])]
           | None => []
           end) ++
          (match lq_func r with
           | Some f => [ICStr (Some f); IChar x20]
           | None => []
           end)).

  (* Impl::finish: stream_ << " - " << basename_ << ':' << line_ << '\n' *)
  Definition suffix_items (r : logreq) : list item :=
    [ICStr (Some [x20;x2d;x20]); IStr (basename (until_nul (lq_path r))); IChar x3a; IInt TInt (lq_line r); IChar x0a].

  (* one Logger temporary: everything goes through the LogStream of kSmallBuffer bytes *)
  Definition log_line (th : tls) (r : logreq) : tls * res fbuf :=
    let '(th', pre) := prefix_items th r in
    (th', run (empty kSmallBuffer) (pre ++ lq_msg r ++ suffix_items r)).
End Stream.

(* ---- formatSI / formatIEC, LogStream.cc:102-203, in exact integer arithmetic ---- *)

(* q + r/den rounded to the nearest integer, ties to even (0 <= r < den) *)
Definition rhe (q r den : Z) : Z :=
  if 2 * r <? den then q
  else if den <? 2 * r then q + 1
  else if Z.even q then q else q + 1.

(* the rational num/den (den > 0) rounded to the nearest integer, ties to even: the one rounding
   primitive of this section (IEEE-754 roundTiesToEven on a scaled significand, and printf's
   correctly rounded %.<p>f) *)
Definition rne (num den : Z) : Z := rhe (num / den) (num mod den) den.

(* static_cast<double>(s) for 0 <= s: exact below 2^53; otherwise the significand s / 2^e with
   e = floor(log2 s) - 52 is rounded to 53 bits.  The result is an integer. *)
Definition to_double (s : Z) : Z :=
  if s <? 2 ^ 53 then s
  else let p := 2 ^ (Z.log2 s - 52) in rne s p * p.

(* IEEE binary64 quotient a / b of two positive integers (normal range, no overflow/underflow:
   the operands are below 2^64): the result is m * 2^e with 2^52 <= m <= 2^53.
   a'/b' = (a/b) * 2^k lies in (2^52, 2^54); one more bit is dropped when it is not below 2^53. *)
Definition div_double (a b : Z) : Z * Z :=
  if a <=? 0 then (0, 0) else
  let k := 53 + Z.log2 b - Z.log2 a in
  let a' := if 0 <=? k then a * 2 ^ k else a in
  let b' := if 0 <=? k then b else b * 2 ^ (- k) in
  if a' <? 2 ^ 53 * b' then (rne a' b', - k) else (rne a' (2 * b'), 1 - k).

(* printf "%.<p>f" of x = m * 2^e >= 0: the exact value rounded half-even to p decimals, as the
   integer x * 10^p rounded (glibc rounds the exact binary value correctly, in the current rounding
   mode = to nearest even) *)
Definition fixed_scaled (p : Z) (x : Z * Z) : Z :=
  let '(m, e) := x in
  let num := m * 10 ^ p in
  if 0 <=? e then num * 2 ^ e else rne num (2 ^ (- e)).

Definition fixed_text (p : Z) (x : Z * Z) : list byte :=
  let k := fixed_scaled p x in
  let ip := k / 10 ^ p in
  let fp := k mod 10 ^ p in
  if p =? 0 then convert ip
  else convert ip ++ [x2e] ++ repeat x30 (Z.to_nat p - length (convert fp)) ++ convert fp.

Definition render (f : rung_fmt) (s : Z) : list byte :=
  match f with
  | RInt => convert s
  | RFix p d u => fixed_text p (div_double (to_double s) d) ++ u
  end.

(* the ladder: OnInt tests the integer s, OnDouble tests n = double(s); x < num/den for den > 0 *)
Fixpoint select (s : Z) (l : list (rung_test * rung_fmt)) : rung_fmt :=
  match l with
  | [] => RInt
  | (OnInt num den, f) :: r => if s * den <? num then f else select s r
  | (OnDouble num den, f) :: r => if to_double s * den <? num then f else select s r
  | (Else, f) :: _ => f
  end.

Definition formatSI (s : Z) : list byte := render (select s si_ladder) s.
Definition formatIEC (s : Z) : list byte := render (select s iec_ladder) s.

(* ---- snprintf("%.12g") of a binary64, LogStream.cc operator<<(double) ------------------------ *)

(* the positive rational N/D against a power of ten *)
Definition ge_pow10 (N D X : Z) : bool :=            (* 10^X <= N/D *)
  if 0 <=? X then D * 10 ^ X <=? N else D <=? N * 10 ^ (- X).
Definition dec_exp_ok (N D X : Z) : bool :=          (* 10^X <= N/D < 10^(X+1), X in the range of doubles *)
  (-400 <=? X) && (X <=? 400) && ge_pow10 N D X && negb (ge_pow10 N D (X + 1)).
(* first X >= lo with N/D < 10^(X+1) *)
Fixpoint slow_exp (N D : Z) (fuel : nat) (lo : Z) : Z :=
  match fuel with
  | O => lo
  | S f => if ge_pow10 N D (lo + 1) then slow_exp N D f (lo + 1) else lo
  end.
(* floor(log10 (N/D)): a candidate from the binary logarithms, accepted only if it checks;
   otherwise (never, in fact) the plain search over the whole range of doubles *)
Definition dec_exp (N D : Z) : Z :=
  let b := Z.log2 N - Z.log2 D in
  let X0 := b * 30103 / 100000 in
  match find (dec_exp_ok N D) [X0; X0 - 1; X0 + 1; X0 - 2; X0 + 2] with
  | Some X => X
  | None => slow_exp N D 640 (-330)
  end.

(* x = N/D > 0 rounded to 12 significant decimal digits, ties to even: (k, X) with
   10^11 <= k < 10^12 and value k * 10^(X-11) *)
Definition round12 (N D : Z) : Z * Z :=
  let X := dec_exp N D in
  let s := 11 - X in
  let k := if 0 <=? s then rne (N * 10 ^ s) D else rne N (D * 10 ^ (- s)) in
  if k =? 10 ^ 12 then (10 ^ 11, X + 1) else (k, X).

Fixpoint drop_zeros (l : list byte) : list byte :=   (* leading '0's *)
  match l with c :: r => if Byte.eqb c x30 then drop_zeros r else l | [] => [] end.
Definition strip0 (l : list byte) : list byte := rev (drop_zeros (rev l)).   (* trailing '0's *)
Definition with_point (ip fr : list byte) : list byte := ip ++ (match fr with [] => [] | _ => x2e :: fr end).

(* the %g rule with P = 12 (C11 7.21.6.1): style f with precision P-1-X if P > X >= -4, else
   style e with precision P-1; trailing zeros and a bare decimal point removed *)
Definition g12_text (k X : Z) : list byte :=
  let ds := convert k in
  if (-4 <=? X) && (X <? 12) then
    if 0 <=? X then with_point (firstn (Z.to_nat (X + 1)) ds) (strip0 (skipn (Z.to_nat (X + 1)) ds))
    else with_point [x30] (strip0 (repeat x30 (Z.to_nat (- X - 1)) ++ ds))
  else with_point (firstn 1 ds) (strip0 (skipn 1 ds)) ++
       [x65; if X <? 0 then x2d else x2b] ++ pad x30 2 (convert (Z.abs X)).

Definition fmt_g12 (bits : Z) : list byte :=
  let sign := if bits / 2 ^ 63 mod 2 =? 1 then [x2d] else [] in
  let expo := bits / 2 ^ 52 mod 2 ^ 11 in
  let frac := bits mod 2 ^ 52 in
  sign ++
  if expo =? 2047 then (if frac =? 0 then [x69; x6e; x66] else [x6e; x61; x6e])
  else
    let m := if expo =? 0 then frac else 2 ^ 52 + frac in
    let e := if expo =? 0 then -1074 else expo - 1075 in
    if m =? 0 then [x30]
    else let N := if 0 <=? e then m * 2 ^ e else m in
         let D := if 0 <=? e then 1 else 2 ^ (- e) in
         let '(k, X) := round12 N D in g12_text k X.

(* the stream with the %.12g text of the model *)
Definition put12 := put fmt_g12.
Definition run12 := run fmt_g12.
Definition log_line12 := log_line fmt_g12.

(* ---- CurrentThread's per-thread tid cache (CurrentThread.h/.cc, Thread.cc:31-50,118-125) ---------
   cacheTid / tid as the code is; the atfork child handler afterFork is INTERPRETED from its regenerated
   statement list (Gen_C17.afterFork_steps), its registration is the regenerated atfork_child_registered *)
Record tidc := mkTidc { cachedTid : Z; tidString : list byte; tidStringLength : Z }.
Definition tidc0 : tidc := mkTidc cachedTid_init (repeat x00 (Z.to_nat tid_string_size)) tidStringLength_init.
(* cacheTid(): if (t_cachedTid == 0) { t_cachedTid = gettid(); t_tidStringLength = snprintf(t_tidString, sizeof .., tid_format, t_cachedTid); } *)
Definition cacheTid (k : Z) (c : tidc) : tidc :=
  if cachedTid c =? 0
  then let s := mini_printf tid_format [k] in mkTidc k (firstn (Z.to_nat tid_string_size - 1) s) (Z.of_nat (length s))
  else c.
(* tid(): if (t_cachedTid == 0) cacheTid(); *)
Definition tid_call (k : Z) (c : tidc) : tidc := if cachedTid c =? 0 then cacheTid k c else c.
Definition af_step_run (k : Z) (c : tidc) (st : af_step) : tidc :=
  match st with
  | AfZeroTid => mkTidc 0 (tidString c) (tidStringLength c)
  | AfSetTid => mkTidc k (tidString c) (tidStringLength c)
  | AfCallTid => tid_call k c
  | AfCacheTid => cacheTid k c
  | AfOther => c
  end.
(* the child handler registered with pthread_atfork, run in the forked child (kernel tid k) *)
Definition after_fork (k : Z) (c : tidc) : tidc := fold_left (af_step_run k) afterFork_steps c.
(* Logger::Impl::Impl: CurrentThread::tid(); stream_ << T(tidString(), tidStringLength()) *)
Definition logged_tid (k : Z) (c : tidc) : tidc * list byte :=
  let c' := tid_call k c in (c', firstn (Z.to_nat (tidStringLength c')) (tidString c')).
(* the life of one thread's thread-local state: it logs; it forks and we follow the child (TLS copied,
   new kernel tid, atfork child handler); it starts a thread and we follow that thread (fresh TLS) *)
Inductive hop := HLog | HFork (k' : Z) | HSpawn (k' : Z).
Fixpoint lineage (k : Z) (c : tidc) (h : list hop) : list (Z * list byte) :=
  match h with
  | [] => []
  | HLog :: r => (k, snd (logged_tid k c)) :: lineage k (fst (logged_tid k c)) r
  | HFork k' :: r => lineage k' (if atfork_child_registered then after_fork k' c else c) r
  | HSpawn k' :: r => lineage k' tidc0 r
  end.
