(* Link_Properties_L2: umbrella of link L2 (one EventLoop iteration over its parts); the statements live
   in Link_Properties_L2a.v (C09 over C04: queue and wake-up) and Link_Properties_L2b.v (C09 over C06:
   timers, the combined blocks-iff and progress statements), which are independent of each other. *)
From Muduo Require Export Link_Properties_L2a Link_Properties_L2b.
