(* C20_Proofs: calendar (lifted sweeps), UTC break-down and its inverse, POSIX formula. *)
From Coq Require Import List ZArith Bool Arith Lia.
From Muduo Require Import Gen_C20 C20_Model C20_SweepDefs C20_Sweep.
Import ListNotations.
Local Open Scope Z_scope.

(* ------------------------------------------------------------------ calendar *)

Lemma ymd_of_jdn j : jdn_first <= j <= jdn_last ->
  exists y m d, getYearMonthDay j = (y, m, d) /\ valid_date y m d = true /\
                getJulianDayNumber y m d = j /\ getYearMonthDay_fits j = true.
Proof.
  intros Hj. pose proof (chk_jdn_all j Hj) as H. unfold chk_jdn in H.
  destruct (Z.ltb_spec jdn_last j) as [Hgt|_]; [lia|]. cbn [orb] in H.
  destruct (getYearMonthDay j) as [[y m] d].
  rewrite !andb_true_iff, Z.eqb_eq in H. destruct H as [[Hv He] Hf].
  exists y, m, d. auto.
Qed.

Lemma jdn_of_ymd y m d : valid_date y m d = true ->
  let j := getJulianDayNumber y m d in
  j = jdn_first + greg_day_count y m d /\ jdn_first <= j <= jdn_last /\
  getYearMonthDay j = (y, m, d) /\ getJulianDayNumber_fits y m d = true /\
  weekDay j = spec_weekday y m d /\ weekDay_fits j = true.
Proof.
  intros Hv. pose proof (chk_ymd_all y m d Hv) as H. unfold chk_ymd in H. cbv zeta in H.
  rewrite !andb_true_iff, !Z.eqb_eq, !Z.leb_le in H.
  destruct H as [[[[[[H1 H2] H3] H4] H5] H6] H7].
  cbv zeta. repeat split; auto.
  apply triple_eqb_eq; exact H4.
Qed.

Lemma jdn_injective y m d y' m' d' :
  valid_date y m d = true -> valid_date y' m' d' = true ->
  getJulianDayNumber y m d = getJulianDayNumber y' m' d' -> (y, m, d) = (y', m', d').
Proof.
  intros H1 H2 He.
  destruct (jdn_of_ymd _ _ _ H1) as (_ & _ & E1 & _).
  destruct (jdn_of_ymd _ _ _ H2) as (_ & _ & E2 & _).
  rewrite <- E1, <- E2, He. reflexivity.
Qed.

(* 1970-01-01 *)
Lemma j1970_eq : Date_kJulianDayOf1970_01_01 = jdn_first + greg_day_count 1970 1 1.
Proof.
  unfold Date_kJulianDayOf1970_01_01.
  assert (Hv : valid_date 1970 1 1 = true) by reflexivity.
  destruct (jdn_of_ymd _ _ _ Hv) as (E & _). exact E.
Qed.

Lemma j1970_val : Date_kJulianDayOf1970_01_01 = 2440588.
Proof. vm_compute. reflexivity. Qed.

(* ------------------------------------------------------------------ UTC break-down *)

Lemma kSecondsPerDay_val : kSecondsPerDay = 86400.
Proof. reflexivity. Qed.

Ltac zdm := Z.div_mod_to_equations.
Ltac zqr := Z.quot_rem_to_equations.

(* C's truncating / and % followed by the correction of BreakTime = floor division *)
Lemma trunc_fix t :
  (if Z.rem t 86400 <? 0 then (Z.rem t 86400 + 86400, Z.quot t 86400 - 1)
   else (Z.rem t 86400, Z.quot t 86400)) = (t mod 86400, t / 86400).
Proof.
  destruct (Z.ltb_spec (Z.rem t 86400) 0) as [Hn|Hp]; f_equal; zqr; zdm; lia.
Qed.

Lemma fillHMS_spec s : 0 <= s < 86400 ->
  fillHMS (wrap_u32 s) = (s / 3600, (s / 60) mod 60, s mod 60).
Proof.
  intros Hs. unfold wrap_u32. rewrite (Z.mod_small s) by lia.
  unfold fillHMS. cbv zeta.
  assert (Hq : Z.quot s 60 = s / 60) by (apply Z.quot_div_nonneg; lia).
  assert (Hm : 0 <= s / 60) by (apply Z.div_pos; lia).
  rewrite Hq. rewrite (Z.rem_mod_nonneg s 60), (Z.rem_mod_nonneg (s / 60) 60) by lia.
  rewrite (Z.quot_div_nonneg (s / 60) 60) by lia.
  rewrite Z.div_div by lia. reflexivity.
Qed.

Lemma BreakTime_spec t :
  BreakTime t =
  let s := t mod 86400 in
  let '(y, m, d) := getYearMonthDay (t / 86400 + Date_kJulianDayOf1970_01_01) in
  (y, m, d, s / 3600, (s / 60) mod 60, s mod 60).
Proof.
  unfold BreakTime. cbv zeta. rewrite kSecondsPerDay_val.
  pose proof (trunc_fix t) as Hf.
  destruct (Z.ltb_spec (Z.rem t 86400) 0) as [Hn|Hp]; cbv zeta;
    injection Hf as Hs Hd; rewrite Hs, Hd;
    (rewrite fillHMS_spec by (apply Z.mod_pos_bound; lia));
    destruct (getYearMonthDay (t / 86400 + Date_kJulianDayOf1970_01_01)) as [[y m] d]; reflexivity.
Qed.

Lemma fromUtcTime_spec y m d h mi s :
  fromUtcTime y m d h mi s =
  (getJulianDayNumber y m d - Date_kJulianDayOf1970_01_01) * 86400 + (h * 3600 + mi * 60 + s).
Proof. reflexivity. Qed.

Lemma utc_range_days t : utc_first <= t < utc_end ->
  jdn_first <= t / 86400 + Date_kJulianDayOf1970_01_01 <= jdn_last.
Proof.
  unfold utc_first, utc_end. rewrite j1970_val. unfold jdn_first, jdn_last. intros H. zdm. lia.
Qed.

Lemma hms_recompose s : 0 <= s < 86400 ->
  s / 3600 * 3600 + (s / 60) mod 60 * 60 + s mod 60 = s.
Proof. intros H. zdm. lia. Qed.

Lemma hms_ranges s : 0 <= s < 86400 ->
  0 <= s / 3600 <= 23 /\ 0 <= (s / 60) mod 60 <= 59 /\ 0 <= s mod 60 <= 59.
Proof. intros H. zdm. lia. Qed.

(* fromUtcTime (BreakTime t) = t, fields in range *)
Lemma utc_roundtrip t : utc_first <= t < utc_end ->
  valid_datetime (break_utc t) = true /\ fromUtc (break_utc t) = t.
Proof.
  intros Ht. pose proof (utc_range_days t Ht) as Hd.
  destruct (ymd_of_jdn _ Hd) as (y & m & d & Hg & Hv & Hj & _).
  unfold break_utc. rewrite BreakTime_spec. cbv zeta. rewrite Hg.
  assert (Hs : 0 <= t mod 86400 < 86400) by (apply Z.mod_pos_bound; lia).
  destruct (hms_ranges _ Hs) as (Hh & Hmi & Hse).
  split.
  - unfold valid_datetime. cbn [year month day hour minute second]. rewrite Hv.
    rewrite !andb_true_iff, !Z.leb_le. lia.
  - unfold fromUtc. cbn [year month day hour minute second].
    rewrite fromUtcTime_spec, Hj. pose proof (hms_recompose _ Hs). zdm. lia.
Qed.

(* BreakTime (fromUtcTime dt) = dt for every valid civil time in range *)
Lemma utc_roundtrip_inv dt : valid_datetime dt = true -> break_utc (fromUtc dt) = dt.
Proof.
  destruct dt as [y m d h mi s]. unfold valid_datetime. cbn [year month day hour minute second].
  rewrite !andb_true_iff, !Z.leb_le. intros [[[[[[Hv Hh1] Hh2] Hm1] Hm2] Hs1] Hs2].
  destruct (jdn_of_ymd _ _ _ Hv) as (_ & _ & Hg & _). cbv zeta in Hg.
  unfold fromUtc, break_utc. cbn [year month day hour minute second].
  rewrite fromUtcTime_spec, BreakTime_spec. cbv zeta.
  set (J := getJulianDayNumber y m d) in *. set (K := Date_kJulianDayOf1970_01_01).
  set (sec := h * 3600 + mi * 60 + s).
  assert (Hsec : 0 <= sec < 86400) by (unfold sec; lia).
  assert (Hdiv : ((J - K) * 86400 + sec) / 86400 = J - K) by (zdm; lia).
  assert (Hmod : ((J - K) * 86400 + sec) mod 86400 = sec) by (zdm; lia).
  rewrite Hdiv, Hmod. replace (J - K + K) with J by lia. rewrite Hg.
  assert (H1 : sec / 3600 = h) by (unfold sec; zdm; lia).
  assert (H2 : (sec / 60) mod 60 = mi) by (unfold sec; zdm; lia).
  assert (H3 : sec mod 60 = s) by (unfold sec; zdm; lia).
  rewrite H1, H2, H3. reflexivity.
Qed.

Lemma fromUtc_range dt : valid_datetime dt = true -> utc_first <= fromUtc dt < utc_end.
Proof.
  destruct dt as [y m d h mi s]. unfold valid_datetime. cbn [year month day hour minute second].
  rewrite !andb_true_iff, !Z.leb_le. intros [[[[[[Hv Hh1] Hh2] Hm1] Hm2] Hs1] Hs2].
  destruct (jdn_of_ymd _ _ _ Hv) as (_ & Hr & _). cbv zeta in Hr.
  unfold fromUtc. cbn [year month day hour minute second]. rewrite fromUtcTime_spec.
  unfold utc_first, utc_end. lia.
Qed.

(* no int / long overflow in BreakTime / fromUtcTime on the range *)
Lemma fits32_intro x : -2147483648 <= x <= 2147483647 -> fits32 x = true.
Proof. intros H. unfold fits32. rewrite andb_true_iff, !Z.leb_le. lia. Qed.
Lemma fits64_intro x : -9223372036854775808 <= x <= 9223372036854775807 -> fits64 x = true.
Proof. intros H. unfold fits64. rewrite andb_true_iff, !Z.leb_le. lia. Qed.

(* ------------------------------------------------------------------ POSIX formula *)

Definition leap_terms (y : Z) : Z :=
  (y - 1970) * 365 + (y - 1969) / 4 - (y - 1901) / 100 + (y - 1601) / 400.

Definition chk_posix_year (y : Z) : bool :=
  leap_terms y =? days_before_year y - days_before_year 1970.

Lemma sweep_posix_years : forallb chk_posix_year (zs 1900 601) = true.
Proof. vm_cast_no_check (eq_refl true). Qed.

Lemma posix_year y : 1900 <= y <= 2500 -> leap_terms y = days_before_year y - days_before_year 1970.
Proof.
  intros Hy. apply Z.eqb_eq. apply (forallb_zs _ _ _ sweep_posix_years y). lia.
Qed.

Lemma matches_posix dt : valid_datetime dt = true ->
  fromUtc dt = posix_seconds (year dt) (month dt) (day dt) (hour dt) (minute dt) (second dt).
Proof.
  destruct dt as [y m d h mi s]. unfold valid_datetime. cbn [year month day hour minute second].
  rewrite !andb_true_iff, !Z.leb_le. intros [[[[[[Hv Hh1] Hh2] Hm1] Hm2] Hs1] Hs2].
  destruct (jdn_of_ymd _ _ _ Hv) as (Hj & _). cbv zeta in Hj.
  unfold fromUtc. cbn [year month day hour minute second]. rewrite fromUtcTime_spec, Hj, j1970_eq.
  assert (Hy : 1900 <= y <= 2500).
  { unfold valid_date in Hv. rewrite !andb_true_iff, !Z.leb_le in Hv. unfold first_year, last_year in Hv. lia. }
  pose proof (posix_year y Hy) as Hp. unfold leap_terms in Hp.
  unfold posix_seconds. cbv zeta.
  replace (y - 1900 - 70) with (y - 1970) by lia.
  replace (y - 1900 - 69) with (y - 1969) by lia.
  replace (y - 1900 - 1) with (y - 1901) by lia.
  replace (y - 1900 + 299) with (y - 1601) by lia.
  unfold greg_day_count at 1 2.
  assert (Hb70 : days_before_month 1970 1 = 0) by reflexivity. rewrite Hb70.
  set (A := (y - 1969) / 4) in *. set (B := (y - 1901) / 100) in *. set (C := (y - 1601) / 400) in *.
  lia.
Qed.

(* ------------------------------------------------------------------ packaged statements *)

Lemma calendar_roundtrip :
  (forall j, jdn_first <= j <= jdn_last ->
     exists y m d, getYearMonthDay j = (y, m, d) /\ valid_date y m d = true /\
                   getJulianDayNumber y m d = j) /\
  (forall y m d, valid_date y m d = true ->
     jdn_first <= getJulianDayNumber y m d <= jdn_last /\
     getYearMonthDay (getJulianDayNumber y m d) = (y, m, d)).
Proof.
  split.
  - intros j Hj. destruct (ymd_of_jdn j Hj) as (y & m & d & H1 & H2 & H3 & _). exists y, m, d. auto.
  - intros y m d Hv. destruct (jdn_of_ymd y m d Hv) as (_ & H2 & H3 & _). auto.
Qed.

Lemma matches_gregorian :
  (forall y m d, valid_date y m d = true ->
     getJulianDayNumber y m d = jdn_first + greg_day_count y m d) /\
  (forall j y m d, jdn_first <= j <= jdn_last -> getYearMonthDay j = (y, m, d) ->
     valid_date y m d = true /\ greg_day_count y m d = j - jdn_first).
Proof.
  split.
  - intros y m d Hv. destruct (jdn_of_ymd y m d Hv) as (H1 & _). exact H1.
  - intros j y m d Hj He. destruct (ymd_of_jdn j Hj) as (y' & m' & d' & H1 & H2 & H3 & _).
    rewrite He in H1. injection H1 as -> -> ->. split; [exact H2|].
    destruct (jdn_of_ymd _ _ _ H2) as (H4 & _). cbv zeta in H4. lia.
Qed.

Lemma weekday_correct y m d : valid_date y m d = true ->
  weekDay (getJulianDayNumber y m d) = spec_weekday y m d /\
  0 <= weekDay (getJulianDayNumber y m d) <= 6.
Proof.
  intros Hv. destruct (jdn_of_ymd y m d Hv) as (_ & _ & _ & _ & H5 & _). cbv zeta in H5.
  split; [exact H5|]. rewrite H5. unfold spec_weekday.
  pose proof (Z.mod_pos_bound (4 + (greg_day_count y m d - greg_day_count 1970 1 1)) 7). lia.
Qed.

Ltac split_ands := repeat match goal with |- andb _ _ = true => apply andb_true_intro; split end.

Lemma fillHMS_fits_ok s : 0 <= s < 86400 -> fillHMS_fits (wrap_u32 s) = true.
Proof.
  intros Hs. unfold wrap_u32. rewrite (Z.mod_small s) by lia.
  unfold fillHMS_fits. cbv zeta.
  split_ands; try reflexivity; apply fits32_intro; zqr; lia.
Qed.

Lemma BreakTime_fits_ok t : utc_first <= t < utc_end -> BreakTime_fits t = true.
Proof.
  intros Ht. pose proof (utc_range_days t Ht) as Hd.
  destruct (ymd_of_jdn _ Hd) as (y & m & d & Hg & Hv & Hj & Hf).
  assert (Hr : -2208988800 <= t < 16756761600).
  { revert Ht. unfold utc_first, utc_end. rewrite j1970_val. unfold jdn_first, jdn_last. lia. }
  unfold BreakTime_fits. cbv zeta. rewrite kSecondsPerDay_val.
  pose proof (trunc_fix t) as Hfix.
  assert (Hs : 0 <= t mod 86400 < 86400) by (apply Z.mod_pos_bound; lia).
  destruct (Z.ltb_spec (Z.rem t 86400) 0) as [Hn|Hp]; injection Hfix as Hs' Hd';
    cbv beta iota zeta; rewrite ?Hs', ?Hd';
    rewrite (fillHMS_fits_ok _ Hs), fillHMS_spec by exact Hs; cbv beta iota zeta;
    rewrite Hf, Hg; cbv beta iota zeta;
    split_ands; try reflexivity;
    try (apply fits32_intro; rewrite ?j1970_val; zqr; zdm; lia);
    try (apply fits64_intro; zqr; lia).
Qed.

Lemma fromUtcTime_fits_ok dt : valid_datetime dt = true ->
  fromUtcTime_fits (year dt) (month dt) (day dt) (hour dt) (minute dt) (second dt) = true.
Proof.
  destruct dt as [y m d h mi s]. unfold valid_datetime. cbn [year month day hour minute second].
  rewrite !andb_true_iff, !Z.leb_le. intros [[[[[[Hv Hh1] Hh2] Hm1] Hm2] Hs1] Hs2].
  destruct (jdn_of_ymd _ _ _ Hv) as (_ & Hr & _ & Hf & _). cbv zeta in Hr.
  unfold fromUtcTime_fits. cbv zeta. rewrite Hf, kSecondsPerDay_val, j1970_val.
  unfold jdn_first, jdn_last in Hr.
  split_ands; try reflexivity;
    try (apply fits32_intro; lia); try (apply fits64_intro; lia).
Qed.

Lemma no_int_overflow :
  (forall j, jdn_first <= j <= jdn_last -> getYearMonthDay_fits j = true /\ weekDay_fits j = true) /\
  (forall y m d, valid_date y m d = true -> getJulianDayNumber_fits y m d = true) /\
  (forall t, utc_first <= t < utc_end -> BreakTime_fits t = true) /\
  (forall dt, valid_datetime dt = true ->
     fromUtcTime_fits (year dt) (month dt) (day dt) (hour dt) (minute dt) (second dt) = true).
Proof.
  split; [|split; [|split]].
  - intros j Hj. destruct (ymd_of_jdn j Hj) as (y & m & d & H1 & H2 & H3 & H4). split; [exact H4|].
    destruct (jdn_of_ymd _ _ _ H2) as (_ & _ & _ & _ & _ & H6). cbv zeta in H6. rewrite H3 in H6. exact H6.
  - intros y m d Hv. destruct (jdn_of_ymd y m d Hv) as (_ & _ & _ & H4 & _). exact H4.
  - exact BreakTime_fits_ok.
  - exact fromUtcTime_fits_ok.
Qed.

Lemma utc_roundtrip_both :
  (forall t, utc_first <= t < utc_end ->
     valid_datetime (break_utc t) = true /\ fromUtc (break_utc t) = t) /\
  (forall dt, valid_datetime dt = true ->
     utc_first <= fromUtc dt < utc_end /\ break_utc (fromUtc dt) = dt).
Proof.
  split.
  - exact utc_roundtrip.
  - intros dt Hv. split; [apply fromUtc_range; exact Hv | apply utc_roundtrip_inv; exact Hv].
Qed.
