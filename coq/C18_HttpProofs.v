(* C18_HttpProofs: the HTTP request parser of C18_Model.
   (1) hstep satisfies the three hypotheses of C18_StreamProofs;
   (2) segmentation invariance of the generic decoder instantiated with hstep;
   (3) the literal model (parseRequest / http_loop / http_feed) equals the generic one;
   (4) exactly the valid request lines are accepted;
   (5) only complete CRLF-terminated lines are consumed. *)
From Coq Require Import List ZArith Lia Bool Arith NArith.
From Coq.Strings Require Import Byte.
From Muduo Require Import Base_Bytes C18_Model C18_StreamProofs.
Import ListNotations.

(* ======================================================================== *)
(* find_crlf                                                                 *)
(* ======================================================================== *)
Lemma find_crlf_cons2 : forall x y t,
  find_crlf (x :: y :: t) =
  if Byte.eqb x CR && Byte.eqb y LF then Some 0 else option_map S (find_crlf (y :: t)).
Proof. reflexivity. Qed.

Lemma find_crlf_spec : forall b i, find_crlf b = Some i ->
  exists a r, b = a ++ CR :: LF :: r /\ length a = i /\
              forall r', find_crlf (a ++ CR :: LF :: r') = Some i.
Proof.
  induction b as [|x t IH]; intros i H; [cbn [find_crlf] in H; discriminate H|].
  destruct t as [|y t']; [cbn [find_crlf] in H; discriminate H|].
  rewrite find_crlf_cons2 in H.
  destruct (Byte.eqb x CR && Byte.eqb y LF) eqn:E.
  - inversion H; subst i. apply andb_true_iff in E. destruct E as [Ex Ey].
    apply Byte.byte_dec_bl in Ex. apply Byte.byte_dec_bl in Ey. subst x y.
    exists [], t'. split; [reflexivity|]. split; [reflexivity|]. intros r'. reflexivity.
  - destruct (find_crlf (y :: t')) as [j|] eqn:Ej; [|discriminate H].
    cbn [option_map] in H. inversion H; subst i.
    destruct (IH j eq_refl) as (a' & r & Hb & Hl & Hf).
    exists (x :: a'), r. split; [cbn [app]; rewrite Hb; reflexivity|].
    split; [cbn [length]; lia|]. intros r'.
    specialize (Hf r').
    destruct a' as [|y' a'']; cbn [app] in Hb, Hf |- *; inversion Hb; subst;
      rewrite find_crlf_cons2, E, Hf; reflexivity.
Qed.

Lemma find_crlf_bound : forall b i, find_crlf b = Some i -> i + 2 <= length b.
Proof.
  intros b i H. destruct (find_crlf_spec b i H) as (a & r & Hb & Hl & _).
  subst b. rewrite app_length. cbn [length]. lia.
Qed.

Lemma find_crlf_app : forall b c i, find_crlf b = Some i -> find_crlf (b ++ c) = Some i.
Proof.
  intros b c i H. destruct (find_crlf_spec b i H) as (a & r & Hb & Hl & Hf).
  subst b. rewrite <- app_assoc. cbn [app]. apply Hf.
Qed.

Lemma find_crlf_split : forall b i, find_crlf b = Some i ->
  b = firstn i b ++ CR :: LF :: skipn (i + 2) b /\ length (firstn i b) = i /\
  forall r', find_crlf (firstn i b ++ CR :: LF :: r') = Some i.
Proof.
  intros b i H. destruct (find_crlf_spec b i H) as (a & r & Hb & Hl & Hf).
  assert (H1 : firstn i b = a) by (subst b i; apply firstn_app_exact).
  assert (H2 : skipn (i + 2) b = r).
  { subst b i. change (a ++ CR :: LF :: r) with (a ++ [CR; LF] ++ r).
    rewrite app_assoc.
    replace (length a + 2) with (length (a ++ [CR; LF])) by (rewrite app_length; reflexivity).
    apply skipn_app_exact. }
  rewrite H1, H2. split; [exact Hb|]. split; [exact Hl|exact Hf].
Qed.

Lemma crlf_firstn_app : forall b c i, find_crlf b = Some i -> firstn i (b ++ c) = firstn i b.
Proof.
  intros b c i H. apply find_crlf_bound in H. rewrite firstn_app.
  replace (i - length b) with 0 by lia. cbn [firstn]. apply app_nil_r.
Qed.

Lemma crlf_skipn_app : forall b c i, find_crlf b = Some i ->
  skipn (i + 2) (b ++ c) = skipn (i + 2) b ++ c.
Proof.
  intros b c i H. apply find_crlf_bound in H. rewrite skipn_app.
  replace (i + 2 - length b) with 0 by lia. reflexivity.
Qed.

Lemma crlf_skipn_length : forall b i, find_crlf b = Some i ->
  length (skipn (i + 2) b) + 2 <= length b.
Proof.
  intros b i H. apply find_crlf_bound in H. rewrite skipn_length. lia.
Qed.

(* ======================================================================== *)
(* (1) the three step hypotheses                                             *)
(* ======================================================================== *)
Lemma hstep_shrinks : forall s b evs s' r,
  hstep s b = SEmit evs s' r -> length r < length b.
Proof.
  intros s b evs s' r H. unfold hstep in H.
  destruct (h_state s); try discriminate H;
    (destruct (find_crlf b) as [i|] eqn:Ef; [|discriminate H]);
    pose proof (crlf_skipn_length b i Ef) as Hl.
  - destruct (processRequestLine (firstn i b) (h_req s)); [|discriminate H].
    inversion H; subst. lia.
  - destruct (find_byte COLON (firstn i b)); inversion H; subst; lia.
Qed.

Lemma hstep_emit_mono : forall s b evs s' r c,
  hstep s b = SEmit evs s' r -> hstep s (b ++ c) = SEmit evs s' (r ++ c).
Proof.
  intros s b evs s' r c H. unfold hstep in *.
  destruct (h_state s); try discriminate H;
    (destruct (find_crlf b) as [i|] eqn:Ef; [|discriminate H]);
    rewrite (find_crlf_app b c i Ef), (crlf_firstn_app b c i Ef), (crlf_skipn_app b c i Ef).
  - destruct (processRequestLine (firstn i b) (h_req s)); [|discriminate H].
    inversion H; subst. reflexivity.
  - destruct (find_byte COLON (firstn i b)); inversion H; subst; reflexivity.
Qed.

Lemma hstep_stop_mono : forall s b evs c,
  hstep s b = SStop evs -> hstep s (b ++ c) = SStop evs.
Proof.
  intros s b evs c H. unfold hstep in *.
  destruct (h_state s); try discriminate H;
    (destruct (find_crlf b) as [i|] eqn:Ef; [|discriminate H]);
    rewrite (find_crlf_app b c i Ef), (crlf_firstn_app b c i Ef).
  - destruct (processRequestLine (firstn i b) (h_req s)); [discriminate H|exact H].
  - destruct (find_byte COLON (firstn i b)); discriminate H.
Qed.

(* ======================================================================== *)
(* (2) segmentation invariance of the generic decoder with hstep             *)
(* ======================================================================== *)
Lemma http_init_settled : settled hctx hevent hstep http_init.
Proof. apply init_settled. reflexivity. Qed.

Theorem hstep_seg_invariant : forall chunks,
  feed_all hstep http_init chunks = feed hstep http_init (concat chunks).
Proof.
  intros chunks.
  apply (feed_all_concat hctx hevent hstep hstep_shrinks hstep_emit_mono hstep_stop_mono).
  exact http_init_settled.
Qed.

(* ======================================================================== *)
(* (3) the literal model equals the generic one                              *)
(* ======================================================================== *)
Definition live (c : hctx) : Prop :=
  h_state c = kExpectRequestLine \/ h_state c = kExpectHeaders.

Lemma live_ctx0 : live ctx0.
Proof. left. reflexivity. Qed.

Lemma live_headers : forall r, live (mkCtx kExpectHeaders r).
Proof. intros r. right. reflexivity. Qed.

Lemma hstep_live : forall s b evs s' r, hstep s b = SEmit evs s' r -> live s'.
Proof.
  intros s b evs s' r H. unfold hstep in H.
  destruct (h_state s); try discriminate H;
    (destruct (find_crlf b) as [i|]; [|discriminate H]).
  - destruct (processRequestLine (firstn i b) (h_req s)); [|discriminate H].
    inversion H; subst. apply live_headers.
  - destruct (find_byte COLON (firstn i b)); inversion H; subst;
      [apply live_headers|apply live_ctx0].
Qed.

(* the final state of the generic loop from a live state is live *)
Lemma run_live : forall fuel s b, live s -> live (d_st (snd (run hstep fuel s b))).
Proof.
  induction fuel as [|f IH]; intros s b Hs; cbn [run]; [exact Hs|].
  destruct (hstep s b) as [|evs s' r|evs] eqn:E; cbn [snd d_st]; try exact Hs.
  specialize (IH s' r (hstep_live _ _ _ _ _ E)).
  destruct (run hstep f s' r) as [e2 d]. exact IH.
Qed.

Lemma feed_live : forall d c, live (d_st d) -> live (d_st (snd (feed hstep d c))).
Proof.
  intros d c Hd. unfold feed. destruct (d_abandoned d || d_oof d).
  - exact Hd.
  - apply run_live. exact Hd.
Qed.

Lemma feed_all_live : forall chunks d, live (d_st d) ->
  live (d_st (snd (feed_all hstep d chunks))).
Proof.
  induction chunks as [|c cs IH]; intros d Hd; cbn [feed_all]; [exact Hd|].
  pose proof (feed_live d c Hd) as H1.
  destruct (feed hstep d c) as [e1 d1]. cbn [snd] in H1.
  specialize (IH d1 H1). destruct (feed_all hstep d1 cs) as [e2 d2]. exact IH.
Qed.

(* what the caller's loop does with the result of parseRequest, the recursive call
   replaced by the generic loop with fuel F *)
Definition pr_to_run (F : nat) (res : pr_res) : list hevent * dstate hctx :=
  match res with
  | PRFuel => ([], mkD ctx0 [] false true)
  | PRDone false c' b' => ([HBad], mkD c' b' true false)
  | PRDone true c' b' =>
      if gotAll c' then let (e, d) := run hstep F ctx0 b' in (HReq (h_req c') :: e, d)
      else ([], mkD c' b' false false)
  end.

Lemma parseRequest_no_fuel : forall fuel c b, live c -> length b < fuel ->
  parseRequest fuel c b <> PRFuel.
Proof.
  induction fuel as [|f IH]; intros c b Hc Hl; [lia|].
  destruct c as [st rq]. destruct Hc as [Hc|Hc]; cbn [h_state] in Hc; subst st;
    cbn [parseRequest h_state h_req];
    (destruct (find_crlf b) as [i|] eqn:Ef; [|discriminate]);
    pose proof (crlf_skipn_length b i Ef) as Hs.
  - destruct (processRequestLine (firstn i b) rq); [|discriminate].
    apply IH; [apply live_headers|lia].
  - destruct (find_byte COLON (firstn i b)); [|discriminate].
    apply IH; [apply live_headers|lia].
Qed.

(* the returned buffer is never longer, and strictly shorter when a request completed *)
Lemma parseRequest_len : forall fuel c b ok c' b', live c ->
  parseRequest fuel c b = PRDone ok c' b' ->
  length b' <= length b /\ (gotAll c' = true -> length b' < length b).
Proof.
  induction fuel as [|f IH]; intros c b ok c' b' Hc H; [discriminate H|].
  destruct c as [st rq]. destruct Hc as [Hc|Hc]; cbn [h_state] in Hc; subst st;
    cbn [parseRequest h_state h_req] in H;
    (destruct (find_crlf b) as [i|] eqn:Ef;
     [pose proof (crlf_skipn_length b i Ef) as Hs
     |inversion H; subst; split; [lia|cbn; discriminate]]).
  - destruct (processRequestLine (firstn i b) rq).
    + apply IH in H; [|apply live_headers]. lia.
    + inversion H; subst. split; [lia|cbn; discriminate].
  - destruct (find_byte COLON (firstn i b)).
    + apply IH in H; [|apply live_headers]. lia.
    + inversion H; subst. split; intros; lia.
Qed.

Notation hrun_fuel := (run_fuel hctx hevent hstep hstep_shrinks).

Lemma hstep_line : forall rq b, hstep (mkCtx kExpectRequestLine rq) b =
  match find_crlf b with
  | None => SWait
  | Some i =>
      match processRequestLine (firstn i b) rq with
      | Some r => SEmit [] (mkCtx kExpectHeaders r) (skipn (i + 2) b)
      | None => SStop [HBad]
      end
  end.
Proof. reflexivity. Qed.

Lemma hstep_hdr : forall rq b, hstep (mkCtx kExpectHeaders rq) b =
  match find_crlf b with
  | None => SWait
  | Some i =>
      match find_byte COLON (firstn i b) with
      | Some k => SEmit [] (mkCtx kExpectHeaders (add_header rq (firstn i b) k))
                        (skipn (i + 2) b)
      | None => SEmit [HReq rq] ctx0 (skipn (i + 2) b)
      end
  end.
Proof. reflexivity. Qed.

Lemma parseRequest_run : forall fuel c b F F', live c ->
  length b < fuel -> length b < F -> length b <= F' ->
  run hstep F c b = pr_to_run F' (parseRequest fuel c b).
Proof.
  induction fuel as [|f IH]; intros c b F F' Hc Hl HF HF'; [lia|].
  destruct F as [|F0]; [lia|]. rewrite run_S.
  destruct c as [st rq]. destruct Hc as [Hc|Hc]; cbn [h_state] in Hc; subst st;
    rewrite ?hstep_line, ?hstep_hdr; cbn [parseRequest h_state h_req];
    (destruct (find_crlf b) as [i|] eqn:Ef; [|reflexivity]);
    pose proof (crlf_skipn_length b i Ef) as Hs.
  - destruct (processRequestLine (firstn i b) rq) as [r|]; [|reflexivity].
    rewrite (IH (mkCtx kExpectHeaders r) (skipn (i + 2) b) F0 F')
      by (try apply live_headers; lia).
    destruct (pr_to_run F' (parseRequest f (mkCtx kExpectHeaders r) (skipn (i + 2) b)))
      as [e2 d]. reflexivity.
  - destruct (find_byte COLON (firstn i b)) as [k|].
    + rewrite (IH (mkCtx kExpectHeaders (add_header rq (firstn i b) k)) (skipn (i + 2) b) F0 F')
        by (try apply live_headers; lia).
      destruct (pr_to_run F' (parseRequest f
                  (mkCtx kExpectHeaders (add_header rq (firstn i b) k)) (skipn (i + 2) b)))
        as [e2 d]. reflexivity.
    + cbn [pr_to_run gotAll h_state h_req].
      rewrite (hrun_fuel F0 F' ctx0 (skipn (i + 2) b)) by lia.
      destruct (run hstep F' ctx0 (skipn (i + 2) b)) as [e d]. reflexivity.
Qed.

Lemma http_loop_eq : forall fuel c b, live c -> length b < fuel ->
  http_loop fuel c b = run hstep fuel c b.
Proof.
  induction fuel as [|f IH]; intros c b Hc Hl; [lia|].
  rewrite (parseRequest_run (S (length b)) c b (S f) f Hc) by lia.
  cbn [http_loop].
  pose proof (parseRequest_no_fuel (S (length b)) c b Hc ltac:(lia)) as Hnf.
  destruct (parseRequest (S (length b)) c b) as [|ok c' b'] eqn:Ep; [congruence|].
  pose proof (parseRequest_len _ _ _ _ _ _ Hc Ep) as [Hle Hlt].
  destruct ok; cbn [pr_to_run]; [|reflexivity].
  destruct (gotAll c') eqn:Eg; [|reflexivity].
  rewrite (IH ctx0 b' live_ctx0) by (specialize (Hlt eq_refl); lia).
  reflexivity.
Qed.

Lemma http_feed_eq : forall d c, live (d_st d) -> http_feed d c = feed hstep d c.
Proof.
  intros d c Hd. unfold http_feed, feed.
  destruct (d_abandoned d || d_oof d); [reflexivity|].
  apply http_loop_eq; [exact Hd|lia].
Qed.

Lemma http_feed_all_eq : forall chunks d, live (d_st d) ->
  http_feed_all d chunks = feed_all hstep d chunks.
Proof.
  induction chunks as [|c cs IH]; intros d Hd; cbn [http_feed_all feed_all]; [reflexivity|].
  rewrite (http_feed_eq d c Hd).
  pose proof (feed_live d c Hd) as H1.
  destruct (feed hstep d c) as [e1 d1]. cbn [snd] in H1.
  rewrite (IH d1 H1). reflexivity.
Qed.

Theorem http_seg_invariant : forall chunks,
  http_feed_all http_init chunks = http_feed http_init (concat chunks).
Proof.
  intros chunks.
  rewrite (http_feed_all_eq chunks http_init live_ctx0).
  rewrite (http_feed_eq http_init (concat chunks) live_ctx0).
  apply hstep_seg_invariant.
Qed.

Theorem http_no_oof : forall chunks, d_oof (snd (http_feed_all http_init chunks)) = false.
Proof.
  intros chunks. rewrite (http_feed_all_eq chunks http_init live_ctx0).
  apply (feed_all_no_oof hctx hevent hstep hstep_shrinks). reflexivity.
Qed.

(* ======================================================================== *)
(* (4) exactly the valid request lines are accepted                          *)
(* ======================================================================== *)
Lemma byte_eqb_refl : forall x, Byte.eqb x x = true.
Proof. intros x. apply Byte.byte_dec_lb. reflexivity. Qed.

Lemma byte_eqb_neq : forall x y, x <> y -> Byte.eqb x y = false.
Proof.
  intros x y H. destruct (Byte.eqb x y) eqn:E; [|reflexivity].
  apply Byte.byte_dec_bl in E. contradiction.
Qed.

Lemma find_byte_cons : forall c x t,
  find_byte c (x :: t) = if Byte.eqb x c then Some 0 else option_map S (find_byte c t).
Proof. reflexivity. Qed.

Lemma find_byte_app : forall c a b, ~ In c a -> find_byte c (a ++ c :: b) = Some (length a).
Proof.
  intros c a b. induction a as [|x a IH]; intros Hn; cbn [app length].
  - rewrite find_byte_cons, byte_eqb_refl. reflexivity.
  - rewrite find_byte_cons, byte_eqb_neq.
    + rewrite IH; [reflexivity|]. intros Hi. apply Hn. right. exact Hi.
    + intros Hx. apply Hn. left. exact Hx.
Qed.

Lemma find_byte_Some : forall c l i, find_byte c l = Some i ->
  exists a b, l = a ++ c :: b /\ ~ In c a /\ length a = i.
Proof.
  intros c. induction l as [|x t IH]; intros i H; [cbn [find_byte] in H; discriminate H|].
  rewrite find_byte_cons in H. destruct (Byte.eqb x c) eqn:E.
  - apply Byte.byte_dec_bl in E. inversion H; subst.
    exists [], t. split; [reflexivity|]. split; [intros []|reflexivity].
  - destruct (find_byte c t) as [j|]; [|discriminate H]. cbn [option_map] in H.
    inversion H; subst i. destruct (IH j eq_refl) as (a & b & Hl & Hn & Hj).
    exists (x :: a), b. split; [cbn [app]; rewrite Hl; reflexivity|].
    split; [|cbn [length]; lia].
    intros [Hx|Hi]; [|exact (Hn Hi)]. subst x. rewrite byte_eqb_refl in E. discriminate E.
Qed.

Lemma find_byte_Some_iff : forall c l i, find_byte c l = Some i <->
  exists a b, l = a ++ c :: b /\ ~ In c a /\ length a = i.
Proof.
  intros c l i. split; [apply find_byte_Some|].
  intros (a & b & Hl & Hn & Hi). subst l i. apply find_byte_app. exact Hn.
Qed.

Lemma find_byte_None_iff : forall c l, find_byte c l = None <-> ~ In c l.
Proof.
  intros c l. split.
  - intros H Hi. apply in_split in Hi. destruct Hi as (a & b & Hl).
    revert H. subst l. induction a as [|x a IH]; cbn [app]; rewrite find_byte_cons.
    + rewrite byte_eqb_refl. discriminate.
    + destruct (Byte.eqb x c); [discriminate|].
      destruct (find_byte c (a ++ c :: b)); [discriminate|]. intros _. apply IH. reflexivity.
  - intros Hn. destruct (find_byte c l) as [i|] eqn:E; [|reflexivity].
    apply find_byte_Some in E. destruct E as (a & b & Hl & _ & _). exfalso. apply Hn.
    subst l. apply in_or_app. right. left. reflexivity.
Qed.

Lemma skipn_len1_app : forall (a : list byte) c b, skipn (length a + 1) (a ++ c :: b) = b.
Proof.
  intros a c b. change (a ++ c :: b) with (a ++ [c] ++ b). rewrite app_assoc.
  replace (length a + 1) with (length (a ++ [c])) by (rewrite app_length; reflexivity).
  apply skipn_app_exact.
Qed.

Lemma find_byte_split : forall c l i, find_byte c l = Some i ->
  l = firstn i l ++ c :: skipn (i + 1) l /\ ~ In c (firstn i l).
Proof.
  intros c l i H. apply find_byte_Some in H. destruct H as (a & b & Hl & Hn & Hi).
  subst l i. rewrite firstn_app_exact, skipn_len1_app. split; [reflexivity|exact Hn].
Qed.

Lemma bytes_eqb_eq : forall a b, bytes_eqb a b = true <-> a = b.
Proof.
  induction a as [|x a IH]; intros [|y b]; cbn [bytes_eqb]; split; intros H;
    try reflexivity; try discriminate H.
  - apply andb_true_iff in H. destruct H as [Hx Hab].
    apply Byte.byte_dec_bl in Hx. apply IH in Hab. subst. reflexivity.
  - inversion H; subst. rewrite byte_eqb_refl. cbn [andb]. apply IH. reflexivity.
Qed.

Definition valid_method (m : list byte) : Prop :=
  m = s_GET \/ m = s_POST \/ m = s_HEAD \/ m = s_PUT \/ m = s_DELETE.

Lemma valid_method_no_SP : forall m, valid_method m -> ~ In SP m.
Proof.
  intros m [H|[H|[H|[H|H]]]] Hi; subst m; cbv in Hi; intuition discriminate.
Qed.

Lemma valid_method_set : forall m, valid_method m -> is_invalid (set_method m) = false.
Proof. intros m [H|[H|[H|[H|H]]]]; subst m; reflexivity. Qed.

Lemma set_method_valid : forall m, is_invalid (set_method m) = false -> valid_method m.
Proof.
  intros m H. unfold set_method in H. unfold valid_method.
  destruct (bytes_eqb m s_GET) eqn:E1; [apply bytes_eqb_eq in E1; tauto|].
  destruct (bytes_eqb m s_POST) eqn:E2; [apply bytes_eqb_eq in E2; tauto|].
  destruct (bytes_eqb m s_HEAD) eqn:E3; [apply bytes_eqb_eq in E3; tauto|].
  destruct (bytes_eqb m s_PUT) eqn:E4; [apply bytes_eqb_eq in E4; tauto|].
  destruct (bytes_eqb m s_DELETE) eqn:E5; [apply bytes_eqb_eq in E5; tauto|].
  discriminate H.
Qed.

Lemma ver_ok : forall v,
  (length (s_HTTP1dot ++ [v]) =? 8) && bytes_eqb (firstn 7 (s_HTTP1dot ++ [v])) s_HTTP1dot = true.
Proof. reflexivity. Qed.

Lemma ver_tail : forall v, skipn 7 (s_HTTP1dot ++ [v]) = [v].
Proof. reflexivity. Qed.

Theorem request_line_result : forall m t v r,
  valid_method m -> ~ In SP t -> (v = x30 \/ v = x31) ->
  processRequestLine (m ++ [SP] ++ t ++ [SP] ++ s_HTTP1dot ++ [v]) r =
    Some (mkReq (set_method m) (if Byte.eqb v x31 then kHttp11 else kHttp10)
                (match find_byte QMARK t with Some q => firstn q t | None => t end)
                (match find_byte QMARK t with Some q => skipn q t | None => q_query r end)
                (q_headers r)).
Proof.
  intros m t v r Hm Ht Hv. unfold processRequestLine.
  change (m ++ [SP] ++ t ++ [SP] ++ s_HTTP1dot ++ [v])
    with (m ++ SP :: t ++ SP :: s_HTTP1dot ++ [v]).
  rewrite (find_byte_app SP m _ (valid_method_no_SP m Hm)).
  cbv zeta.
  rewrite firstn_app_exact, (valid_method_set m Hm), skipn_len1_app.
  rewrite (find_byte_app SP t _ Ht).
  rewrite firstn_app_exact, skipn_len1_app, ver_ok, ver_tail.
  destruct Hv as [Hv|Hv]; subst v; destruct (find_byte QMARK t); reflexivity.
Qed.

Theorem request_line_accepted_iff : forall line r,
  (exists r', processRequestLine line r = Some r') <->
  (exists m t v, line = m ++ [SP] ++ t ++ [SP] ++ s_HTTP1dot ++ [v] /\
                 valid_method m /\ ~ In SP t /\ (v = x30 \/ v = x31)).
Proof.
  intros line r. split.
  - intros (r' & H). unfold processRequestLine in H.
    destruct (find_byte SP line) as [i|] eqn:E1; [|discriminate H]. cbv zeta in H.
    destruct (is_invalid (set_method (firstn i line))) eqn:Em; [discriminate H|].
    set (rest1 := skipn (i + 1) line) in *.
    destruct (find_byte SP rest1) as [j|] eqn:E2; [|discriminate H].
    set (ver := skipn (j + 1) rest1) in *.
    destruct ((length ver =? 8) && bytes_eqb (firstn 7 ver) s_HTTP1dot) eqn:E3;
      [|discriminate H].
    destruct (skipn 7 ver) as [|c [|c2 l2]] eqn:E4; try discriminate H.
    assert (Hc : c = x30 \/ c = x31).
    { destruct (Byte.eqb c x31) eqn:Ec1; [right; apply Byte.byte_dec_bl; exact Ec1|].
      destruct (Byte.eqb c x30) eqn:Ec0; [left; apply Byte.byte_dec_bl; exact Ec0|].
      discriminate H. }
    apply andb_true_iff in E3. destruct E3 as [_ E3]. apply bytes_eqb_eq in E3.
    assert (Hver : ver = s_HTTP1dot ++ [c]).
    { rewrite <- (firstn_skipn 7 ver), E3, E4. reflexivity. }
    destruct (find_byte_split _ _ _ E1) as [Hl1 Hn1]. fold rest1 in Hl1.
    destruct (find_byte_split _ _ _ E2) as [Hl2 Hn2]. fold ver in Hl2.
    exists (firstn i line), (firstn j rest1), c.
    split; [|split; [apply set_method_valid; exact Em|split; [exact Hn2|exact Hc]]].
    rewrite <- Hver.
    change (firstn i line ++ [SP] ++ firstn j rest1 ++ [SP] ++ ver)
      with (firstn i line ++ SP :: (firstn j rest1 ++ SP :: ver)).
    rewrite <- Hl2. exact Hl1.
  - intros (m & t & v & Hl & Hm & Ht & Hv). subst line.
    rewrite (request_line_result m t v r Hm Ht Hv). eexists. reflexivity.
Qed.

(* ======================================================================== *)
(* (5) only complete CRLF-terminated lines are consumed                      *)
(* ======================================================================== *)
Definition crlf_line (l : list byte) : Prop :=
  find_crlf (l ++ [CR; LF]) = Some (length l).

Definition join_lines (lines : list (list byte)) : list byte :=
  flat_map (fun l => l ++ [CR; LF]) lines.

Lemma join_lines_app : forall l1 l2, join_lines (l1 ++ l2) = join_lines l1 ++ join_lines l2.
Proof. intros l1 l2. unfold join_lines. apply flat_map_app. Qed.

Lemma find_crlf_line : forall b i, find_crlf b = Some i ->
  b = (firstn i b ++ [CR; LF]) ++ skipn (i + 2) b /\ crlf_line (firstn i b).
Proof.
  intros b i H. destruct (find_crlf_split b i H) as (Hb & Hl & Hf). split.
  - rewrite <- app_assoc. exact Hb.
  - unfold crlf_line. rewrite Hl. apply (Hf []).
Qed.

(* an emitting step consumes exactly one CRLF-terminated line *)
Lemma hstep_consumes : forall s b evs s' r, hstep s b = SEmit evs s' r ->
  exists l, b = (l ++ [CR; LF]) ++ r /\ crlf_line l.
Proof.
  intros s b evs s' r H. unfold hstep in H.
  destruct (h_state s); try discriminate H;
    (destruct (find_crlf b) as [i|] eqn:Ef; [|discriminate H]);
    destruct (find_crlf_line b i Ef) as [Hb Hc]; exists (firstn i b).
  - destruct (processRequestLine (firstn i b) (h_req s)); [|discriminate H].
    inversion H; subst. split; [exact Hb|exact Hc].
  - destruct (find_byte COLON (firstn i b)); inversion H; subst; (split; [exact Hb|exact Hc]).
Qed.

Lemma run_lines : forall fuel s b, exists lines,
  b = join_lines lines ++ d_buf (snd (run hstep fuel s b)) /\ Forall crlf_line lines.
Proof.
  induction fuel as [|f IH]; intros s b.
  - exists []. split; [reflexivity|constructor].
  - rewrite run_S. destruct (hstep s b) as [|evs s' r|evs] eqn:E.
    + exists []. split; [reflexivity|constructor].
    + destruct (hstep_consumes _ _ _ _ _ E) as (l & Hb & Hl).
      destruct (IH s' r) as (lines & Hr & Hf).
      destruct (run hstep f s' r) as [e2 d]. cbn [snd] in *.
      exists (l :: lines). split; [|constructor; assumption].
      unfold join_lines in *. cbn [flat_map]. rewrite <- app_assoc, <- Hr. exact Hb.
    + exists []. split; [reflexivity|constructor].
Qed.

Lemma feed_lines : forall d c fed lines,
  fed = join_lines lines ++ d_buf d -> Forall crlf_line lines ->
  exists lines', fed ++ c = join_lines lines' ++ d_buf (snd (feed hstep d c)) /\
                 Forall crlf_line lines'.
Proof.
  intros d c fed lines Hfed Hf. unfold feed. destruct (d_abandoned d || d_oof d).
  - exists lines. cbn [snd d_buf]. split; [|exact Hf].
    rewrite Hfed, app_assoc. reflexivity.
  - destruct (run_lines (S (length (d_buf d ++ c))) (d_st d) (d_buf d ++ c))
      as (l2 & H2 & Hf2).
    exists (lines ++ l2). split; [|apply Forall_app; split; assumption].
    rewrite join_lines_app, <- app_assoc, <- H2, Hfed, app_assoc. reflexivity.
Qed.

Lemma feed_all_lines : forall chunks d fed lines,
  fed = join_lines lines ++ d_buf d -> Forall crlf_line lines ->
  exists lines', fed ++ concat chunks =
                 join_lines lines' ++ d_buf (snd (feed_all hstep d chunks)) /\
                 Forall crlf_line lines'.
Proof.
  induction chunks as [|c cs IH]; intros d fed lines Hfed Hf; cbn [feed_all concat].
  - exists lines. rewrite app_nil_r. split; [exact Hfed|exact Hf].
  - destruct (feed_lines d c fed lines Hfed Hf) as (l1 & H1 & Hf1).
    destruct (feed hstep d c) as [e1 d1]. cbn [snd] in H1.
    destruct (IH d1 (fed ++ c) l1 H1 Hf1) as (l2 & H2 & Hf2).
    destruct (feed_all hstep d1 cs) as [e2 d2]. cbn [snd] in *.
    exists l2. split; [|exact Hf2]. rewrite app_assoc. exact H2.
Qed.

Theorem http_line_atomic : forall chunks,
  let (evs, d) := http_feed_all http_init chunks in
  exists lines, concat chunks = flat_map (fun l => l ++ [CR; LF]) lines ++ d_buf d /\
                Forall crlf_line lines.
Proof.
  intros chunks. rewrite (http_feed_all_eq chunks http_init live_ctx0).
  destruct (feed_all_lines chunks http_init [] [] eq_refl (Forall_nil _)) as (lines & H & Hf).
  destruct (feed_all hstep http_init chunks) as [evs d]. cbn [snd app] in H.
  exists lines. split; [exact H|exact Hf].
Qed.
