(* C20_NetProofs: byte-order helpers (the functions GENERATED from net/Endian.h) against the
   big-endian specification, IPv4 dotted quad, ip:port assembly, InetAddress constructors /
   port() -- the generated facts of Gen_C20Net put together by C20_NetModel. *)
From Coq Require Import List ZArith Bool Arith Lia.
From Coq.Strings Require Import Byte.
From Muduo Require Import Base_Bytes Gen_C20Net C20_Model C20_NetModel C20_SweepDefs C20_TextProofs.
Import ListNotations.
Local Open Scope Z_scope.

Ltac zdm := Z.div_mod_to_equations.

(* ---- big-endian / little-endian images ---------------------------------------------------- *)

Lemma be_encode_add n m x :
  be_encode (n + m) x = be_encode n (x / 256 ^ Z.of_nat m) ++ be_encode m x.
Proof.
  revert x. induction m as [|m IH]; intros x.
  - rewrite Nat.add_0_r. cbn [be_encode]. rewrite app_nil_r.
    change (256 ^ Z.of_nat 0) with 1. rewrite Z.div_1_r. reflexivity.
  - rewrite Nat.add_succ_r. cbn [be_encode]. rewrite IH, <- app_assoc.
    replace (x / 256 / 256 ^ Z.of_nat m) with (x / 256 ^ Z.of_nat (S m)); [reflexivity|].
    rewrite Nat2Z.inj_succ, Z.pow_succ_r by lia.
    assert (0 < 256 ^ Z.of_nat m) by (apply Z.pow_pos_nonneg; lia).
    rewrite Z.div_div by lia. reflexivity.
Qed.

Lemma be_encode_mod n x : be_encode n (x mod 256 ^ Z.of_nat n) = be_encode n x.
Proof.
  rewrite <- (be_decode_encode n x).
  pose proof (be_encode_decode (be_encode n x)) as H. rewrite be_encode_length in H. exact H.
Qed.

Lemma be_encode_inj n x y : 0 <= x < 256 ^ Z.of_nat n -> 0 <= y < 256 ^ Z.of_nat n ->
  be_encode n x = be_encode n y -> x = y.
Proof.
  intros Hx Hy E. rewrite <- (be_unsigned_roundtrip n x Hx), <- (be_unsigned_roundtrip n y Hy), E. reflexivity.
Qed.

Lemma rev_inj {A} (l1 l2 : list A) : rev l1 = rev l2 -> l1 = l2.
Proof. intros H. rewrite <- (rev_involutive l1), <- (rev_involutive l2), H. reflexivity. Qed.

Lemma le_encode_length n x : length (le_encode n x) = n.
Proof. unfold le_encode. rewrite rev_length. apply be_encode_length. Qed.

(* [sw] reverses the bytes of every n-byte value *)
Definition swaps (n : nat) (sw : Z -> Z) : Prop :=
  forall x, 0 <= x < 256 ^ Z.of_nat n ->
    0 <= sw x < 256 ^ Z.of_nat n /\ le_encode n (sw x) = be_encode n x.

Lemma swaps_involutive n sw : swaps n sw -> forall x, 0 <= x < 256 ^ Z.of_nat n -> sw (sw x) = x.
Proof.
  intros Hs x Hx. destruct (Hs x Hx) as [Hr He]. destruct (Hs (sw x) Hr) as [Hr2 He2].
  apply (be_encode_inj n); [exact Hr2|exact Hx|].
  unfold le_encode in *. apply rev_inj. rewrite He2. rewrite <- He. rewrite rev_involutive. reflexivity.
Qed.

Lemma swaps_decode n sw : swaps n sw -> forall l, length l = n -> sw (le_decode l) = be_decode l.
Proof.
  intros Hs l Hl.
  pose proof (be_decode_range l) as Hv. rewrite Hl in Hv.
  destruct (Hs (be_decode l) Hv) as [Hr He].
  pose proof (be_encode_decode l) as Hed. rewrite Hl in Hed. rewrite Hed in He.
  assert (E : le_decode l = sw (be_decode l)).
  { unfold le_decode. rewrite <- He at 1. unfold le_encode. rewrite rev_involutive.
    apply be_unsigned_roundtrip. exact Hr. }
  rewrite E. apply swaps_involutive with (n := n); assumption.
Qed.

(* a 2n-byte swap out of two n-byte swaps, the way <bits/byteswap.h> composes them *)
Lemma swaps_double n sw :
  swaps n sw ->
  swaps (n + n) (fun x => sw (x mod 256 ^ Z.of_nat n) * 256 ^ Z.of_nat n + sw ((x / 256 ^ Z.of_nat n) mod 256 ^ Z.of_nat n)).
Proof.
  intros Hs x Hx. set (W := 256 ^ Z.of_nat n) in *.
  assert (HW : 0 < W) by (apply Z.pow_pos_nonneg; lia).
  assert (HWW : 256 ^ Z.of_nat (n + n) = W * W) by (rewrite Nat2Z.inj_add, Z.pow_add_r by lia; reflexivity).
  rewrite HWW in *.
  destruct (Hs (x mod W) (Z.mod_pos_bound x W HW)) as [Hlo Elo].
  destruct (Hs ((x / W) mod W) (Z.mod_pos_bound (x / W) W HW)) as [Hhi Ehi].
  set (a := sw (x mod W)) in *. set (b := sw ((x / W) mod W)) in *.
  split; [nia|].
  unfold le_encode in *. rewrite !be_encode_add. fold W. rewrite rev_app_distr.
  assert (D : (a * W + b) / W = a) by (zdm; nia).
  rewrite D. rewrite <- (be_encode_mod n (a * W + b)). fold W.
  assert (M : (a * W + b) mod W = b) by (zdm; nia).
  rewrite M, Elo, Ehi. rewrite !be_encode_mod. reflexivity.
Qed.

Lemma swaps_ext n f g : (forall x, f x = g x) -> swaps n f -> swaps n g.
Proof. intros E H x Hx. rewrite <- E. apply H. exact Hx. Qed.

Lemma swaps_bswap_16 : swaps 2 bswap_16.
Proof.
  intros x Hx. change (256 ^ Z.of_nat 2) with 65536 in *. unfold bswap_16. split; [zdm; lia|].
  unfold le_encode. cbn [be_encode app rev]. f_equal; [|f_equal]; f_equal; zdm; lia.
Qed.

Lemma swaps_bswap_32 : swaps 4 bswap_32.
Proof.
  apply (swaps_ext (2 + 2) (fun x => bswap_16 (x mod 256 ^ Z.of_nat 2) * 256 ^ Z.of_nat 2 +
                                    bswap_16 ((x / 256 ^ Z.of_nat 2) mod 256 ^ Z.of_nat 2))).
  - intros x. reflexivity.
  - apply swaps_double. exact swaps_bswap_16.
Qed.

Lemma swaps_bswap_64 : swaps 8 bswap_64.
Proof.
  apply (swaps_ext (4 + 4) (fun x => bswap_32 (x mod 256 ^ Z.of_nat 4) * 256 ^ Z.of_nat 4 +
                                    bswap_32 ((x / 256 ^ Z.of_nat 4) mod 256 ^ Z.of_nat 4))).
  - intros x. reflexivity.
  - apply swaps_double. exact swaps_bswap_32.
Qed.

(* the six helpers GENERATED from net/Endian.h reverse the bytes of their argument *)
Lemma endian_swaps :
  swaps 2 Endian_hostToNetwork16 /\ swaps 4 Endian_hostToNetwork32 /\ swaps 8 Endian_hostToNetwork64 /\
  swaps 2 Endian_networkToHost16 /\ swaps 4 Endian_networkToHost32 /\ swaps 8 Endian_networkToHost64.
Proof.
  exact (conj swaps_bswap_16 (conj swaps_bswap_32 (conj swaps_bswap_64
          (conj swaps_bswap_16 (conj swaps_bswap_32 swaps_bswap_64))))).
Qed.

Definition valid_width (n : nat) : Prop := n = 2%nat \/ n = 4%nat \/ n = 8%nat.

(* hostToNetworkN stores the big-endian image; networkToHostN reads a big-endian image;
   they are inverse to each other *)
Lemma hton_mem_spec n x : valid_width n -> 0 <= x < 256 ^ Z.of_nat n -> hton_mem n x = be_encode n x.
Proof.
  destruct endian_swaps as (H16 & H32 & H64 & _).
  intros [ -> | [ -> | -> ] ] Hx; cbn [hton_mem]; [apply (H16 x Hx)|apply (H32 x Hx)|apply (H64 x Hx)].
Qed.

Lemma ntoh_mem_spec l : valid_width (length l) -> ntoh_mem l = be_decode l.
Proof.
  destruct endian_swaps as (_ & _ & _ & N16 & N32 & N64).
  unfold ntoh_mem. intros [E|[E|E]]; rewrite E.
  - apply (swaps_decode 2); assumption.
  - apply (swaps_decode 4); assumption.
  - apply (swaps_decode 8); assumption.
Qed.

Lemma endian_roundtrip :
  (forall x, 0 <= x < 2 ^ 16 -> Endian_networkToHost16 (Endian_hostToNetwork16 x) = x /\
                                 Endian_hostToNetwork16 (Endian_networkToHost16 x) = x) /\
  (forall x, 0 <= x < 2 ^ 32 -> Endian_networkToHost32 (Endian_hostToNetwork32 x) = x /\
                                 Endian_hostToNetwork32 (Endian_networkToHost32 x) = x) /\
  (forall x, 0 <= x < 2 ^ 64 -> Endian_networkToHost64 (Endian_hostToNetwork64 x) = x /\
                                 Endian_hostToNetwork64 (Endian_networkToHost64 x) = x).
Proof.
  split; [|split]; intros x Hx; split.
  - apply (swaps_involutive 2 bswap_16 swaps_bswap_16). exact Hx.
  - apply (swaps_involutive 2 bswap_16 swaps_bswap_16). exact Hx.
  - apply (swaps_involutive 4 bswap_32 swaps_bswap_32). exact Hx.
  - apply (swaps_involutive 4 bswap_32 swaps_bswap_32). exact Hx.
  - apply (swaps_involutive 8 bswap_64 swaps_bswap_64). exact Hx.
  - apply (swaps_involutive 8 bswap_64 swaps_bswap_64). exact Hx.
Qed.

Lemma be_op_spec n x : valid_width n ->
  be_op n x = (be_encode n x, x mod 256 ^ Z.of_nat n).
Proof.
  intros Hn. unfold be_op. cbv zeta.
  assert (Hp : 0 < 256 ^ Z.of_nat n) by (apply Z.pow_pos_nonneg; lia).
  rewrite hton_mem_spec by (auto; apply Z.mod_pos_bound; exact Hp).
  rewrite be_encode_mod. rewrite ntoh_mem_spec by (rewrite be_encode_length; exact Hn).
  rewrite be_decode_encode. reflexivity.
Qed.

(* ---- IPv4 dotted quad -------------------------------------------------------------------- *)

Definition chk_octet (o : Z) : bool :=
  match parse_octet (dec o) with Some b => Byte.eqb b (byte_of_Z o) | None => false end &&
  forallb (fun c => negb (Byte.eqb c ch_dot) && negb (Byte.eqb c ch_colon)) (dec o) &&
  match dec o with c :: _ => negb (Byte.eqb c ch_lbr) | [] => false end.

Lemma sweep_octets : forallb chk_octet (zs 0 256) = true.
Proof. vm_cast_no_check (eq_refl true). Qed.

Lemma octet_facts (b : byte) :
  parse_octet (dec (Z_of_byte b)) = Some b /\
  Forall (fun c => Byte.eqb c ch_dot = false /\ Byte.eqb c ch_colon = false) (dec (Z_of_byte b)) /\
  exists c r, dec (Z_of_byte b) = c :: r /\ Byte.eqb c ch_lbr = false.
Proof.
  pose proof (Z_of_byte_range b) as Hb.
  pose proof (forallb_zs _ _ _ sweep_octets (Z_of_byte b) ltac:(lia)) as H. unfold chk_octet in H.
  rewrite !andb_true_iff in H. destruct H as [[H1 H2] H3].
  split; [|split].
  - destruct (parse_octet (dec (Z_of_byte b))) as [b'|]; [|discriminate].
    apply Byte.byte_dec_bl in H1. rewrite byte_of_Z_of_byte in H1. congruence.
  - rewrite forallb_forall in H2. apply Forall_forall. intros c Hc. specialize (H2 c Hc).
    rewrite andb_true_iff, !negb_true_iff in H2. exact H2.
  - destruct (dec (Z_of_byte b)) as [|c r]; [discriminate|]. exists c, r. split; [reflexivity|].
    apply negb_true_iff. exact H3.
Qed.

Lemma split_all_aux_nosep sep x l cur : Forall (fun b => Byte.eqb b sep = false) x ->
  split_all_aux sep (x ++ l) cur = split_all_aux sep l (rev x ++ cur).
Proof.
  intros H. revert cur. induction H as [|b r Hb _ IH]; intros cur; [reflexivity|].
  cbn [app split_all_aux]. rewrite Hb, IH. cbn [rev]. rewrite <- app_assoc. reflexivity.
Qed.

Lemma split_field sep x r : Forall (fun b => Byte.eqb b sep = false) x ->
  split_all_aux sep (x ++ sep :: r) [] = x :: split_all_aux sep r [].
Proof.
  intros H. rewrite split_all_aux_nosep by exact H. cbn [split_all_aux].
  assert (E : Byte.eqb sep sep = true) by (apply Byte.byte_dec_lb; reflexivity).
  rewrite E, app_nil_r, rev_involutive. reflexivity.
Qed.

Lemma split_last_field sep x : Forall (fun b => Byte.eqb b sep = false) x ->
  split_all_aux sep x [] = [x].
Proof.
  intros H. rewrite <- (app_nil_r x) at 1. rewrite split_all_aux_nosep by exact H.
  cbn [split_all_aux]. rewrite app_nil_r, rev_involutive. reflexivity.
Qed.

Lemma nodot b : Forall (fun c => Byte.eqb c ch_dot = false) (dec (Z_of_byte b)).
Proof. destruct (octet_facts b) as (_ & H & _). eapply Forall_impl; [|exact H]. cbv beta. tauto. Qed.

(* inet_pton(AF_INET) o inet_ntop(AF_INET) = id, for all 2^32 addresses *)
Lemma ipv4_roundtrip a b c d : pton4 (ntop4 [a; b; c; d]) = Some [a; b; c; d].
Proof.
  unfold pton4, ntop4, split_all. cbn [map join].
  rewrite (split_field _ _ _ (nodot a)), (split_field _ _ _ (nodot b)), (split_field _ _ _ (nodot c)),
          (split_last_field _ _ (nodot d)).
  cbn [length Nat.eqb map].
  destruct (octet_facts a) as (-> & _), (octet_facts b) as (-> & _), (octet_facts c) as (-> & _), (octet_facts d) as (-> & _).
  reflexivity.
Qed.

Lemma ntop4_no_colon a b c d : has_colon (ntop4 [a; b; c; d]) = false.
Proof.
  unfold has_colon, ntop4. cbn [map join].
  assert (Hn : forall x, existsb (fun b0 => Byte.eqb b0 ch_colon) (dec (Z_of_byte x)) = false).
  { intros x. destruct (octet_facts x) as (_ & H & _).
    induction H as [|y r [_ Hy] _ IH]; [reflexivity|]. cbn [existsb]. rewrite Hy, IH. reflexivity. }
  replace (Byte.eqb ch_dot ch_colon) with false in * by reflexivity.
  repeat (rewrite existsb_app; cbn [existsb]; rewrite ?Hn;
          replace (Byte.eqb ch_dot ch_colon) with false by reflexivity; cbn [orb]).
  rewrite ?Hn; reflexivity.
Qed.


(* ---- ip:port assembly ------------------------------------------------------------------- *)

Lemma split_last_none sep y : Forall (fun b => Byte.eqb b sep = false) y -> split_last_aux sep y = None.
Proof. induction 1 as [|b r Hb _ IH]; [reflexivity|]. cbn [split_last_aux]. rewrite IH, Hb. reflexivity. Qed.

Lemma split_last_app sep x y : Forall (fun b => Byte.eqb b sep = false) y ->
  split_last_aux sep (x ++ sep :: y) = Some (x, y).
Proof.
  intros Hy. induction x as [|b r IH]; cbn [app split_last_aux].
  - rewrite (split_last_none _ _ Hy).
    assert (E : Byte.eqb sep sep = true) by (apply Byte.byte_dec_lb; reflexivity). rewrite E. reflexivity.
  - rewrite IH. reflexivity.
Qed.

Lemma dec_no_colon n : Forall (fun b => Byte.eqb b ch_colon = false) (dec n).
Proof.
  unfold dec. eapply Forall_impl; [|apply pad_digits]. cbv beta. intros b Hb.
  destruct (Byte.eqb b ch_colon) eqn:E; [|reflexivity].
  apply Byte.byte_dec_bl in E. subst b. discriminate.
Qed.

(* ---- the generated pieces of SocketsOps.cc / InetAddress.cc ------------------------------ *)

Lemma has_marker_colon s : has_marker s = has_colon s.
Proof.
  unfold has_marker, has_colon. induction s as [|a r IH]; [reflexivity|].
  cbn [existsb]. rewrite IH. f_equal. destruct a; reflexivity.
Qed.

Lemma port_image f p : swaps 2 f -> 0 <= p < 65536 -> le_encode 2 (f p) = port_store p.
Proof. intros Hs Hp. exact (proj2 (Hs p Hp)). Qed.

Lemma port_value f p : swaps 2 f -> 0 <= p < 65536 -> f (le_decode (port_store p)) = p.
Proof.
  intros Hs Hp. unfold port_store. rewrite (swaps_decode 2 f Hs) by apply be_encode_length.
  apply be_unsigned_roundtrip. exact Hp.
Qed.

(* every place that stores a port stores it in network byte order; every place that reads one
   reads network byte order *)
Lemma port_sites p : 0 <= p < 65536 ->
  le_encode 2 (SocketsOps_fromIpPort4_sin_port p) = port_store p /\
  le_encode 2 (SocketsOps_fromIpPort6_sin6_port p) = port_store p /\
  le_encode 2 (InetAddress_ctor_sin_port p) = port_store p /\
  le_encode 2 (InetAddress_ctor_sin6_port p) = port_store p /\
  SocketsOps_toIpPort_port4 (le_decode (port_store p)) = p /\
  SocketsOps_toIpPort_port6 (le_decode (port_store p)) = p /\
  InetAddress_port (le_decode (port_store p)) = p.
Proof.
  intros Hp. destruct endian_swaps as (H16 & _ & _ & N16 & _).
  repeat split.
  - exact (port_image Endian_hostToNetwork16 p H16 Hp).
  - exact (port_image Endian_hostToNetwork16 p H16 Hp).
  - exact (port_image Endian_hostToNetwork16 p H16 Hp).
  - exact (port_image Endian_hostToNetwork16 p H16 Hp).
  - exact (port_value Endian_networkToHost16 p N16 Hp).
  - exact (port_value Endian_networkToHost16 p N16 Hp).
  - exact (port_value Endian_networkToHost16 p N16 Hp).
Qed.

Lemma fmt4_eq v : fmt_u SocketsOps_toIpPort_fmt4 v = ch_colon :: dec v.
Proof. unfold SocketsOps_toIpPort_fmt4. cbv -[dec app]. rewrite app_nil_r. reflexivity. Qed.

Lemma fmt6_eq v : fmt_u SocketsOps_toIpPort_fmt6 v = ch_rbr :: ch_colon :: dec v.
Proof. unfold SocketsOps_toIpPort_fmt6. cbv -[dec app]. rewrite app_nil_r. reflexivity. Qed.

Lemma toIp_v4 ntop6 sa : sa_family sa = AF_INET -> toIp ntop6 sa = ntop4 (sa_addr sa).
Proof. intros E. unfold toIp. rewrite E. reflexivity. Qed.

Lemma toIp_v6 ntop6 sa : sa_family sa = AF_INET6 -> toIp ntop6 sa = ntop6 (sa_addr sa).
Proof. intros E. unfold toIp. rewrite E. reflexivity. Qed.

(* muduo's own contribution to "ip:port" / "[ip6]:port": whatever inet_ntop(AF_INET6) prints,
   the text splits back into (is it IPv6, ip text, port) *)
Lemma ipport_roundtrip ntop6 sa p :
  0 <= p < 65536 -> sa_port sa = port_store p ->
  (sa_family sa = AF_INET \/ sa_family sa = AF_INET6) ->
  (sa_family sa = AF_INET -> exists a b c d, sa_addr sa = [a; b; c; d]) ->
  parse_ipport (toIpPort ntop6 sa) = Some (sa_family sa =? AF_INET6, toIp ntop6 sa, p).
Proof.
  intros Hp Hport Hfam H4. unfold parse_ipport, toIpPort. rewrite Hport.
  destruct (port_sites p Hp) as (_ & _ & _ & _ & L4 & L6 & _). rewrite L4, L6, fmt4_eq, fmt6_eq.
  assert (Hpd : parse_dec (dec p) = p) by (apply parse_dec_dec; lia).
  destruct Hfam as [Ef|Ef].
  - rewrite (toIp_v4 _ _ Ef). rewrite Ef.
    change (AF_INET =? SocketsOps_toIpPort_family6) with false. change (AF_INET =? AF_INET6) with false.
    cbv iota.
    destruct (H4 Ef) as (a & b & c & d & Ha). rewrite Ha.
    rewrite split_last_app by apply dec_no_colon.
    unfold ntop4. cbn [map join].
    destruct (octet_facts a) as (_ & _ & c0 & r0 & E0 & Hc0). rewrite E0. cbn [app].
    rewrite Hc0, Hpd. reflexivity.
  - rewrite (toIp_v6 _ _ Ef). rewrite Ef.
    change (AF_INET6 =? SocketsOps_toIpPort_family6) with true. change (AF_INET6 =? AF_INET6) with true.
    cbv iota. change (byte_of_Z SocketsOps_toIpPort_open6) with ch_lbr.
    replace (ch_lbr :: ntop6 (sa_addr sa) ++ ch_rbr :: ch_colon :: dec p)
      with ((ch_lbr :: ntop6 (sa_addr sa) ++ [ch_rbr]) ++ ch_colon :: dec p)
      by (cbn [app]; rewrite <- app_assoc; reflexivity).
    rewrite split_last_app by apply dec_no_colon.
    replace (Byte.eqb ch_lbr ch_lbr) with true by reflexivity.
    rewrite rev_app_distr. cbn [rev app].
    replace (Byte.eqb ch_rbr ch_rbr) with true by reflexivity.
    rewrite rev_involutive, Hpd. reflexivity.
Qed.

(* InetAddress(ip, port, ipv6) on a dotted quad: AF_INET, the same four bytes, the port stored
   in network order and read back by port(), toIp gives the text back *)
Lemma inet_make_ipv4 pton6 a b c d p : 0 <= p < 65536 ->
  let sa := inet_make pton6 (ntop4 [a; b; c; d]) p false in
  sa_family sa = AF_INET /\ sa_addr sa = [a; b; c; d] /\ sa_port sa = port_store p /\ inet_port sa = p /\
  forall ntop6, toIp ntop6 sa = ntop4 [a; b; c; d].
Proof.
  intros Hp. cbv zeta. unfold inet_make. rewrite has_marker_colon, ntop4_no_colon. cbn [orb].
  destruct (port_sites p Hp) as (S4 & _ & _ & _ & _ & _ & Lp).
  rewrite S4.
  change (inet_pton_m pton6 SocketsOps_fromIpPort4_pton_family (ntop4 [a; b; c; d])) with (pton4 (ntop4 [a; b; c; d])).
  rewrite ipv4_roundtrip. unfold inet_port. cbn [sa_family sa_addr sa_port]. rewrite Lp.
  repeat split; auto.
Qed.

(* any text with ':' (or the ipv6 flag) selects AF_INET6; the port is stored the same way *)
Lemma inet_make_v6 pton6 ip p flag : 0 <= p < 65536 -> (flag = true \/ has_colon ip = true) ->
  let sa := inet_make pton6 ip p flag in
  sa_family sa = AF_INET6 /\ sa_port sa = port_store p /\ inet_port sa = p /\
  sa_addr sa = match pton6 ip with Some a => a | None => zero_bytes 16 end.
Proof.
  intros Hp Hsel. cbv zeta. unfold inet_make. rewrite has_marker_colon.
  assert (E : flag || has_colon ip = true) by (destruct Hsel as [->| ->]; [reflexivity|apply orb_true_r]).
  rewrite E. destruct (port_sites p Hp) as (_ & S6 & _ & _ & _ & _ & Lp).
  rewrite S6. unfold inet_port. cbn [sa_family sa_addr sa_port]. rewrite Lp. repeat split; reflexivity.
Qed.

(* InetAddress(port, loopbackOnly, ipv6) *)
Lemma inet_port_only_spec p lo v6 : 0 <= p < 65536 ->
  let sa := inet_port_only p lo v6 in
  sa_family sa = (if v6 then AF_INET6 else AF_INET) /\ sa_port sa = port_store p /\ inet_port sa = p /\
  sa_addr sa = (if v6 then (if lo then zero_bytes 15 ++ [x01] else zero_bytes 16)
                else (if lo then [x7f; x00; x00; x01] else [x00; x00; x00; x00])).
Proof.
  intros Hp. cbv zeta. unfold inet_port_only, inet_port.
  destruct (port_sites p Hp) as (_ & _ & C4 & C6 & _ & _ & Lp).
  destruct endian_swaps as (_ & H32 & _).
  destruct v6; cbn [sa_family sa_addr sa_port]; rewrite ?C4, ?C6, Lp; repeat split; try reflexivity.
  unfold InetAddress_ctor_s_addr.
  destruct lo.
  - rewrite (proj2 (H32 2130706433 ltac:(cbv; split; [discriminate|reflexivity]))). reflexivity.
  - rewrite (proj2 (H32 0 ltac:(cbv; split; [discriminate|reflexivity]))). reflexivity.
Qed.

(* ---- packaged ----------------------------------------------------------------------------- *)

Lemma endian_helpers :
  (forall x, 0 <= x < 2 ^ 16 -> le_encode 2 (Endian_hostToNetwork16 x) = be_encode 2 x) /\
  (forall x, 0 <= x < 2 ^ 32 -> le_encode 4 (Endian_hostToNetwork32 x) = be_encode 4 x) /\
  (forall x, 0 <= x < 2 ^ 64 -> le_encode 8 (Endian_hostToNetwork64 x) = be_encode 8 x) /\
  (forall l, length l = 2%nat -> Endian_networkToHost16 (le_decode l) = be_decode l) /\
  (forall l, length l = 4%nat -> Endian_networkToHost32 (le_decode l) = be_decode l) /\
  (forall l, length l = 8%nat -> Endian_networkToHost64 (le_decode l) = be_decode l) /\
  (forall x, 0 <= x < 2 ^ 16 -> Endian_networkToHost16 (Endian_hostToNetwork16 x) = x /\
                                 Endian_hostToNetwork16 (Endian_networkToHost16 x) = x) /\
  (forall x, 0 <= x < 2 ^ 32 -> Endian_networkToHost32 (Endian_hostToNetwork32 x) = x /\
                                 Endian_hostToNetwork32 (Endian_networkToHost32 x) = x) /\
  (forall x, 0 <= x < 2 ^ 64 -> Endian_networkToHost64 (Endian_hostToNetwork64 x) = x /\
                                 Endian_hostToNetwork64 (Endian_networkToHost64 x) = x).
Proof.
  destruct endian_swaps as (H16 & H32 & H64 & N16 & N32 & N64).
  destruct endian_roundtrip as (R16 & R32 & R64).
  split; [intros x Hx; exact (proj2 (H16 x Hx))|].
  split; [intros x Hx; exact (proj2 (H32 x Hx))|].
  split; [intros x Hx; exact (proj2 (H64 x Hx))|].
  split; [exact (swaps_decode 2 _ N16)|].
  split; [exact (swaps_decode 4 _ N32)|].
  split; [exact (swaps_decode 8 _ N64)|].
  exact (conj R16 (conj R32 R64)).
Qed.

(* ---- buffers -------------------------------------------------------------------------------- *)

Definition chk_octet_len (o : Z) : bool := (length (dec o) <=? 3)%nat.

Lemma sweep_octet_len : forallb chk_octet_len (zs 0 256) = true.
Proof. vm_cast_no_check (eq_refl true). Qed.

Lemma dec_octet_len b : (length (dec (Z_of_byte b)) <= 3)%nat.
Proof.
  pose proof (Z_of_byte_range b) as Hb.
  pose proof (forallb_zs _ _ _ sweep_octet_len (Z_of_byte b) ltac:(lia)) as H.
  unfold chk_octet_len in H. apply Nat.leb_le in H. exact H.
Qed.

(* INET_ADDRSTRLEN - 1 *)
Lemma ntop4_len a b c d : (length (ntop4 [a; b; c; d]) <= 15)%nat.
Proof.
  unfold ntop4. cbn [map join]. rewrite !app_length. cbn [length]. rewrite !app_length. cbn [length].
  rewrite !app_length. cbn [length].
  pose proof (dec_octet_len a). pose proof (dec_octet_len b). pose proof (dec_octet_len c). pose proof (dec_octet_len d). lia.
Qed.

Lemma dec_port_len p : 0 <= p < 65536 -> (length (dec p) <= 5)%nat.
Proof.
  intros Hp. unfold dec. rewrite pad_length. apply ndigits_le; [|lia].
  change (10 ^ Z.of_nat 5) with 100000. lia.
Qed.

Lemma ntop_into_fits size text : Z.of_nat (length text) < size -> ntop_into size text = text.
Proof. intros H. unfold ntop_into. destruct (Z.ltb_spec (Z.of_nat (length text)) size); [reflexivity|lia]. Qed.

Lemma snprintf_into_fits room text : Z.of_nat (length text) < room -> snprintf_into room text = text.
Proof. intros H. unfold snprintf_into. apply firstn_all2. lia. Qed.

(* InetAddress::toIp() / toIpPort() with their scratch arrays (sizes GENERATED from InetAddress.cc,
   size checks and the '[' offset GENERATED from SocketsOps.cc): no assert of SocketsOps.cc fires and
   nothing is truncated -- the strings are those of the unbounded model -- for every address and
   port, provided the IPv6 text has at most INET6_ADDRSTRLEN - 1 = 45 characters (C20_Ip6Proofs proves
   39 for the RFC 5952 printer) *)
Lemma inet_buffers ntop6 sa p :
  (sa_family sa = AF_INET6 -> (length (ntop6 (sa_addr sa)) <= 45)%nat) ->
  0 <= p < 65536 -> sa_port sa = port_store p ->
  (sa_family sa = AF_INET \/ sa_family sa = AF_INET6) ->
  (sa_family sa = AF_INET -> exists a b c d, sa_addr sa = [a; b; c; d]) ->
  inet_toIp ntop6 sa = Some (toIp ntop6 sa) /\ inet_toIpPort ntop6 sa = Some (toIpPort ntop6 sa).
Proof.
  intros H6 Hp Hport Hfam H4.
  destruct (port_sites p Hp) as (_ & _ & _ & _ & L4 & L6 & _).
  pose proof (dec_port_len p Hp) as Hdl.
  unfold inet_toIp, inet_toIpPort, toIp_buf, toIpPort_buf, toIpPort, toIp_buf. rewrite Hport, L4, L6, fmt4_eq, fmt6_eq.
  destruct Hfam as [Ef|Ef].
  - rewrite (toIp_v4 _ _ Ef). rewrite Ef. destruct (H4 Ef) as (a & b & c & d & Ha). rewrite Ha.
    pose proof (ntop4_len a b c d) as Hl.
    change (AF_INET =? SocketsOps_toIp_family4) with true.
    change (AF_INET =? SocketsOps_toIpPort_family6) with false.
    change (inet_ntop_m ntop6 SocketsOps_toIp_family4 [a; b; c; d]) with (ntop4 [a; b; c; d]).
    change (InetAddress_toIp_bufsize >=? SocketsOps_toIp_need4) with true.
    change (InetAddress_toIpPort_bufsize >=? SocketsOps_toIp_need4) with true.
    cbv iota.
    rewrite !ntop_into_fits by (change InetAddress_toIp_bufsize with 64; change InetAddress_toIpPort_bufsize with 64; lia).
    split; [reflexivity|].
    destruct (Z.gtb_spec InetAddress_toIpPort_bufsize (Z.of_nat (length (ntop4 [a; b; c; d])))) as [_|Hbad];
      [|change InetAddress_toIpPort_bufsize with 64 in Hbad; lia].
    rewrite snprintf_into_fits; [reflexivity|].
    cbn [length]. change InetAddress_toIpPort_bufsize with 64. lia.
  - rewrite (toIp_v6 _ _ Ef). pose proof (H6 Ef) as Hl. rewrite Ef.
    change (AF_INET6 =? SocketsOps_toIp_family4) with false.
    change (AF_INET6 =? SocketsOps_toIp_family6) with true.
    change (AF_INET6 =? SocketsOps_toIpPort_family6) with true.
    change (inet_ntop_m ntop6 SocketsOps_toIp_family6 (sa_addr sa)) with (ntop6 (sa_addr sa)).
    change (InetAddress_toIp_bufsize >=? SocketsOps_toIp_need6) with true.
    change (InetAddress_toIpPort_bufsize - SocketsOps_toIpPort_v6_off >=? SocketsOps_toIp_need6) with true.
    cbv iota.
    rewrite !ntop_into_fits by (change InetAddress_toIp_bufsize with 64; change InetAddress_toIpPort_bufsize with 64;
                                change SocketsOps_toIpPort_v6_off with 1; lia).
    split; [reflexivity|]. cbv zeta.
    destruct (Z.gtb_spec InetAddress_toIpPort_bufsize (Z.of_nat (length (byte_of_Z SocketsOps_toIpPort_open6 :: ntop6 (sa_addr sa))))) as [_|Hbad];
      [|cbn [length] in Hbad; change InetAddress_toIpPort_bufsize with 64 in Hbad; lia].
    rewrite snprintf_into_fits; [reflexivity|].
    cbn [length]. change InetAddress_toIpPort_bufsize with 64. lia.
Qed.

(* the sizes, spelled out: '[' + 45 + "]:" + 5 digits + NUL fits, and what is left after the '['
   satisfies the size check of sockets::toIp *)
Lemma inet_buffer_sizes :
  InetAddress_toIpPort_bufsize >= 1 + 45 + 2 + 5 + 1 /\ InetAddress_toIp_bufsize >= 45 + 1 /\
  InetAddress_toIpPort_bufsize - SocketsOps_toIpPort_v6_off >= SocketsOps_toIp_need6 /\
  InetAddress_toIp_bufsize >= SocketsOps_toIp_need6 /\ SocketsOps_toIp_need6 >= 45 + 1 /\ SocketsOps_toIp_need4 >= 15 + 1.
Proof. vm_compute. repeat split; discriminate. Qed.

(* setScopeId changes nothing toIp / toIpPort / port() print; on an IPv4 address it does nothing *)
Lemma scope_id_invisible ntop6 sa id :
  toIp ntop6 (set_scope_id sa id) = toIp ntop6 sa /\ toIpPort ntop6 (set_scope_id sa id) = toIpPort ntop6 sa /\
  inet_toIp ntop6 (set_scope_id sa id) = inet_toIp ntop6 sa /\ inet_toIpPort ntop6 (set_scope_id sa id) = inet_toIpPort ntop6 sa /\
  inet_port (set_scope_id sa id) = inet_port sa /\
  (sa_family sa = AF_INET -> set_scope_id sa id = sa) /\
  (sa_family sa = AF_INET6 -> sa_scope (set_scope_id sa id) = id).
Proof.
  unfold set_scope_id. destruct (Z.eqb_spec (sa_family sa) InetAddress_setScopeId_family) as [E|E].
  - repeat split; try reflexivity. intros H. rewrite H in E. discriminate.
  - repeat split; try reflexivity. intros H. rewrite H in E. exfalso. apply E. reflexivity.
Qed.
