(* C05_GenLink: the functions generated from the CURRENT EventLoopThreadPool.cc (Gen_C05) are the
   model's functions, for all arguments; hence every theorem of C05_PoolProofs holds of them. *)
From Coq Require Import List Bool Arith Lia.
Import ListNotations.
From Muduo Require Import C05_Model C05_PoolProofs Gen_C05 C05_GenRun.

Ltac btests :=
  repeat match goal with
         | |- context [Nat.leb ?a ?b] => destruct (Nat.leb_spec a b)
         | |- context [Nat.ltb ?a ?b] => destruct (Nat.ltb_spec a b)
         | |- context [Nat.eqb ?a ?b] => destruct (Nat.eqb_spec a b)
         end;
  cbn [negb andb orb]; try reflexivity; try (exfalso; lia); try (repeat f_equal; lia).

Lemma gen_next_is_model : forall n next, gen_get_next n next = get_next pinned_pshape n next.
Proof. intros n next. unfold gen_get_next, get_next, pinned_pshape. cbn [p_nonempty p_wrap p_hash]. btests. Qed.

Lemma gen_hash_is_model : forall n next h, gen_get_hash n next h = (get_hash pinned_pshape n h, next).
Proof. intros n next h. unfold gen_get_hash, get_hash, pinned_pshape. cbn [p_nonempty p_wrap p_hash]. btests. Qed.

Lemma gen_pool_run_is_model : forall n ops next, gen_pool_run n next ops = pool_run pinned_pshape n next ops.
Proof.
  intros n. induction ops as [|o r IH]; intros next; [reflexivity|].
  destruct o as [|h]; cbn [gen_pool_run pool_run].
  - rewrite gen_next_is_model. destruct (get_next pinned_pshape n next) as [x nx]. rewrite IH. reflexivity.
  - rewrite gen_hash_is_model. rewrite IH. reflexivity.
Qed.

Lemma gen_eshape_is_model : gen_eshape = pinned_eshape.
Proof. reflexivity. Qed.

(* ---------------------------------------------------------------- the pool theorems, of the generated functions *)
Theorem gen_pool_any_sequence : forall N ops c, 0 < N ->
  gen_pool_run N (c mod N) ops = (pool_spec N c ops, (c + count_next ops) mod N).
Proof. intros N ops c H. rewrite gen_pool_run_is_model. apply pool_run_spec; [apply pinned_pshape_ok|exact H]. Qed.

Theorem gen_round_robin : forall N k i, 0 < N -> i < k ->
  nth i (fst (gen_pool_run N 0 (repeat PNext k))) None = Some (i mod N).
Proof. intros N k i H1 H2. rewrite gen_pool_run_is_model. apply round_robin; [apply pinned_pshape_ok|exact H1|exact H2]. Qed.

Theorem gen_round_robin_distinct : forall N c, 0 < N ->
  fst (gen_pool_run N (c mod N) (repeat PNext N)) = map (fun i => Some ((c + i) mod N)) (seq 0 N) /\
  NoDup (map (fun i => (c + i) mod N) (seq 0 N)) /\ (forall i, (c + i) mod N < N).
Proof.
  intros N c H. split; [|apply consecutive_distinct; exact H].
  rewrite gen_pool_any_sequence by exact H. cbn [fst].
  assert (G : forall k c, pool_spec N c (repeat PNext k) = map (fun i => Some ((c + i) mod N)) (seq 0 k)).
  { induction k as [|k IH]; intros c0; [reflexivity|]. cbn [repeat pool_spec seq map]. rewrite Nat.add_0_r. f_equal.
    rewrite IH, <- seq_shift, map_map. apply map_ext. intros a. do 2 f_equal. lia. }
  apply G.
Qed.

Theorem gen_hash_stable : forall N, 0 < N -> forall ops1 ops2 c1 c2 i1 i2 h,
  nth_error ops1 i1 = Some (PHash h) -> nth_error ops2 i2 = Some (PHash h) ->
  nth_error (fst (gen_pool_run N (c1 mod N) ops1)) i1 = Some (Some (h mod N)) /\
  nth_error (fst (gen_pool_run N (c2 mod N) ops2)) i2 = Some (Some (h mod N)).
Proof.
  intros N H ops1 ops2 c1 c2 i1 i2 h H1 H2. rewrite !gen_pool_run_is_model.
  apply hash_stable; auto. apply pinned_pshape_ok.
Qed.

Theorem gen_empty_pool_base : forall ops next,
  gen_pool_run 0 next ops = (map (fun _ => None) ops, next).
Proof. intros ops next. rewrite gen_pool_run_is_model. apply pool_run_empty. apply pinned_pshape_ok. Qed.
