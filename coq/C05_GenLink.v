(* C05_GenLink: the functions generated from the CURRENT EventLoopThreadPool.cc (Gen_C05, C integer
   semantics: int wrap-around, conversion to size_t) are the model's functions on every state the
   pool can be in (cursor below the pool size, pool size below 2^31, hash codes below 2^64); hence
   every theorem of C05_PoolProofs holds of them. *)
From Coq Require Import List Bool Arith ZArith Lia.
Import ListNotations.
From Muduo Require Import C05_Model C05_PoolProofs Gen_C05 C05_GenRun.

Definition zo (x : option nat) : option Z := option_map Z.of_nat x.
Definition zres (r : list (option nat) * nat) : list (option Z) * Z := (map zo (fst r), Z.of_nat (snd r)).
Definition int_max : Z := 2147483647.
Definition size_max : Z := 18446744073709551615.
Definition hashes_ok (ops : list pop) : Prop :=
  Forall (fun o => match o with PHash h => (Z.of_nat h <= size_max)%Z | PNext => True end) ops.

Ltac ztests :=
  repeat match goal with
         | |- context [Z.leb ?a ?b] => destruct (Z.leb_spec a b)
         | |- context [Z.ltb ?a ?b] => destruct (Z.ltb_spec a b)
         | |- context [Z.eqb ?a ?b] => destruct (Z.eqb_spec a b)
         | |- context [Nat.leb ?a ?b] => destruct (Nat.leb_spec a b)
         | |- context [Nat.ltb ?a ?b] => destruct (Nat.ltb_spec a b)
         | |- context [Nat.eqb ?a ?b] => destruct (Nat.eqb_spec a b)
         end;
  cbn [negb andb orb fst snd option_map]; try reflexivity.

Ltac Zify.zify_post_hook ::= Z.div_mod_to_equations.

Lemma gen_next_is_model : forall n next : nat,
  (Z.of_nat n <= int_max)%Z -> (n = 0 \/ next < n) ->
  gen_get_next (Z.of_nat n) (Z.of_nat next) =
    (zo (fst (get_next pinned_pshape n next)), Z.of_nat (snd (get_next pinned_pshape n next))).
Proof.
  intros n next B H. unfold int_max in B.
  unfold gen_get_next, get_next, pinned_pshape, zo, wrap32, to_size. cbn [p_nonempty p_wrap p_hash].
  ztests; try (exfalso; lia); try (repeat f_equal; lia).
Qed.

Lemma gen_hash_is_model : forall (n h : nat) (next : Z),
  (Z.of_nat h <= size_max)%Z ->
  gen_get_hash (Z.of_nat n) next (Z.of_nat h) = (zo (get_hash pinned_pshape n h), next).
Proof.
  intros n h next B. unfold size_max in B.
  unfold gen_get_hash, get_hash, pinned_pshape, zo, wrap32, to_size. cbn [p_nonempty p_wrap p_hash].
  ztests; try (exfalso; lia); try (repeat f_equal; try lia).
  all: try (rewrite Nat2Z.inj_mod; reflexivity).
Qed.

Lemma gen_eshape_is_model : gen_eshape = pinned_eshape.
Proof. reflexivity. Qed.

Lemma get_next_bound : forall n next, (n = 0 \/ next < n) ->
  (n = 0 \/ snd (get_next pinned_pshape n next) < n).
Proof.
  intros n next [->|H]; [left; reflexivity|right]. unfold get_next, pinned_pshape. cbn [p_nonempty p_wrap].
  destruct (Nat.eqb_spec n 0); [lia|]. cbn [negb snd]. destruct (Nat.leb_spec n (S next)); lia.
Qed.

(* any sequence of calls executed with the generated functions *)
Lemma gen_pool_run_is_model : forall n ops next,
  (Z.of_nat n <= int_max)%Z -> (n = 0 \/ next < n) -> hashes_ok ops ->
  gen_pool_run (Z.of_nat n) (Z.of_nat next) ops = zres (pool_run pinned_pshape n next ops).
Proof.
  intros n ops. induction ops as [|o r IH]; intros next B H HO; [reflexivity|].
  inversion HO as [|? ? HO1 HO2]; subst.
  destruct o as [|h]; cbn [gen_pool_run pool_run].
  - rewrite gen_next_is_model by assumption.
    pose proof (get_next_bound n next H) as H'.
    destruct (get_next pinned_pshape n next) as [x nx]. cbn [fst snd] in *. rewrite IH by assumption.
    destruct (pool_run pinned_pshape n nx r). reflexivity.
  - rewrite gen_hash_is_model by assumption. rewrite IH by assumption.
    destruct (pool_run pinned_pshape n next r). reflexivity.
Qed.

(* ---------------------------------------------------------------- the pool theorems, of the generated functions *)
(* N < 2^31 threads (the cursor is an int), hash codes are size_t values *)
Theorem gen_pool_any_sequence : forall N ops c, 0 < N -> (Z.of_nat N <= int_max)%Z -> hashes_ok ops ->
  gen_pool_run (Z.of_nat N) (Z.of_nat (c mod N)) ops = zres (pool_spec N c ops, (c + count_next ops) mod N).
Proof.
  intros N ops c H B HO.
  rewrite gen_pool_run_is_model by (first [assumption | right; apply Nat.mod_upper_bound; lia]).
  rewrite pool_run_spec; [reflexivity|apply pinned_pshape_ok|exact H].
Qed.

Lemma hashes_ok_repeat : forall k, hashes_ok (repeat PNext k).
Proof. induction k; cbn; constructor; auto. Qed.

Theorem gen_round_robin : forall N k i, 0 < N -> (Z.of_nat N <= int_max)%Z -> i < k ->
  nth i (fst (gen_pool_run (Z.of_nat N) 0 (repeat PNext k))) None = Some (Z.of_nat (i mod N)).
Proof.
  intros N k i H1 B H2. change 0%Z with (Z.of_nat 0).
  rewrite gen_pool_run_is_model by (first [assumption | right; exact H1 | apply hashes_ok_repeat]).
  unfold zres. cbn [fst]. change (@None Z) with (zo None). rewrite map_nth.
  rewrite round_robin; [reflexivity|apply pinned_pshape_ok|exact H1|exact H2].
Qed.

Theorem gen_round_robin_distinct : forall N c, 0 < N -> (Z.of_nat N <= int_max)%Z ->
  fst (gen_pool_run (Z.of_nat N) (Z.of_nat (c mod N)) (repeat PNext N)) =
    map (fun i => Some (Z.of_nat ((c + i) mod N))) (seq 0 N) /\
  NoDup (map (fun i => (c + i) mod N) (seq 0 N)) /\ (forall i, (c + i) mod N < N).
Proof.
  intros N c H B. split; [|apply consecutive_distinct; exact H].
  rewrite gen_pool_any_sequence by (auto using hashes_ok_repeat). unfold zres. cbn [fst].
  assert (G : forall k c, pool_spec N c (repeat PNext k) = map (fun i => Some ((c + i) mod N)) (seq 0 k)).
  { induction k as [|k IH]; intros c0; [reflexivity|]. cbn [repeat pool_spec seq map]. rewrite Nat.add_0_r. f_equal.
    rewrite IH, <- seq_shift, map_map. apply map_ext. intros a. do 2 f_equal. lia. }
  rewrite G, map_map. reflexivity.
Qed.

Theorem gen_hash_stable : forall N, 0 < N -> (Z.of_nat N <= int_max)%Z -> forall ops1 ops2 c1 c2 i1 i2 h,
  hashes_ok ops1 -> hashes_ok ops2 ->
  nth_error ops1 i1 = Some (PHash h) -> nth_error ops2 i2 = Some (PHash h) ->
  nth_error (fst (gen_pool_run (Z.of_nat N) (Z.of_nat (c1 mod N)) ops1)) i1 = Some (Some (Z.of_nat (h mod N))) /\
  nth_error (fst (gen_pool_run (Z.of_nat N) (Z.of_nat (c2 mod N)) ops2)) i2 = Some (Some (Z.of_nat (h mod N))).
Proof.
  intros N H B ops1 ops2 c1 c2 i1 i2 h O1 O2 H1 H2.
  rewrite !gen_pool_any_sequence by assumption. unfold zres. cbn [fst].
  split; rewrite nth_error_map; erewrite pool_spec_hash by eassumption; reflexivity.
Qed.

Theorem gen_empty_pool_base : forall ops next, hashes_ok ops ->
  gen_pool_run 0 (Z.of_nat next) ops = (map (fun _ => None) ops, Z.of_nat next).
Proof.
  intros ops next HO. change 0%Z with (Z.of_nat 0).
  rewrite gen_pool_run_is_model by (first [assumption | unfold int_max; lia | left; reflexivity]).
  rewrite pool_run_empty by apply pinned_pshape_ok. unfold zres. cbn [fst snd]. rewrite map_map. reflexivity.
Qed.
