(* C05_GenLink: the functions generated from the CURRENT EventLoopThreadPool.cc (Gen_C05) are the
   model's functions, for all arguments; hence every theorem of C05_PoolProofs holds of them. *)
From Coq Require Import List Bool Arith Lia.
Import ListNotations.
From Muduo Require Import C05_Model C05_PoolProofs Gen_C05 C05_GenRun.

Ltac btests :=
  repeat match goal with
         | |- context [Nat.leb ?a ?b] => destruct (Nat.leb_spec a b)
         | |- context [Nat.ltb ?a ?b] => destruct (Nat.ltb_spec a b)
         | |- context [Nat.eqb ?a ?b] => destruct (Nat.eqb_spec a b)
         end;
  cbn [negb andb orb]; try reflexivity; try (exfalso; lia); try (repeat f_equal; lia).

Lemma gen_next_is_model : forall n next, gen_get_next n next = get_next pinned_pshape n next.
Proof. intros n next. unfold gen_get_next, get_next, pinned_pshape. cbn [p_nonempty p_wrap p_hash]. btests. Qed.

Lemma gen_hash_is_model : forall n next h, gen_get_hash n next h = (get_hash pinned_pshape n h, next).
Proof. intros n next h. unfold gen_get_hash, get_hash, pinned_pshape. cbn [p_nonempty p_wrap p_hash]. btests. Qed.

Lemma gen_pool_run_is_model : forall n ops next, gen_pool_run n next ops = pool_run pinned_pshape n next ops.
Proof.
  intros n. induction ops as [|o r IH]; intros next; [reflexivity|].
  destruct o as [|h]; cbn [gen_pool_run pool_run].
  - rewrite gen_next_is_model. destruct (get_next pinned_pshape n next) as [x nx]. rewrite IH. reflexivity.
  - rewrite gen_hash_is_model. rewrite IH. reflexivity.
Qed.

Lemma gen_eshape_is_model : gen_eshape = pinned_eshape.
Proof. reflexivity. Qed.
