(* C11_Model: the listening side under transient faults.  Acceptor::handleRead
   (muduo/net/Acceptor.cc:55-89) on top of sockets::accept's errno classification
   (SocketsOps.cc:115-157, regenerated into Gen_C11 on every run).
   The connection-level faults (short writes, EAGAIN, EINTR on write/readv) are ordinary
   environment inputs of Conn_Model; see Conn_Faults / Properties_C11. *)
From Coq Require Import List ZArith Lia Bool Arith.
From Muduo Require Import Gen_C11.
Import ListNotations.
Local Open Scope Z_scope.

Inductive aclass := Expected | Fatal.

Definition zmem (x : Z) (l : list Z) : bool := existsb (Z.eqb x) l.

(* the switch of sockets::accept, as generated *)
Definition accept_class (e : Z) : aclass :=
  if zmem e accept_expected then Expected
  else if zmem e accept_fatal then Fatal
  else if accept_default_fatal then Fatal else Expected.

(* what ::accept4 answers when the listener is dispatched *)
Inductive accept_res := AOk | AErr (e : Z).

Inductive aevent :=
| NewConn          (* newConnectionCallback_(connfd, peer) *)
| ValveClosed      (* a pending connection accepted on the spare descriptor and closed at once *)
| Abort.           (* LOG_FATAL: the process aborts, by design, for non-transient classes *)

Record acc := mkAcc {
  pendq : nat;       (* connections completed by the kernel, waiting in the listen queue *)
  idle_ok : bool;    (* idleFd_ refers to an open descriptor *)
  handed : nat;      (* connections handed to newConnectionCallback_ *)
  valved : nat;      (* connections closed by the escape hatch *)
  open_fds : nat;    (* descriptors this component holds open (census), the listener included *)
  dead : bool        (* aborted *)
}.

Definition acc_init : acc := mkAcc 0 true 0 0 2 false.   (* listener + idle descriptor *)

(* environment: a client completes a handshake *)
Definition client_connects (a : acc) : acc :=
  mkAcc (S (pendq a)) (idle_ok a) (handed a) (valved a) (open_fds a) (dead a).

(* Acceptor::handleRead with the kernel's answer [r].  Kernel contract (DESIGN 3.4): accept
   succeeds only if a connection is pending; with none pending the answer is EAGAIN. *)
Definition handleRead (a : acc) (r : accept_res) : acc * list aevent :=
  if dead a then (a, []) else
  let r' := match r with AOk => (match pendq a with O => AErr errno_EAGAIN | S _ => AOk end) | e => e end in
  match r' with
  | AOk =>
      (* the new descriptor is handed over: it now belongs to the connection, not to the acceptor *)
      (mkAcc (pred (pendq a)) (idle_ok a) (S (handed a)) (valved a) (open_fds a) false, [NewConn])
  | AErr e =>
      match accept_class e with
      | Fatal => (mkAcc (pendq a) (idle_ok a) (handed a) (valved a) (open_fds a) true, [Abort])
      | Expected =>
          if (e =? errno_EMFILE) && acceptor_has_emfile_valve then
            (* close(idleFd_); idleFd_ = accept(...); close(idleFd_); idleFd_ = open("/dev/null") *)
            match pendq a with
            | O => (a, [])      (* nothing pending: accept fails, the spare descriptor is reopened *)
            | S n => (mkAcc n true (handed a) (S (valved a)) (open_fds a) false, [ValveClosed])
            end
          else (a, [])
      end
  end.

Inductive aop := Connect | Dispatch (r : accept_res).

Definition astep (a : acc) (o : aop) : acc * list aevent :=
  match o with
  | Connect => (client_connects a, [])
  | Dispatch r => handleRead a r
  end.

Fixpoint arun (a : acc) (ops : list aop) : acc * list aevent :=
  match ops with
  | [] => (a, [])
  | o :: rest => let '(a1, e1) := astep a o in let '(a2, e2) := arun a1 rest in (a2, e1 ++ e2)
  end.

(* n dispatches while the descriptor shortage persists *)
Fixpoint starve (a : acc) (n : nat) : acc :=
  match n with
  | O => a
  | S n' => starve (fst (handleRead a (AErr errno_EMFILE))) n'
  end.

(* ---- the poll call: EPollPoller::poll / PollPoller::poll ------------------------------- *)
(* result of one epoll_wait/poll: n >= 0 ready entries, or -1 with an errno *)
Inductive poll_res := PReady (n : nat) | PErr (e : Z).

(* how many channels the loop dispatches in this iteration, and whether the loop goes on *)
Definition poll_iteration (r : poll_res) : nat * bool :=
  match r with
  | PReady n => (n, true)
  | PErr _ => (0%nat, true)     (* EINTR silent, others logged; the loop simply iterates again *)
  end.

(* ---- one connect attempt: Connector::connect (Connector.cc:78-117), added 2026-10-02 ---------- *)
(* what happens to the socket the attempt created, for the errno [e] that ::connect left (0 =
   success): how often it is closed, and whether it ends in a Channel watching writability.
   Everything is read off the generated facts: per switch group how often its body calls
   connecting(sockfd) / retry(sockfd) / sockets::close(sockfd) ([connect_groups],
   [connect_default_group]), how often retry() closes its argument unconditionally, whether
   connecting() closes anything / creates the channel. *)
Fixpoint connect_group_of (e : Z) (l : list (list Z * (nat * nat * nat))) : nat * nat * nat :=
  match l with
  | [] => connect_default_group
  | (labels, t) :: r => if zmem e labels then t else connect_group_of e r
  end.

Record attempt := mkAttempt {
  at_created : nat;      (* sockets created by the attempt *)
  at_closes : nat;       (* close() calls on the created socket *)
  at_watched : bool;     (* handed to a Channel with write interest (to be continued by handleWrite / handleError) *)
  at_retries : nat       (* retry timers armed (if connect_ is still set) *)
}.

Definition connect_attempt (e : Z) : attempt :=
  let '(cg, rt, cl) := connect_group_of e connect_groups in
  mkAttempt connect_creates_sockets
            (cl + rt * connector_retry_closes + cg * connector_connecting_closes)
            ((0 <? cg)%nat && connector_connecting_watches)
            rt.

(* ---- the idleFd_ protocol of the EMFILE branch, statement by statement ------------------------- *)
(* the spare descriptor: closed / refers to /dev/null / refers to a connection taken from the listen queue *)
Inductive idle := IdleClosed | IdleNull | IdleConn.

Record valve := mkValve {
  v_idle : idle;
  v_pend : nat;        (* listen queue *)
  v_closed : nat;      (* pending connections accepted on the spare descriptor and closed *)
  v_leaked : nat       (* open descriptors whose number was overwritten without a close *)
}.

(* 1 = ::close(idleFd_), 2 = idleFd_ = ::accept(listener), 3 = idleFd_ = ::open("/dev/null"), other = no effect on the protocol *)
Definition valve_step (v : valve) (code : Z) : valve :=
  let lost := match v_idle v with IdleClosed => 0%nat | _ => 1%nat end in
  if code =? 1 then
    mkValve IdleClosed (v_pend v) (match v_idle v with IdleConn => S (v_closed v) | _ => v_closed v end) (v_leaked v)
  else if code =? 2 then
    match v_pend v with
    | O => mkValve IdleClosed O (v_closed v) (v_leaked v + lost)            (* accept fails: idleFd_ = -1 *)
    | S n => mkValve IdleConn n (v_closed v) (v_leaked v + lost)
    end
  else if code =? 3 then mkValve IdleNull (v_pend v) (v_closed v) (v_leaked v + lost)
  else v.

Definition run_valve (v : valve) (codes : list Z) : valve := fold_left valve_step codes v.
