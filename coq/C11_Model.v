(* C11_Model: the listening side under transient faults.  Acceptor::handleRead
   (muduo/net/Acceptor.cc:55-89) on top of sockets::accept's errno classification
   (SocketsOps.cc:115-157, regenerated into Gen_C11 on every run).
   The connection-level faults (short writes, EAGAIN, EINTR on write/readv) are ordinary
   environment inputs of Conn_Model; see Conn_Faults / Properties_C11. *)
From Coq Require Import List ZArith Lia Bool Arith.
From Muduo Require Import Gen_C11.
Import ListNotations.
Local Open Scope Z_scope.

Inductive aclass := Expected | Fatal.

Definition zmem (x : Z) (l : list Z) : bool := existsb (Z.eqb x) l.

(* the switch of sockets::accept, as generated *)
Definition accept_class (e : Z) : aclass :=
  if zmem e accept_expected then Expected
  else if zmem e accept_fatal then Fatal
  else if accept_default_fatal then Fatal else Expected.

(* what ::accept4 answers when the listener is dispatched *)
Inductive accept_res := AOk | AErr (e : Z).

Inductive aevent :=
| NewConn          (* newConnectionCallback_(connfd, peer) *)
| ValveClosed      (* a pending connection accepted on the spare descriptor and closed at once *)
| Abort.           (* LOG_FATAL: the process aborts, by design, for non-transient classes *)

Record acc := mkAcc {
  pendq : nat;       (* connections completed by the kernel, waiting in the listen queue *)
  idle_ok : bool;    (* idleFd_ refers to an open descriptor on /dev/null *)
  handed : nat;      (* connections handed to newConnectionCallback_ *)
  valved : nat;      (* connections closed by the escape hatch *)
  open_fds : nat;    (* descriptors this component holds open (census), the listener included *)
  dead : bool        (* aborted *)
}.

Definition acc_init : acc := mkAcc 0 true 0 0 2 false.   (* listener + idle descriptor *)

(* environment: a client completes a handshake *)
Definition client_connects (a : acc) : acc :=
  mkAcc (S (pendq a)) (idle_ok a) (handed a) (valved a) (open_fds a) (dead a).

(* ---- the idleFd_ protocol of the EMFILE branch, statement by statement (acceptor_valve_protocol is
   regenerated from Acceptor::handleRead) ------------------------------------------------------------ *)
(* the spare descriptor: closed / refers to /dev/null / refers to a connection taken from the listen queue *)
Inductive idle := IdleClosed | IdleNull | IdleConn.

Record valve := mkValve {
  v_idle : idle;
  v_pend : nat;        (* listen queue *)
  v_closed : nat;      (* pending connections accepted on the spare descriptor and closed *)
  v_leaked : nat       (* open descriptors whose number was overwritten without a close *)
}.

(* 1 = ::close(idleFd_), 2 = idleFd_ = ::accept(listener), 3 = idleFd_ = ::open("/dev/null"), other = no effect on the protocol *)
Definition valve_step (v : valve) (code : Z) : valve :=
  let lost := match v_idle v with IdleClosed => 0%nat | _ => 1%nat end in
  if code =? 1 then
    mkValve IdleClosed (v_pend v) (match v_idle v with IdleConn => S (v_closed v) | _ => v_closed v end) (v_leaked v)
  else if code =? 2 then
    match v_pend v with
    | O => mkValve IdleClosed O (v_closed v) (v_leaked v + lost)            (* accept fails: idleFd_ = -1 *)
    | S n => mkValve IdleConn n (v_closed v) (v_leaked v + lost)
    end
  else if code =? 3 then mkValve IdleNull (v_pend v) (v_closed v) (v_leaked v + lost)
  else v.

Definition run_valve (v : valve) (codes : list Z) : valve := fold_left valve_step codes v.

(* Acceptor::handleRead with the kernel's answer [r].  Kernel contract (DESIGN 3.4): accept
   succeeds only if a connection is pending; with none pending the answer is EAGAIN. *)
Definition handleRead (a : acc) (r : accept_res) : acc * list aevent :=
  if dead a then (a, []) else
  let r' := match r with AOk => (match pendq a with O => AErr errno_EAGAIN | S _ => AOk end) | e => e end in
  match r' with
  | AOk =>
      (* the new descriptor is handed over: it now belongs to the connection, not to the acceptor *)
      (mkAcc (pred (pendq a)) (idle_ok a) (S (handed a)) (valved a) (open_fds a) false, [NewConn])
  | AErr e =>
      match accept_class e with
      | Fatal => (mkAcc (pendq a) (idle_ok a) (handed a) (valved a) (open_fds a) true, [Abort])
      | Expected =>
          if (e =? errno_EMFILE) && acceptor_has_emfile_valve then
            (* the branch AS IT STANDS IN THE SOURCE, run statement by statement (2026-10-02, REVIEW_C
               item 5: the spare descriptor's validity and the descriptor census are now computed, no
               longer copied): descriptors held afterwards = those held before, minus the spare one if
               it was open, plus the spare one if it is open now, plus every descriptor whose number
               was overwritten while still open *)
            let v := run_valve (mkValve (if idle_ok a then IdleNull else IdleClosed) (pendq a) 0 0)
                               acceptor_valve_protocol in
            (mkAcc (v_pend v) (match v_idle v with IdleNull => true | _ => false end)
                   (handed a) (valved a + v_closed v)
                   (open_fds a - (if idle_ok a then 1 else 0)
                    + (match v_idle v with IdleClosed => 0 | _ => 1 end) + v_leaked v) false,
             repeat ValveClosed (v_closed v))
          else (a, [])
      end
  end.

Inductive aop := Connect | Dispatch (r : accept_res).

Definition astep (a : acc) (o : aop) : acc * list aevent :=
  match o with
  | Connect => (client_connects a, [])
  | Dispatch r => handleRead a r
  end.

Fixpoint arun (a : acc) (ops : list aop) : acc * list aevent :=
  match ops with
  | [] => (a, [])
  | o :: rest => let '(a1, e1) := astep a o in let '(a2, e2) := arun a1 rest in (a2, e1 ++ e2)
  end.

(* n dispatches while the descriptor shortage persists *)
Fixpoint starve (a : acc) (n : nat) : acc :=
  match n with
  | O => a
  | S n' => starve (fst (handleRead a (AErr errno_EMFILE))) n'
  end.

(* ---- the poll call: EPollPoller::poll / PollPoller::poll, the WHOLE function ------------------ *)
(* (rewritten 2026-10-02, REVIEW_C item 2: nothing about the outcome of a failed poll is a literal
   of the model any more.)  The function is executed from its regenerated pieces: the three guards
   and, per branch, the statement codes of lib/gen_C11.py (1 = fillActiveChannels(numEvents,
   activeChannels), 2 = trace/debug/info log line, 3 = bookkeeping, 4 = warn/error-level log line,
   anything else = the statement aborts the process or was not understood by the translator). *)

(* the kernel's answer to ::epoll_wait / ::poll: return value, errno, and the channels of the
   reported entries (meaningful for n > 0; what fillActiveChannels makes of them is C09's) *)
Record kans := mkKans { k_n : Z; k_errno : Z; k_ready : list nat }.

(* what Poller::poll leaves behind: the caller's activeChannels list, whether an error-level line
   was logged, whether the process aborted inside the call *)
Record pollout := mkPollout { po_active : list nat; po_errlog : bool; po_aborted : bool }.

Definition pstmt (ready : list nat) (o : pollout) (code : Z) : pollout :=
  if po_aborted o then o
  else if code =? 1 then mkPollout (po_active o ++ ready) (po_errlog o) false
  else if (code =? 2) || (code =? 3) then o
  else if code =? 4 then mkPollout (po_active o) true false
  else mkPollout (po_active o) (po_errlog o) true.

Record poller_src := mkPS {
  ps_some : Z -> bool; ps_none : Z -> bool; ps_log : Z -> bool;
  ps_pro : list Z; ps_bsome : list Z; ps_bnone : list Z; ps_berr : list (bool * Z) }.

Definition epoll_src : poller_src :=
  mkPS epoll_poll_some_test epoll_poll_none_test epoll_poll_log_test
       epoll_poll_prologue epoll_poll_some_branch epoll_poll_none_branch epoll_poll_err_branch.
Definition ppoll_src : poller_src :=
  mkPS ppoll_poll_some_test ppoll_poll_none_test ppoll_poll_log_test
       ppoll_poll_prologue ppoll_poll_some_branch ppoll_poll_none_branch ppoll_poll_err_branch.

(*   prologue; numEvents = ::poll(..); savedErrno = errno;
     if (some numEvents) {A} else if (none numEvents) {B} else {C};  return now;
   a statement of C flagged [true] stands inside `if (log savedErrno)` *)
Definition poll_call (src : poller_src) (active0 : list nat) (k : kans) : pollout :=
  let run := fold_left (pstmt (k_ready k)) in
  let o0 := run (ps_pro src) (mkPollout active0 false false) in
  if ps_some src (k_n k) then run (ps_bsome src) o0
  else if ps_none src (k_n k) then run (ps_bnone src) o0
  else run (map snd (filter (fun gc => negb (fst gc) || ps_log src (k_errno k)) (ps_berr src))) o0.

(* ---- EventLoop::loop and doPendingFunctors (EventLoop.cc:103-133, 254-269) -------------------- *)
(* A small loop model of C11's own (C09_Model.loop_iter_full has no poll failure and no quit_).
   [U] is everything the callbacks act on.  A channel's handleEvent and a queued functor are given
   by what they do to U, which functors they queue (queueInLoop / runInLoop on the loop thread:
   appended to pendingFunctors_) and whether they call quit(). *)
Definition behaviour (U : Type) := nat -> U -> U * list nat * bool.

Record lstate (U : Type) := mkL {
  l_user : U;
  l_pending : list nat;     (* pendingFunctors_ *)
  l_quit : bool;            (* quit_ *)
  l_iter : nat;             (* iteration_ *)
  l_active : list nat       (* activeChannels_ (a member: survives from one iteration to the next) *)
}.
Arguments mkL {U}. Arguments l_user {U}. Arguments l_pending {U}. Arguments l_quit {U}.
Arguments l_iter {U}. Arguments l_active {U}.

(* what one iteration did *)
Record itrace := mkIT {
  t_disp : list nat;        (* channels whose handleEvent ran, in order *)
  t_ran : list nat;         (* functors run by doPendingFunctors, in order *)
  t_queued : list nat;      (* functors that entered pendingFunctors_ during the iteration, in order *)
  t_errlog : bool           (* Poller::poll logged an error-level line *)
}.

Section Loop.
Variable U : Type.
Variables hnd fnb : behaviour U.

(* run a list of handlers / functors in order: (user state, functors they queued, quit requested) *)
Fixpoint run_list (b : behaviour U) (ids : list nat) (u : U) : U * list nat * bool :=
  match ids with
  | [] => (u, [], false)
  | i :: t => let '(u1, q1, x1) := b i u in
              let '(u2, q2, x2) := run_list b t u1 in (u2, q1 ++ q2, x1 || x2)
  end.

(* state while the body of the while loop runs *)
Record bstate := mkB { b_l : lstate U; b_t : itrace; b_ab : bool; b_local : list nat (* doPendingFunctors' local vector *) }.

(* doPendingFunctors, from the regenerated statement codes: 1 = swap under the lock, 2 = run every
   element of the local vector, 0 = bookkeeping, other = abort / not understood *)
Definition dstmt (s : bstate) (code : Z) : bstate :=
  if b_ab s then s else
  let l := b_l s in let t := b_t s in
  if code =? 0 then s
  else if code =? 1 then
    mkB (mkL (l_user l) (b_local s) (l_quit l) (l_iter l) (l_active l)) t false (l_pending l)
  else if code =? 2 then
    let '(u, q, x) := run_list fnb (b_local s) (l_user l) in
    mkB (mkL u (l_pending l ++ q) (l_quit l || x) (l_iter l) (l_active l))
        (mkIT (t_disp t) (t_ran t ++ b_local s) (t_queued t ++ q) (t_errlog t)) false (b_local s)
  else mkB l t true (b_local s).

(* the body of `while (!quit_)`, from the regenerated statement codes: 1 = activeChannels_.clear(),
   2 = poller_->poll(kPollTimeMs, &activeChannels_), 3 = ++iteration_, 4 = handleEvent on every
   element of activeChannels_, 5 = doPendingFunctors(), 0 = bookkeeping, other = abort / not understood *)
Definition lstmt (src : poller_src) (dbody : list Z) (k : kans) (s : bstate) (code : Z) : bstate :=
  if b_ab s then s else
  let l := b_l s in let t := b_t s in
  if code =? 0 then s
  else if code =? 1 then mkB (mkL (l_user l) (l_pending l) (l_quit l) (l_iter l) []) t false (b_local s)
  else if code =? 2 then
    let o := poll_call src (l_active l) k in
    mkB (mkL (l_user l) (l_pending l) (l_quit l) (l_iter l) (po_active o))
        (mkIT (t_disp t) (t_ran t) (t_queued t) (t_errlog t || po_errlog o)) (po_aborted o) (b_local s)
  else if code =? 3 then mkB (mkL (l_user l) (l_pending l) (l_quit l) (S (l_iter l)) (l_active l)) t false (b_local s)
  else if code =? 4 then
    let '(u, q, x) := run_list hnd (l_active l) (l_user l) in
    mkB (mkL u (l_pending l ++ q) (l_quit l || x) (l_iter l) (l_active l))
        (mkIT (t_disp t ++ l_active l) (t_ran t) (t_queued t ++ q) (t_errlog t)) false (b_local s)
  else if code =? 5 then
    let s' := fold_left dstmt dbody (mkB l t false []) in mkB (b_l s') (b_t s') (b_ab s') (b_local s)
  else mkB l t true (b_local s).

(* one pass through the body as it stands in the source *)
Definition iter_src (src : poller_src) (lbody dbody : list Z) (l : lstate U) (k : kans) : lstate U * itrace * bool :=
  let s := fold_left (lstmt src dbody k) lbody (mkB l (mkIT [] [] [] false) false []) in
  (b_l s, b_t s, b_ab s).

(* the same, written out: clear; poll; ++iteration_; dispatch every active channel; run what is
   pending now (what the handlers queued included); what the functors queue stays pending *)
Definition iter (src : poller_src) (l : lstate U) (k : kans) : lstate U * itrace * bool :=
  let o := poll_call src [] k in
  if po_aborted o then
    (mkL (l_user l) (l_pending l) (l_quit l) (l_iter l) (po_active o), mkIT [] [] [] (po_errlog o), true)
  else
    let '(u1, q1, x1) := run_list hnd (po_active o) (l_user l) in
    let run := l_pending l ++ q1 in
    let '(u2, q2, x2) := run_list fnb run u1 in
    (mkL u2 q2 (l_quit l || x1 || x2) (S (l_iter l)) (po_active o),
     mkIT (po_active o) run (q1 ++ q2) (po_errlog o), false).

(* what other threads do while the loop thread is blocked in (or on its way to) the poll call *)
Inductive ext := XQueue (f : nat) | XQuit.
Definition apply_ext (l : lstate U) (x : ext) : lstate U :=
  match x with
  | XQueue f => mkL (l_user l) (l_pending l ++ [f]) (l_quit l) (l_iter l) (l_active l)
  | XQuit => mkL (l_user l) (l_pending l) true (l_iter l) (l_active l)
  end.
Definition ext_queued (xs : list ext) : list nat :=
  flat_map (fun x => match x with XQueue f => [f] | XQuit => [] end) xs.

(* `while (!quit_) { body }`: one environment input per pass - what other threads did meanwhile and
   how the poll call returned.  Result: final state, one trace per pass made, aborted *)
Fixpoint loop_run (src : poller_src) (l : lstate U) (ins : list (list ext * kans)) : lstate U * list itrace * bool :=
  match ins with
  | [] => (l, [], false)
  | (xs, k) :: rest =>
      if l_quit l then (l, [], false)
      else
        let l1 := fold_left apply_ext xs l in
        let '(l2, t, ab) := iter src l1 k in
        let t' := mkIT (t_disp t) (t_ran t) (ext_queued xs ++ t_queued t) (t_errlog t) in
        if ab then (l2, [t'], true)
        else let '(l3, ts, ab') := loop_run src l2 rest in (l3, t' :: ts, ab')
  end.
End Loop.
Arguments run_list {U}. Arguments iter {U}. Arguments iter_src {U}. Arguments loop_run {U}.
Arguments apply_ext {U}. Arguments mkB {U}. Arguments b_l {U}. Arguments b_t {U}. Arguments b_ab {U}.

(* an interrupted poll call / a poll call that timed out *)
Definition k_intr (e : Z) (ready : list nat) : kans := mkKans (-1) e ready.
Definition k_timeout : kans := mkKans 0 0 [].
(* the fault-free twin of an environment input: a failed poll call becomes one that timed out *)
Definition calm_in (i : list ext * kans) : list ext * kans :=
  (fst i, if k_n (snd i) <? 0 then k_timeout else snd i).

(* ---- one connect attempt: Connector::connect (Connector.cc:78-117), added 2026-10-02 ---------- *)
(* what happens to the socket the attempt created, for the errno [e] that ::connect left (0 =
   success): how often it is closed, and whether it ends in a Channel watching writability.
   Everything is read off the generated facts: per switch group how often its body calls
   connecting(sockfd) / retry(sockfd) / sockets::close(sockfd) ([connect_groups],
   [connect_default_group]), how often retry() closes its argument unconditionally, whether
   connecting() closes anything / creates the channel. *)
Fixpoint connect_group_of (e : Z) (l : list (list Z * (nat * nat * nat))) : nat * nat * nat :=
  match l with
  | [] => connect_default_group
  | (labels, t) :: r => if zmem e labels then t else connect_group_of e r
  end.

Record attempt := mkAttempt {
  at_created : nat;      (* sockets created by the attempt *)
  at_closes : nat;       (* close() calls on the created socket *)
  at_watched : bool;     (* handed to a Channel with write interest (to be continued by handleWrite / handleError) *)
  at_retries : nat       (* retry timers armed (if connect_ is still set) *)
}.

Definition connect_attempt (e : Z) : attempt :=
  let '(cg, rt, cl) := connect_group_of e connect_groups in
  mkAttempt connect_creates_sockets
            (cl + rt * connector_retry_closes + cg * connector_connecting_closes)
            ((0 <? cg)%nat && connector_connecting_watches)
            rt.

