(* C20_NetModel: executable model of muduo's byte-order helpers (net/Endian.h), of
   sockets::toIp / toIpPort / fromIpPort (net/SocketsOps.cc) and of the InetAddress
   constructors / port() (net/InetAddress.cc).  No proofs here.

   Every place where the C++ changes byte order, chooses a family, or assembles text is NOT
   written here: it is Gen_C20Net.*, regenerated from the C++ on every run by
   lib/gen_C20.py (main_net) -- the expression returned by each Endian.h helper (glibc's
   htobeN / beNtoh are __bswap_N after macro expansion on this little-endian platform), the
   initialiser of `port` in both branches of toIpPort, its two snprintf formats and the '[',
   the value stored in sin_port / sin6_port / s_addr by fromIpPort and by the constructor, the
   family constants, the character that selects IPv6, the expression InetAddress::port() returns.
   This file only says how those pieces are put together and what memory looks like:
   an unsigned n-byte object holds its value least significant byte first (x86-64).

   inet_ntop / inet_pton are platform functions: the IPv4 dotted quad is modelled (ntop4 /
   pton4), the IPv6 text functions are parameters.  The specification side (network byte
   order = big-endian [be_encode], ':' as the IPv6 marker, the reader of "ip:port") is written
   independently of the generated facts; the theorems of C20_NetProofs connect the two. *)
From Coq Require Import List ZArith Bool Arith NArith.
From Coq.Strings Require Import Byte.
From Muduo Require Import Base_Bytes Gen_C20Net C20_Model.
Import ListNotations.
Local Open Scope Z_scope.

(* ------------------------------------------------------------------ host memory *)

(* the n bytes of memory occupied by an unsigned n-byte value on the little-endian host,
   and the value n bytes of memory denote *)
Definition le_encode (n : nat) (x : Z) : list byte := rev (be_encode n x).
Definition le_decode (l : list byte) : Z := be_decode (rev l).

(* sockets::hostToNetworkN(x), stored: the n bytes a peer would see on the wire *)
Definition hton_mem (n : nat) (x : Z) : list byte :=
  match n with
  | 2%nat => le_encode 2 (Endian_hostToNetwork16 x)
  | 4%nat => le_encode 4 (Endian_hostToNetwork32 x)
  | 8%nat => le_encode 8 (Endian_hostToNetwork64 x)
  | _ => []
  end.

(* sockets::networkToHostN of an n-byte object loaded from memory *)
Definition ntoh_mem (l : list byte) : Z :=
  match length l with
  | 2%nat => Endian_networkToHost16 (le_decode l)
  | 4%nat => Endian_networkToHost32 (le_decode l)
  | 8%nat => Endian_networkToHost64 (le_decode l)
  | _ => 0
  end.

(* what the correspondence driver prints for "BE n x": x converted to uintN_t, the stored
   bytes of hostToNetworkN, networkToHostN of them *)
Definition be_op (n : nat) (x : Z) : list byte * Z :=
  let m := hton_mem n (x mod 256 ^ Z.of_nat n) in (m, ntoh_mem m).

(* ------------------------------------------------------------------ IPv4 text *)

(* join / split on a separator byte *)
Fixpoint join (sep : byte) (ls : list (list byte)) : list byte :=
  match ls with
  | [] => []
  | [x] => x
  | x :: rest => x ++ sep :: join sep rest
  end.

Fixpoint split_all_aux (sep : byte) (l cur : list byte) : list (list byte) :=
  match l with
  | [] => [rev cur]
  | b :: r => if Byte.eqb b sep then rev cur :: split_all_aux sep r [] else split_all_aux sep r (b :: cur)
  end.
Definition split_all (sep : byte) (l : list byte) : list (list byte) := split_all_aux sep l [].

(* inet_ntop(AF_INET): the four bytes of in_addr (network order) in decimal *)
Definition ntop4 (a : list byte) : list byte := join ch_dot (map (fun b => dec (Z_of_byte b)) a).

(* one field of inet_pton(AF_INET): 1..3 digits, no leading zero, value <= 255 *)
Definition parse_octet (f : list byte) : option byte :=
  match f with
  | [] => None
  | d :: r =>
    if forallb is_digit f && (length f <=? 3)%nat &&
       (match r with [] => true | _ => negb (Byte.eqb d x30) end) && (parse_dec f <=? 255)
    then Some (byte_of_Z (parse_dec f)) else None
  end.

Fixpoint all_some {A} (l : list (option A)) : option (list A) :=
  match l with
  | [] => Some []
  | Some x :: r => match all_some r with Some xs => Some (x :: xs) | None => None end
  | None :: _ => None
  end.

Definition pton4 (s : list byte) : option (list byte) :=
  let fs := split_all ch_dot s in
  if (length fs =? 4)%nat then all_some (map parse_octet fs) else None.

(* ------------------------------------------------------------------ socket addresses *)

(* address families of the platform (Linux <bits/socket.h>) *)
Definition AF_INET : Z := 2.
Definition AF_INET6 : Z := 10.

(* sockaddr_in / sockaddr_in6 as far as muduo touches them: family, the two bytes of
   sin_port / sin6_port as they lie in memory, the bytes of sin_addr / sin6_addr *)
Record sockaddr := mkSA { sa_family : Z; sa_port : list byte; sa_addr : list byte;
                          sa_scope : Z (* sin6_scope_id; the constructors zero the whole object first *) }.

(* SPECIFICATION of "network byte order" for a port: most significant byte first *)
Definition port_store (p : Z) : list byte := be_encode 2 p.

(* inet_ntop / inet_pton by family; the IPv6 halves are parameters; an unsupported family
   fails (EAFNOSUPPORT) *)
Definition inet_ntop_m (ntop6 : list byte -> list byte) (af : Z) (a : list byte) : list byte :=
  if af =? AF_INET then ntop4 a else if af =? AF_INET6 then ntop6 a else [].
Definition inet_pton_m (pton6 : list byte -> option (list byte)) (af : Z) (s : list byte) : option (list byte) :=
  if af =? AF_INET then pton4 s else if af =? AF_INET6 then pton6 s else None.

(* sockets::toIp: `if (family == F4) inet_ntop(F4, sin_addr) else if (family == F6)
   inet_ntop(F6, sin6_addr)`; the caller's buffer starts empty (InetAddress::toIp) *)
Definition toIp (ntop6 : list byte -> list byte) (sa : sockaddr) : list byte :=
  if sa_family sa =? SocketsOps_toIp_family4 then inet_ntop_m ntop6 SocketsOps_toIp_family4 (sa_addr sa)
  else if sa_family sa =? SocketsOps_toIp_family6 then inet_ntop_m ntop6 SocketsOps_toIp_family6 (sa_addr sa)
  else [].

(* snprintf(fmt, v) for a format with "%u" conversions of the one argument *)
Fixpoint fmt_u (fmt : list Z) (v : Z) : list byte :=
  match fmt with
  | [] => []
  | c :: rest =>
    match rest with
    | c2 :: rest2 => if (c =? 37) && (c2 =? 117) then dec v ++ List.map byte_of_Z rest2
                     else byte_of_Z c :: fmt_u rest v
    | [] => [byte_of_Z c]
    end
  end.

(* sockets::toIpPort *)
Definition toIpPort (ntop6 : list byte -> list byte) (sa : sockaddr) : list byte :=
  if sa_family sa =? SocketsOps_toIpPort_family6 then
    byte_of_Z SocketsOps_toIpPort_open6 :: toIp ntop6 sa ++
    fmt_u SocketsOps_toIpPort_fmt6 (SocketsOps_toIpPort_port6 (le_decode (sa_port sa)))
  else
    toIp ntop6 sa ++ fmt_u SocketsOps_toIpPort_fmt4 (SocketsOps_toIpPort_port4 (le_decode (sa_port sa))).

(* InetAddress::port() *)
Definition inet_port (sa : sockaddr) : Z := InetAddress_port (le_decode (sa_port sa)).

Definition zero_bytes (n : nat) : list byte := repeat x00 n.

(* InetAddress(ip, port, ipv6): `ipv6 || strchr(ip, marker)` selects sockets::fromIpPort on
   sockaddr_in6, else on sockaddr_in; a failed inet_pton leaves the zeroed address (and logs) *)
Definition has_marker (s : list byte) : bool := existsb (fun b => Z_of_byte b =? InetAddress_ipv6_marker) s.

Definition inet_make (pton6 : list byte -> option (list byte)) (ip : list byte) (port : Z) (ipv6 : bool)
  : sockaddr :=
  if ipv6 || has_marker ip then
    mkSA SocketsOps_fromIpPort6_family (le_encode 2 (SocketsOps_fromIpPort6_sin6_port port))
         (match inet_pton_m pton6 SocketsOps_fromIpPort6_pton_family ip with Some a => a | None => zero_bytes 16 end) 0
  else
    mkSA SocketsOps_fromIpPort4_family (le_encode 2 (SocketsOps_fromIpPort4_sin_port port))
         (match inet_pton_m pton6 SocketsOps_fromIpPort4_pton_family ip with Some a => a | None => zero_bytes 4 end) 0.

(* InetAddress(port, loopbackOnly, ipv6); in6addr_loopback / in6addr_any are platform objects *)
Definition inet_port_only (port : Z) (loopbackOnly ipv6 : bool) : sockaddr :=
  if ipv6 then
    mkSA InetAddress_ctor_family6 (le_encode 2 (InetAddress_ctor_sin6_port port))
         (if loopbackOnly then zero_bytes 15 ++ [x01] else zero_bytes 16) 0
  else
    mkSA InetAddress_ctor_family4 (le_encode 2 (InetAddress_ctor_sin_port port))
         (le_encode 4 (InetAddress_ctor_s_addr loopbackOnly)) 0.

(* InetAddress::setScopeId: stored only in an IPv6 address; toIp / toIpPort / port() never read it
   (inet_ntop does not print a scope) *)
Definition set_scope_id (sa : sockaddr) (id : Z) : sockaddr :=
  if sa_family sa =? InetAddress_setScopeId_family then mkSA (sa_family sa) (sa_port sa) (sa_addr sa) id else sa.

(* ------------------------------------------------------------------ the same with the buffers *)

(* InetAddress::toIp() / toIpPort() hand sockets::toIp / toIpPort a zero-filled scratch array of
   [size] bytes.  [None] = an assert of SocketsOps.cc fails (the harness builds keep asserts on).
   inet_ntop writes nothing when the text and its terminator do not fit (ENOSPC); snprintf
   truncates to the room it is given. *)
Definition ntop_into (size : Z) (text : list byte) : list byte :=
  if Z.of_nat (length text) <? size then text else [].

Definition snprintf_into (room : Z) (text : list byte) : list byte := firstn (Z.to_nat (room - 1)) text.

Definition toIp_buf (size : Z) (ntop6 : list byte -> list byte) (sa : sockaddr) : option (list byte) :=
  if sa_family sa =? SocketsOps_toIp_family4 then
    if size >=? SocketsOps_toIp_need4 then Some (ntop_into size (inet_ntop_m ntop6 SocketsOps_toIp_family4 (sa_addr sa))) else None
  else if sa_family sa =? SocketsOps_toIp_family6 then
    if size >=? SocketsOps_toIp_need6 then Some (ntop_into size (inet_ntop_m ntop6 SocketsOps_toIp_family6 (sa_addr sa))) else None
  else Some [].

Definition toIpPort_buf (size : Z) (ntop6 : list byte -> list byte) (sa : sockaddr) : option (list byte) :=
  if sa_family sa =? SocketsOps_toIpPort_family6 then
    match toIp_buf (size - SocketsOps_toIpPort_v6_off) ntop6 sa with
    | None => None
    | Some ip =>
      let cur := byte_of_Z SocketsOps_toIpPort_open6 :: ip in     (* strlen(buf) *)
      let e := Z.of_nat (length cur) in
      if size >? e then
        Some (cur ++ snprintf_into (size - e) (fmt_u SocketsOps_toIpPort_fmt6 (SocketsOps_toIpPort_port6 (le_decode (sa_port sa)))))
      else None
    end
  else
    match toIp_buf size ntop6 sa with
    | None => None
    | Some ip =>
      let e := Z.of_nat (length ip) in
      if size >? e then
        Some (ip ++ snprintf_into (size - e) (fmt_u SocketsOps_toIpPort_fmt4 (SocketsOps_toIpPort_port4 (le_decode (sa_port sa)))))
      else None
    end.

(* string InetAddress::toIp() const / toIpPort() const *)
Definition inet_toIp (ntop6 : list byte -> list byte) (sa : sockaddr) : option (list byte) :=
  toIp_buf InetAddress_toIp_bufsize ntop6 sa.
Definition inet_toIpPort (ntop6 : list byte -> list byte) (sa : sockaddr) : option (list byte) :=
  toIpPort_buf InetAddress_toIpPort_bufsize ntop6 sa.

(* ------------------------------------------------------------------ specification side *)

(* ':' in the text *)
Definition has_colon (s : list byte) : bool := existsb (fun b => Byte.eqb b ch_colon) s.

(* reader of "ip:port" / "[ip6]:port" (split at the LAST colon) *)
Fixpoint split_last_aux (sep : byte) (l : list byte) : option (list byte * list byte) :=
  match l with
  | [] => None
  | b :: r =>
    match split_last_aux sep r with
    | Some (x, y) => Some (b :: x, y)
    | None => if Byte.eqb b sep then Some ([], r) else None
    end
  end.

Definition parse_ipport (s : list byte) : option (bool * list byte * Z) :=
  match split_last_aux ch_colon s with
  | None => None
  | Some (h, p) =>
    match h with
    | b :: r =>
      if Byte.eqb b ch_lbr then
        match rev r with
        | e :: mid => if Byte.eqb e ch_rbr then Some (true, rev mid, parse_dec p) else None
        | [] => None
        end
      else Some (false, h, parse_dec p)
    | [] => None
    end
  end.
