(* C18_HttpRef: a declarative reference for the HTTP request decoder -- cut the whole stream
   into its CRLF-terminated lines (each ended by its first CRLF), then run the request grammar
   over the list of lines -- and its equality with the chunk-fed literal model. *)
From Coq Require Import List ZArith Lia Bool Arith NArith.
From Coq.Strings Require Import Byte.
From Muduo Require Import Base_Bytes C18_Model C18_StreamProofs C18_HttpProofs.
Import ListNotations.

(* complete lines and the unterminated rest *)
Fixpoint split_lines (fuel : nat) (b : list byte) : list (list byte) * list byte :=
  match fuel with
  | O => ([], b)
  | S f =>
      match find_crlf b with
      | None => ([], b)
      | Some i => let (ls, r) := split_lines f (skipn (i + 2) b) in (firstn i b :: ls, r)
      end
  end.

(* the request grammar over lines: events, final context, unconsumed lines, abandoned *)
Fixpoint ref_lines (c : hctx) (ls : list (list byte))
  : list hevent * hctx * list (list byte) * bool :=
  match ls with
  | [] => ([], c, [], false)
  | l :: t =>
      match h_state c with
      | kExpectRequestLine =>
          match processRequestLine l (h_req c) with
          | Some r => ref_lines (mkCtx kExpectHeaders r) t
          | None => ([HBad], c, ls, true)
          end
      | kExpectHeaders =>
          match find_byte COLON l with
          | Some k => ref_lines (mkCtx kExpectHeaders (add_header (h_req c) l k)) t
          | None => let '(e, c', u, a) := ref_lines ctx0 t in (HReq (h_req c) :: e, c', u, a)
          end
      | _ => ([], c, ls, false)
      end
  end.

Definition of_lines (c : hctx) (ls : list (list byte)) (r : list byte) : list hevent * dstate hctx :=
  let '(e, c', u, a) := ref_lines c ls in (e, mkD c' (join_lines u ++ r) a false).

Definition ref_http (s : list byte) : list hevent * dstate hctx :=
  let (ls, r) := split_lines (S (length s)) s in of_lines ctx0 ls r.

Lemma split_join : forall fuel b, join_lines (fst (split_lines fuel b)) ++ snd (split_lines fuel b) = b.
Proof.
  induction fuel as [|f IH]; intros b; cbn [split_lines]; [reflexivity|].
  destruct (find_crlf b) as [i|] eqn:E; [|reflexivity].
  specialize (IH (skipn (i + 2) b)).
  destruct (split_lines f (skipn (i + 2) b)) as [ls r]. cbn [fst snd] in *.
  unfold join_lines in *. cbn [flat_map]. rewrite <- !app_assoc, IH.
  destruct (find_crlf_split b i E) as (Hb & _ & _). symmetry. exact Hb.
Qed.

Lemma run_ref_lines : forall fuel c b, length b < fuel ->
  run hstep fuel c b = (let (ls, r) := split_lines fuel b in of_lines c ls r).
Proof.
  induction fuel as [|f IH]; intros c b H; [lia|].
  destruct c as [st rq].
  destruct st.
  - (* request line *)
    rewrite run_S, hstep_line. cbn [split_lines].
    destruct (find_crlf b) as [i|] eqn:E; [|reflexivity].
    pose proof (crlf_skipn_length b i E) as Hl.
    pose proof (split_join f (skipn (i + 2) b)) as Hj.
    destruct (processRequestLine (firstn i b) rq) as [r'|] eqn:Ep.
    + rewrite (IH _ (skipn (i + 2) b)) by lia.
      destruct (split_lines f (skipn (i + 2) b)) as [ls r].
      unfold of_lines. cbn [ref_lines h_state h_req]. rewrite Ep.
      destruct (ref_lines _ ls) as [[[e c'] u] a]. reflexivity.
    + destruct (split_lines f (skipn (i + 2) b)) as [ls r]. cbn [fst snd] in Hj.
      unfold of_lines. cbn [ref_lines h_state h_req]. rewrite Ep.
      f_equal. f_equal. unfold join_lines in *. cbn [flat_map].
      rewrite <- !app_assoc, Hj.
      destruct (find_crlf_split b i E) as (Hb & _ & _). exact Hb.
  - (* headers *)
    rewrite run_S, hstep_hdr. cbn [split_lines].
    destruct (find_crlf b) as [i|] eqn:E; [|reflexivity].
    pose proof (crlf_skipn_length b i E) as Hl.
    destruct (find_byte COLON (firstn i b)) as [k|] eqn:Ec.
    + rewrite (IH _ (skipn (i + 2) b)) by lia.
      destruct (split_lines f (skipn (i + 2) b)) as [ls r].
      unfold of_lines. cbn [ref_lines h_state h_req]. rewrite Ec.
      destruct (ref_lines _ ls) as [[[e c'] u] a]. reflexivity.
    + rewrite (IH _ (skipn (i + 2) b)) by lia.
      destruct (split_lines f (skipn (i + 2) b)) as [ls r].
      unfold of_lines. cbn [ref_lines h_state h_req]. rewrite Ec.
      destruct (ref_lines ctx0 ls) as [[[e c'] u] a]. reflexivity.
  - (* kExpectBody: never entered *)
    rewrite run_S. change (hstep (mkCtx kExpectBody rq) b) with (@SWait hctx hevent).
    pose proof (split_join (S f) b) as Hj.
    destruct (split_lines (S f) b) as [ls r]. cbn [fst snd] in Hj.
    unfold of_lines. destruct ls as [|l t]; cbn [ref_lines h_state]; rewrite <- Hj; reflexivity.
  - rewrite run_S. change (hstep (mkCtx kGotAll rq) b) with (@SWait hctx hevent).
    pose proof (split_join (S f) b) as Hj.
    destruct (split_lines (S f) b) as [ls r]. cbn [fst snd] in Hj.
    unfold of_lines. destruct ls as [|l t]; cbn [ref_lines h_state]; rewrite <- Hj; reflexivity.
Qed.

(* the chunk-fed literal HTTP decoder = the declarative reference on the whole stream *)
Theorem http_equals_reference : forall chunks,
  http_feed_all http_init chunks = ref_http (concat chunks).
Proof.
  intros chunks. rewrite (http_feed_all_eq chunks http_init live_ctx0), hstep_seg_invariant.
  unfold feed, http_init, init. cbn [d_abandoned d_oof orb d_st d_buf app].
  unfold ref_http. apply run_ref_lines. lia.
Qed.
