(* Link_CodecConn (L3): a stream decoder (C18) as the message callback of a connection (C01).

   C18's decoder model keeps its own copy of "the Buffer's readable bytes" (d_buf) and is fed
   chunks; C01's connection model delivers whatever the kernel's reads return (EvReadData d, any
   split) into inb and calls the message callback with the whole buffered input.  Here the decoder
   IS the message callback: on every delivery it runs its decode loop on the connection's input
   buffer and retrieves exactly what it consumed.  Result: whatever way the kernel splits the
   peer's byte stream into reads, and whatever else happens on the connection in between, the
   events the decoder has produced are the decoding of the byte stream received so far, and the
   input buffer holds exactly the decoder's unconsumed rest; for the protobuf framing codec that is
   C18's reference decoding of the received prefix.

   Names used from other owners' files (read-only):
     Conn_Model : conn(inb delivered consumed ..) op(EvReadData Retrieve ..) step res(Ok..) event init
     Conn_Proofs: step_inbound
     C18_Model  : sres(SWait SEmit SStop) dstate(mkD d_st d_buf d_abandoned d_oof) run feed feed_all init
                  cstep codec_feed_all codec_init retrieve ref_decode cevent(CMsg CErr) err
     C18_Proofs : equals_reference *)
From Coq Require Import List ZArith Lia Bool Arith NArith.
From Coq.Strings Require Import Byte.
From Muduo Require C18_Model C18_Proofs.
From Muduo Require Import Conn_Model Conn_Proofs.
Import ListNotations.

Module D := Muduo.C18_Model.
Module DP := Muduo.C18_Proofs.

Section DecoderOnConnection.
  Variables (St Ev : Type).
  Variable dstep : St -> list byte -> D.sres St Ev.
  (* the decoder consumes by Buffer::retrieve(n): what it leaves is a suffix of what it was given *)
  Hypothesis dstep_suffix : forall s b evs s' r, dstep s b = D.SEmit evs s' r -> exists n, r = skipn n b.

  (* connection + the decoder's control state (parser state, abandoned, out-of-fuel); the
     decoder's buffer is the connection's input buffer *)
  Record kst := mkK { k_conn : conn; k_dst : St; k_ab : bool; k_oof : bool }.

  Definition dstate_of (k : kst) : D.dstate St := D.mkD (k_dst k) (inb (k_conn k)) (k_ab k) (k_oof k).

  (* the message callback: run the decode loop on the input buffer (not any more once abandoned) *)
  Definition on_message (s : St) (ab oof : bool) (b : list byte) : list Ev * D.dstate St :=
    if ab || oof then ([], D.mkD s b ab oof) else D.run dstep (S (length b)) s b.

  Inductive kop :=
  | KOp (o : op)                 (* any Conn_Model op but a delivery or a user retrieve *)
  | KRead (chunk : list byte).   (* POLLIN: the kernel's read returns chunk; message callback = decoder *)

  Definition kop_wf (o : kop) : bool :=
    match o with KOp (EvReadData _) | KOp (Retrieve _) => false | _ => true end.

  Definition k_step (k : kst) (o : kop) : res (kst * list event * list Ev) :=
    match o with
    | KOp o =>
        match step (k_conn k) o with
        | Ok (c', e) => Ok (mkK c' (k_dst k) (k_ab k) (k_oof k), e, [])
        | Rejected => Rejected
        | Fault => Fault
        end
    | KRead chunk =>
        match step (k_conn k) (EvReadData chunk) with
        | Ok (c1, e1) =>
            let (cevs, d') := on_message (k_dst k) (k_ab k) (k_oof k) (inb c1) in
            (* the decoder retrieved what it consumed *)
            match step c1 (Retrieve (length (inb c1) - length (D.d_buf d'))) with
            | Ok (c2, e2) => Ok (mkK c2 (D.d_st d') (D.d_abandoned d') (D.d_oof d'), e1 ++ e2, cevs)
            | Rejected => Rejected
            | Fault => Fault
            end
        | Rejected => Rejected
        | Fault => Fault
        end
    end.

  Fixpoint k_run (k : kst) (ops : list kop) : res (kst * list event * list Ev) :=
    match ops with
    | [] => Ok (k, [], [])
    | o :: rest =>
        match k_step k o with
        | Ok (k1, e1, v1) =>
            match k_run k1 rest with
            | Ok (k2, e2, v2) => Ok (k2, e1 ++ e2, v1 ++ v2)
            | Rejected => Rejected
            | Fault => Fault
            end
        | Rejected => Rejected
        | Fault => Fault
        end
    end.

  Definition chunks_of (ops : list kop) : list (list byte) :=
    flat_map (fun o => match o with KRead c => [c] | KOp _ => [] end) ops.

  (* ---- the decode loop leaves a suffix ---- *)
  Lemma suffix_len (b r : list byte) n : r = skipn n b -> r = skipn (length b - length r) b.
  Proof.
    intros ->. destruct (Nat.le_gt_cases n (length b)) as [Hle|Hgt].
    - rewrite skipn_length. replace (length b - (length b - n)) with n by lia. reflexivity.
    - rewrite skipn_all2 by lia. cbn [length]. rewrite Nat.sub_0_r, skipn_all. reflexivity.
  Qed.

  Lemma skipn_add (l : list byte) : forall n m, skipn m (skipn n l) = skipn (n + m) l.
  Proof.
    induction l as [|x r IH]; intros n m.
    - rewrite !skipn_nil. reflexivity.
    - destruct n as [|n]; [reflexivity|]. cbn [skipn plus]. apply IH.
  Qed.

  Lemma run_suffix fuel : forall s b, exists n, D.d_buf (snd (D.run dstep fuel s b)) = skipn n b.
  Proof.
    induction fuel as [|f IH]; intros s b; cbn [D.run].
    - exists 0. reflexivity.
    - destruct (dstep s b) as [|evs s' r|evs] eqn:E.
      + exists 0. reflexivity.
      + destruct (dstep_suffix s b evs s' r E) as (n & ->).
        destruct (IH s' (skipn n b)) as (m & Hm).
        destruct (D.run dstep f s' (skipn n b)) as [e2 d]. cbn [snd] in *.
        exists (n + m). rewrite Hm. apply skipn_add.
      + exists 0. reflexivity.
  Qed.

  Lemma on_message_suffix s ab oof b :
    D.d_buf (snd (on_message s ab oof b)) = skipn (length b - length (D.d_buf (snd (on_message s ab oof b)))) b.
  Proof.
    unfold on_message. destruct (ab || oof).
    - cbn [snd D.d_buf]. rewrite Nat.sub_diag. reflexivity.
    - destruct (run_suffix (S (length b)) s b) as (n & Hn). exact (suffix_len b _ n Hn).
  Qed.

  Lemma on_message_feed k chunk :
    on_message (k_dst k) (k_ab k) (k_oof k) (inb (k_conn k) ++ chunk) = D.feed dstep (dstate_of k) chunk.
  Proof. reflexivity. Qed.

  (* one step: the decoder state over the connection's input buffer moves exactly as C18's
     chunk-fed decoder; the connection's delivered stream grows by the chunk *)
  Lemma k_step_spec k o k' e v : kop_wf o = true -> k_step k o = Ok (k', e, v) ->
    (v, dstate_of k') = D.feed_all dstep (dstate_of k) (chunks_of [o]) /\
    delivered (k_conn k') = delivered (k_conn k) ++ concat (chunks_of [o]).
  Proof.
    intros Hwf H. destruct o as [o|chunk]; cbn [k_step] in H.
    - destruct (step (k_conn k) o) as [[c' e']| |] eqn:Es; try discriminate.
      injection H as <- _ <-. destruct (step_inbound _ _ _ _ Es) as (Hd & _ & Hi & _).
      cbn [chunks_of flat_map concat app D.feed_all]. unfold dstate_of. cbn [k_conn k_dst k_ab k_oof].
      rewrite Hd, Hi, app_nil_r. destruct o; try discriminate Hwf; rewrite ?app_nil_r; auto.
    - destruct (step (k_conn k) (EvReadData chunk)) as [[c1 e1]| |] eqn:Es1; try discriminate.
      destruct (step_inbound _ _ _ _ Es1) as (Hd1 & _ & Hi1 & _).
      rewrite Hi1 in H. rewrite on_message_feed in H.
      pose proof (on_message_suffix (k_dst k) (k_ab k) (k_oof k) (inb (k_conn k) ++ chunk)) as Hsuf.
      rewrite on_message_feed in Hsuf.
      destruct (D.feed dstep (dstate_of k) chunk) as [cevs d'] eqn:Ef. cbn [snd] in Hsuf.
      destruct (step c1 (Retrieve (length (inb (k_conn k) ++ chunk) - length (D.d_buf d')))) as [[c2 e2]| |] eqn:Es2;
        try discriminate.
      injection H as <- _ <-. destruct (step_inbound _ _ _ _ Es2) as (Hd2 & _ & Hi2 & _).
      cbn [chunks_of flat_map concat app D.feed_all]. rewrite Ef.
      unfold dstate_of at 1. cbn [k_conn k_dst k_ab k_oof].
      rewrite Hi2, Hi1, <- Hsuf, Hd2, Hd1, !app_nil_r. split; [|reflexivity].
      destruct d'; reflexivity.
  Qed.

  Lemma feed_all_app : forall a b d,
    D.feed_all dstep d (a ++ b) =
    (fst (D.feed_all dstep d a) ++ fst (D.feed_all dstep (snd (D.feed_all dstep d a)) b),
     snd (D.feed_all dstep (snd (D.feed_all dstep d a)) b)).
  Proof.
    induction a as [|c cs IH]; intros b d; cbn [app D.feed_all].
    - cbn [fst snd app]. destruct (D.feed_all dstep d b); reflexivity.
    - destruct (D.feed dstep d c) as [e1 d1]. rewrite IH.
      destruct (D.feed_all dstep d1 cs) as [e2 d2]. cbn [fst snd].
      destruct (D.feed_all dstep d2 b) as [e3 d3]. cbn [fst snd]. rewrite app_assoc. reflexivity.
  Qed.

  Lemma k_run_spec ops : forall k k' e v, forallb kop_wf ops = true -> k_run k ops = Ok (k', e, v) ->
    (v, dstate_of k') = D.feed_all dstep (dstate_of k) (chunks_of ops) /\
    delivered (k_conn k') = delivered (k_conn k) ++ concat (chunks_of ops).
  Proof.
    induction ops as [|o rest IH]; intros k k' e v Hwf H; cbn [k_run] in H.
    - injection H as <- _ <-. cbn. rewrite app_nil_r. auto.
    - cbn [forallb] in Hwf. apply andb_true_iff in Hwf as [Hwo Hwr].
      destruct (k_step k o) as [[[k1 e1] v1]| |] eqn:E1; try discriminate.
      destruct (k_run k1 rest) as [[[k2 e2] v2]| |] eqn:E2; try discriminate.
      injection H as <- _ <-.
      destruct (k_step_spec k o k1 e1 v1 Hwo E1) as [Hf1 Hd1].
      destruct (IH k1 k2 e2 v2 Hwr E2) as [Hf2 Hd2].
      change (o :: rest) with ([o] ++ rest). unfold chunks_of in *. rewrite flat_map_app, concat_app, feed_all_app.
      rewrite <- Hf1. cbn [fst snd]. rewrite <- Hf2. cbn [fst snd]. split; [reflexivity|].
      rewrite Hd2, Hd1, app_assoc. reflexivity.
  Qed.

  (* HEADLINE (generic).  For every history of the connection with the decoder as its message
     callback - any split of the peer's bytes into reads (the KRead chunks), any other ops
     (sends, writable events, shutdown, pause/resume of reading, functors, ...) in between: the
     decoder's events and state are those of C18's chunk-fed decoder on the chunks; the input
     buffer is the decoder's unconsumed rest; the chunks are the stream delivered so far, and
     user-consumed ++ input buffer = that stream (C01). *)
  Theorem decoder_on_connection s0 mark wc hw ops k e v : forallb kop_wf ops = true ->
    k_run (mkK (init mark wc hw) s0 false false) ops = Ok (k, e, v) ->
    (v, D.mkD (k_dst k) (inb (k_conn k)) (k_ab k) (k_oof k)) = D.feed_all dstep (D.init s0) (chunks_of ops) /\
    delivered (k_conn k) = concat (chunks_of ops).
  Proof. intros Hwf H. exact (k_run_spec ops _ _ _ _ Hwf H). Qed.

  (* the connection part of a history is a Conn_Model history (so every C01 / C02 / C03 / C13
     theorem applies to it): ops of the connection, with each delivery followed by the decoder's
     retrieve *)
  Fixpoint conn_ops (k : kst) (ops : list kop) : list op :=
    match ops with
    | [] => []
    | o :: rest =>
        (match o with
         | KOp o' => [o']
         | KRead chunk =>
             [EvReadData chunk;
              Retrieve (length (inb (k_conn k) ++ chunk)
                        - length (D.d_buf (snd (on_message (k_dst k) (k_ab k) (k_oof k) (inb (k_conn k) ++ chunk)))))]
         end) ++ match k_step k o with Ok (k1, _, _) => conn_ops k1 rest | _ => [] end
    end.

  Theorem k_run_is_conn_run ops : forall k k' e v, k_run k ops = Ok (k', e, v) ->
    run (k_conn k) (conn_ops k ops) = Ok (k_conn k', e).
  Proof.
    induction ops as [|o rest IH]; intros k k' e v H; cbn [k_run] in H.
    - injection H as <- <- _. reflexivity.
    - destruct (k_step k o) as [[[k1 e1] v1]| |] eqn:E1; try discriminate.
      destruct (k_run k1 rest) as [[[k2 e2] v2]| |] eqn:E2; try discriminate.
      injection H as <- <- _. cbn [conn_ops]. rewrite E1. specialize (IH k1 k2 e2 v2 E2).
      destruct o as [o|chunk]; cbn [k_step] in E1.
      + destruct (step (k_conn k) o) as [[c' e']| |] eqn:Es; try discriminate.
        injection E1 as <- <- _. cbn [app run]. rewrite Es. cbn [k_conn] in IH. rewrite IH. reflexivity.
      + destruct (step (k_conn k) (EvReadData chunk)) as [[c1 ea]| |] eqn:Es1; try discriminate.
        destruct (step_inbound _ _ _ _ Es1) as (_ & _ & Hi1 & _). rewrite Hi1 in E1.
        destruct (on_message (k_dst k) (k_ab k) (k_oof k) (inb (k_conn k) ++ chunk)) as [cevs d'] eqn:Eo.
        cbn [snd].
        destruct (step c1 (Retrieve (length (inb (k_conn k) ++ chunk) - length (D.d_buf d')))) as [[c2 eb]| |] eqn:Es2;
          try discriminate.
        injection E1 as <- <- _. cbn [app run]. rewrite Es1, Es2. cbn [k_conn] in IH. rewrite IH.
        rewrite app_assoc. reflexivity.
  Qed.
End DecoderOnConnection.

Arguments mkK {St} k_conn k_dst k_ab k_oof.
Arguments k_conn {St} k.
Arguments k_dst {St} k.
Arguments k_ab {St} k.
Arguments k_oof {St} k.

(* ========================================================================================== *)
(* The protobuf framing codec (ProtobufCodecLite::onMessage) on a TcpConnection                 *)
(* ========================================================================================== *)
Section Codec.
  Variable msg : Type.
  Variable parse : list byte -> option msg.
  Variable tag : list byte.

  Lemma cstep_suffix : forall s b evs s' r,
    D.cstep msg parse tag s b = D.SEmit evs s' r -> exists n, r = skipn n b.
  Proof.
    intros s b evs s' r H. unfold D.cstep in H.
    destruct (Z.of_nat (length b) >=? D.kMinMessageLen tag + D.kHeaderLen)%Z; [|discriminate].
    destruct (D.read_at b 0 4) as [l4|]; [|discriminate].
    destruct (D.length_bad tag (Base_Bytes.be_decode_signed l4)); [discriminate|].
    destruct (Z.of_nat (length b) >=? D.kHeaderLen + Base_Bytes.be_decode_signed l4)%Z; [|discriminate].
    destruct (D.parse_frame msg parse tag b D.kHeaderLen (Base_Bytes.be_decode_signed l4)); try discriminate.
    unfold D.retrieve in H.
    destruct ((0 <=? D.kHeaderLen + Base_Bytes.be_decode_signed l4)%Z &&
              (D.kHeaderLen + Base_Bytes.be_decode_signed l4 <=? Z.of_nat (length b))%Z); [|discriminate].
    injection H as _ _ <-. eexists. reflexivity.
  Qed.

  (* HEADLINE (codec).  Whatever way the kernel splits the peer's byte stream into reads, and
     whatever else happens on the connection: the messages (and the first error, if any) the
     codec's callbacks have been given are the reference decoding of the byte stream received so
     far; the connection's input buffer holds exactly the reference's unconsumed rest; what was
     retrieved ++ that rest = the stream received. *)
  Theorem codec_on_connection mark wc hw ops k e v :
    forallb kop_wf ops = true ->
    k_run unit (D.cevent msg) (D.cstep msg parse tag) (mkK (init mark wc hw) tt false false) ops = Ok (k, e, v) ->
    let s := delivered (k_conn k) in
    s = concat (chunks_of ops) /\
    consumed (k_conn k) ++ inb (k_conn k) = s /\
    (let '(ms, er, rest) := D.ref_decode msg parse tag (S (length s)) s in
     v = map (@D.CMsg msg) ms ++ (match er with Some x => [@D.CErr msg x] | None => [] end) /\
     inb (k_conn k) = rest /\
     k_ab k = (match er with Some _ => true | None => false end) /\ k_oof k = false).
  Proof.
    intros Hwf H s.
    destruct (decoder_on_connection unit (D.cevent msg) (D.cstep msg parse tag) cstep_suffix tt mark wc hw ops k e v Hwf H)
      as [Hf Hd].
    split; [exact Hd|]. split.
    - pose proof (k_run_is_conn_run unit (D.cevent msg) (D.cstep msg parse tag) ops _ _ _ _ H) as Hr.
      cbn [k_conn] in Hr. apply (i_inbound (k_conn k)). eapply run_inv; [apply init_inv|exact Hr].
    - pose proof (proj1 DP.equals_reference msg parse tag (chunks_of ops)) as Hq. cbv zeta in Hq.
      unfold D.codec_feed_all, D.codec_init in Hq. rewrite <- Hf in Hq. unfold s. rewrite Hd.
      destruct (D.ref_decode msg parse tag (S (length (concat (chunks_of ops))))
                  (concat (chunks_of ops))) as [[ms er] rest].
      injection Hq as -> _ -> -> ->. auto.
  Qed.
End Codec.
