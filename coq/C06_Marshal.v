(* C06_Marshal: foreign-thread calls as micro-steps of the same TimerModel.  addTimer from a foreign
   thread = CFNew (new Timer + sequence read: the id is known) ; CFEnq (queueInLoop(addTimerInLoop));
   cancel = CFCancel (queueInLoop(cancelInLoop)); doPendingFunctors = RunPending, whose user functors
   (PUser) carry the loop-thread ops and the foreign micro-steps that land between two functors.  All
   invariants and theorems of C06_Proofs / C06_Hist / C06_Order quantify over op lists containing these
   micro-steps in any interleaving; this file adds what is specific to the hand-off. *)
From Coq Require Import List ZArith Bool Lia Sorted Arith Permutation.
From Muduo Require Import Gen_Consts Gen_C06 C06_Model C06_Proofs C06_Hist C06_Order.
Import ListNotations.
Local Open Scope Z_scope.

(* the functor queue is append-only for everything but doPendingFunctors: a loop-thread op, a callback,
   a foreign micro-step can only push_back *)
Lemma cb_step_pending_app : forall st c st' ev, cb_step st c = Ok (st', ev) -> exists l, pending st' = pending st ++ l.
Proof.
  intros st c st' ev H. destruct c as [d|w iv a|a s|w iv a|a s|w iv a|a|cs]; cbn [cb_step] in H.
  - destruct (d <? 0); inversion H; subst. exists []. cbn. rewrite app_nil_r. auto.
  - destruct (alloc st w iv a) as [[st1 s]| |] eqn:EA; cbn [bind] in H; try discriminate.
    destruct (add_in_loop st1 a) as [[st2 e]| |] eqn:EL; cbn [bind] in H; try discriminate.
    inversion H; subst. destruct (alloc_shape _ _ _ _ _ _ EA) as (_ & _ & _ & _ & _ & _ & _ & _ & Ep & _).
    destruct (add_in_loop_shape _ _ _ _ EL) as (_ & _ & _ & _ & _ & _ & Ep2 & _). exists []. rewrite Ep2, Ep, app_nil_r. auto.
  - destruct (cancel_in_loop st a s) as [st1| |] eqn:EC; cbn [bind] in H; try discriminate. inversion H; subst.
    destruct (cancel_shape _ _ _ _ EC) as (_ & _ & Ep & _). exists []. rewrite Ep, app_nil_r. auto.
  - destruct (alloc st w iv a) as [[st1 s]| |] eqn:EA; cbn [bind] in H; try discriminate. inversion H; subst.
    destruct (alloc_shape _ _ _ _ _ _ EA) as (_ & _ & _ & _ & _ & _ & _ & _ & Ep & _). eexists. cbn. rewrite Ep. reflexivity.
  - inversion H; subst. eexists. cbn. reflexivity.
  - destruct (alloc st w iv a) as [[st1 s]| |] eqn:EA; cbn [bind] in H; try discriminate. inversion H; subst.
    destruct (alloc_shape _ _ _ _ _ _ EA) as (_ & _ & _ & _ & _ & _ & _ & _ & Ep & _). exists []. cbn. rewrite Ep, app_nil_r. auto.
  - destruct (zmem a (inflight st)); inversion H; subst. eexists. cbn. reflexivity.
  - inversion H; subst. eexists. cbn. reflexivity.
Qed.
Lemma cb_run_pending_app : forall cs st st' ev, cb_run st cs = Ok (st', ev) -> exists l, pending st' = pending st ++ l.
Proof.
  induction cs as [|c r IH]; intros st st' ev H; cbn [cb_run] in H.
  - inversion H; subst. exists []. rewrite app_nil_r. auto.
  - destruct (cb_step st c) as [[st1 e1]| |] eqn:E1; try discriminate.
    + destruct (cb_run st1 r) as [[st2 e2]| |] eqn:E2; cbn [bind] in H; try discriminate.
      inversion H; subst. destruct (cb_step_pending_app _ _ _ _ E1) as [l1 P1]. destruct (IH _ _ _ E2) as [l2 P2].
      exists (l1 ++ l2). rewrite P2, P1, app_assoc. auto.
    + destruct (cb_run st r) as [[st2 e2]| |] eqn:E2; cbn [bind] in H; try discriminate.
      inversion H; subst. eauto.
Qed.
(* doPendingFunctors executes the functors of its batch oldest first (the recursion of run_functors); what
   is queued while it runs is appended to the (new) queue *)
Lemma run_functors_pending_app : forall fs st st' ev, run_functors st fs = Ok (st', ev) -> exists l, pending st' = pending st ++ l.
Proof.
  induction fs as [|[a|a s|cs] r IH]; intros st st' ev H; cbn [run_functors] in H.
  - inversion H; subst. exists []. rewrite app_nil_r. auto.
  - destruct (add_in_loop st a) as [[st1 e1]| |] eqn:E1; cbn [bind] in H; try discriminate.
    destruct (run_functors st1 r) as [[st2 e2]| |] eqn:E2; cbn [bind] in H; try discriminate.
    inversion H; subst. destruct (add_in_loop_shape _ _ _ _ E1) as (_ & _ & _ & _ & _ & _ & Ep & _).
    destruct (IH _ _ _ E2) as [l P]. exists l. rewrite P, Ep. auto.
  - destruct (cancel_in_loop st a s) as [st1| |] eqn:E1; cbn [bind] in H; try discriminate.
    destruct (cancel_shape _ _ _ _ E1) as (_ & _ & Ep & _). destruct (IH _ _ _ H) as [l P]. exists l. rewrite P, Ep. auto.
  - destruct (cb_run st cs) as [[st1 e1]| |] eqn:E1; cbn [bind] in H; try discriminate.
    destruct (run_functors st1 r) as [[st2 e2]| |] eqn:E2; cbn [bind] in H; try discriminate.
    inversion H; subst. destruct (cb_run_pending_app _ _ _ _ E1) as [l1 P1]. destruct (IH _ _ _ E2) as [l2 P2].
    exists (l1 ++ l2). rewrite P2, P1, app_assoc. auto.
Qed.

(* the first micro-step of a foreign addTimer: the id handed to the caller names the new Timer object *)
Lemma foreign_new_id : forall st w iv a st' ev, cb_step st (CFNew w iv a) = Ok (st', ev) ->
  ev = [EAdd (next_seq st + 1) a w iv] /\ hget a (heap st') = Some (mkT (next_seq st + 1) w iv) /\
  hget a (heap st) = None /\ In a (inflight st') /\ pending st' = pending st /\ timers st' = timers st.
Proof.
  intros st w iv a st' ev H. cbn [cb_step] in H.
  destruct (alloc st w iv a) as [[st1 s]| |] eqn:EA; cbn [bind] in H; try discriminate. inversion H; subst.
  destruct (alloc_shape _ _ _ _ _ _ EA) as (Es & En & Eh & G0 & Et & _ & _ & _ & Ep & _). subst s.
  cbn [heap set_inflight inflight pending timers]. rewrite Eh. splits; auto.
  - apply hget_cons_same.
  - apply in_or_app. right. left. auto.
Qed.

(* no cancel of an id among the ops => none of that id gets queued *)
Lemma cb_step_pending_nc : forall st c st' ev a s, cb_step st c = Ok (st', ev) -> cb_cancels a s c = false ->
  existsb (pf_cancels a s) (pending st) = false -> existsb (pf_cancels a s) (pending st') = false.
Proof.
  intros st c st' ev a s Ec N1 NQ. destruct c as [d|w iv x|x s0|w iv x|x s0|w iv x|x|zs]; cbn [cb_step] in Ec.
  - destruct (d <? 0); inversion Ec; subst. exact NQ.
  - destruct (alloc st w iv x) as [[st1 s1]| |] eqn:EA; cbn [bind] in Ec; try discriminate.
    destruct (add_in_loop st1 x) as [[st2 e]| |] eqn:EL; cbn [bind] in Ec; try discriminate.
    inversion Ec; subst. destruct (alloc_shape _ _ _ _ _ _ EA) as (_ & _ & _ & _ & _ & _ & _ & _ & Ep & _).
    destruct (add_in_loop_shape _ _ _ _ EL) as (_ & _ & _ & _ & _ & _ & Ep2 & _). rewrite Ep2, Ep. exact NQ.
  - destruct (cancel_in_loop st x s0) as [st1| |] eqn:EC; cbn [bind] in Ec; try discriminate. inversion Ec; subst.
    destruct (cancel_shape _ _ _ _ EC) as (_ & _ & Ep & _). rewrite Ep. exact NQ.
  - destruct (alloc st w iv x) as [[st1 s1]| |] eqn:EA; cbn [bind] in Ec; try discriminate. inversion Ec; subst.
    destruct (alloc_shape _ _ _ _ _ _ EA) as (_ & _ & _ & _ & _ & _ & _ & _ & Ep & _).
    cbn [pending set_pending]. rewrite Ep, existsb_app, NQ. reflexivity.
  - inversion Ec; subst. cbn [pending set_pending]. rewrite existsb_app, NQ. cbn [existsb pf_cancels cb_cancels] in *.
    rewrite N1. reflexivity.
  - destruct (alloc st w iv x) as [[st1 s1]| |] eqn:EA; cbn [bind] in Ec; try discriminate. inversion Ec; subst.
    destruct (alloc_shape _ _ _ _ _ _ EA) as (_ & _ & _ & _ & _ & _ & _ & _ & Ep & _).
    cbn [pending set_inflight]. rewrite Ep. exact NQ.
  - destruct (zmem x (inflight st)); inversion Ec; subst. cbn [pending set_pending set_inflight].
    rewrite existsb_app, NQ. reflexivity.
  - inversion Ec; subst. cbn [pending set_pending]. rewrite existsb_app, NQ. cbn [existsb pf_cancels]. cbn [cb_cancels] in N1.
    rewrite N1. reflexivity.
Qed.
Lemma cb_run_pending_nc : forall cs st st' ev a s, cb_run st cs = Ok (st', ev) -> existsb (cb_cancels a s) cs = false ->
  existsb (pf_cancels a s) (pending st) = false -> existsb (pf_cancels a s) (pending st') = false.
Proof.
  induction cs as [|c cs IH]; intros st st' ev a s E1 NC NQ; cbn [cb_run] in E1.
  - inversion E1; subst; auto.
  - cbn [existsb] in NC. apply orb_false_iff in NC as [N1 N2].
    destruct (cb_step st c) as [[sta ea]| |] eqn:Ec; try discriminate.
    + destruct (cb_run sta cs) as [[stb eb]| |] eqn:Er; cbn [bind] in E1; try discriminate. inversion E1; subst.
      eapply IH; [exact Er | exact N2 |]. eapply cb_step_pending_nc; eauto.
    + destruct (cb_run st cs) as [[stb eb]| |] eqn:Er; cbn [bind] in E1; try discriminate. inversion E1; subst.
      eapply IH; eauto.
Qed.

(* a queued (detached) Timer object is untouched by the functors that run before its own *)
Lemma run_functors_queued : forall fs st st' ev a o, Inv st -> DInv st (padds fs ++ detq st) ->
  In (PAdd a) fs -> hget a (heap st) = Some o ->
  existsb (pf_cancels a (o_seq o)) fs = false -> existsb (pf_cancels a (o_seq o)) (pending st) = false ->
  run_functors st fs = Ok (st', ev) -> reg st' a o /\ existsb (pf_cancels a (o_seq o)) (pending st') = false.
Proof.
  induction fs as [|[b|b s|cs] r IH]; intros st st' ev a o I D Ha G NP NQ H; [contradiction| | |]; cbn [run_functors] in H.
  - cbn [padds app] in D. pose proof D as [N Dt]. inversion N as [|x l NIb N']; subst.
    destruct (Dt b (or_introl eq_refl)) as [[ob [Gb Pob]] NDb].
    assert (D' : DInv st (padds r ++ detq st)) by (split; auto; intros c Hc'; apply Dt; right; auto).
    pose proof (add_in_loop_good st b ob _ I Gb NDb Pob D' NIb) as GA.
    destruct (add_in_loop st b) as [[st1 e1]| |] eqn:E1; cbn [bind good] in *; try discriminate.
    destruct (run_functors st1 r) as [[st2 e2]| |] eqn:E2; cbn [bind] in H; try discriminate.
    inversion H; subst. destruct GA as (I1 & D1 & _ & F1 & Eh & _). cbn [fst] in *.
    rewrite <- (detq_frame _ _ F1) in D1. destruct F1 as (_ & Fp & _). cbn [existsb pf_cancels orb] in NP.
    destruct Ha as [Ha|Ha].
    + (* its own functor: TimerQueue::insert registers it; the rest of the batch does not cancel it *)
      inversion Ha; subst b. rewrite G in Gb. inversion Gb; subst ob.
      assert (R1 : reg st1 a o).
      { split; [rewrite Eh; auto|]. unfold add_in_loop in E1.
        destruct (insert_shape _ _ _ I G NDb Pob) as (t' & a' & Ei & _ & M & _). rewrite Ei in E1. cbn [bind] in E1.
        destruct (match timers st with [] => true | (d, _) :: _ => o_exp o <? d end).
        - destruct (deref (set_sets st t' a') a) as [oo| |]; cbn [bind] in E1; try discriminate.
          unfold reset_timerfd in E1. inversion E1; subst. unfold settime.
          destruct (_ =? 0); [|destruct (_ <? 0)]; cbn; apply M; auto.
        - inversion E1; subst. cbn. apply M; auto. }
      apply (run_functors_nc r st1 st' e2 a o I1 D1 R1 NP); [rewrite Fp; exact NQ | exact E2].
    + apply (IH st1 st' e2 a o I1 D1 Ha); auto; [rewrite Eh; auto | rewrite Fp; exact NQ].
  - destruct Ha as [Ha|Ha]; [discriminate|].
    cbn [padds] in D. cbn [existsb] in NP. apply orb_false_iff in NP as [NP1 NP2].
    pose proof (cancel_good st b s _ I D) as GC.
    destruct (cancel_in_loop st b s) as [st1| |] eqn:E1; cbn [bind good] in *; try discriminate.
    destruct GC as (I1 & D1 & _ & F1). rewrite <- (detq_frame _ _ F1) in D1. destruct F1 as (_ & Fp & _).
    assert (E1' : cb_step st (CCancel b s) = Ok (st1, [])) by (cbn [cb_step]; rewrite E1; reflexivity).
    assert (Da : det st a).
    { apply (proj2 D). apply in_or_app. left. clear - Ha. induction r as [|[x|x y|z] r IH]; cbn [padds In] in *; try tauto.
      - destruct Ha as [E|Ha]; [inversion E; auto|auto].
      - destruct Ha as [E|Ha]; [discriminate|auto].
      - destruct Ha as [E|Ha]; [discriminate|auto]. }
    destruct (cb_step_obj _ _ _ _ _ _ I G E1') as [[G' _]|[HA _]]; [|exfalso; exact (det_not_active st a _ I Da HA)].
    apply (IH st1 st' ev a o I1 D1 Ha G' NP2); [rewrite Fp; exact NQ | exact H].
  - destruct Ha as [Ha|Ha]; [discriminate|].
    cbn [padds] in D. cbn [existsb] in NP. apply orb_false_iff in NP as [NP1 NP2]. cbn [pf_cancels] in NP1.
    pose proof (cb_run_good cs st (padds r) I D) as GC.
    destruct (cb_run st cs) as [[st1 e1]| |] eqn:E1; cbn [bind good] in *; try discriminate.
    destruct (run_functors st1 r) as [[st2 e2]| |] eqn:E2; cbn [bind] in H; try discriminate.
    inversion H; subst. destruct GC as (I1 & D1 & _ & _). cbn [fst] in *.
    assert (HaX : In a (padds r)).
    { clear - Ha. induction r as [|[x|x y|z] r IH]; cbn [padds In] in *; try tauto.
      - destruct Ha as [E|Ha]; [inversion E; auto|auto].
      - destruct Ha as [E|Ha]; [discriminate|auto].
      - destruct Ha as [E|Ha]; [discriminate|auto]. }
    assert (G1 : hget a (heap st1) = Some o) by (rewrite (cb_run_frame _ _ _ _ _ _ I D HaX E1); auto).
    pose proof (cb_run_pending_nc _ _ _ _ a (o_seq o) E1 NP1 NQ) as NQ1.
    apply (IH st1 st' e2 a o I1 D1 Ha G1 NP2 NQ1 E2).
Qed.

(* "timers may be added from any thread": the hand-off is processed by the next doPendingFunctors that
   starts after it -- the timer is then registered under the id the add returned (unless that batch
   itself contains a cancel of the id behind it, which then wins: foreign_add_then_cancel) *)
Lemma foreign_add_registers : forall c ops st evs a o st' ev, run (init c) ops = Ok (st, evs) ->
  In (PAdd a) (pending st) -> hget a (heap st) = Some o ->
  existsb (pf_cancels a (o_seq o)) (pending st) = false ->
  step st RunPending = Ok (st', ev) ->
  hget a (heap st') = Some o /\ In (o_exp o, a) (timers st') /\ In (a, o_seq o) (active st') /\
  (forall dl now t, ~ In (ERun (o_seq o) dl now t) ev).
Proof.
  intros c ops st evs a o st' ev H Ha G NP HS. destruct (reach_top _ _ _ _ H) as (I & D & _). cbn [step] in HS.
  destruct (run_functors_queued (pending st) (set_pending st []) st' ev a o I D Ha G NP eq_refl HS) as [[G' Hi'] _].
  pose proof (step_good st RunPending (reach_top _ _ _ _ H)) as GT. cbn [step] in GT. rewrite HS in GT. cbn [good fst] in GT. destruct GT as (I' & _).
  destruct (i_ta _ _ _ _ I' _ _ Hi') as (o2 & G2 & _ & HA). rewrite G' in G2. inversion G2; subst o2.
  splits; auto. destruct (run_functors_shape _ _ _ _ HS) as (_ & NR & _). intros dl now t. eapply rlog_nil_norun; eauto.
Qed.


(* ================================================================== doPendingFunctors as micro-steps *)
(* one functor of the batch *)
Definition run_one (st : state) (f : pfun) : result (state * list event) :=
  match f with
  | PAdd a => add_in_loop st a
  | PCancel a s => st1 <- cancel_in_loop st a s ;; Ok (st1, [])
  | PUser cs => cb_run st cs
  end.
Lemma run_functors_cons : forall st f r, run_functors st (f :: r) =
  ('(st1, e1) <- run_one st f ;; '(st2, e2) <- run_functors st1 r ;; Ok (st2, e1 ++ e2)).
Proof.
  intros st [a|a s|cs] r; cbn [run_functors run_one]; auto.
  destruct (cancel_in_loop st a s) as [st1| |]; cbn [bind]; auto.
  destruct (run_functors st1 r) as [[st2 e2]| |]; cbn [bind app]; auto.
Qed.

(* the micro-step execution: after the swap, functor by functor; [between] gives, per functor, what the rest of
   the world does before the next one starts (foreign micro-steps: new Timer, hand-offs, queued cancels, ...) *)
Fixpoint mrun (st : state) (fs : list pfun) (between : list (list cbop)) : result (state * list event) :=
  match fs with
  | [] => Ok (st, [])
  | f :: r => '(st1, e1) <- run_one st f ;; '(st2, e2) <- cb_run st1 (hd [] between) ;;
              '(st3, e3) <- mrun st2 r (tl between) ;; Ok (st3, e1 ++ e2 ++ e3)
  end.
Fixpoint weave (fs : list pfun) (between : list (list cbop)) : list pfun :=
  match fs with [] => [] | f :: r => f :: PUser (hd [] between) :: weave r (tl between) end.
(* RunPending (atomic in the model) over the woven batch IS the micro-step execution: user functors are how the
   model represents what happens between two functors *)
Lemma mrun_weave : forall fs st between, mrun st fs between = run_functors st (weave fs between).
Proof.
  induction fs as [|f r IH]; intros st between; cbn [mrun weave]; auto.
  rewrite run_functors_cons. destruct (run_one st f) as [[st1 e1]| |]; cbn [bind]; auto.
  rewrite run_functors_cons. cbn [run_one]. destruct (cb_run st1 (hd [] between)) as [[st2 e2]| |]; cbn [bind]; auto.
  rewrite IH. destruct (run_functors st2 (weave r (tl between))) as [[st3 e3]| |]; cbn [bind]; auto.
Qed.

(* ---- an enqueue that lands while a timer functor runs = the same enqueue right after it *)
Definition enq (st : state) (p : list pfun) (i : list Z) : state := set_inflight (set_pending st p) i.
Definition timer_functor (f : pfun) : Prop := match f with PUser _ => False | _ => True end.
Definition enqueue_step (c : cbop) : Prop :=
  match c with CFEnq _ | CFCancel _ _ | CQueue _ => True | _ => False end.

Lemma insert_enq : forall st p i a, insert (enq st p i) a =
  match insert st a with Ok (st', e) => Ok (enq st' p i, e) | Rejected => Rejected | Fault => Fault end.
Proof.
  intros st p i a. unfold insert, assert, deref. change (sizes_agree (enq st p i)) with (sizes_agree st).
  change (heap (enq st p i)) with (heap st). change (timers (enq st p i)) with (timers st). change (active (enq st p i)) with (active st).
  destruct (sizes_agree st); cbn [bind]; auto. destruct (hget a (heap st)) as [o|]; cbn [bind]; auto.
  destruct (kinsert (o_exp o, a) (timers st)); auto. destruct (kinsert (a, o_seq o) (active st)); auto.
Qed.
Lemma settime_enq : forall st p i r, settime (enq st p i) r = enq (settime st r) p i.
Proof. intros st p i r. unfold settime. destruct (r =? 0); [reflexivity|]. destruct (r <? 0); reflexivity. Qed.
Lemma add_in_loop_enq : forall st p i a, add_in_loop (enq st p i) a =
  match add_in_loop st a with Ok (st', e) => Ok (enq st' p i, e) | Rejected => Rejected | Fault => Fault end.
Proof.
  intros st p i a. unfold add_in_loop. rewrite insert_enq. destruct (insert st a) as [[st1 e]| |]; cbn [bind]; auto.
  destruct e; auto. unfold deref. change (heap (enq st1 p i)) with (heap st1).
  destruct (hget a (heap st1)) as [o|]; cbn [bind]; auto. unfold reset_timerfd.
  change (how_much (enq st1 p i) (o_exp o)) with (how_much st1 (o_exp o)). rewrite settime_enq. reflexivity.
Qed.
Lemma cancel_enq : forall st p i a s, cancel_in_loop (enq st p i) a s =
  match cancel_in_loop st a s with Ok st' => Ok (enq st' p i) | Rejected => Rejected | Fault => Fault end.
Proof.
  intros st p i a s. unfold cancel_in_loop, assert, deref. change (sizes_agree (enq st p i)) with (sizes_agree st).
  change (heap (enq st p i)) with (heap st). change (timers (enq st p i)) with (timers st). change (active (enq st p i)) with (active st).
  change (calling (enq st p i)) with (calling st).
  destruct (sizes_agree st); cbn [bind]; auto. destruct (kmem (a, s) (active st)).
  - destruct (hget a (heap st)) as [o|]; cbn [bind]; auto.
    destruct (kerase (o_exp o, a) (timers st)); auto. destruct (kerase (a, s) (active st)); auto.
  - destruct (calling st); reflexivity.
Qed.
(* a timer functor neither reads nor writes the queue / the in-flight set *)
Lemma run_one_enq : forall st p i f, timer_functor f -> run_one (enq st p i) f =
  match run_one st f with Ok (st', e) => Ok (enq st' p i, e) | Rejected => Rejected | Fault => Fault end.
Proof.
  intros st p i [a|a s|cs] TF; [| |contradiction]; cbn [run_one].
  - apply add_in_loop_enq.
  - rewrite cancel_enq. destruct (cancel_in_loop st a s); reflexivity.
Qed.
Lemma run_one_keeps_queue : forall st f st' e, timer_functor f -> run_one st f = Ok (st', e) ->
  pending st' = pending st /\ inflight st' = inflight st.
Proof.
  intros st [a|a s|cs] st' e TF H; [| |contradiction]; cbn [run_one] in H.
  - destruct (add_in_loop_shape _ _ _ _ H) as (_ & _ & _ & _ & _ & _ & Ep & _). split; auto.
    unfold add_in_loop in H. destruct (insert st a) as [[st1 ee]| |] eqn:EI; cbn [bind] in H; try discriminate.
    assert (E1 : inflight st1 = inflight st).
    { unfold insert in EI. destruct (assert (sizes_agree st)); cbn [bind] in EI; try discriminate.
      destruct (deref st a) as [o| |]; cbn [bind] in EI; try discriminate.
      destruct (kinsert _ (timers st)); try discriminate. destruct (kinsert _ (active st)); try discriminate.
      inversion EI; subst. reflexivity. }
    destruct ee.
    + destruct (deref st1 a) as [o| |]; cbn [bind] in H; try discriminate. unfold reset_timerfd in H. inversion H; subst.
      unfold settime. destruct (_ =? 0); [|destruct (_ <? 0)]; cbn; auto.
    + inversion H; subst; auto.
  - destruct (cancel_in_loop st a s) as [st1| |] eqn:EC; cbn [bind] in H; try discriminate. inversion H; subst.
    destruct (cancel_shape _ _ _ _ EC) as (_ & _ & Ep & _). split; auto.
    unfold cancel_in_loop in EC. destruct (assert (sizes_agree st)); cbn [bind] in EC; try discriminate.
    destruct (kmem (a, s) (active st)).
    + destruct (deref st a) as [o| |]; cbn [bind] in EC; try discriminate.
      destruct (kerase _ (timers st)); try discriminate. destruct (kerase _ (active st)); try discriminate.
      inversion EC; subst. reflexivity.
    + destruct (calling st); inversion EC; subst; reflexivity.
Qed.
(* an enqueue step only rewrites the queue / the in-flight set, as a function of those two alone *)
Lemma enqueue_step_shape : forall st c st' e, enqueue_step c -> cb_step st c = Ok (st', e) ->
  e = [] /\ st' = enq st (pending st') (inflight st') /\
  forall st2, pending st2 = pending st -> inflight st2 = inflight st ->
              cb_step st2 c = Ok (enq st2 (pending st') (inflight st'), []).
Proof.
  intros st c st' e ES H. destruct c as [d|w iv a|a s|w iv a|a s|w iv a|a|cs]; try contradiction; cbn [cb_step] in *.
  - inversion H; subst. splits; auto. intros st2 Ep Ei. cbn [pending inflight set_pending set_inflight].
    rewrite Ep. rewrite <- Ei. reflexivity.
  - destruct (zmem a (inflight st)) eqn:ZM; inversion H; subst. splits; auto.
    intros st2 Ep Ei. rewrite Ei, ZM. cbn [pending inflight set_pending set_inflight]. rewrite Ep. reflexivity.
  - inversion H; subst. splits; auto. intros st2 Ep Ei. cbn [pending inflight set_pending set_inflight].
    rewrite Ep. rewrite <- Ei. reflexivity.
Qed.

(* Commutation.  A hand-off / a queued cancel / a queued user functor that lands WHILE a timer functor of the
   current batch runs has exactly the effect of the same step right after that functor: same state, same
   events.  (By mrun_weave the model places such steps between functors; this is why that loses nothing.) *)
Lemma enqueue_commutes : forall st f c st1 e1 stc ec, timer_functor f -> enqueue_step c ->
  run_one st f = Ok (st1, e1) -> cb_step st c = Ok (stc, ec) ->
  exists st2, cb_step st1 c = Ok (st2, []) /\ run_one stc f = Ok (st2, e1) /\ ec = [].
Proof.
  intros st f c st1 e1 stc ec TF ES H1 Hc.
  destruct (enqueue_step_shape _ _ _ _ ES Hc) as (Ee & Es & Any). destruct (run_one_keeps_queue _ _ _ _ TF H1) as [Ep Ei].
  exists (enq st1 (pending stc) (inflight stc)). split; [apply Any; auto|]. split; auto.
  rewrite Es. rewrite (run_one_enq st _ _ f TF). rewrite H1. reflexivity.
Qed.
