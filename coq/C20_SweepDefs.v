(* C20_SweepDefs: check functions of the finite sweeps over every day 1900-01-01 ..
   2500-12-31 (219 511 days) and the generic lifting lemma.  The sweeps themselves are
   in C20_SweepA1/A2/B1/B2.v (independent files so that make runs them in parallel),
   each stated syntactically as [forallb f (zs lo n) = true] and closed by vm_compute on
   the functions GENERATED from Date.cc / Date.h; C20_Sweep.v lifts them to "for all
   days in the range". *)
From Coq Require Import List ZArith Bool Arith Lia.
From Muduo Require Import Gen_C20 C20_Calendar.
Import ListNotations.
Local Open Scope Z_scope.

Lemma in_zs lo n x : In x (zs lo n) <-> lo <= x < lo + Z.of_nat n.
Proof.
  unfold zs. rewrite in_map_iff. split.
  - intros [i [Hx Hi]]. apply in_seq in Hi. lia.
  - intros H. exists (Z.to_nat (x - lo)). split; [lia|]. apply in_seq. lia.
Qed.

Lemma forallb_zs f lo n :
  forallb f (zs lo n) = true -> forall x, lo <= x < lo + Z.of_nat n -> f x = true.
Proof.
  intros H x Hx. rewrite forallb_forall in H. apply H. apply in_zs. exact Hx.
Qed.

Definition triple_eqb (a b : Z * Z * Z) : bool :=
  let '(y, m, d) := a in let '(y', m', d') := b in (y =? y') && (m =? m') && (d =? d').

Lemma triple_eqb_eq a b : triple_eqb a b = true -> a = b.
Proof.
  destruct a as [[y m] d], b as [[y' m'] d']. unfold triple_eqb.
  rewrite !andb_true_iff, !Z.eqb_eq. intros [[-> ->] ->]. reflexivity.
Qed.

(* ---- sweep A: by Julian day number ---------------------------------------- *)

Definition chk_jdn (j : Z) : bool :=
  (jdn_last <? j) ||
  (let '(y, m, d) := getYearMonthDay j in
   valid_date y m d && (getJulianDayNumber y m d =? j) && getYearMonthDay_fits j).

Definition chk_block (q : Z) : bool :=
  forallb (fun r => chk_jdn (jdn_first + 1000 * q + r)) (zs 0 1000).

(* ---- sweep B: by year, month, day (shares the partial sums of the specification) -- *)

Definition chk_ymd (c70 y m d cnt : Z) : bool :=
  let j := getJulianDayNumber y m d in
  (j =? jdn_first + cnt) && (jdn_first <=? j) && (j <=? jdn_last) &&
  triple_eqb (getYearMonthDay j) (y, m, d) && getJulianDayNumber_fits y m d &&
  (weekDay j =? (4 + (cnt - c70)) mod 7) && weekDay_fits j.

Definition chk_year (c70 y : Z) : bool :=
  let base := days_before_year y in
  forallb (fun m =>
    let mb := base + days_before_month y m in
    forallb (fun d => if d <=? days_in_month y m then chk_ymd c70 y m d (mb + (d - 1)) else true)
            (zs 1 31)) (zs 1 12).

Definition c1970 : Z := greg_day_count 1970 1 1.

