(* Link_ConnBuf_Model: one muduo::net::TcpConnection whose outputBuffer_ and inputBuffer_ are
   two CONCRETE muduo::net::Buffer objects (the C10 model: vector + readerIndex_ + writerIndex_),
   not the plain byte lists of Conn_Model.  Executable, no proofs.

   The concrete state is
       ctl  : the control part = a Conn_Model.conn record (state_, channel interest, reading_,
              registration, marks, wire, fin, functor queue, ghosts).  Its two list fields
              [outb]/[inb] are DEAD here: no function of this file reads them, every state this
              file constructs carries [] in them (Link_ConnBuf.c_step_dead_fields / c_step_blank);
       obuf : outputBuffer_  (C10_Model.buf)
       ibuf : inputBuffer_   (C10_Model.buf)
   and every access TcpConnection.cc makes to one of its buffers is the corresponding C10_Model
   function (bounds-checked, returning C10's Ok / Rejected / Fault):

       TcpConnection.cc:151  outputBuffer_.readableBytes() == 0      B.readableBytes
       TcpConnection.cc:179  oldLen = outputBuffer_.readableBytes()  B.readableBytes
       TcpConnection.cc:186  outputBuffer_.append(data+nwrote, remaining)   B.append (skipn nwrote d)
       TcpConnection.cc:351  inputBuffer_.readFd(fd, &savedErrno)    B.readFd k   (k = the kernel's answer to readv)
       TcpConnection.cc:352-365  n > 0 / n == 0 / n < 0              on rf_n of readFd's result
       TcpConnection.cc:354  messageCallback_(.., &inputBuffer_, ..) EvMsg (B.readableBytes ibuf')
       TcpConnection.cc:374-375  write(fd, outputBuffer_.peek(), outputBuffer_.readableBytes())
                                                                     B.toStringPiece (= StringPiece(peek(), readableBytes()))
       TcpConnection.cc:378  outputBuffer_.retrieve(n)               B.retrieve n
       TcpConnection.cc:379  outputBuffer_.readableBytes() == 0      B.readableBytes
       user's message callback: buf->retrieve(n) / buf->retrieveAll()  (TcpConnection.cc:35 is the
       default callback)                                             B.retrieve n / B.retrieveAll

   A buffer operation issued by TcpConnection ITSELF that C10 does not accept (Rejected = a
   documented Buffer precondition violated, Fault = out-of-bounds / internal assert) makes the
   concrete step [Fault]: that is what an assert of Buffer.h firing inside library code is.
   A user's retrieve(n) beyond readableBytes() is the user's violation: [Rejected].
   Everything that does not touch a buffer is Conn_Model.step on [ctl], unchanged.  *)
From Coq Require Import List ZArith Lia Bool Arith NArith.
From Coq.Strings Require Import Byte.
From Muduo Require C10_Model.
From Muduo Require Import Conn_Model.
Import ListNotations.

Module B := Muduo.C10_Model.

Record cconn := mkCC {
  ctl  : conn;      (* control part; outb/inb fields dead *)
  obuf : B.buf;     (* outputBuffer_ *)
  ibuf : B.buf      (* inputBuffer_ *)
}.

(* TcpConnection's constructor default-constructs both buffers: Buffer(kInitialSize) *)
Definition c_init (mark : N) (wc hw : bool) : cconn :=
  mkCC (init mark wc hw) (B.new_buf B.kInitialSize) (B.new_buf B.kInitialSize).

(* a step that does not touch the buffers *)
Definition lift (c : cconn) (r : res (conn * list event)) : res (cconn * list event) :=
  match r with
  | Ok (a', e) => Ok (mkCC a' (obuf c) (ibuf c), e)
  | Rejected => Rejected
  | Fault => Fault
  end.

(* TcpConnection::sendInLoop, TcpConnection.cc:139-192 *)
Definition c_sendInLoop (c : cconn) (d : list byte) (k : kres) : res (cconn * list event) :=
  let a := ctl c in
  if cstate_eqb (st a) Disconnected then Ok (c, [EvGiveUp]) else            (* :145-149 *)
  let oldLen := B.readableBytes (obuf c) in                                  (* :151 and :179 *)
  let direct := negb (writing a) && (oldLen =? 0) in                         (* :151 *)
  let '(nwrote, fatal, wrote_ok) :=
    if direct then
      match effective a k with                                               (* :153 write(fd, data, len) *)
      | Err e => (0, is_fatal e, false)
      | k' => (match taken k' (length d) with Some n => n | None => 0 end, false, true)
      end
    else (0, false, false) in
  let remaining := length d - nwrote in                                      (* :156 *)
  let p1 := if wrote_ok && (remaining =? 0) && has_wc a
            then pending a ++ [FWriteComplete] else pending a in             (* :157-160 *)
  let queue := negb fatal && (0 <? remaining) in                             (* :177 *)
  let p2 := if queue && (hwm a <=? N.of_nat (oldLen + remaining))%N && (N.of_nat oldLen <? hwm a)%N && has_hwm a
            then p1 ++ [FHighWater (oldLen + remaining)] else p1 in          (* :180-185 *)
  match (if queue then B.append (skipn nwrote d) (obuf c) else B.Ok (obuf c)) with   (* :186 *)
  | B.Ok ob' =>
      Ok (mkCC (mkConn (st a) [] [] (if queue then true else writing a)      (* :187-190 *)
                       (rd_chan a) (rd_flag a) (registered a) (hwm a) (has_wc a) (has_hwm a)
                       (wire a ++ firstn nwrote d) (fin a) p2 (chk a) (delayed a)
                       (if fatal then accepted a else accepted a ++ d)
                       (consumed a) (delivered a) (enq a) (ran a) (ups a) (downs a))
               ob' (ibuf c),
          if direct then match effective a k with Err EAGAIN => [] | Err _ => [EvErrorLogged] | _ => [] end else [])
  | _ => Fault
  end.

(* TcpConnection::handleWrite, TcpConnection.cc:368-406 *)
Definition c_handleWrite (c : cconn) (k : kres) : res (cconn * list event) :=
  let a := ctl c in
  if writing a then                                                          (* :371 *)
    match B.toStringPiece (obuf c) with                                      (* :374-375 peek(), readableBytes() *)
    | B.Ok data =>
        match taken (effective a k) (length data) with                       (* :373 write() *)
        | Some n' =>
            if 0 <? n' then                                                  (* :376 *)
              match B.retrieve n' (obuf c) with                              (* :378 *)
              | B.Ok ob' =>
                  let empty := B.readableBytes ob' =? 0 in                   (* :379 *)
                  let a1 := mkConn (st a) [] [] (if empty then false else true)      (* :381 *)
                                   (rd_chan a) (rd_flag a) (registered a) (hwm a) (has_wc a) (has_hwm a)
                                   (wire a ++ firstn n' data) (fin a)
                                   (if empty && has_wc a then pending a ++ [FWriteComplete] else pending a)  (* :382-385 *)
                                   (chk a) (delayed a) (accepted a) (consumed a) (delivered a) (enq a) (ran a)
                                   (ups a) (downs a) in
                  let '(a2, evs) := if empty && cstate_eqb (st a) Disconnecting     (* :386-389 *)
                                    then shutdownInLoop a1 else (a1, []) in
                  Ok (mkCC a2 ob' (ibuf c), evs)
              | _ => Fault
              end
            else Ok (c, [EvErrorLogged])                                     (* :392-399 *)
        | None => Ok (c, [EvErrorLogged])
        end
    | _ => Fault
    end
  else Ok (c, []).                                                           (* :401-405 *)

(* TcpConnection::handleRead, TcpConnection.cc:347-366; [k] is the kernel's answer to the readv
   of Buffer::readFd (Buffer.cc:25-58): KData avail = the descriptor has [avail] ready,
   KErr e = -1 with errno e *)
Definition c_handleRead (c : cconn) (k : B.kres) : res (cconn * list event) :=
  let a := ctl c in
  match B.readFd k (ibuf c) with                                             (* :351 *)
  | B.Ok (ib', r) =>
      if (0 <? B.rf_n r)%Z then                                              (* :352 n > 0 *)
        Ok (mkCC (mkConn (st a) [] [] (writing a) (rd_chan a) (rd_flag a) (registered a) (hwm a)
                         (has_wc a) (has_hwm a) (wire a) (fin a) (pending a) (chk a) (delayed a) (accepted a)
                         (consumed a)
                         (delivered a ++ B.delivered (B.readFd_capacity (ibuf c)) k)   (* ghost *)
                         (enq a) (ran a) (ups a) (downs a))
                 (obuf c) ib',
            [EvMsg (B.readableBytes ib')])                                   (* :354 *)
      else if (B.rf_n r =? 0)%Z then                                         (* :356 n == 0 *)
        match handleCloseChecked a with                                      (* :358 *)
        | Ok (a', e) => Ok (mkCC a' (obuf c) ib', e)
        | Rejected => Rejected
        | Fault => Fault
        end
      else Ok (mkCC a (obuf c) ib', [EvErrorLogged])                         (* :360-365 *)
  | _ => Fault
  end.

Definition c_add_ran (a : conn) (t : nat) (d : list byte) : conn :=
  mkConn (st a) (outb a) (inb a) (writing a) (rd_chan a) (rd_flag a) (registered a) (hwm a)
         (has_wc a) (has_hwm a) (wire a) (fin a) (pending a) (chk a) (delayed a)
         (accepted a) (consumed a) (delivered a) (enq a) (ran a ++ [(t, d)]) (ups a) (downs a).

(* ops of the concrete machine: those of Conn_Model, except that the three read events are
   replaced by the kernel's answer to readFd's readv, plus the callback's retrieveAll() *)
Inductive cop :=
| COp (o : op)              (* any Conn_Model op but EvReadData / EvReadEOF / EvReadErr;
                               [Retrieve n] is the message callback's buf->retrieve(n) *)
| CRead (k : B.kres)        (* POLLIN -> handleRead *)
| CRetrieveAll.             (* the message callback's buf->retrieveAll() *)

Definition is_read_ev (o : op) : bool :=
  match o with EvReadData _ | EvReadEOF | EvReadErr => true | _ => false end.

Definition cop_wf (o : cop) : bool :=
  match o with COp o => negb (is_read_ev o) | _ => true end.

Definition c_step (c : cconn) (o : cop) : res (cconn * list event) :=
  let a := ctl c in
  match o with
  | CRead k =>
      if rd_chan a && registered a then c_handleRead c k else Rejected
  | CRetrieveAll =>
      if cstate_eqb (st a) Connecting then Rejected else
      Ok (mkCC (mkConn (st a) [] [] (writing a) (rd_chan a) (rd_flag a) (registered a) (hwm a)
                       (has_wc a) (has_hwm a) (wire a) (fin a) (pending a) (chk a) (delayed a) (accepted a)
                       (consumed a ++ B.readable (ibuf c))                   (* ghost *)
                       (delivered a) (enq a) (ran a) (ups a) (downs a))
               (obuf c) (B.retrieveAll (ibuf c)), [])
  | COp o =>
      if user_op o && cstate_eqb (st a) Connecting then Rejected else
      match o with
      | Send d k =>                                                          (* TcpConnection.cc:92-99 *)
          if cstate_eqb (st a) Connected then c_sendInLoop c d k else Ok (c, [])
      | RunOne k =>
          match pending a with
          | FSend t d :: rest =>                                             (* the bound sendInLoop, :102-106 *)
              match c_sendInLoop (mkCC (set_pending a rest) (obuf c) (ibuf c)) d k with
              | Ok (c1, evs) => Ok (mkCC (c_add_ran (ctl c1) t d) (obuf c1) (ibuf c1), evs)
              | Rejected => Rejected
              | Fault => Fault
              end
          | _ => lift c (step a (RunOne k))
          end
      | EvWritable k => if registered a then c_handleWrite c k else Rejected
      | EvReadData _ | EvReadEOF | EvReadErr => Rejected                     (* use CRead *)
      | Retrieve n =>
          match B.retrieve n (ibuf c) with                                   (* Buffer.h:113-124 *)
          | B.Ok ib' =>
              Ok (mkCC (mkConn (st a) [] [] (writing a) (rd_chan a) (rd_flag a) (registered a) (hwm a)
                               (has_wc a) (has_hwm a) (wire a) (fin a) (pending a) (chk a) (delayed a) (accepted a)
                               (consumed a ++ firstn n (B.readable (ibuf c)))   (* ghost *)
                               (delivered a) (enq a) (ran a) (ups a) (downs a))
                       (obuf c) ib', [])
          | B.Rejected => Rejected                                           (* assert(len <= readableBytes()) *)
          | B.Fault => Fault
          end
      | _ => lift c (step a o)
      end
  end.

Fixpoint c_run (c : cconn) (ops : list cop) : res (cconn * list event) :=
  match ops with
  | [] => Ok (c, [])
  | o :: rest =>
      match c_step c o with
      | Ok (c1, e1) =>
          match c_run c1 rest with
          | Ok (c2, e2) => Ok (c2, e1 ++ e2)
          | Rejected => Rejected
          | Fault => Fault
          end
      | Rejected => Rejected
      | Fault => Fault
      end
  end.

(* ---- the abstraction: forget the vector and the indices, keep the readable bytes --------- *)
Definition with_bufs (a : conn) (lo li : list byte) : conn :=
  mkConn (st a) lo li (writing a) (rd_chan a) (rd_flag a) (registered a) (hwm a) (has_wc a)
         (has_hwm a) (wire a) (fin a) (pending a) (chk a) (delayed a) (accepted a) (consumed a)
         (delivered a) (enq a) (ran a) (ups a) (downs a).

Definition abs (c : cconn) : conn := with_bufs (ctl c) (B.readable (obuf c)) (B.readable (ibuf c)).

(* the Conn_Model op a concrete op amounts to in state c: what readFd delivers is the first
   readFd_capacity bytes of what the descriptor has ready *)
Definition abs_op (c : cconn) (o : cop) : op :=
  match o with
  | COp o => o
  | CRead (B.KData avail) =>
      let d := firstn (B.readFd_capacity (ibuf c)) avail in
      if 0 <? length d then EvReadData d else EvReadEOF
  | CRead (B.KErr _) => EvReadErr
  | CRetrieveAll => Retrieve (B.readableBytes (ibuf c))
  end.

Fixpoint abs_ops (c : cconn) (ops : list cop) : list op :=
  match ops with
  | [] => []
  | o :: rest =>
      abs_op c o :: match c_step c o with Ok (c', _) => abs_ops c' rest | _ => [] end
  end.

(* the converse choice: a concrete op that realises a Conn_Model op *)
Definition conc_op (o : op) : cop :=
  match o with
  | EvReadData d => CRead (B.KData d)
  | EvReadEOF => CRead (B.KData [])
  | EvReadErr => CRead (B.KErr 0%Z)
  | o => COp o
  end.

(* one handleRead cannot deliver more than readFd offers to readv *)
Definition fits (c : cconn) (o : op) : bool :=
  match o with
  | EvReadData d => length d <=? B.readFd_capacity (ibuf c)
  | _ => true
  end.
