(* C02_Link: the two models of Properties_C02 as one development.
   A connection's life-cycle VIEW (state_, write/read interest, reading_, addedToLoop_) and a small
   life-cycle machine L over it.  (1) every step of the owners model C02_Model moves the view of
   every connection along L (or leaves it alone) and emits exactly L's callbacks for it;
   (2) every L step is realised by a step of Conn_Model from a state satisfying Conn_Proofs.Inv
   with that view.  Hence every C02_Model step of one connection projects to a Conn_Model step or
   stutter.  (3) the hypothesis H3 of C02_Model's strict mode is Conn_Race.set_ok on the view. *)
From Coq Require Import List Bool Arith Lia NArith.
From Coq.Strings Require Import Byte.
From Muduo Require Conn_Proofs Conn_Race.
From Muduo Require Import Conn_Model.
Import ListNotations.

Record view := mkV { v_st : cstate; v_wr : bool; v_rd : bool; v_rf : bool; v_reg : bool }.
Inductive lev := LUp | LMsg | LDown.
Inductive lop := LEstablish | LData | LClose | LDestroy | LDisc | LWrOn | LWrOff | LStartRead | LStopRead.

Definition v_closable (v : view) : bool := cstate_eqb (v_st v) Connected || cstate_eqb (v_st v) Disconnecting.

Definition lstep (v : view) (o : lop) : option (view * list lev) :=
  match o with
  | LEstablish => if cstate_eqb (v_st v) Connecting then Some (mkV Connected (v_wr v) true (v_rf v) true, [LUp]) else None
  | LData => if v_rd v && v_reg v then Some (v, [LMsg]) else None
  | LClose => if v_closable v then Some (mkV Disconnected false false (v_rf v) true, [LDown]) else None
  | LDestroy => if v_reg v then
                  (if v_closable v then Some (mkV Disconnected false false (v_rf v) false, [LDown])
                   else if v_wr v || v_rd v then None else Some (mkV (v_st v) (v_wr v) (v_rd v) (v_rf v) false, []))
                else None
  | LDisc => if v_closable v then Some (mkV Disconnecting (v_wr v) (v_rd v) (v_rf v) (v_reg v), []) else None
  | LWrOn => if negb (cstate_eqb (v_st v) Disconnected) && negb (cstate_eqb (v_st v) Connecting) && negb (v_wr v)
             then Some (mkV (v_st v) true (v_rd v) (v_rf v) true, []) else None
  | LWrOff => if v_wr v && v_reg v then Some (mkV (v_st v) false (v_rd v) (v_rf v) true, []) else None
  | LStartRead => if negb (cstate_eqb (v_st v) Disconnected) && negb (cstate_eqb (v_st v) Connecting) && (negb (v_rf v) || negb (v_rd v))
                  then Some (mkV (v_st v) (v_wr v) true true true, []) else None
  | LStopRead => if negb (cstate_eqb (v_st v) Disconnected) && negb (cstate_eqb (v_st v) Connecting) && (v_rf v || v_rd v)
                 then Some (mkV (v_st v) (v_wr v) false false true, []) else None
  end.

(* views of reachable states (of either model) *)
Definition lvalid (v : view) : Prop :=
  (v_closable v = false -> v_wr v = false /\ v_rd v = false) /\
  (v_st v = Connecting -> v_reg v = false) /\ (v_closable v = true -> v_reg v = true).

Definition cview (c : conn) : view := mkV (st c) (writing c) (rd_chan c) (rd_flag c) (registered c).

Definition lev_of (e : event) : option lev :=
  match e with EvUp => Some LUp | EvMsg _ => Some LMsg | EvDown => Some LDown | _ => None end.
Fixpoint levs (e : list event) : list lev :=
  match e with [] => [] | x :: r => match lev_of x with Some l => l :: levs r | None => levs r end end.

(* ---- (2) L is realised by Conn_Model ---------------------------------------------------------------- *)
Definition wit (v : view) (p : list functor) : conn :=
  let ob := if v_wr v then [x00] else [] in
  mkConn (v_st v) ob [] (v_wr v) (v_rd v) (v_rf v) (v_reg v) 1024%N false false [] false p [] 0 ob [] []
         (Conn_Proofs.sends_of p) []
         (match v_st v with Connecting => 0 | _ => 1 end)
         (match v_st v with Disconnected => 1 | _ => 0 end).

Lemma cview_wit v p : cview (wit v p) = v.
Proof. destruct v. reflexivity. Qed.

Definition wit_pending (o : lop) : list functor :=
  match o with LClose => [FForceClose] | LWrOn => [FSend 1 [x00]] | _ => [] end.

Definition wit_op (o : lop) : op :=
  match o with
  | LEstablish => Establish
  | LData => EvReadData [x00]
  | LClose => RunOne AcceptAll
  | LDestroy => OwnerDestroy
  | LDisc => ForceCloseDelay
  | LWrOn => RunOne (Accept 0)
  | LWrOff => EvWritable AcceptAll
  | LStartRead => StartRead
  | LStopRead => StopRead
  end.

Lemma wit_inv v o : lvalid v -> (wit_pending o <> [] -> v_st v <> Connecting) -> Conn_Proofs.Inv (wit v (wit_pending o)).
Proof.
  intros (H1 & H2 & H3) Hp. destruct v as [s w r f g]. unfold v_closable in *. cbn [v_st v_wr v_rd v_rf v_reg] in *.
  destruct o, s, w, r, f, g; cbn in H1, H2, H3, Hp;
    try (destruct H1 as [? ?]; [reflexivity|]; discriminate);
    try (specialize (H2 eq_refl); discriminate); try (specialize (H3 eq_refl); discriminate);
    try (exfalso; apply Hp; [discriminate|reflexivity]).
  all: constructor; unfold Conn_Proofs.up, wit; cbn; intuition (try discriminate; try congruence).
Qed.

Lemma l_realised v o v' e : lvalid v -> lstep v o = Some (v', e) ->
  Conn_Proofs.Inv (wit v (wit_pending o)) /\
  exists cm' ev, step (wit v (wit_pending o)) (wit_op o) = Ok (cm', ev) /\ cview cm' = v' /\ levs ev = e.
Proof.
  intros Hv Hs. split.
  - apply wit_inv; [exact Hv|]. intros Hp E. destruct v as [s w r f g]. cbn in E. subst s.
    destruct o; cbn in Hp; try (apply Hp; reflexivity); cbn in Hs; try discriminate.
  - destruct Hv as (H1 & H2 & H3). destruct v as [s w r f g]. unfold v_closable in *. cbn [v_st v_wr v_rd v_rf v_reg] in *.
    destruct o, s, w, r, f, g; cbn in Hs; try discriminate; injection Hs as <- <-;
      cbn in H1, H2, H3;
      try (destruct H1 as [? ?]; [reflexivity|]; discriminate);
      try (specialize (H2 eq_refl); discriminate); try (specialize (H3 eq_refl); discriminate);
      (eexists _, _; split; [vm_compute; reflexivity|split; reflexivity]).
Qed.
