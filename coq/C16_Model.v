(* C16_Model: executable models of
     (i)  FileUtil::AppendFile::append / LogFile (sequential), and
     (ii) AsyncLogging (front-end appends, one back-end thread, stop()),
   as read off the pinned sources (muduo/base/FileUtil.cc:32-53, LogFile.cc:64-133,
   AsyncLogging.cc:34-136, AsyncLogging.h:30-52).  No proofs here.

   Environment inputs (never axioms): the results of fwrite_unlocked/ferror ([wres] lists), the
   results of time(NULL) ([now], [now2] arguments), the scheduler ([label] lists). *)
From Coq Require Import List ZArith Bool Arith Lia.
From Muduo Require Import Gen_Consts Gen_C16.
Import ListNotations.
Local Open Scope Z_scope.

(* ====================================================================== (i) AppendFile, LogFile *)

(* one fwrite_unlocked(p, 1, remain, fp) call: the stream accepted the first min(k, remain) bytes;
   [e] = ferror(fp) is non-zero afterwards (only consulted when k < remain) *)
Definition wres := (nat * bool)%type.

Section Seq.
  Variable A : Type.                     (* element of a record: a byte *)

  (* AppendFile::append.  Result: (bytes handed to the stream, in order; [written]; error reported).
     The loop runs until everything is written or the stream reports an error; an exhausted
     environment list means "every further fwrite is complete".
       while (written != len) { n = write(p + written, remain);
                                if (n != remain && ferror(fp)) break;   // before written += n
                                written += n; }                                                   *)
  Fixpoint af_loop (env : list wres) (data : list A) {struct env} : list A * nat * bool :=
    match data with
    | [] => ([], 0%nat, false)
    | _ :: _ =>
        match env with
        | [] => (data, length data, false)
        | (k, e) :: env' =>
            if (length data <=? k)%nat then (data, length data, false)
            else if e then (firstn k data, 0%nat, true)
            else
              match af_loop env' (skipn k data) with
              | (acc, w, er) => (firstn k data ++ acc, (k + w)%nat, er)
              end
        end
    end.

  Record cfg := mkCfg { rollSize : Z; flushInterval : Z; checkEveryN : Z }.

  (* files newest first: the head is file_; a file = (creation second = its name, bytes handed to it) *)
  Record lf := mkLF {
    files : list (Z * list A);
    wb : Z;            (* AppendFile::writtenBytes_ of file_ *)
    cnt : Z;           (* count_ *)
    sop : Z;           (* startOfPeriod_ *)
    lastRoll : Z;
    lastFlush : Z;
    nflush : nat;      (* number of fflush calls so far (ghost) *)
    dirty : Z          (* ghost: bytes handed to the current FILE* since its last fflush / its fopen - an upper
                          bound of what may still sit in the 64 KB stdio buffer rather than in the kernel *)
  }.

  Definition period (now : Z) : Z := Z.quot now LogFile_kRollPerSeconds * LogFile_kRollPerSeconds.

  (* the guard of LogFile::rollFile, `now > lastRoll_` in the pinned tree; the comparison operator is
     the regenerated fact Gen_C16.LogFile_roll_guard_is_gt (false = `>=`), so that the model keeps
     following the code when the guard is changed -- the theorems then lose their premise *)
  Definition roll_test (last now : Z) : bool :=
    if LogFile_roll_guard_is_gt then last <? now else last <=? now.

  (* LogFile::rollFile with time(NULL) = now *)
  Definition roll (now : Z) (s : lf) : lf * bool :=
    if roll_test (lastRoll s) now
    then (mkLF ((now, []) :: files s) 0 (cnt s) (period now) now now (nflush s) 0, true)
         (* file_.reset(new AppendFile): ~AppendFile of the old file is fclose, which flushes it *)
    else (s, false).

  Definition lf_new (now : Z) : lf := fst (roll now (mkLF [] 0 0 0 0 0 0%nat 0)).

  Definition put (acc : list A) (w : nat) (s : lf) : lf :=
    match files s with
    | [] => s                                        (* no file_: excluded by 0 < now at construction *)
    | (nm, d) :: r => mkLF ((nm, d ++ acc) :: r) (wb s + Z.of_nat w) (cnt s) (sop s) (lastRoll s) (lastFlush s) (nflush s)
                           (dirty s + Z.of_nat (length acc))
    end.

  Definition set_cnt (c : Z) (s : lf) : lf :=
    mkLF (files s) (wb s) c (sop s) (lastRoll s) (lastFlush s) (nflush s) (dirty s).

  Definition do_flush (s : lf) : lf :=
    mkLF (files s) (wb s) (cnt s) (sop s) (lastRoll s) (lastFlush s) (S (nflush s)) 0.

  (* fclose: the stdio buffer goes to the kernel; no fflush is counted, nothing else changes *)
  Definition do_close (s : lf) : lf :=
    mkLF (files s) (wb s) (cnt s) (sop s) (lastRoll s) (lastFlush s) (nflush s) 0.

  Definition set_lastFlush (t : Z) (s : lf) : lf :=
    mkLF (files s) (wb s) (cnt s) (sop s) (lastRoll s) t (nflush s) (dirty s).

  (* LogFile::append_unlocked; [now] = first time(NULL) of this call, [now2] = second (day roll) *)
  Definition lf_append (c : cfg) (data : list A) (env : list wres) (now now2 : Z) (s : lf) : lf * bool :=
    match af_loop env data with
    | (acc, w, er) =>
        let s1 := put acc w s in
        (if rollSize c <? wb s1 then fst (roll now s1)
         else
           let n := cnt s1 + 1 in
           if checkEveryN c <=? n then
             let s2 := set_cnt 0 s1 in
             if period now =? sop s2 then
               (if flushInterval c <? now - lastFlush s2 then do_flush (set_lastFlush now s2) else s2)
             else fst (roll now2 s2)
           else set_cnt n s1,
         er)
    end.

  Inductive sop_t :=
  | SAppend (data : list A) (env : list wres) (now now2 : Z)
  | SFlush
  | SRoll (now : Z)
  | SClose.                      (* ~LogFile: file_ (unique_ptr<AppendFile>) is destroyed, ~AppendFile is fclose *)

  Definition lf_step (c : cfg) (s : lf) (o : sop_t) : lf :=
    match o with
    | SAppend d env now now2 => fst (lf_append c d env now now2 s)
    | SFlush => do_flush s
    | SRoll now => fst (roll now s)
    | SClose => do_close s
    end.

  Definition lf_run (c : cfg) (s : lf) (ops : list sop_t) : lf := fold_left (lf_step c) ops s.

  (* the files in creation order *)
  Definition files_in_order (s : lf) : list (Z * list A) := rev (files s).

  (* what an op hands to the stream *)
  Definition handed (o : sop_t) : list A :=
    match o with
    | SAppend d env _ _ => fst (fst (af_loop env d))
    | _ => []
    end.
  Definition op_error (o : sop_t) : bool :=
    match o with
    | SAppend d env _ _ => snd (af_loop env d)
    | _ => false
    end.
  Definition op_record (o : sop_t) : list (list A) :=
    match o with SAppend d _ _ _ => [d] | _ => [] end.
End Seq.

Arguments af_loop {A} env data.
Arguments mkLF {A} files wb cnt sop lastRoll lastFlush nflush dirty.
Arguments files {A} l. Arguments wb {A} l. Arguments cnt {A} l. Arguments sop {A} l.
Arguments lastRoll {A} l. Arguments lastFlush {A} l. Arguments nflush {A} l. Arguments dirty {A} l.
Arguments roll {A} now s. Arguments lf_new {A} now. Arguments put {A} acc w s.
Arguments set_cnt {A} c s. Arguments do_flush {A} s. Arguments do_close {A} s. Arguments set_lastFlush {A} t s.
Arguments lf_append {A} c data env now now2 s.
Arguments SAppend {A} data env now now2. Arguments SFlush {A}. Arguments SRoll {A} now. Arguments SClose {A}.
Arguments lf_step {A} c s o. Arguments lf_run {A} c s ops. Arguments files_in_order {A} s.
Arguments handed {A} o. Arguments op_error {A} o. Arguments op_record {A} o.

(* order-preserving selection: [subseq l1 l2] = l1 is l2 with some positions left out (each position of l2
   used at most once, order kept) -- "at most once, in order" as a relation between lists *)
Inductive subseq {X : Type} : list X -> list X -> Prop :=
| subseq_nil : subseq [] []
| subseq_skip x l1 l2 : subseq l1 l2 -> subseq l1 (x :: l2)
| subseq_take x l1 l2 : subseq l1 l2 -> subseq (x :: l1) (x :: l2).

(* ====================================================================== (ii) AsyncLogging *)

(* shape parameters; [current_params] are the values regenerated from /repo *)
Record params := mkParams {
  p_drain : bool;    (* a final swap-and-write of currentBuffer_/buffers_ follows the loop *)
  p_fit_gt : bool;   (* AsyncLogging::append tests `currentBuffer_->avail() > len` (false: `>=`) *)
  p_copy_gt : bool;  (* FixedBuffer::append copies iff `avail() > len` (false: `>=`) *)
  p_cap : Z;         (* kLargeBuffer *)
  p_thr : nat;       (* buffersToWrite.size() > 25 *)
  p_keep : nat;      (* erase(begin()+2, end()) *)
  p_rkeep : nat      (* resize(2) *)
}.

(* `size() >= L` is `size() > L-1` *)
Definition current_params : params :=
  mkParams AsyncLogging_drain_after_loop AsyncLogging_append_fit_is_gt FixedBuffer_append_copy_is_gt
           LogStream_kLargeBuffer
           (Z.to_nat (if AsyncLogging_drop_threshold_is_gt then AsyncLogging_drop_threshold
                      else AsyncLogging_drop_threshold - 1))
           (Z.to_nat AsyncLogging_drop_keep)
           (Z.to_nat AsyncLogging_recycle_keep).

(* the same shape with / without the drain after the loop (the two trees of finding F-8) *)
Definition with_drain (d : bool) (p : params) : params :=
  mkParams d (p_fit_gt p) (p_copy_gt p) (p_cap p) (p_thr p) (p_keep p) (p_rkeep p).

(* the two sites that decide about room agree: whenever AsyncLogging::append puts a record into the
   current buffer (its fit test passes), FixedBuffer::append really copies it.  `>`/`>`, `>`/`>=` and
   `>=`/`>=` agree; `>=`/`>` does not (a record of exactly the space left is accepted and then silently
   not copied) *)
Definition sites_agree (p : params) : bool := p_fit_gt p || negb (p_copy_gt p).

Definition params_ok (p : params) : bool :=
  (2 <=? p_keep p)%nat && (2 <=? p_rkeep p)%nat && (p_keep p <=? p_thr p)%nat && (0 <? p_cap p).

Section Async.
  Variable R : Type.             (* a record (log line) *)
  Variable rlen : R -> Z.        (* its length in bytes *)
  Variable P : params.

  (* FixedBuffer<kLargeBuffer>: the records copied into it, and length() *)
  Record buf := mkBuf { recs : list R; blen : Z }.
  Definition empty_buf : buf := mkBuf [] 0.
  (* FixedBuffer::append: copies only if avail() > len, otherwise silently nothing *)
  Definition copies (r : R) (b : buf) : bool :=
    if p_copy_gt P then rlen r <? p_cap P - blen b else rlen r <=? p_cap P - blen b.
  Definition buf_append (b : buf) (r : R) : buf :=
    if copies r b then mkBuf (recs b ++ [r]) (blen b + rlen r) else b.

  (* what the back-end does with LogFile output / stderr *)
  Inductive oev :=
  | OStderr (n : nat)       (* "Dropped log messages at ..., n larger buffers" on stderr *)
  | OFileAnn (n : nat)      (* the same line appended to the log file *)
  | OBuf (b : buf)          (* output.append(buffer->data(), buffer->length()) *)
  | OFlush.                 (* output.flush() *)

  (* park points of the back-end thread (= the places where it can be observed / interleaved) *)
  Inductive bpc :=
  | PStart                       (* thread started, before the first test of running_ *)
  | PLock                        (* running_ was true; about to lock mutex_ *)
  | PWait                        (* inside cond_.waitForSeconds, mutex released *)
  | PAnn (batch : list buf)      (* out of the section with > thr buffers: about to announce *)
  | PWriteAnn (batch : list buf) (* about to append the announcement to the file and erase *)
  | PWrite (todo : list buf) (fin : bool)
                                 (* in the write loop; todo = [] : about to flush (fin: the flush after the loop) *)
  | PFinalLock                   (* repaired shape only: about to lock for the final drain *)
  | PDone.

  Record shared_t := mkSh { cur : buf; nxt : bool; bufs : list buf; running : bool }.
  Record backend_t := mkBe { pc : bpc; nb1 : bool; nb2 : bool; twn : nat; fault : bool }.
  Record ghost_t := mkGh {
    hist : list R;               (* records in the order of the front-end critical sections *)
    owner : list nat;            (* the thread that appended each of them (same length as hist) *)
    mark : option nat;           (* length hist when stop() stored running_ = false *)
    swapmark : nat;              (* length hist at the back-end's latest swap *)
    batches : list (list buf);   (* batches swapped out inside the loop, oldest first *)
    fbatch : list buf;           (* the batch of the final drain (repaired shape) *)
    dropped : list buf;          (* buffers erased by the overload valve *)
    out : list oev;              (* everything done to the LogFile / stderr, oldest first *)
    joined : bool                (* stop() has returned *)
  }.
  Record ast := mkA { sh : shared_t; be : backend_t; gh : ghost_t; progs : list (list R) }.

  Definition init (programs : list (list R)) : ast :=
    mkA (mkSh empty_buf true [] true) (mkBe PStart true true 0 false)
        (mkGh [] [] None 0 [] [] [] [] false) programs.

  (* AsyncLogging::append: one critical section *)
  Definition fits (r : R) (b : buf) : bool :=
    if p_fit_gt P then rlen r <? p_cap P - blen b else rlen r <=? p_cap P - blen b.

  Definition fe_append (r : R) (s : shared_t) : shared_t :=
    if fits r (cur s)
    then mkSh (buf_append (cur s) r) (nxt s) (bufs s) (running s)
    else mkSh (buf_append empty_buf r) false (bufs s ++ [cur s]) (running s).
         (* nextBuffer_ taken if present, else a new Buffer; cond_.notify() has no effect on the state *)

  Definition emit (e : list oev) (g : ghost_t) : ghost_t :=
    mkGh (hist g) (owner g) (mark g) (swapmark g) (batches g) (fbatch g) (dropped g) (out g ++ e) (joined g).

  (* the part of the back-end's critical section after the (possible) wait:
     buffers_.push_back(move(currentBuffer_)); currentBuffer_ = move(newBuffer1);
     buffersToWrite.swap(buffers_); if (!nextBuffer_) nextBuffer_ = move(newBuffer2); *)
  Definition do_swap (s : ast) : ast :=
    let batch := bufs (sh s) ++ [cur (sh s)] in
    let g := gh s in
    mkA (mkSh empty_buf true [] (running (sh s)))
        (mkBe (if (p_thr P <? length batch)%nat then PAnn batch else PWrite batch false)
              false (if nxt (sh s) then nb2 (be s) else false) (length batch) (fault (be s)))
        (mkGh (hist g) (owner g) (mark g) (length (hist g)) (batches g ++ [batch]) (fbatch g) (dropped g) (out g) (joined g))
        (progs s).

  (* repaired shape: the same hand-over once more after the loop, no valve *)
  Definition do_final_swap (s : ast) : ast :=
    let batch := bufs (sh s) ++ [cur (sh s)] in
    let g := gh s in
    mkA (mkSh empty_buf (nxt (sh s)) [] (running (sh s)))
        (mkBe (PWrite batch true) false (nb2 (be s)) (length batch) (fault (be s)))
        (mkGh (hist g) (owner g) (mark g) (length (hist g)) (batches g) batch (dropped g) (out g) (joined g))
        (progs s).

  Definition set_be (b : backend_t) (s : ast) : ast := mkA (sh s) b (gh s) (progs s).
  Definition set_pc (p : bpc) (s : ast) : ast :=
    set_be (mkBe p (nb1 (be s)) (nb2 (be s)) (twn (be s)) (fault (be s))) s.

  (* the test of running_ (loop head) *)
  Definition loop_head (s : ast) : ast :=
    if running (sh s) then set_pc PLock s
    else if p_drain P then set_pc PFinalLock s else set_pc (PWrite [] true) s.

  (* bottom of an iteration: resize(rkeep), refill newBuffer1/2 from the back, clear *)
  Definition recycle (b : backend_t) : backend_t :=
    let k0 := Nat.min (twn b) (p_rkeep P) in
    let '(n1, k1, f1) := if nb1 b then (true, k0, false) else
                           match k0 with O => (false, O, true) | S k => (true, k, false) end in
    let '(n2, k2, f2) := if nb2 b then (true, k1, false) else
                           match k1 with O => (false, O, true) | S k => (true, k, false) end in
    mkBe (pc b) n1 n2 0 (fault b || f1 || f2).

  (* the back-end runs from its park point to the next one *)
  Definition be_step (s : ast) : option ast :=
    match pc (be s) with
    | PStart => Some (loop_head s)
    | PLock => Some (if match bufs (sh s) with [] => true | _ => false end then set_pc PWait s else do_swap s)
    | PWait => Some (do_swap s)
    | PAnn batch =>
        Some (mkA (sh s) (mkBe (PWriteAnn batch) (nb1 (be s)) (nb2 (be s)) (twn (be s)) (fault (be s)))
                  (emit [OStderr (length batch - p_keep P)] (gh s)) (progs s))
    | PWriteAnn batch =>
        let g := emit [OFileAnn (length batch - p_keep P)] (gh s) in
        Some (mkA (sh s)
                  (mkBe (PWrite (firstn (p_keep P) batch) false) (nb1 (be s)) (nb2 (be s))
                        (Nat.min (p_keep P) (length batch)) (fault (be s)))
                  (mkGh (hist g) (owner g) (mark g) (swapmark g) (batches g) (fbatch g)
                        (dropped g ++ skipn (p_keep P) batch) (out g) (joined g))
                  (progs s))
    | PWrite (b :: rest) fin =>
        Some (mkA (sh s) (mkBe (PWrite rest fin) (nb1 (be s)) (nb2 (be s)) (twn (be s)) (fault (be s)))
                  (emit [OBuf b] (gh s)) (progs s))
    | PWrite [] false =>
        Some (loop_head (mkA (sh s) (recycle (be s)) (emit [OFlush] (gh s)) (progs s)))
    | PWrite [] true =>
        Some (mkA (sh s) (mkBe PDone (nb1 (be s)) (nb2 (be s)) (twn (be s)) (fault (be s)))
                  (emit [OFlush] (gh s)) (progs s))
    | PFinalLock => Some (do_final_swap s)
    | PDone => None
    end.

  Inductive label :=
  | LApp (t : nat)     (* front-end thread t runs its next AsyncLogging::append (whole section) *)
  | LBack              (* the back-end advances to its next park point *)
  | LStop              (* stop(): running_ = false (the notify has no effect on the state) *)
  | LJoin.             (* stop(): thread_.join() returns *)

  Fixpoint upd_nth {X} (n : nat) (x : X) (l : list X) : list X :=
    match l, n with
    | [], _ => []
    | _ :: t, O => x :: t
    | h :: t, S n' => h :: upd_nth n' x t
    end.

  Definition step (s : ast) (l : label) : option ast :=
    match l with
    | LApp t =>
        match nth_error (progs s) t with
        | Some (r :: rest) =>
            let g := gh s in
            Some (mkA (fe_append r (sh s)) (be s)
                      (mkGh (hist g ++ [r]) (owner g ++ [t]) (mark g) (swapmark g) (batches g) (fbatch g) (dropped g) (out g) (joined g))
                      (upd_nth t rest (progs s)))
        | _ => None
        end
    | LBack => be_step s
    | LStop =>
        match mark (gh s) with
        | Some _ => None
        | None =>
            let g := gh s in
            Some (mkA (mkSh (cur (sh s)) (nxt (sh s)) (bufs (sh s)) false) (be s)
                      (mkGh (hist g) (owner g) (Some (length (hist g))) (swapmark g) (batches g) (fbatch g) (dropped g) (out g) (joined g))
                      (progs s))
        end
    | LJoin =>
        match mark (gh s), pc (be s), joined (gh s) with
        | Some _, PDone, false =>
            let g := gh s in
            Some (mkA (sh s) (be s)
                      (mkGh (hist g) (owner g) (mark g) (swapmark g) (batches g) (fbatch g) (dropped g) (out g) true)
                      (progs s))
        | _, _, _ => None
        end
    end.

  Fixpoint run (s : ast) (ls : list label) : option ast :=
    match ls with
    | [] => Some s
    | l :: r => match step s l with Some s' => run s' r | None => None end
    end.

  Inductive reach (s0 : ast) : ast -> Prop :=
  | reach_refl : reach s0 s0
  | reach_step : forall s l s', reach s0 s -> step s l = Some s' -> reach s0 s'.

  (* ---- specification-side vocabulary (used by the theorem statements) ---- *)
  Definition flat (l : list buf) : list R := flat_map recs l.

  (* what one loop iteration must do with the batch it swapped out *)
  Definition render_batch (batch : list buf) : list oev :=
    if (p_thr P <? length batch)%nat
    then [OStderr (length batch - p_keep P); OFileAnn (length batch - p_keep P)]
           ++ map OBuf (firstn (p_keep P) batch) ++ [OFlush]
    else map OBuf batch ++ [OFlush].

  (* the records handed to the LogFile, in order *)
  Definition written_of (o : list oev) : list R :=
    flat_map (fun e => match e with OBuf b => recs b | _ => [] end) o.

  (* the records of a batch that the valve discards *)
  Definition dropped_of (batch : list buf) : list buf :=
    if (p_thr P <? length batch)%nat then skipn (p_keep P) batch else [].
  Definition kept_of (batch : list buf) : list buf :=
    if (p_thr P <? length batch)%nat then firstn (p_keep P) batch else batch.

  (* the property text, last sentence: when stop() has returned, every record appended before the
     call was handed to the LogFile (or discarded by an announced overload drop) and flushed *)
  (* every record the back-end has taken out of the front-end buffers, in order *)
  Definition taken (g : ghost_t) : list R := flat (concat (batches g) ++ fbatch g).

  Definition stop_flushed (s : ast) : Prop :=
    joined (gh s) = true ->
    forall m, mark (gh s) = Some m ->
      exists rest, taken (gh s) = firstn m (hist (gh s)) ++ rest.

  (* what the back-end must have done to the file/stderr once it has finished: every loop batch
     rendered by [render_batch]; then, in the repaired shape, the final batch written entirely;
     then the flush after the loop *)
  Definition final_out (g : ghost_t) : list oev :=
    flat_map render_batch (batches g) ++ map OBuf (fbatch g) ++ [OFlush].

  (* the back-end has left its loop for good *)
  Definition pc_final (p : bpc) : bool :=
    match p with PWrite _ true | PDone => true | _ => false end.

  (* what the back-end, parked at [p], still has to do for the batch it is working on *)
  Definition pending (p : bpc) : list oev :=
    match p with
    | PAnn batch => render_batch batch
    | PWriteAnn batch => OFileAnn (length batch - p_keep P) :: map OBuf (firstn (p_keep P) batch) ++ [OFlush]
    | PWrite todo _ => map OBuf todo ++ [OFlush]
    | _ => []
    end.

  (* the part of [final_out] that belongs to the time after the loop *)
  Definition fin_part (s : ast) : list oev :=
    if pc_final (pc (be s)) then map OBuf (fbatch (gh s)) ++ [OFlush] else [].

  (* the buffers of the batch in work that the valve is about to erase *)
  Definition dropping (p : bpc) : list buf :=
    match p with PAnn batch | PWriteAnn batch => skipn (p_keep P) batch | _ => [] end.

  (* the records thread t has appended so far, in the order of its critical sections *)
  Definition per_thread (t : nat) (g : ghost_t) : list R :=
    map snd (filter (fun x => Nat.eqb (fst x) t) (combine (owner g) (hist g))).

  (* the property text, last sentence, in full: stop() has returned => the back-end has finished; every
     record appended before the call is in a batch the back-end took; every batch of the loop was
     rendered by [render_batch] (written, except the announced overload drops), the final batch was
     written entirely; the last thing done is a flush; the erased buffers are exactly the [dropped_of] *)
  Definition stop_flushed_full (s : ast) : Prop :=
    joined (gh s) = true ->
    exists m rest,
      mark (gh s) = Some m /\ (m <= length (hist (gh s)))%nat /\
      taken (gh s) = firstn m (hist (gh s)) ++ rest /\
      pc (be s) = PDone /\
      out (gh s) = final_out (gh s) /\
      dropped (gh s) = flat_map dropped_of (batches (gh s)).

  (* ---- termination of stop(): a rank that every back-end step decreases once running_ is false ----
     (an upper bound on the number of back-end steps to PDone if no front-end interferes; an append
     adds at most one buffer, hence at most 1) *)
  Definition stop_rank (s : ast) : nat :=
    let B := length (bufs (sh s)) in
    match pc (be s) with
    | PDone => 0
    | PWrite todo true => length todo + 1
    | PFinalLock => B + 3
    | PStart => B + 4
    | PWrite todo false => length todo + 1 + (B + 4)
    | PWriteAnn batch => length batch + 3 + (B + 4)
    | PAnn batch => length batch + 4 + (B + 4)
    | PWait => B + 10
    | PLock => B + 11
    end%nat.

  (* ~AsyncLogging() { if (running_) { stop(); } } : entering the destructor is calling stop() unless stop() has
     been called before (then nothing happens); the destructor returns when the join has returned *)
  Definition dtor_entry (s : ast) : ast := match step s LStop with Some s' => s' | None => s end.

  (* an infinite schedule: label number n; a label that is not enabled is skipped (the thread it names has
     nothing to do).  It is fair to the back-end if it names the back-end again and again *)
  Definition step_or_stay (s : ast) (l : label) : ast := match step s l with Some s' => s' | None => s end.
  Definition exec (s : ast) (ls : list label) : ast := fold_left step_or_stay ls s.
  Definition sched_prefix (f : nat -> label) (n : nat) : list label := map f (seq 0 n).
  Definition fair_to_backend (f : nat -> label) : Prop := forall n, exists m, (n <= m)%nat /\ f m = LBack.
  (* records the front-end threads still have to append *)
  Definition remaining (s : ast) : nat := fold_right (fun p a => (length p + a)%nat) 0%nat (progs s).

  Definition count_back (ls : list label) : nat :=
    length (filter (fun l => match l with LBack => true | _ => false end) ls).
  Definition count_app (ls : list label) : nat :=
    length (filter (fun l => match l with LApp _ => true | _ => false end) ls).
End Async.

Arguments mkBuf {R} recs blen. Arguments recs {R} b. Arguments blen {R} b.
Arguments empty_buf {R}.
Arguments OStderr {R} n. Arguments OFileAnn {R} n. Arguments OBuf {R} b. Arguments OFlush {R}.
Arguments PStart {R}. Arguments PLock {R}. Arguments PWait {R}. Arguments PAnn {R} batch.
Arguments PWriteAnn {R} batch. Arguments PWrite {R} todo fin. Arguments PFinalLock {R}. Arguments PDone {R}.
Arguments mkSh {R} cur nxt bufs running. Arguments cur {R} s. Arguments nxt {R} s. Arguments bufs {R} s. Arguments running {R} s.
Arguments mkBe {R} pc nb1 nb2 twn fault. Arguments pc {R} b. Arguments nb1 {R} b. Arguments nb2 {R} b.
Arguments twn {R} b. Arguments fault {R} b.
Arguments mkGh {R} hist owner mark swapmark batches fbatch dropped out joined.
Arguments hist {R} g. Arguments owner {R} g. Arguments mark {R} g. Arguments swapmark {R} g. Arguments batches {R} g.
Arguments fbatch {R} g. Arguments dropped {R} g. Arguments out {R} g. Arguments joined {R} g.
Arguments mkA {R} sh be gh progs. Arguments sh {R} a. Arguments be {R} a. Arguments gh {R} a. Arguments progs {R} a.
Arguments init {R} programs.
Arguments flat {R} l.
Arguments written_of {R} o.
Arguments taken {R} g.
Arguments pc_final {R} p.
Arguments stop_rank {R} s.
Arguments per_thread {R} t g.

(* ---- (ii) on top of (i): the back-end's output events as LogFile operations (specification only) ---- *)
Section Compose.
  Variables (R A : Type) (bytes : R -> list A).

  (* buffer->data(), buffer->length(): the records copied into it, back to back *)
  Definition buf_bytes (b : buf R) : list A := concat (map bytes (recs b)).

  (* one event = the LogFile operations it consists of (with arbitrary stdio / clock behaviour) and the
     bytes it appends: a buffer is ONE append of its bytes, the announcement is one append of some line *)
  Inductive ev_op : oev R -> list (sop_t A) -> list A -> Prop :=
  | eo_buf b env now now2 : ev_op (OBuf b) [SAppend (buf_bytes b) env now now2] (buf_bytes b)
  | eo_ann n line env now now2 : ev_op (OFileAnn n) [SAppend line env now now2] line
  | eo_flush : ev_op OFlush [SFlush] []
  | eo_stderr n : ev_op (OStderr n) [] [].

  Inductive evs_ops : list (oev R) -> list (sop_t A) -> list (list A) -> Prop :=
  | eos_nil : evs_ops [] [] []
  | eos_cons e o ch es os chs : ev_op e o ch -> evs_ops es os chs -> evs_ops (e :: es) (o ++ os) (ch :: chs).
End Compose.
Arguments buf_bytes {R A} bytes b.

(* what the files must contain once the back-end has finished, batch by batch: a batch within the
   threshold contributes the bytes of all its buffers; a batch over the threshold contributes ONE
   announcement line (any text) followed by the bytes of its first p_keep buffers - buffers
   p_keep+1..n are the announced drop; the final batch (drain after the loop) contributes all its bytes *)
Section EndToEnd.
  Variables (R A : Type) (bytes : R -> list A) (P : params).

  Definition bufs_bytes (l : list (buf R)) : list A := concat (map (buf_bytes bytes) l).

  Inductive stream_ok : list (list (buf R)) -> list (buf R) -> list A -> Prop :=
  | so_final fb : stream_ok [] fb (bufs_bytes fb)
  | so_whole b bs fb st : (length b <= p_thr P)%nat -> stream_ok bs fb st ->
                          stream_ok (b :: bs) fb (bufs_bytes b ++ st)
  | so_drop b bs fb st line : (p_thr P < length b)%nat -> stream_ok bs fb st ->
                              stream_ok (b :: bs) fb (line ++ bufs_bytes (firstn (p_keep P) b) ++ st).
End EndToEnd.
Arguments bufs_bytes {R A} bytes l.

(* ---- several sinks in one process (two LogFiles, a LogFile next to an AsyncLogging, ...).  The models above
   are per object; a process with two sinks is their PRODUCT - an operation on one sink is a step of that
   sink's model and leaves the other sink's state alone - provided the objects share no state.  That proviso
   is the regenerated fact Gen_C16.Sinks_share_no_state (no static data member, no non-local variable) ---- *)
Section Product.
  Variables (S1 S2 O1 O2 : Type) (step1 : S1 -> O1 -> S1) (step2 : S2 -> O2 -> S2).
  Definition pair_step (s : S1 * S2) (o : O1 + O2) : S1 * S2 :=
    match o with inl a => (step1 (fst s) a, snd s) | inr b => (fst s, step2 (snd s) b) end.
  Definition pair_run (s : S1 * S2) (ops : list (O1 + O2)) : S1 * S2 := fold_left pair_step ops s.
  Definition lefts (ops : list (O1 + O2)) : list O1 := flat_map (fun o => match o with inl a => [a] | inr _ => [] end) ops.
  Definition rights (ops : list (O1 + O2)) : list O2 := flat_map (fun o => match o with inl _ => [] | inr b => [b] end) ops.
End Product.

(* ---- file names (LogFile::getLogFileName): basename ++ strftime(".%Y%m%d-%H%M%S.", gmtime(now)) ++
   hostname ++ ".<pid>.log"; the time stamp is an environment function [stamp] ---- *)
Section Names.
  Variables (X : Type) (ltX : X -> X -> Prop).

  (* lexicographic order (what `ls`, sort(1) and the oracle use to put the files in creation order) *)
  Inductive lex_lt : list X -> list X -> Prop :=
  | lex_nil x l : lex_lt [] (x :: l)
  | lex_head x y l1 l2 : ltX x y -> lex_lt (x :: l1) (y :: l2)
  | lex_tail x l1 l2 : lex_lt l1 l2 -> lex_lt (x :: l1) (x :: l2).

  Definition fname (stamp : Z -> list X) (base host pidlog : list X) (now : Z) : list X :=
    base ++ stamp now ++ host ++ pidlog.
End Names.

(* the configuration a LogFile gets from its constructor's default arguments (regenerated) *)
Definition default_cfg (rollSize : Z) : cfg :=
  mkCfg rollSize LogFile_default_flushInterval LogFile_default_checkEveryN.

(* ---- instance used by the extracted runner: a record = (thread, sequence number, length) ---- *)
Definition xrec := (nat * nat * Z)%type.
Definition xrlen (r : xrec) : Z := snd r.
Definition xinit : ast xrec := init [].
(* runner only: the ghost history is not maintained (it is quadratic to build and never printed) *)
Definition xappend (p : params) (r : xrec) (s : ast xrec) : ast xrec :=
  mkA (fe_append xrec xrlen p r (sh s)) (be s) (gh s) (progs s).
Definition xback (p : params) (s : ast xrec) : option (ast xrec) := step xrec xrlen p s (LBack).
Definition xstop (p : params) (s : ast xrec) : option (ast xrec) := step xrec xrlen p s (LStop).
Definition xjoin (p : params) (s : ast xrec) : option (ast xrec) := step xrec xrlen p s (LJoin).
