(* C18_HttpSrvProofs: (1) the bytes HttpResponse::appendToBuffer emits parse back under the
   reference response grammar; (2) HttpServer::onMessage (one parseRequest per delivery) against
   the ideal request decoder of C18_Model: the requests handed to the callback are always a prefix
   of the ideal ones, the rest is still in the buffer and comes out with later deliveries
   ("pipelining"); (3) header map lemmas (duplicate fields: the last one wins; trimming). *)
From Coq Require Import List ZArith Lia Bool Arith NArith DecimalNat.
From Coq.Strings Require Import Byte.
From Muduo Require Import Base_Bytes Gen_Consts C18_Model C18_StreamProofs C18_CodecProofs C18_HttpProofs C18_HttpSrvModel.
Import ListNotations.

(* ---- decimal ------------------------------------------------------------------------------- *)
Lemma undec_acc u : forall acc,
  fold_left (fun a b => 10 * a + Z.to_nat (Z_of_byte b - 48)) (bytes_of_uint u) acc = Nat.of_uint_acc u acc.
Proof.
  induction u; intros acc; cbn [bytes_of_uint fold_left Nat.of_uint_acc]; try reflexivity;
    rewrite IHu; f_equal; rewrite Nat.tail_mul_spec;
    match goal with |- context [Z_of_byte ?b] => change (Z.to_nat (Z_of_byte b - 48)) with
      (Z.to_nat (Z_of_byte b - 48)) end; vm_compute Z.to_nat; lia.
Qed.

Lemma undec_dec n : undec (dec n) = n.
Proof. unfold undec, dec. rewrite undec_acc. apply Unsigned.of_to. Qed.

Lemma digits_of_uint u : forallb is_digit (bytes_of_uint u) = true.
Proof. induction u; cbn [bytes_of_uint forallb]; try reflexivity; rewrite IHu; reflexivity. Qed.

Lemma dec_digits n : forallb is_digit (dec n) = true.
Proof. apply digits_of_uint. Qed.

Lemma dec_nonempty n : dec n <> [].
Proof.
  unfold dec. intros H. assert (Hn : Nat.to_uint n = Decimal.Nil).
  { destruct (Nat.to_uint n); try discriminate H. reflexivity. }
  pose proof (Unsigned.of_to n) as E. rewrite Hn in E. cbn in E. subst n. discriminate Hn.
Qed.

Lemma is_digit_not b c : is_digit b = true -> is_digit c = false -> b <> c.
Proof. intros H1 H2 ->. congruence. Qed.

Lemma digits_no (c : byte) l : is_digit c = false -> forallb is_digit l = true -> ~ In c l.
Proof.
  intros Hc Hl Hin. rewrite forallb_forall in Hl. specialize (Hl c Hin). congruence.
Qed.

(* ---- lines ------------------------------------------------------------------------------------ *)
Lemma no_lf_crlf_line l : ~ In LF l -> crlf_line l.
Proof.
  unfold crlf_line. induction l as [|x t IH]; intros H.
  - reflexivity.
  - change ((x :: t) ++ [CR; LF]) with (x :: (t ++ [CR; LF])). cbn [length].
    assert (Ht : ~ In LF t) by (intros Hx; apply H; right; exact Hx).
    specialize (IH Ht).
    destruct (t ++ [CR; LF]) as [|y r] eqn:E; [destruct t; discriminate E|].
    rewrite find_crlf_cons2, IH.
    assert (Hy : Byte.eqb x CR && Byte.eqb y LF = false).
    { apply andb_false_iff. destruct (Byte.eqb y LF) eqn:Ey; [|right; reflexivity].
      apply Byte.byte_dec_bl in Ey. subst y.
      destruct t as [|z t']; cbn [app] in E; injection E as Ez _.
      - discriminate Ez.
      - exfalso. apply Ht. left. exact Ez. }
    rewrite Hy. reflexivity.
Qed.

Lemma find_crlf_join l rest : crlf_line l -> find_crlf (l ++ CRLF ++ rest) = Some (length l).
Proof. intros H. rewrite app_assoc. apply find_crlf_app. exact H. Qed.

Lemma firstn_line l rest : firstn (length l) (l ++ CRLF ++ rest) = l.
Proof. apply firstn_app_exact. Qed.

Lemma skipn_line l rest : skipn (length l + 2) (l ++ CRLF ++ rest) = rest.
Proof.
  rewrite app_assoc. replace (length l + 2) with (length (l ++ CRLF)) by (rewrite app_length; reflexivity).
  apply skipn_app_exact.
Qed.

(* ---- (1) the response parses back ------------------------------------------------------------- *)
Definition no (c : byte) (l : list byte) : Prop := ~ In c l.

Record wf_response (r : response) : Prop := {
  wf_code_len : length (dec (rs_code r)) <= 21;
  wf_body_len : length (dec (length (rs_body r))) <= 13;
  wf_msg : no LF (rs_msg r);
  wf_hdrs : Forall (fun kv => no COLON (fst kv) /\ no LF (fst kv) /\ no LF (snd kv)) (rs_headers r);
  wf_no_cl : lookup s_ContentLength (rs_headers r) = None
}.

Definition implicit_headers (r : response) : list (list byte * list byte) :=
  if rs_close r then [(s_Connection, s_close)]
  else [(s_ContentLength, dec (length (rs_body r))); (s_Connection, s_KeepAlive)].

Definition hline (kv : list byte * list byte) : list byte := fst kv ++ [COLON; SP] ++ snd kv.

Lemma header_line_hline kv : header_line kv = hline kv ++ CRLF.
Proof. unfold header_line, hline. rewrite <- !app_assoc. reflexivity. Qed.

Lemma ref_header_line_hline kv : no COLON (fst kv) -> ref_header_line (hline kv) = Some kv.
Proof.
  intros Hk. destruct kv as [k v]. unfold ref_header_line, hline. cbn [fst snd] in *.
  change (k ++ [COLON; SP] ++ v) with (k ++ COLON :: (SP :: v)).
  rewrite (find_byte_app COLON k (SP :: v) Hk).
  rewrite skipn_len1_app. rewrite byte_eqb_refl.
  rewrite firstn_app_exact. reflexivity.
Qed.

Lemma hline_crlf kv : no LF (fst kv) -> no LF (snd kv) -> crlf_line (hline kv).
Proof.
  intros H1 H2. apply no_lf_crlf_line. unfold hline. intros Hin.
  apply in_app_or in Hin as [Hin|Hin]; [exact (H1 Hin)|].
  cbn [app In] in Hin. destruct Hin as [Hin|[Hin|Hin]]; [discriminate Hin|discriminate Hin|exact (H2 Hin)].
Qed.

Lemma hline_nonempty kv : length (hline kv) <> 0.
Proof. unfold hline. rewrite !app_length. cbn [length]. lia. Qed.

(* the header section: lines, then the empty line, then the body *)
Lemma ref_headers_lines : forall (kvs : list (list byte * list byte)) fuel acc body,
  Forall (fun kv => no COLON (fst kv) /\ no LF (fst kv) /\ no LF (snd kv)) kvs ->
  length kvs < fuel ->
  ref_headers fuel (flat_map header_line kvs ++ CRLF ++ body) acc = Some (rev acc ++ kvs, body).
Proof.
  induction kvs as [|kv kvs IH]; intros fuel acc body HF Hfuel.
  - destruct fuel as [|f]; [cbn in Hfuel; lia|]. cbn [flat_map app ref_headers].
    change (CRLF ++ body) with (CR :: LF :: body). cbn [find_crlf].
    rewrite !byte_eqb_refl. cbn [andb Nat.eqb skipn]. rewrite app_nil_r. reflexivity.
  - destruct fuel as [|f]; [cbn in Hfuel; lia|]. cbn [length] in Hfuel.
    inversion HF as [|? ? (Hc & Hk & Hv) HF']; subst.
    cbn [flat_map ref_headers]. rewrite header_line_hline, <- !app_assoc.
    rewrite (find_crlf_join (hline kv) _ (hline_crlf kv Hk Hv)).
    destruct (Nat.eqb_spec (length (hline kv)) 0) as [E|_]; [exfalso; exact (hline_nonempty kv E)|].
    rewrite firstn_line, skipn_line, (ref_header_line_hline kv Hc).
    rewrite (IH f (kv :: acc) body HF') by lia. cbn [rev]. rewrite <- app_assoc. reflexivity.
Qed.

Lemma status_line_ok code msg : length (dec code) <= 21 ->
  ref_status_line (snprintf32 (s_HTTP11_SP ++ dec code ++ [SP]) ++ msg) = Some (code, msg).
Proof.
  intros Hl. unfold snprintf32. rewrite firstn_all2 by (rewrite !app_length; cbn [length s_HTTP11_SP]; lia).
  unfold ref_status_line. rewrite <- !app_assoc.
  change (firstn 9 (s_HTTP11_SP ++ dec code ++ [SP] ++ msg)) with
    (firstn (length s_HTTP11_SP) (s_HTTP11_SP ++ dec code ++ [SP] ++ msg)).
  rewrite firstn_app_exact, C18_CodecProofs.bytes_eqb_refl.
  change (skipn 9 (s_HTTP11_SP ++ dec code ++ [SP] ++ msg)) with
    (skipn (length s_HTTP11_SP) (s_HTTP11_SP ++ dec code ++ [SP] ++ msg)).
  rewrite skipn_app_exact. change ([SP] ++ msg) with (SP :: msg).
  rewrite (find_byte_app SP (dec code) msg (digits_no SP _ eq_refl (dec_digits code))).
  rewrite firstn_app_exact, skipn_len1_app, dec_digits, undec_dec.
  destruct (Nat.eqb_spec (length (dec code)) 0) as [E|_]; [|reflexivity].
  exfalso. apply (dec_nonempty code). destruct (dec code); [reflexivity|discriminate E].
Qed.

Lemma conn_close_line : s_conn_close ++ CRLF = header_line (s_Connection, s_close).
Proof. reflexivity. Qed.
Lemma conn_keep_line : s_conn_keep ++ CRLF = header_line (s_Connection, s_KeepAlive).
Proof. reflexivity. Qed.
Lemma content_length_line v : s_content_length ++ v ++ CRLF = header_line (s_ContentLength, v).
Proof.
  unfold header_line. cbn [fst snd].
  change s_content_length with (s_ContentLength ++ [COLON; SP]). rewrite <- !app_assoc. reflexivity.
Qed.

Theorem response_parses_back : forall r, wf_response r ->
  ref_parse_response (response_bytes r) =
    Some (mkPR (rs_code r) (rs_msg r) (implicit_headers r ++ rs_headers r) (rs_body r)).
Proof.
  intros r [Hcl Hbl Hmsg Hh Hncl].
  set (status := snprintf32 (s_HTTP11_SP ++ dec (rs_code r) ++ [SP]) ++ rs_msg r).
  assert (Hstat_lf : no LF status).
  { unfold status, snprintf32, no. rewrite firstn_all2 by (rewrite !app_length; cbn [length s_HTTP11_SP]; lia).
    intros Hin. apply in_app_or in Hin as [Hin|Hin]; [|exact (Hmsg Hin)].
    apply in_app_or in Hin as [Hin|Hin]; [cbn in Hin; repeat (destruct Hin as [Hin|Hin]; [discriminate Hin|]); exact Hin|].
    apply in_app_or in Hin as [Hin|Hin]; [exact (digits_no LF _ eq_refl (dec_digits _) Hin)|].
    cbn in Hin. destruct Hin as [Hin|[]]. discriminate Hin. }
  assert (Himp : Forall (fun kv => no COLON (fst kv) /\ no LF (fst kv) /\ no LF (snd kv)) (implicit_headers r)).
  { unfold implicit_headers. destruct (rs_close r); repeat constructor; cbn [fst snd];
      try (intros Hin; cbn in Hin; repeat (destruct Hin as [Hin|Hin]; [discriminate Hin|]); exact Hin).
    exact (digits_no LF _ eq_refl (dec_digits _)). }
  assert (Hbytes : response_bytes r =
    status ++ CRLF ++ (flat_map header_line (implicit_headers r ++ rs_headers r) ++ CRLF ++ rs_body r)).
  { unfold response_bytes, status, implicit_headers. rewrite flat_map_app, <- !app_assoc. f_equal. f_equal. f_equal.
    destruct (rs_close r); cbn [flat_map].
    - rewrite app_nil_r, <- conn_close_line, <- !app_assoc. reflexivity.
    - unfold snprintf32. rewrite firstn_all2
        by (rewrite !app_length; cbn [length s_content_length CRLF]; lia).
      rewrite app_nil_r, <- conn_keep_line, <- content_length_line, <- !app_assoc. reflexivity. }
  unfold ref_parse_response. rewrite Hbytes.
  rewrite (find_crlf_join status _ (no_lf_crlf_line _ Hstat_lf)).
  rewrite firstn_line, skipn_line. unfold status at 1. rewrite (status_line_ok _ _ Hcl).
  rewrite (ref_headers_lines (implicit_headers r ++ rs_headers r) _ [] (rs_body r)).
  - cbn [rev app]. unfold implicit_headers at 1.
    destruct (rs_close r) eqn:Ec; cbn [app lookup].
    + change (bytes_eqb s_ContentLength s_Connection) with false. cbn iota. rewrite Hncl.
      unfold implicit_headers. rewrite Ec. reflexivity.
    + rewrite C18_CodecProofs.bytes_eqb_refl, dec_digits, undec_dec, Nat.eqb_refl.
      destruct (Nat.eqb_spec (length (dec (length (rs_body r)))) 0) as [E|_].
      * exfalso. apply (dec_nonempty (length (rs_body r))).
        destruct (dec (length (rs_body r))); [reflexivity|discriminate E].
      * cbn [negb andb]. unfold implicit_headers. rewrite Ec. reflexivity.
  - apply Forall_app. split; assumption.
  - rewrite <- Hbytes.
    assert (length (implicit_headers r ++ rs_headers r) <= length (flat_map header_line (implicit_headers r ++ rs_headers r))).
    { generalize (implicit_headers r ++ rs_headers r). intros l. induction l as [|kv l IH]; [cbn; lia|].
      cbn [flat_map length]. rewrite app_length.
      assert (1 <= length (header_line kv)) by (unfold header_line, CRLF; rewrite !app_length; cbn [length]; lia).
      lia. }
    rewrite Hbytes, !app_length. rewrite app_length in H. cbn [length CRLF]. lia.
Qed.

(* ---- (3) header map: the last occurrence of a field wins, others are untouched ------------------ *)
Lemma lookup_map_set_same k v h : lookup k (map_set k v h) = Some v.
Proof.
  induction h as [|[k' v'] t IH]; cbn [map_set lookup].
  - rewrite C18_CodecProofs.bytes_eqb_refl. reflexivity.
  - destruct (bytes_eqb k k') eqn:E; cbn [lookup].
    + rewrite C18_CodecProofs.bytes_eqb_refl. reflexivity.
    + rewrite E. exact IH.
Qed.

Lemma lookup_map_set_other k k2 v h : k2 <> k -> lookup k2 (map_set k v h) = lookup k2 h.
Proof.
  intros Hne. induction h as [|[k' v'] t IH]; cbn [map_set lookup].
  - rewrite (C18_CodecProofs.bytes_eqb_neq k2 k Hne). reflexivity.
  - destruct (bytes_eqb k k') eqn:E; cbn [lookup].
    + apply C18_CodecProofs.bytes_eqb_eq in E. subst k'.
      rewrite (C18_CodecProofs.bytes_eqb_neq k2 k Hne). reflexivity.
    + destruct (bytes_eqb k2 k'); [reflexivity|exact IH].
Qed.

(* addHeader: field = bytes before the colon (not trimmed); value = rest, trimmed on both sides *)
Lemma drop_space_head l : match drop_space l with x :: _ => isspace x = false | [] => True end.
Proof.
  induction l as [|x t IH]; cbn [drop_space]; [exact I|].
  destruct (isspace x) eqn:E; [exact IH|exact E].
Qed.

Lemma drop_space_suffix l : exists p, l = p ++ drop_space l /\ forallb isspace p = true.
Proof.
  induction l as [|x t (p & E & Hp)]; [exists []; split; reflexivity|].
  cbn [drop_space]. destruct (isspace x) eqn:Ex.
  - exists (x :: p). cbn [app forallb]. rewrite Ex, Hp. split; [f_equal; exact E|reflexivity].
  - exists []. split; reflexivity.
Qed.

Theorem add_header_spec : forall r line colon,
  let field := firstn colon line in
  let raw := skipn (colon + 1) line in
  let value := trim_right (drop_space raw) in
  get_header (add_header r line colon) field = value /\
  (forall k, k <> field -> get_header (add_header r line colon) k = get_header r k) /\
  (exists p s, raw = p ++ value ++ s /\ forallb isspace p = true /\ forallb isspace s = true) /\
  match value with x :: _ => isspace x = false | [] => True end /\
  match rev value with x :: _ => isspace x = false | [] => True end.
Proof.
  intros r line colon field raw value. unfold get_header, add_header. cbn [q_headers].
  split; [rewrite lookup_map_set_same; reflexivity|].
  split; [intros k Hk; rewrite (lookup_map_set_other _ _ _ _ Hk); reflexivity|].
  destruct (drop_space_suffix raw) as (p & Ep & Hp).
  destruct (drop_space_suffix (rev (drop_space raw))) as (s & Es & Hs).
  assert (Hval : drop_space raw = value ++ rev s).
  { unfold value, trim_right. rewrite <- (rev_involutive (drop_space raw)) at 1.
    rewrite Es at 1. rewrite rev_app_distr. reflexivity. }
  split; [|split].
  - exists p, (rev s). split; [rewrite Ep at 1; rewrite Hval; reflexivity|].
    split; [exact Hp|]. rewrite forallb_forall in *. intros x Hx. apply Hs. apply in_rev. exact Hx.
  - pose proof (drop_space_head raw) as Hh. rewrite Hval in Hh.
    destruct value as [|x t]; [exact I|exact Hh].
  - unfold value, trim_right. rewrite rev_involutive. apply drop_space_head.
Qed.

(* ---- (2) HttpServer::onMessage against the ideal decoder ----------------------------------------- *)
Definition hreqs (es : list hevent) : list request :=
  flat_map (fun e => match e with HReq r => [r] | HBad => [] end) es.

Lemma hreqs_app a b : hreqs (a ++ b) = hreqs a ++ hreqs b.
Proof. unfold hreqs. apply flat_map_app. Qed.

Lemma requests_of_app a b : requests_of (a ++ b) = requests_of a ++ requests_of b.
Proof. unfold requests_of. apply flat_map_app. Qed.

(* a failing parseRequest fails on its very first line and changes nothing *)
Lemma parseRequest_false : forall fuel c b c' b', live c ->
  parseRequest fuel c b = PRDone false c' b' -> c' = c /\ b' = b.
Proof.
  induction fuel as [|f IH]; intros c b c' b' Hc H; [discriminate H|].
  destruct c as [st rq]. destruct Hc as [Hc|Hc]; cbn [h_state] in Hc; subst st;
    cbn [parseRequest h_state h_req] in H;
    (destruct (find_crlf b) as [i|] eqn:Ef; [|discriminate H]).
  - destruct (processRequestLine (firstn i b) rq) as [r|].
    + exfalso. revert H. generalize (skipn (i + 2) b). generalize r. clear.
      induction f as [|f IH]; intros r b H; [discriminate H|].
      cbn [parseRequest h_state h_req] in H.
      destruct (find_crlf b) as [j|]; [|discriminate H].
      destruct (find_byte COLON (firstn j b)); [|discriminate H]. exact (IH _ _ H).
    + injection H as <- <-. split; reflexivity.
  - exfalso. revert H. generalize b at 1 2 3. intros b0 H.
    assert (Hgen : forall f r b1, parseRequest f (mkCtx kExpectHeaders r) b1 <> PRDone false c' b').
    { clear. induction f as [|f IH]; intros r b1 H; [discriminate H|].
      cbn [parseRequest h_state h_req] in H.
      destruct (find_crlf b1) as [j|]; [|discriminate H].
      destruct (find_byte COLON (firstn j b1)); [|discriminate H]. exact (IH _ _ H). }
    destruct (find_byte COLON (firstn i b0)); [|discriminate H]. exact (Hgen _ _ _ H).
Qed.

Section ServerProofs.
  Variable callback : request -> bool -> response.
  Notation onMsg := (srv_onMessage callback).
  Notation deliverS := (srv_deliver callback).
  Notation deliver_allS := (srv_deliver_all callback).

  Notation hrun := (C18_Model.run hstep).

  (* the ideal loop from the server's state *)
  Definition drain (c : sconn) : list hevent * dstate hctx := hrun (S (length (s_buf c))) (s_ctx c) (s_buf c).

  (* one onMessage: the requests it hands over are the head of what the ideal loop would find,
     the ideal loop from the new state finds the rest and ends in the same state *)
  Lemma onMessage_drain c : live (s_ctx c) ->
    let '(evs, c') := onMsg c in
    live (s_ctx c') /\
    hreqs (fst (drain c)) = requests_of evs ++ hreqs (fst (drain c')) /\
    snd (drain c) = snd (drain c') /\
    ~ In SOof evs /\
    (* the assertion can only fire after a request line was rejected *)
    (s_dirty c' = true -> d_abandoned (snd (drain c')) = true \/ s_dirty c = true) /\
    (In SAssert evs -> s_dirty c = true).
  Proof.
    intros Hc. unfold srv_onMessage.
    destruct (s_aborted c) eqn:Eab.
    { cbn [requests_of flat_map app].
      split; [exact Hc|]. split; [reflexivity|]. split; [reflexivity|]. split; [intros []|].
      split; [intros H; right; exact H|intros []]. }
    destruct (s_dirty c && is_reqline_state (s_ctx c) && reaches_setMethod (s_buf c)) eqn:Eas.
    { cbn [requests_of flat_map app s_ctx s_buf s_dirty]. unfold drain. cbn [s_ctx s_buf].
      apply andb_true_iff in Eas as [Eas _]. apply andb_true_iff in Eas as [Ed _].
      split; [exact Hc|]. split; [reflexivity|]. split; [reflexivity|].
      split; [intros [H|[]]; discriminate H|].
      split; [intros _; right; exact Ed|intros _; exact Ed]. }
    unfold drain.
    pose proof (parseRequest_run (S (length (s_buf c))) (s_ctx c) (s_buf c)
                  (S (length (s_buf c))) (length (s_buf c)) Hc ltac:(lia) ltac:(lia) ltac:(lia)) as HR.
    pose proof (parseRequest_no_fuel (S (length (s_buf c))) (s_ctx c) (s_buf c) Hc ltac:(lia)) as Hnf.
    destruct (parseRequest (S (length (s_buf c))) (s_ctx c) (s_buf c)) as [|ok ctx' b'] eqn:Ep; [congruence|].
    pose proof (parseRequest_len _ _ _ _ _ _ Hc Ep) as [Hle Hlt].
    rewrite HR. cbn [pr_to_run]. destruct ok.
    - destruct (gotAll ctx') eqn:Eg.
      + (* a request completed: handed over, context reset *)
        specialize (Hlt eq_refl).
        cbn [app s_ctx s_buf s_dirty]. split; [apply live_ctx0|].
        assert (Hb : forall c2 : sconn, s_buf (if rs_close (callback (h_req ctx') (wants_close (h_req ctx')))
                                          then do_shutdown c2 else c2) = s_buf c2).
        { intros c2. destruct (rs_close _); [unfold do_shutdown; destruct (s_connected c2)|]; reflexivity. }
        rewrite Hb. cbn [s_buf].
        rewrite (run_fuel hctx hevent hstep hstep_shrinks (length (s_buf c)) (S (length b')) ctx0 b') by lia.
        destruct (hrun (S (length b')) ctx0 b') as [e d]. cbn [fst snd requests_of flat_map app hreqs].
        split; [|split; [reflexivity|split; [|split]]].
        * unfold do_send. cbn [s_connected]. destruct (s_connected c); reflexivity.
        * intros Hin. cbn in Hin. destruct Hin as [Hin|[Hin|[]]]; [discriminate Hin|].
          unfold do_send in Hin. destruct (s_connected _); discriminate Hin.
        * intros H. discriminate H.
        * intros Hin. cbn in Hin. destruct Hin as [Hin|[Hin|[]]]; [discriminate Hin|].
          unfold do_send in Hin. destruct (s_connected _); discriminate Hin.
      + (* need more bytes: nothing to hand over, the state is settled *)
        cbn [app s_ctx s_buf fst snd s_dirty].
        assert (Hl' : live ctx').
        { pose proof (run_live (S (length (s_buf c))) (s_ctx c) (s_buf c) Hc) as HL.
          rewrite HR in HL. cbn [pr_to_run] in HL. rewrite Eg in HL. exact HL. }
        split; [exact Hl'|].
        pose proof (run_settled hctx hevent hstep hstep_shrinks (S (length (s_buf c))) (s_ctx c) (s_buf c) ltac:(lia)) as HS.
        rewrite HR in HS. cbn [pr_to_run] in HS. rewrite Eg in HS. cbn [snd] in HS.
        destruct HS as [_ [HS|HS]]; [discriminate HS|]. cbn [d_st d_buf] in HS.
        rewrite run_S, HS. cbn [fst snd hreqs flat_map requests_of app d_st d_buf].
        split; [reflexivity|]. split; [reflexivity|]. split; [intros []|].
        split; [intros H; right; exact H|intros []].
    - (* bad request line: 400, shutdown; nothing consumed, the same line is still there *)
      destruct (parseRequest_false _ _ _ _ _ Hc Ep) as [-> ->].
      assert (Eg : gotAll (s_ctx c) = false).
      { destruct Hc as [H|H]; unfold gotAll; rewrite H; reflexivity. }
      rewrite Eg. cbn [app].
      set (c1 := mkS (s_ctx c) (s_buf c) (s_connected c) (s_shutdowns c) (s_dirty c || sets_method (s_buf c)) false).
      assert (Hsame : s_ctx (do_shutdown c1) = s_ctx c /\ s_buf (do_shutdown c1) = s_buf c).
      { unfold do_shutdown, c1. destruct (s_connected c); split; reflexivity. }
      destruct Hsame as [E1 E2]. rewrite E1, E2. split; [exact Hc|].
      rewrite HR. cbn [pr_to_run fst snd hreqs flat_map requests_of app d_abandoned].
      split; [|split; [reflexivity|split; [|split]]].
      + unfold do_send, c1. cbn [s_connected]. destruct (s_connected c); reflexivity.
      + intros Hin. cbn in Hin. destruct Hin as [Hin|[]]. unfold do_send in Hin.
        destruct (s_connected _); discriminate Hin.
      + intros _. left. reflexivity.
      + intros Hin. cbn in Hin. destruct Hin as [Hin|[]]. unfold do_send in Hin.
        destruct (s_connected _); discriminate Hin.
  Qed.

  (* appending a chunk to the server's buffer = feeding it to the ideal decoder that sits in
     the drained state *)
  Lemma drain_append c chunk : live (s_ctx c) ->
    let c1 := mkS (s_ctx c) (s_buf c ++ chunk) (s_connected c) (s_shutdowns c) (s_dirty c) (s_aborted c) in
    let '(e1, d1) := drain c in
    let '(e2, d2) := feed hstep d1 chunk in
    hreqs (fst (drain c1)) = hreqs e1 ++ hreqs e2 /\ snd (drain c1) = d2.
  Proof.
    intros Hc. cbv zeta. unfold drain. cbn [s_ctx s_buf].
    rewrite (run_fuel hctx hevent hstep hstep_shrinks (S (length (s_buf c ++ chunk)))
               (S (length (s_buf c)) + length chunk) (s_ctx c) (s_buf c ++ chunk))
      by (rewrite app_length; lia).
    rewrite (run_app hctx hevent hstep hstep_shrinks hstep_emit_mono hstep_stop_mono
               (S (length (s_buf c))) (s_ctx c) (s_buf c) chunk) by lia.
    pose proof (run_no_oof hctx hevent hstep hstep_shrinks (S (length (s_buf c))) (s_ctx c) (s_buf c) ltac:(lia)) as Ho.
    pose proof (run_buf_le hctx hevent hstep hstep_shrinks (S (length (s_buf c))) (s_ctx c) (s_buf c)) as Hle.
    destruct (hrun (S (length (s_buf c))) (s_ctx c) (s_buf c)) as [e1 d1]. cbn [snd] in Ho, Hle.
    unfold feed. rewrite Ho. destruct (d_abandoned d1); cbn [orb fst snd d_st d_buf].
    - cbn [hreqs flat_map]. rewrite app_nil_r. destruct d1; cbn in *; subst; repeat split; reflexivity.
    - rewrite (run_fuel hctx hevent hstep hstep_shrinks (S (length (s_buf c)) + length chunk)
                 (S (length (d_buf d1 ++ chunk))) (d_st d1) (d_buf d1 ++ chunk))
        by (rewrite app_length; lia).
      destruct (hrun (S (length (d_buf d1 ++ chunk))) (d_st d1) (d_buf d1 ++ chunk)) as [e2 d2].
      cbn [fst snd]. rewrite hreqs_app. repeat split; reflexivity.
  Qed.

  Lemma feed_keeps_abandoned d ch : d_abandoned d = true -> d_abandoned (snd (feed hstep d ch)) = true.
  Proof. intros H. unfold feed. rewrite H. reflexivity. Qed.

  Lemma feed_all_keeps_abandoned : forall cs d, d_abandoned d = true ->
    d_abandoned (snd (feed_all hstep d cs)) = true.
  Proof.
    induction cs as [|ch cs IH]; intros d H; cbn [feed_all]; [exact H|].
    pose proof (feed_keeps_abandoned d ch H) as H1.
    destruct (feed hstep d ch) as [e1 d1]. cbn [snd] in H1. specialize (IH d1 H1).
    destruct (feed_all hstep d1 cs) as [e2 d2]. exact IH.
  Qed.

  (* all deliveries *)
  Lemma deliver_all_drain : forall chunks c d, live (s_ctx c) -> snd (drain c) = d ->
    (s_dirty c = true -> d_abandoned d = true) ->
    let '(ess, c') := deliver_allS c chunks in
    let '(ei, di) := feed_all hstep d chunks in
    live (s_ctx c') /\
    hreqs (fst (drain c)) ++ hreqs ei = requests_of (concat ess) ++ hreqs (fst (drain c')) /\
    snd (drain c') = di /\ ~ In SOof (concat ess) /\
    (In SAssert (concat ess) -> d_abandoned di = true).
  Proof.
    induction chunks as [|ch cs IH]; intros c d Hc Hd Hdirty; cbn [srv_deliver_all feed_all].
    - cbn [concat requests_of flat_map app]. rewrite app_nil_r.
      split; [exact Hc|]. split; [reflexivity|]. split; [exact Hd|]. split; intros [].
    - unfold srv_deliver.
      set (c1 := mkS (s_ctx c) (s_buf c ++ ch) (s_connected c) (s_shutdowns c) (s_dirty c) (s_aborted c)).
      pose proof (drain_append c ch Hc) as HA. cbv zeta in HA. fold c1 in HA.
      pose proof (feed_keeps_abandoned d ch) as HK.
      destruct (drain c) as [e0 d0] eqn:ED. cbn [snd fst] in *. subst d0.
      destruct (feed hstep d ch) as [e2 d2]. destruct HA as [HA1 HA2]. cbn [snd] in HK.
      pose proof (onMessage_drain c1 Hc) as HM.
      destruct (onMsg c1) as [evs c2]. destruct HM as (Hc2 & HM1 & HM2 & HM3 & HM4 & HM5).
      assert (Hd1 : s_dirty c1 = true -> d_abandoned d2 = true).
      { intros H. apply HK. apply Hdirty. exact H. }
      assert (Hd2 : s_dirty c2 = true -> d_abandoned d2 = true).
      { intros H. destruct (HM4 H) as [H'|H']; [rewrite <- HM2, HA2 in H'; exact H'|exact (Hd1 H')]. }
      specialize (IH c2 d2 Hc2 ltac:(rewrite <- HM2; exact HA2) Hd2).
      destruct (deliver_allS c2 cs) as [ess c3].
      pose proof (feed_all_keeps_abandoned cs d2) as HKA.
      destruct (feed_all hstep d2 cs) as [e3 d3]. cbn [snd] in HKA.
      destruct IH as (Hc3 & IH1 & IH2 & IH3 & IH4).
      split; [exact Hc3|]. split; [|split; [exact IH2|split]].
      + cbn [concat]. rewrite hreqs_app, requests_of_app.
        rewrite app_assoc, <- HA1, HM1, <- !app_assoc, IH1. reflexivity.
      + cbn [concat]. intros Hin. apply in_app_or in Hin as [Hin|Hin]; [exact (HM3 Hin)|exact (IH3 Hin)].
      + cbn [concat]. intros Hin. apply in_app_or in Hin as [Hin|Hin]; [|exact (IH4 Hin)].
        apply HKA. apply Hd1. exact (HM5 Hin).
  Qed.
End ServerProofs.

(* HttpServer::onMessage handles ONE request per delivery: the requests it has handed to the
   callback after any sequence of deliveries are a prefix of the requests in the delivered bytes
   (the ideal, segmentation-invariant decoder [http_feed_all]); the missing ones are exactly those
   the ideal loop still finds in the server's buffer, and the ideal decoder run from the server's
   state ends in the ideal decoder's state.  The server's loop never runs out of fuel. *)
Theorem server_requests_prefix :
  forall (callback : request -> bool -> response) (chunks : list (list byte)),
    let '(ess, c) := srv_deliver_all callback sconn0 chunks in
    let '(ei, di) := http_feed_all http_init chunks in
    hreqs ei = requests_of (concat ess) ++ hreqs (fst (drain c)) /\
    snd (drain c) = di /\ ~ In SOof (concat ess) /\
    (In SAssert (concat ess) -> d_abandoned di = true).
Proof.
  intros callback chunks.
  pose proof (deliver_all_drain callback chunks sconn0 http_init live_ctx0 eq_refl ltac:(intros H; discriminate H)) as H.
  rewrite (http_feed_all_eq chunks http_init live_ctx0).
  destruct (srv_deliver_all callback sconn0 chunks) as [ess c].
  destruct (feed_all hstep http_init chunks) as [ei di].
  destruct H as (_ & H1 & H2 & H3 & H4). cbn [drain sconn0 s_buf s_ctx length] in H1.
  change (fst (C18_Model.run hstep 1 ctx0 [])) with (@nil hevent) in H1. cbn [hreqs flat_map app] in H1.
  repeat split; assumption.
Qed.

(* ... and that is all that can be said: the server is NOT segmentation invariant.  Two complete
   requests in one delivery: one is answered, the other waits for the next delivery; the same
   bytes in two deliveries: both are answered. *)
Definition ex_req : list byte :=
  [x47; x45; x54; x20; x2f; x20; x48; x54; x54; x50; x2f; x31; x2e; x31; x0d; x0a; x0d; x0a].  (* "GET / HTTP/1.1\r\n\r\n" *)
Definition ex_callback (r : request) (close : bool) : response := mkResp 200 [x4f; x4b] close [] (q_path r).

Theorem server_pipelining_refuted :
  exists (c1 c2 : list (list byte)), concat c1 = concat c2 /\
    length (requests_of (concat (fst (srv_deliver_all ex_callback sconn0 c1)))) = 1 /\
    length (requests_of (concat (fst (srv_deliver_all ex_callback sconn0 c2)))) = 2 /\
    length (hreqs (fst (http_feed_all http_init c1))) = 2.
Proof. exists [ex_req ++ ex_req], [ex_req; ex_req]. vm_compute. repeat split. Qed.


(* the assertion does fire: a rejected request line with a valid method, then any byte *)
Definition ex_bad_version : list byte :=
  [x47; x45; x54; x20; x2f; x20; x48; x54; x54; x50; x2f; x31; x2e; x32; x0d; x0a].   (* "GET / HTTP/1.2\r\n" *)

Theorem server_assert_refuted :
  exists chunks, In SAssert (concat (fst (srv_deliver_all ex_callback sconn0 chunks))) /\
                 length chunks = 2.
Proof. exists [ex_bad_version; [x78]]. vm_compute. split; [right; left; reflexivity|reflexivity]. Qed.
