(* C18_StreamProofs: segmentation invariance of the generic chunk-fed decode loop
   (C18_Model.run/feed/feed_all) for every step function that is
     - progressing: an emitting step strictly shrinks the buffer,
     - prefix-determined: what a step emits / the error it reports on a buffer is what it
       emits / reports on every extension of that buffer (it only waits for *more* bytes). *)
From Coq Require Import List ZArith Lia Bool Arith NArith.
From Coq.Strings Require Import Byte.
From Muduo Require Import Base_Bytes C18_Model.
Import ListNotations.

Section StreamProofs.
  Variables (St Ev : Type).
  Variable step : St -> list byte -> sres St Ev.

  Hypothesis step_shrinks : forall s b evs s' r,
    step s b = SEmit evs s' r -> length r < length b.
  Hypothesis step_emit_mono : forall s b evs s' r c,
    step s b = SEmit evs s' r -> step s (b ++ c) = SEmit evs s' (r ++ c).
  Hypothesis step_stop_mono : forall s b evs c,
    step s b = SStop evs -> step s (b ++ c) = SStop evs.

  Notation run := (run step).
  Notation feed := (feed step).
  Notation feed_all := (feed_all step).

  Lemma run_buf_le : forall fuel s b, length (d_buf (snd (run fuel s b))) <= length b.
  Proof.
    induction fuel as [|f IH]; intros s b; cbn [C18_Model.run]; [cbn; lia|].
    destruct (step s b) as [|evs s' r|evs] eqn:E; cbn [snd d_buf]; try lia.
    specialize (IH s' r). destruct (C18_Model.run step f s' r) as [e2 d]. cbn [snd] in *.
    apply step_shrinks in E. lia.
  Qed.

  (* enough fuel: the result does not depend on the fuel and the loop terminated *)
  Lemma run_fuel : forall f1 f2 s b, length b < f1 -> length b < f2 -> run f1 s b = run f2 s b.
  Proof.
    induction f1 as [|f1 IH]; intros f2 s b H1 H2; [lia|].
    destruct f2 as [|f2]; [lia|]. cbn [C18_Model.run].
    destruct (step s b) as [|evs s' r|evs] eqn:E; try reflexivity.
    apply step_shrinks in E. rewrite (IH f2 s' r) by lia. reflexivity.
  Qed.

  Lemma run_no_oof : forall fuel s b, length b < fuel -> d_oof (snd (run fuel s b)) = false.
  Proof.
    induction fuel as [|f IH]; intros s b H; [lia|]. cbn [C18_Model.run].
    destruct (step s b) as [|evs s' r|evs] eqn:E; try reflexivity.
    apply step_shrinks in E. specialize (IH s' r ltac:(lia)).
    destruct (C18_Model.run step f s' r) as [e2 d]. exact IH.
  Qed.

  (* a state in which the decode loop has nothing to do *)
  Definition settled (d : dstate St) : Prop :=
    d_oof d = false /\ (d_abandoned d = true \/ step (d_st d) (d_buf d) = SWait).

  Lemma run_settled : forall fuel s b, length b < fuel -> settled (snd (run fuel s b)).
  Proof.
    induction fuel as [|f IH]; intros s b H; [lia|]. cbn [C18_Model.run].
    destruct (step s b) as [|evs s' r|evs] eqn:E.
    - split; [reflexivity|right; exact E].
    - apply step_shrinks in E. specialize (IH s' r ltac:(lia)).
      destruct (C18_Model.run step f s' r) as [e2 d]. exact IH.
    - split; [reflexivity|left; reflexivity].
  Qed.

  Lemma run_S : forall f s b, run (S f) s b =
    match step s b with
    | SWait => ([], mkD s b false false)
    | SEmit evs s' r => let (e2, d) := run f s' r in (evs ++ e2, d)
    | SStop evs => (evs, mkD s b true false)
    end.
  Proof. reflexivity. Qed.

  (* decoding b ++ c = decoding b, then (unless abandoned) going on with the rest ++ c *)
  Lemma run_app : forall fuel s b c, length b < fuel ->
    run (fuel + length c) s (b ++ c) =
    let (e1, d1) := run fuel s b in
    if d_abandoned d1 then (e1, mkD (d_st d1) (d_buf d1 ++ c) true false)
    else let (e2, d2) := run (fuel + length c) (d_st d1) (d_buf d1 ++ c) in (e1 ++ e2, d2).
  Proof.
    induction fuel as [|f IH]; intros s b c H; [lia|].
    replace (S f + length c) with (S (f + length c)) by lia.
    rewrite (run_S f s b).
    destruct (step s b) as [|evs s' r|evs] eqn:E.
    - cbn [d_abandoned d_st d_buf].
      destruct (C18_Model.run step (S (f + length c)) s (b ++ c)) as [e2 d2]. reflexivity.
    - rewrite (run_S (f + length c) s (b ++ c)).
      rewrite (step_emit_mono _ _ _ _ _ c E).
      pose proof (step_shrinks _ _ _ _ _ E) as Hr.
      rewrite (IH s' r c) by lia.
      pose proof (run_buf_le f s' r) as Hle.
      destruct (C18_Model.run step f s' r) as [e1 d1]. cbn [snd] in Hle.
      destruct (d_abandoned d1); [reflexivity|].
      rewrite (run_fuel (f + length c) (S (f + length c)) (d_st d1) (d_buf d1 ++ c))
        by (rewrite app_length; lia).
      destruct (C18_Model.run step (S (f + length c)) (d_st d1) (d_buf d1 ++ c)) as [e2 d2].
      rewrite app_assoc. reflexivity.
    - rewrite (run_S (f + length c) s (b ++ c)).
      rewrite (step_stop_mono _ _ _ c E). cbn [d_abandoned d_st d_buf]. reflexivity.
  Qed.

  Lemma feed_all_abandoned : forall chunks s b o,
    feed_all (mkD s b true o) chunks = ([], mkD s (b ++ concat chunks) true o).
  Proof.
    induction chunks as [|c cs IH]; intros s b o; cbn [C18_Model.feed_all concat].
    - rewrite app_nil_r. reflexivity.
    - unfold C18_Model.feed. cbn [d_abandoned d_oof d_st d_buf orb].
      rewrite IH, app_assoc. reflexivity.
  Qed.

  Lemma feed_settled : forall d c, settled d -> settled (snd (feed d c)).
  Proof.
    intros d c [Ho Hs]. unfold C18_Model.feed. rewrite Ho.
    destruct (d_abandoned d) eqn:Ea; cbn [orb].
    - split; [reflexivity|left; reflexivity].
    - apply run_settled. lia.
  Qed.

  (* THE generic theorem: feeding chunk by chunk = feeding the concatenation at once;
     the whole result is equal: events, parser state, unconsumed bytes, abandoned flag *)
  Theorem feed_all_concat : forall chunks d, settled d ->
    feed_all d chunks = feed d (concat chunks).
  Proof.
    induction chunks as [|c cs IH]; intros d Hd.
    - cbn [C18_Model.feed_all concat]. destruct Hd as [Ho Hs]. unfold C18_Model.feed.
      destruct d as [s b a o]. cbn [d_abandoned d_oof d_st d_buf] in *. subst o.
      rewrite app_nil_r. destruct a; cbn [orb]; [reflexivity|].
      destruct Hs as [Hs|Hs]; [discriminate|]. cbn [C18_Model.run]. rewrite Hs. reflexivity.
    - cbn [C18_Model.feed_all concat].
      pose proof (feed_settled d c Hd) as Hd1.
      destruct (C18_Model.feed step d c) as [e1 d1] eqn:F1. cbn [snd] in Hd1.
      rewrite (IH d1 Hd1).
      destruct Hd as [Ho Hs]. unfold C18_Model.feed in *.
      rewrite Ho in *. destruct (d_abandoned d) eqn:Ea; cbn [orb] in *.
      + inversion F1; subst e1 d1. cbn [d_abandoned d_oof d_st d_buf orb app].
        rewrite <- app_assoc. reflexivity.
      + set (b := d_buf d ++ c) in *.
        replace (d_buf d ++ c ++ concat cs) with (b ++ concat cs)
          by (unfold b; rewrite app_assoc; reflexivity).
        rewrite (run_fuel (S (length (b ++ concat cs))) (S (length b) + length (concat cs))
                   (d_st d) (b ++ concat cs)) by (rewrite app_length; lia).
        rewrite (run_app (S (length b)) (d_st d) b (concat cs)) by lia.
        rewrite F1.
        pose proof (run_no_oof (S (length b)) (d_st d) b ltac:(lia)) as Hoof.
        pose proof (run_buf_le (S (length b)) (d_st d) b) as Hle.
        rewrite F1 in Hoof, Hle. cbn [snd] in Hoof, Hle. rewrite Hoof.
        destruct (d_abandoned d1) eqn:Ea1; cbn [orb].
        * rewrite app_nil_r. reflexivity.
        * rewrite (run_fuel (S (length b) + length (concat cs))
                     (S (length (d_buf d1 ++ concat cs))) (d_st d1) (d_buf d1 ++ concat cs))
            by (rewrite app_length; lia).
          reflexivity.
  Qed.

  Lemma init_settled : forall s0, step s0 [] = SWait -> settled (init s0).
  Proof. intros s0 H. split; [reflexivity|right; exact H]. Qed.

  (* decoding from a settled, live state with enough fuel = feed *)
  Lemma feed_run : forall d c, d_abandoned d = false -> d_oof d = false ->
    feed d c = run (S (length (d_buf d ++ c))) (d_st d) (d_buf d ++ c).
  Proof. intros d c Ha Ho. unfold C18_Model.feed. rewrite Ha, Ho. reflexivity. Qed.

  Lemma feed_all_no_oof : forall chunks d, d_oof d = false ->
    d_oof (snd (feed_all d chunks)) = false.
  Proof.
    induction chunks as [|c cs IH]; intros d Ho; cbn [C18_Model.feed_all]; [exact Ho|].
    assert (H1 : d_oof (snd (feed d c)) = false).
    { unfold C18_Model.feed. rewrite Ho. destruct (d_abandoned d); cbn [orb snd d_oof].
      - reflexivity.
      - apply run_no_oof. lia. }
    destruct (C18_Model.feed step d c) as [e1 d1]. cbn [snd] in H1.
    specialize (IH d1 H1). destruct (C18_Model.feed_all step d1 cs) as [e2 d2]. exact IH.
  Qed.
End StreamProofs.
