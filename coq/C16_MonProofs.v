(* C16_MonProofs: N threads on one thread-safe LogFile - exactly once, in order (generic monitor library Conc). *)
From Coq Require Import List ZArith Bool Arith Lia.
From Muduo Require Import Gen_C16 C16_Model C16_Proofs C16_MonModel Conc_Model Conc_Proofs.
Import ListNotations.
Local Open Scope Z_scope.

Section LfMonProofs.
  Variable A : Type.
  Variable c : cfg.
  Notation body := (lf_body A c).
  Notation msys := (lfsys A).
  Notation mstep := (Conc_Model.step body).
  Notation mreach := (Conc_Model.reach body).

  (* a sequential execution of the monitor's calls IS a run of the sequential LogFile model *)
  Lemma seq_exec_run s0 h s : seq_exec body s0 h s -> s = lf_run c s0 (ops_of A h).
  Proof.
    induction 1 as [|h s1 t o r s2 sg H IH Hb]; [reflexivity|].
    unfold lf_body in Hb. inversion Hb; subst.
    unfold ops_of, lf_run. rewrite map_app, fold_left_app. cbn [map fold_left fst snd]. reflexivity.
  Qed.

  Lemma map_upd {X Y} (f : X -> Y) n x l : map f (upd n x l) = upd n (f x) (map f l).
  Proof. revert n; induction l as [|h l IH]; intros [|n]; cbn [upd map]; try reflexivity. rewrite IH. reflexivity. Qed.

  Lemma nth_upd_eq {X} (l : list X) n x d : (n < length l)%nat -> nth n (upd n x l) d = x.
  Proof. revert n; induction l as [|h l IH]; intros [|n] Hn; cbn [length] in Hn; try lia; cbn [upd nth]; [reflexivity|apply IH; lia]. Qed.

  Lemma nth_upd_neq {X} (l : list X) n m x d : n <> m -> nth m (upd n x l) d = nth m l d.
  Proof. revert n m; induction l as [|h l IH]; intros [|n] [|m] Hn; cbn [upd nth]; try reflexivity; try congruence. apply IH. congruence. Qed.

  Lemma upd_same_prog (ths : list (thread (lfop A))) t th s' :
    nth_error ths t = Some th -> map prog (upd t (mkThread (prog th) s') ths) = map prog ths.
  Proof.
    intros H. rewrite map_upd. cbn [prog]. apply upd_same. rewrite nth_error_map, H. reflexivity.
  Qed.

  (* per-thread order: what t has completed, followed by what it still has to call, is its program *)
  Definition order_inv (progs : list (list (lfop A))) (s : msys) : Prop :=
    forall t, calls_of A t (hist s) ++ nth t (map prog (threads s)) [] = nth t progs [].

  Lemma calls_snoc t t' o r (h : list (nat * lfop A * unit)) :
    calls_of A t' (h ++ [(t, o, r)]) = calls_of A t' h ++ (if Nat.eqb t t' then [o] else []).
  Proof.
    unfold calls_of. rewrite filter_app, map_app. cbn [filter fst snd]. destruct (Nat.eqb t t'); reflexivity.
  Qed.

  Lemma order_step progs s l s' : order_inv progs s -> mstep s l = Some s' -> order_inv progs s'.
  Proof.
    intros HI H. destruct l as [t|t picks|t|t]; cbn [Conc_Model.step] in H.
    - destruct (nth_error (threads s) t) as [th|] eqn:En; [|discriminate].
      destruct (owner s); [discriminate|]. destruct (st th); try discriminate.
      destruct (prog th) eqn:Ep; [discriminate|]. inversion H; subst s'; clear H.
      intros t'. cbn [hist threads]. rewrite <- Ep, (upd_same_prog _ _ _ _ En). apply HI.
    - destruct (nth_error (threads s) t) as [th|] eqn:En; [|discriminate].
      destruct (st th); try discriminate. destruct (prog th) as [|o rest] eqn:Ep; [discriminate|].
      unfold lf_body in H. inversion H; subst s'; clear H.
      intros t'. cbn [hist threads apply_signals]. rewrite calls_snoc, map_upd. cbn [prog].
      assert (Hlt : (t < length (map prog (threads s)))%nat).
      { rewrite map_length. apply nth_error_Some. congruence. }
      assert (Hn : nth t (map prog (threads s)) [] = o :: rest).
      { erewrite nth_error_nth; [reflexivity|]. rewrite nth_error_map, En. cbn. rewrite Ep. reflexivity. }
      destruct (Nat.eqb_spec t t') as [<-|NE].
      + rewrite nth_upd_eq by exact Hlt. rewrite <- (HI t), Hn, <- app_assoc. reflexivity.
      + rewrite app_nil_r, nth_upd_neq by exact NE. apply HI.
    - destruct (nth_error (threads s) t) as [th|] eqn:En; [|discriminate].
      destruct (st th); try discriminate. inversion H; subst s'; clear H.
      intros t'. cbn [hist threads]. unfold signalled_of. rewrite (upd_same_prog _ _ _ _ En). apply HI.
    - destruct (nth_error (threads s) t) as [th|] eqn:En; [|discriminate].
      destruct (owner s); [discriminate|]. destruct (st th); try discriminate. inversion H; subst s'; clear H.
      intros t'. cbn [hist threads]. rewrite (upd_same_prog _ _ _ _ En). apply HI.
  Qed.

  Lemma order_init now progs : order_inv progs (lfm_init A now progs).
  Proof.
    intros t. unfold lfm_init, init_sys, calls_of. cbn [hist threads filter map app].
    rewrite map_map. cbn [prog]. rewrite map_id. reflexivity.
  Qed.

  (* nobody ever waits: a thread is outside, or inside its one critical section *)
  Definition no_waiter (s : msys) : Prop := Forall (fun th => st th = Idle \/ st th = InCS) (threads s).

  Lemma no_waiter_step s l s' : no_waiter s -> mstep s l = Some s' -> no_waiter s'.
  Proof.
    intros HI H. destruct l as [t|t picks|t|t]; cbn [Conc_Model.step] in H.
    - destruct (nth_error (threads s) t) as [th|] eqn:En; [|discriminate].
      destruct (owner s); [discriminate|]. destruct (st th); try discriminate.
      destruct (prog th); [discriminate|]. inversion H; subst s'; clear H.
      unfold no_waiter. cbn [threads]. apply Forall_upd; [exact HI|right; reflexivity].
    - destruct (nth_error (threads s) t) as [th|] eqn:En; [|discriminate].
      destruct (st th); try discriminate. destruct (prog th) as [|o rest]; [discriminate|].
      unfold lf_body in H. inversion H; subst s'; clear H.
      unfold no_waiter. cbn [threads apply_signals]. apply Forall_upd; [exact HI|left; reflexivity].
    - destruct (nth_error (threads s) t) as [th|] eqn:En; [|discriminate].
      pose proof (Forall_nth_error _ _ _ _ HI En) as [E|E]; rewrite E in H; discriminate.
    - destruct (nth_error (threads s) t) as [th|] eqn:En; [|discriminate].
      destruct (owner s); [discriminate|].
      pose proof (Forall_nth_error _ _ _ _ HI En) as [E|E]; rewrite E in H; discriminate.
  Qed.

  (* N threads (any N), any programs (records, clock values, short-write patterns are part of the calls), any
     schedule.  In every reachable state:
     - the shared LogFile is the SEQUENTIAL model run on the completed calls in the order of their critical
       sections, so every sequential theorem applies to it: the files in creation order consist of whole chunks
       in that order (exactly once, never split);
     - that order restricted to one thread is the thread's program order;
     - the mutex is held by at most one thread, which is inside its section (wf), and nobody is ever waiting *)
  Theorem logfile_threadsafe now (progs : list (list (lfop A))) (s : msys) :
    0 < now -> mreach (lfm_init A now progs) s ->
    shared s = lf_run c (lf_new now) (ops_of A (hist s)) /\
    (forall t, calls_of A t (hist s) ++ nth t (map prog (threads s)) [] = nth t progs []) /\
    (exists groups : list (list (list A)),
       Forall2 (fun f g => snd f = concat g) (files_in_order (shared s)) groups /\
       concat groups = flat_map (chunk_of A) (ops_of A (hist s)) /\
       concat (map snd (files_in_order (shared s))) = concat (flat_map (chunk_of A) (ops_of A (hist s)))) /\
    wf _ _ _ s /\ no_waiter s.
  Proof.
    intros Hn Hr.
    assert (E : shared s = lf_run c (lf_new now) (ops_of A (hist s))).
    { apply seq_exec_run. exact (linearisable _ _ _ body _ _ _ Hr). }
    split; [exact E|]. split.
    - apply (reach_inv _ _ _ body (order_inv progs) (lfm_init A now progs)); [apply order_init| |exact Hr].
      intros s1 l s2 _ HI Hs. eapply order_step; eauto.
    - split; [rewrite E; apply (files_concat_groups A c now _ Hn)|]. split.
      + exact (wf_reach _ _ _ body _ _ _ Hr).
      + apply (reach_inv _ _ _ body no_waiter (lfm_init A now progs)); [| |exact Hr].
        * unfold no_waiter, lfm_init, init_sys. cbn [threads]. apply Forall_forall. intros th Hin.
          apply in_map_iff in Hin. destruct Hin as [p [<- _]]. left. reflexivity.
        * intros s1 l s2 _ HI Hs. eapply no_waiter_step; eauto.
  Qed.

  (* when every thread has returned from all its calls, every thread's whole program is in the history, in
     program order, and hence (no stream error) every record of every thread is in the files exactly once *)
  Corollary logfile_threadsafe_done now progs (s : msys) :
    0 < now -> mreach (lfm_init A now progs) s ->
    Forall (fun th => prog th = []) (threads s) ->
    forall t, calls_of A t (hist s) = nth t progs [].
  Proof.
    intros Hn Hr Hd t. destruct (logfile_threadsafe now progs s Hn Hr) as [_ [Ho _]].
    rewrite <- (Ho t). replace (nth t (map prog (threads s)) []) with (@nil (lfop A)); [rewrite app_nil_r; reflexivity|].
    destruct (nth_error (map prog (threads s)) t) as [p|] eqn:En.
    - erewrite nth_error_nth by exact En. rewrite nth_error_map in En.
      destruct (nth_error (threads s) t) as [th|] eqn:Et; [|discriminate]. cbn in En. inversion En; subst.
      symmetry. eapply Forall_nth_error in Hd; eauto.
    - rewrite nth_overflow; [reflexivity|]. apply nth_error_None. exact En.
  Qed.
End LfMonProofs.
