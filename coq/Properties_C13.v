(* Properties_C13: write-complete and high-water-mark callbacks track the unsent backlog exactly.
   Only statements, closed by [exact], each followed by Print Assumptions, and non-vacuity examples.
   Same model as C01 (Conn_Model; see the header of Properties_C01.v for the op vocabulary); the
   backlog is [outb], the mark [hwm], [has_wc] / [has_hwm] say which callbacks are installed.
   The per-step theorems hold for EVERY state c of the model (reachable or not) and every op.
   Tie to the C++: the guards of sendInLoop / handleWrite of the CURRENT TcpConnection.cc are
   regenerated (Gen_Conn.v) and the model functions are proved equal to the functions
   re-assembled from them (section "source"); differential execution + the property text as an
   oracle on the implementation's output (bin/check C13). *)
From Coq Require Import List ZArith Lia Bool Arith NArith.
From Coq.Strings Require Import Byte.
From Muduo Require Import Gen_Consts Gen_Conn Conn_Model Conn_Proofs Conn_Trace Conn_Race Conn_GenTie C13_Settings.
Import ListNotations.

(* ========================================================================================== *)
(* HEADLINE: the callbacks of a whole history                                                   *)
(* ========================================================================================== *)
(* For every history from the initial state (all send sizes, marks, kernel acceptance patterns,
   thread assignments): the write-complete / high-water callbacks that have run - in order, with
   their arguments - followed by those still waiting in the loop's task queue are exactly what
   the property text prescribes for the steps of the history, in step order ([cb_due], spelled
   out below): one write-complete per emptied backlog, one high-water per upward crossing
   carrying the resulting backlog; nothing else, nothing missing, nothing twice. *)
Theorem C13_callbacks_trace : forall mark wc hw ops c e,
  run (init mark wc hw) ops = Ok (c, e) ->
  cb_events e ++ cbs (pending c) = flat_map cb_due (trace (init mark wc hw) ops).
Proof. exact callbacks_trace. Qed.
Print Assumptions C13_callbacks_trace.

(* what is prescribed for one step from c to c' by op o *)
Theorem C13_cb_due_def : forall c o c',
  cb_due (c, o, c') =
  (if wc_due c o c' then [FWriteComplete] else []) ++
  (if hw_due c o c' then [FHighWater (length (outb c'))] else []).
Proof. exact cb_due_unfold. Qed.
Print Assumptions C13_cb_due_def.

(* write-complete: the callback is installed and either the step is a sendInLoop whose direct
   write took the whole block - the empty block included - while nothing was queued, or it is a
   writability event after which a non-empty backlog is empty *)
Theorem C13_wc_due_def : forall c o c',
  wc_due c o c' =
  (has_wc c &&
   match send_of c o with
   | Some (d, k, _) =>
       negb (writing c) && (length (outb c) =? 0) &&
       match taken (effective c k) (length d) with Some n => n =? length d | None => false end
   | None =>
       match o with
       | EvWritable _ => negb (length (outb c) =? 0) && (length (outb c') =? 0)
       | _ => false
       end
   end)%bool.
Proof. exact wc_due_unfold. Qed.
Print Assumptions C13_wc_due_def.

(* high-water: the callback is installed and the step is a sendInLoop that raises the backlog
   from below the mark to at or above it (so never for mark 0, never on a drain) *)
Theorem C13_hw_due_def : forall c o c',
  hw_due c o c' =
  (has_hwm c &&
   match send_of c o with
   | Some _ => (N.of_nat (length (outb c)) <? hwm c)%N && (hwm c <=? N.of_nat (length (outb c')))%N
   | None => false
   end)%bool.
Proof. exact hw_due_unfold. Qed.
Print Assumptions C13_hw_due_def.

(* the sendInLoop a step executes: block, kernel answer, functor queue it starts from *)
Theorem C13_send_of_def : forall c o,
  send_of c o =
  match o with
  | Send d k => if cstate_eqb (st c) Connected then Some (d, k, pending c) else None
  | RunOne k =>
      match pending c with
      | FSend _ d :: rest => if cstate_eqb (st c) Disconnected then None else Some (d, k, rest)
      | _ => None
      end
  | _ => None
  end.
Proof. exact send_of_unfold. Qed.
Print Assumptions C13_send_of_def.

Theorem C13_cb_events_def : forall e,
  cb_events e = flat_map (fun ev => match ev with
                                    | EvWC => [FWriteComplete]
                                    | EvHWM n => [FHighWater n]
                                    | _ => []
                                    end) e.
Proof. exact cb_events_unfold. Qed.
Print Assumptions C13_cb_events_def.

Theorem C13_cbs_def : forall l,
  cbs l = filter (fun f => match f with FWriteComplete | FHighWater _ => true | _ => false end) l.
Proof. exact cbs_unfold. Qed.
Print Assumptions C13_cbs_def.

Theorem C13_trace_def : forall c ops,
  trace c ops = match ops with
                | [] => []
                | o :: r => match step c o with
                            | Ok (c1, _) => (c, o, c1) :: trace c1 r
                            | _ => []
                            end
                end.
Proof. exact trace_unfold. Qed.
Print Assumptions C13_trace_def.

(* never without a preceding send(): a history in which no sendInLoop ran has no notification,
   neither run nor queued *)
Theorem C13_no_callback_without_send : forall mark wc hw ops c e,
  run (init mark wc hw) ops = Ok (c, e) ->
  (forall x, In x (trace (init mark wc hw) ops) -> send_of (pre x) (opx x) = None) ->
  cb_events e = [] /\ cbs (pending c) = [].
Proof. exact no_callback_without_send. Qed.
Print Assumptions C13_no_callback_without_send.

Theorem C13_pre_opx_post_def : forall c o c', pre (c, o, c') = c /\ opx (c, o, c') = o /\ post (c, o, c') = c'.
Proof. exact pre_opx_post_unfold. Qed.
Print Assumptions C13_pre_opx_post_def.

(* ========================================================================================== *)
(* Per step, for every state                                                                    *)
(* ========================================================================================== *)
(* A sendInLoop queues at most one functor.  It queues FWriteComplete iff the callback is
   installed, nothing was queued, write interest was off and the kernel took the whole block
   (the empty block included; a failed write of an empty block does not count); the backlog is
   then (still) empty and the block is on the wire.
   A writability event queues at most FWriteComplete, and does so iff the callback is installed
   and its write emptied a non-empty backlog. *)
Theorem C13_wc_iff_emptied : forall c o c' e, step c o = Ok (c', e) ->
  (forall d k p, send_of c o = Some (d, k, p) ->
     (pending c' = p \/ pending c' = p ++ [FWriteComplete] \/
      exists n, pending c' = p ++ [FHighWater n]) /\
     (pending c' = p ++ [FWriteComplete] <->
        has_wc c = true /\ outb c = [] /\ writing c = false /\
        taken (effective c k) (length d) = Some (length d)) /\
     (pending c' = p ++ [FWriteComplete] -> outb c' = [] /\ wire c' = wire c ++ d)) /\
  (forall k, o = EvWritable k ->
     (pending c' = pending c \/ pending c' = pending c ++ [FWriteComplete]) /\
     (pending c' = pending c ++ [FWriteComplete] <->
        has_wc c = true /\ writing c = true /\ outb c <> [] /\ outb c' = [])).
Proof. exact P13_wc_iff_emptied. Qed.
Print Assumptions C13_wc_iff_emptied.

(* A sendInLoop queues FHighWater n iff the callback is installed and the backlog rises from
   below the mark to at or above it, and then n is the resulting backlog; so never for mark 0
   and never while the backlog already is at or above the mark.  A writability event never
   queues it. *)
Theorem C13_hwm_iff_crossing : forall c o c' e, step c o = Ok (c', e) ->
  (forall d k p, send_of c o = Some (d, k, p) ->
     (forall n, pending c' = p ++ [FHighWater n] <->
        has_hwm c = true /\
        (N.of_nat (length (outb c)) < hwm c <= N.of_nat (length (outb c')))%N /\
        n = length (outb c')) /\
     (hwm c = 0%N \/ (hwm c <= N.of_nat (length (outb c)))%N ->
        forall n, pending c' <> p ++ [FHighWater n])) /\
  (forall k n, o = EvWritable k -> pending c' <> pending c ++ [FHighWater n]).
Proof. exact P13_hwm_iff_crossing. Qed.
Print Assumptions C13_hwm_iff_crossing.

(* no other step queues (or drops) a callback functor: the sequence of callback functors in
   the queue is unchanged, apart from RunOne removing the functor it runs *)
Theorem C13_only_sends_and_drains_queue_callbacks : forall c o c' e, step c o = Ok (c', e) ->
  send_of c o = None -> (forall k, o <> EvWritable k) ->
  cbs (pending c') = cbs (match o with RunOne _ => tl (pending c) | _ => pending c end).
Proof. exact P13_only_sends_and_drains. Qed.
Print Assumptions C13_only_sends_and_drains_queue_callbacks.

(* both run on the connection's loop thread: the user callbacks run only in RunOne steps (the
   loop draining its task queue), exactly when the oldest functor is the corresponding one, with
   the size recorded at the crossing, and such a step does nothing else *)
Theorem C13_on_loop_thread :
  (forall c o c' e ev f, step c o = Ok (c', e) -> In ev e -> cb_of ev = Some f ->
     exists k rest, o = RunOne k /\ pending c = f :: rest /\ c' = set_pending c rest /\ e = [ev]) /\
  (forall c k rest, pending c = FWriteComplete :: rest ->
     step c (RunOne k) = Ok (set_pending c rest, [EvWC])) /\
  (forall c k n rest, pending c = FHighWater n :: rest ->
     step c (RunOne k) = Ok (set_pending c rest, [EvHWM n])).
Proof. exact P13_on_loop_thread. Qed.
Print Assumptions C13_on_loop_thread.

Theorem C13_cb_of_def : forall ev,
  cb_of ev = match ev with
             | EvWC => Some FWriteComplete
             | EvHWM n => Some (FHighWater n)
             | _ => None
             end.
Proof. exact cb_of_unfold. Qed.
Print Assumptions C13_cb_of_def.

(* not again until the backlog has fallen below the mark: between two queueings of the
   high-water callback the backlog has been below the mark - right after the first it is at or
   above the (constant) mark, right before the second below *)
Theorem C13_no_repeat_until_below :
  forall c1 o1 c1' e1 d1 k1 p1 n1 ops c2 e o2 c2' e2 d2 k2 p2 n2,
  step c1 o1 = Ok (c1', e1) -> send_of c1 o1 = Some (d1, k1, p1) ->
  pending c1' = p1 ++ [FHighWater n1] ->
  run c1' ops = Ok (c2, e) ->
  step c2 o2 = Ok (c2', e2) -> send_of c2 o2 = Some (d2, k2, p2) ->
  pending c2' = p2 ++ [FHighWater n2] ->
  (hwm c1' <= N.of_nat (length (outb c1')))%N /\ hwm c2 = hwm c1' /\
  (N.of_nat (length (outb c2)) < hwm c2)%N.
Proof. exact P13_no_repeat_until_below. Qed.
Print Assumptions C13_no_repeat_until_below.

(* no operation of the model changes the mark or the installed callbacks.  NOTE (REVIEW_C item 8):
   this holds because Conn_Model.op contains no setter - it states the USER CONTRACT under which the
   theorems that speak of "the" mark (C13_callbacks_trace, C13_no_repeat_until_below) are meant:
   setHighWaterMarkCallback / setWriteCompleteCallback are called before connectEstablished and not
   again.  The setters as operations, and what survives a change of settings: section "settings" below. *)
Theorem C13_settings_constant : forall c o c' e, step c o = Ok (c', e) ->
  hwm c' = hwm c /\ has_wc c' = has_wc c /\ has_hwm c' = has_hwm c.
Proof. exact step_const. Qed.
Print Assumptions C13_settings_constant.

(* the per-step theorems above hold for EVERY state, so they also hold in the racy histories of the
   x-machine (foreign close requests cut into load / store / hand-off, Properties_C03.C03_xstep_def):
   a Base step of the x-machine is the step of the base machine on every field the theorems mention *)
Theorem C13_holds_in_racy_histories : forall x o x' e, xstep x (Base o) = Ok (x', e) ->
  exists c', step (xbase x) o = Ok (c', e) /\ xreqs x' = xreqs x /\
    st (xbase x') = st c' /\ outb (xbase x') = outb c' /\ inb (xbase x') = inb c' /\
    writing (xbase x') = writing c' /\ rd_chan (xbase x') = rd_chan c' /\ hwm (xbase x') = hwm c' /\
    has_wc (xbase x') = has_wc c' /\ has_hwm (xbase x') = has_hwm c' /\ wire (xbase x') = wire c' /\
    fin (xbase x') = fin c' /\ pending (xbase x') = pending c' /\ downs (xbase x') = downs c'.
Proof. exact xstep_base_fields. Qed.
Print Assumptions C13_holds_in_racy_histories.

(* ... and so does the headline theorem: over the x-machine, for EVERY history - racy or not - the
   callbacks run ++ queued are those prescribed for its Base steps ([xtrace],
   Properties_C01.C01_xtrace_def; the X micro-steps queue no callback and emit no event) *)
Theorem C13_callbacks_xtrace : forall mark wc hw ops x e,
  xrun (xinit mark wc hw) ops = Ok (x, e) ->
  cb_events e ++ cbs (pending (xbase x)) = flat_map cb_due (xtrace (xinit mark wc hw) ops).
Proof. exact xcallbacks_trace. Qed.
Print Assumptions C13_callbacks_xtrace.

(* ========================================================================================== *)
(* Settings: the two setters as operations (C13_Settings.v, on top of the shared model)          *)
(* ========================================================================================== *)
(* TcpConnection.h:95-99: setWriteCompleteCallback(cb) { writeCompleteCallback_ = cb; },
   setHighWaterMarkCallback(cb, mark) { highWaterMarkCallback_ = cb; highWaterMark_ = mark; } - plain
   assignments, allowed at any time on the loop thread (unsynchronised: C08 contract `setup`; "a
   functor / callback runs on the loop thread" is Properties_C04.C04_on_loop_thread).  [sstep] extends
   the machine by them; a setter changes the settings and NOTHING else (backlog, wire, queued
   notifications, state, interest), emits nothing. *)
Theorem C13_sstep_def : forall c so,
  sstep c so = match so with
               | SBase o => step c o
               | SetHWM b m => Ok (set_hwm c b m, [])
               | SetWC b => Ok (set_wc c b, [])
               end.
Proof. exact sstep_unfold. Qed.
Print Assumptions C13_sstep_def.

Theorem C13_setters_touch_settings_only : forall c,
  (forall b m, sstep c (SetHWM b m) = Ok (set_hwm c b m, []) /\
     hwm (set_hwm c b m) = m /\ has_hwm (set_hwm c b m) = b /\ has_wc (set_hwm c b m) = has_wc c /\
     outb (set_hwm c b m) = outb c /\ wire (set_hwm c b m) = wire c /\ pending (set_hwm c b m) = pending c /\
     st (set_hwm c b m) = st c /\ writing (set_hwm c b m) = writing c) /\
  (forall b, sstep c (SetWC b) = Ok (set_wc c b, []) /\
     has_wc (set_wc c b) = b /\ hwm (set_wc c b) = hwm c /\ has_hwm (set_wc c b) = has_hwm c /\
     outb (set_wc c b) = outb c /\ wire (set_wc c b) = wire c /\ pending (set_wc c b) = pending c /\
     st (set_wc c b) = st c /\ writing (set_wc c b) = writing c).
Proof. exact setters_touch_settings_only. Qed.
Print Assumptions C13_setters_touch_settings_only.

(* in the extended machine the settings change at setter operations ONLY; a history without setters
   is a history of the base machine, so every theorem above applies to each setter-free stretch with
   the settings current in it.  The per-step theorems (C13_wc_iff_emptied, C13_hwm_iff_crossing,
   C13_on_loop_thread, C13_only_sends_and_drains_queue_callbacks) hold for EVERY state and therefore
   after any number of setter calls, for the mark / callbacks installed at that step. *)
Theorem C13_settings_change_only_by_setters : forall sops c c' e,
  srun c sops = Ok (c', e) -> forallb is_base sops = true ->
  hwm c' = hwm c /\ has_wc c' = has_wc c /\ has_hwm c' = has_hwm c.
Proof. exact srun_settings. Qed.
Print Assumptions C13_settings_change_only_by_setters.

Theorem C13_setter_free_history_is_base : forall ops c, srun c (map SBase ops) = run c ops.
Proof. exact srun_base. Qed.
Print Assumptions C13_setter_free_history_is_base.

(* what does NOT survive: "not again until the backlog has fallen below the mark" is about one mark.
   Mark 2, a refused send of 3 bytes (high-water with 3), the user raises the mark to 5, a refused send
   of 2 more (high-water again, with 5) - the backlog never fell below 2; it crossed the new mark. *)
Theorem C13_no_repeat_with_setter_refuted :
  exists c e, srun (init 2%N true true) ex_remark = Ok (c, e) /\
    pending c = [FHighWater 3; FHighWater 5] /\ length (outb c) = 5 /\
    (forall n c1 e1, (2 <= n <= 4)%nat -> srun (init 2%N true true) (firstn n ex_remark) = Ok (c1, e1) ->
       (2 <= N.of_nat (length (outb c1)))%N).
Proof. exact no_repeat_with_setter_refuted. Qed.
Print Assumptions C13_no_repeat_with_setter_refuted.

Example ex_remark_def :
  ex_remark = [ SBase Establish; SBase (Send [x61; x62; x63] (Accept 0)); SetHWM true 5%N;
                SBase (Send [x64; x65] (Accept 0)) ].
Proof. reflexivity. Qed.

(* ========================================================================================== *)
(* Source: the tests of the current TcpConnection.cc                                            *)
(* ========================================================================================== *)
(* the crossing test as it stands in the source (`oldLen + remaining >= highWaterMark_ &&
   oldLen < highWaterMark_ && highWaterMarkCallback_`, regenerated into Gen_Conn.v) is the
   model's: `>=` -> `>`, a dropped `oldLen <`, `<` -> `<=` all break this equation *)
Theorem C13_source_crossing_test : forall mark old remaining has,
  sendInLoop_hwm_test has (Z.of_N mark) (Z.of_nat old) (Z.of_nat remaining) =
  ((mark <=? N.of_nat (old + remaining))%N && (N.of_nat old <? mark)%N && has)%bool.
Proof. exact source_crossing_test. Qed.
Print Assumptions C13_source_crossing_test.

(* the value handed to the callback is oldLen + remaining = the resulting backlog *)
Theorem C13_source_hwm_arg : forall old remaining,
  Z.to_nat (sendInLoop_hwm_arg (Z.of_nat old) (Z.of_nat remaining)) = old + remaining.
Proof. exact tie_hwm_arg. Qed.
Print Assumptions C13_source_hwm_arg.

(* the model's sendInLoop / handleWrite are the functions re-assembled from the regenerated
   guards (direct-write test, `remaining == 0 && writeCompleteCallback_`, the errno tests,
   `!faultError && remaining > 0`, the crossing test; `n > 0`, `readableBytes() == 0`,
   `writeCompleteCallback_`, `state_ == kDisconnecting`) following the C++ control flow *)
Theorem C13_sendInLoop_is_source : forall c d k, sendInLoop_src c d k = sendInLoop c d k.
Proof. exact sendInLoop_is_source. Qed.
Print Assumptions C13_sendInLoop_is_source.

Theorem C13_handleWrite_is_source : forall c k, handleWrite_src c k = handleWrite c k.
Proof. exact handleWrite_is_source. Qed.
Print Assumptions C13_handleWrite_is_source.

(* ========================================================================================== *)
(* Non-vacuity                                                                                  *)
(* ========================================================================================== *)
(* mark 4: empty block and whole block (WC each), partial write (backlog 3), a send queued behind
   it that lands exactly on the mark (HW 4), one above the mark (nothing), partial drain to 3, a
   crossing again (HW 5), a failed drain, the full drain (WC), and the five callbacks run in
   queueing order *)
Definition ex_ops : list op :=
  [ Establish;
    Send [] AcceptAll;
    Send [x61; x62] AcceptAll;
    Send [x63; x64; x65; x66] (Accept 1);
    Send [x67] AcceptAll;
    Send [x68] AcceptAll;
    EvWritable (Accept 2);
    Send [x69; x6a] (Err EAGAIN);
    EvWritable (Err EINTR);
    EvWritable AcceptAll;
    RunOne AcceptAll; RunOne AcceptAll; RunOne AcceptAll; RunOne AcceptAll; RunOne AcceptAll ].

Example ex_run :
  exists c, run (init 4%N true true) ex_ops
            = Ok (c, [EvUp; EvErrorLogged; EvWC; EvWC; EvHWM 4; EvHWM 5; EvWC]) /\
    wire c = [x61; x62; x63; x64; x65; x66; x67; x68; x69; x6a] /\ outb c = [] /\ pending c = [].
Proof. vm_compute. eexists. repeat split. Qed.

(* the prescription of the headline theorem on that history, and on its first ten ops (before
   the loop runs its tasks: everything still queued) *)
Example ex_due :
  flat_map cb_due (trace (init 4%N true true) ex_ops)
  = [FWriteComplete; FWriteComplete; FHighWater 4; FHighWater 5; FWriteComplete] /\
  exists c e, run (init 4%N true true) (firstn 10 ex_ops) = Ok (c, e) /\ cb_events e = [] /\
    cbs (pending c) = [FWriteComplete; FWriteComplete; FHighWater 4; FHighWater 5; FWriteComplete].
Proof. split; [vm_compute; reflexivity|]. vm_compute. eexists _, _. repeat split. Qed.

(* a reachable state just below the mark in which the next send crosses it, and one in which
   the next writability event drains the backlog *)
Example ex_reach_crossing :
  exists c c' e, reach c /\ length (outb c) = 3 /\ hwm c = 4%N /\
    step c (Send [x67] AcceptAll) = Ok (c', e) /\
    send_of c (Send [x67] AcceptAll) = Some ([x67], AcceptAll, pending c) /\
    pending c' = pending c ++ [FHighWater 4].
Proof.
  destruct (run (init 4%N true true) (firstn 4 ex_ops)) as [[c e]| |] eqn:E;
    try (vm_compute in E; discriminate).
  exists c. assert (Hr : reach c) by (eapply run_reach; [apply reach_init|exact E]).
  vm_compute in E. injection E as <- _. eexists _, _. split; [exact Hr|].
  vm_compute. repeat split.
Qed.

Example ex_reach_drain :
  exists c c' e, reach c /\ length (outb c) = 5 /\ writing c = true /\ has_wc c = true /\
    step c (EvWritable AcceptAll) = Ok (c', e) /\ outb c' = [] /\
    pending c' = pending c ++ [FWriteComplete].
Proof.
  destruct (run (init 4%N true true) (firstn 9 ex_ops)) as [[c e]| |] eqn:E;
    try (vm_compute in E; discriminate).
  exists c. assert (Hr : reach c) by (eapply run_reach; [apply reach_init|exact E]).
  vm_compute in E. injection E as <- _. eexists _, _. split; [exact Hr|].
  vm_compute. repeat split.
Qed.


(* ========================================================================================== *)
(* Cross-model links (appended; owner: the links, docs/Link.md section L1)                      *)
(* ========================================================================================== *)
(* The backlog whose size the write-complete / high-water-mark callbacks track is, in Conn_Model,
   the length of the list outb.  Over two concrete Buffers (Link_ConnBuf_Model; the machine and
   the abstraction [abs] are quoted as equations in Properties_C01.v, section "Cross-model
   links") it is outputBuffer_.readableBytes().  B = C10_Model, BP = C10_Proofs. *)
From Muduo Require Import Link_ConnBuf_Model Link_ConnBuf Link_Properties_L1.

(* in every state whose buffers are reachable Buffer states, the lengths Conn_Model's theorems
   speak of are the readableBytes() of the two Buffers *)
Theorem C13_backlog_is_readableBytes : forall c,
  (exists lo li, BP.reach (obuf c, ibuf c) (lo, li)) ->
  length (outb (abs c)) = B.readableBytes (obuf c) /\ length (inb (abs c)) = B.readableBytes (ibuf c).
Proof. exact abs_backlog. Qed.
Print Assumptions C13_backlog_is_readableBytes.

(* C13_hwm_iff_crossing on the real buffer: a step of the connection over real Buffers that runs a
   sendInLoop queues the high-water-mark callback iff it is installed and
   outputBuffer_.readableBytes() rises from below the mark to at or above it; the callback's
   argument is the new readableBytes() *)
Theorem C13_hwm_iff_readableBytes_crosses : forall c o c' e,
  (exists lo li, BP.reach (obuf c, ibuf c) (lo, li)) -> cop_wf o = true -> c_step c o = Ok (c', e) ->
  forall d k p, send_of (abs c) (abs_op c o) = Some (d, k, p) ->
  forall n, pending (ctl c') = p ++ [FHighWater n] <->
    has_hwm (ctl c) = true /\
    (N.of_nat (B.readableBytes (obuf c)) < hwm (ctl c) <= N.of_nat (B.readableBytes (obuf c')))%N /\
    n = B.readableBytes (obuf c').
Proof. exact c_hwm_crossing. Qed.
Print Assumptions C13_hwm_iff_readableBytes_crosses.

(* every theorem of this file about reachable Conn_Model states holds over real Buffers *)
Theorem C13_transfer_to_real_buffers : forall P : conn -> Prop,
  (forall a, reach a -> P a) -> forall c, c_reach c -> P (abs c).
Proof. exact L1_transfer. Qed.
Print Assumptions C13_transfer_to_real_buffers.

(* non-vacuity: mark 4, a send of 6 bytes of which the kernel takes 1: readableBytes() goes 0 -> 5,
   the callback is queued with argument 5 *)
Example C13_link_ex_crossing :
  match c_run (c_init 4 true true) [COp Establish; COp (Send (repeat l1_a 6) (Accept 1))] with
  | Ok (c, _) => B.readableBytes (obuf c) = 5 /\ pending (ctl c) = [FHighWater 5]
  | _ => False
  end.
Proof. vm_compute. auto. Qed.
