(* Properties_C13: write-complete and high-water-mark callbacks track the unsent backlog exactly.
   Only statements, closed by [exact], with Print Assumptions and non-vacuity examples.
   Same model as C01 (Conn_Model), tied to muduo/net/TcpConnection.cc by the correspondence
   check.  The theorems of this file hold for EVERY state c of the model (reachable or not) and
   every op, hence for every reachable state and every op list; the backlog is [outb].
   Definitions used below (Conn_Proofs):
     send_of c o = the sendInLoop a step executes: Some (block d, kernel answer k, queue p it
                   starts from) for [Send d k] in state Connected (p = pending c) and for
                   [RunOne k] whose oldest functor is [FSend _ d] while the connection is not
                   Disconnected (p = the rest of the queue); None otherwise (C01_send_of_def);
     cbs l       = the FWriteComplete / FHighWater functors of queue l, in order;
     cb_of ev    = the functor whose execution emits event ev (EvWC / EvHWM n). *)
From Coq Require Import List ZArith Lia Bool Arith NArith.
From Coq.Strings Require Import Byte.
From Muduo Require Import Conn_Model Conn_Proofs.
Import ListNotations.

(* A sendInLoop queues at most one functor.  It queues FWriteComplete iff the callback is
   installed, nothing was queued, write interest was off and the kernel took the whole block
   (the empty block included; a failed write of an empty block does not count); the backlog is
   then (still) empty and the block is on the wire.
   A writability event queues at most FWriteComplete, and does so iff the callback is installed
   and its write emptied a non-empty backlog. *)
Theorem C13_wc_iff_emptied : forall c o c' e, step c o = Ok (c', e) ->
  (forall d k p, send_of c o = Some (d, k, p) ->
     (pending c' = p \/ pending c' = p ++ [FWriteComplete] \/
      exists n, pending c' = p ++ [FHighWater n]) /\
     (pending c' = p ++ [FWriteComplete] <->
        has_wc c = true /\ outb c = [] /\ writing c = false /\
        taken (effective c k) (length d) = Some (length d)) /\
     (pending c' = p ++ [FWriteComplete] -> outb c' = [] /\ wire c' = wire c ++ d)) /\
  (forall k, o = EvWritable k ->
     (pending c' = pending c \/ pending c' = pending c ++ [FWriteComplete]) /\
     (pending c' = pending c ++ [FWriteComplete] <->
        has_wc c = true /\ writing c = true /\ outb c <> [] /\ outb c' = [])).
Proof. exact P13_wc_iff_emptied. Qed.
Print Assumptions C13_wc_iff_emptied.

(* A sendInLoop queues FHighWater n iff the callback is installed and the backlog rises from
   below the mark to at or above it, and then n is the resulting backlog; so never for mark 0
   and never while the backlog already is at or above the mark.  A writability event never
   queues it. *)
Theorem C13_hwm_iff_crossing : forall c o c' e, step c o = Ok (c', e) ->
  (forall d k p, send_of c o = Some (d, k, p) ->
     (forall n, pending c' = p ++ [FHighWater n] <->
        has_hwm c = true /\
        (N.of_nat (length (outb c)) < hwm c <= N.of_nat (length (outb c')))%N /\
        n = length (outb c')) /\
     (hwm c = 0%N \/ (hwm c <= N.of_nat (length (outb c)))%N ->
        forall n, pending c' <> p ++ [FHighWater n])) /\
  (forall k n, o = EvWritable k -> pending c' <> pending c ++ [FHighWater n]).
Proof. exact P13_hwm_iff_crossing. Qed.
Print Assumptions C13_hwm_iff_crossing.

(* no other step queues (or drops) a callback functor: the sequence of callback functors in
   the queue is unchanged, apart from RunOne removing the functor it runs *)
Theorem C13_only_sends_and_drains_queue_callbacks : forall c o c' e, step c o = Ok (c', e) ->
  send_of c o = None -> (forall k, o <> EvWritable k) ->
  cbs (pending c') = cbs (match o with RunOne _ => tl (pending c) | _ => pending c end).
Proof. exact P13_only_sends_and_drains. Qed.
Print Assumptions C13_only_sends_and_drains_queue_callbacks.

Theorem C13_cbs_def : forall l,
  cbs l = filter (fun f => match f with FWriteComplete | FHighWater _ => true | _ => false end) l.
Proof. reflexivity. Qed.
Print Assumptions C13_cbs_def.

(* the user callbacks run only in RunOne steps (the loop thread draining its functor queue),
   exactly when the oldest functor is the corresponding one, with the size recorded at the
   crossing, and such a step does nothing else *)
Theorem C13_on_loop_thread :
  (forall c o c' e ev f, step c o = Ok (c', e) -> In ev e -> cb_of ev = Some f ->
     exists k rest, o = RunOne k /\ pending c = f :: rest /\ c' = set_pending c rest /\ e = [ev]) /\
  (forall c k rest, pending c = FWriteComplete :: rest ->
     step c (RunOne k) = Ok (set_pending c rest, [EvWC])) /\
  (forall c k n rest, pending c = FHighWater n :: rest ->
     step c (RunOne k) = Ok (set_pending c rest, [EvHWM n])).
Proof. exact P13_on_loop_thread. Qed.
Print Assumptions C13_on_loop_thread.

Theorem C13_cb_of_def : forall ev,
  cb_of ev = match ev with
             | EvWC => Some FWriteComplete
             | EvHWM n => Some (FHighWater n)
             | _ => None
             end.
Proof. reflexivity. Qed.
Print Assumptions C13_cb_of_def.

(* between two queueings of the high-water callback the backlog has been below the mark:
   right after the first it is at or above the (constant) mark, right before the second below *)
Theorem C13_no_repeat_until_below :
  forall c1 o1 c1' e1 d1 k1 p1 n1 ops c2 e o2 c2' e2 d2 k2 p2 n2,
  step c1 o1 = Ok (c1', e1) -> send_of c1 o1 = Some (d1, k1, p1) ->
  pending c1' = p1 ++ [FHighWater n1] ->
  run c1' ops = Ok (c2, e) ->
  step c2 o2 = Ok (c2', e2) -> send_of c2 o2 = Some (d2, k2, p2) ->
  pending c2' = p2 ++ [FHighWater n2] ->
  (hwm c1' <= N.of_nat (length (outb c1')))%N /\ hwm c2 = hwm c1' /\
  (N.of_nat (length (outb c2)) < hwm c2)%N.
Proof. exact P13_no_repeat_until_below. Qed.
Print Assumptions C13_no_repeat_until_below.

(* the mark and the installed callbacks never change *)
Theorem C13_settings_constant : forall c o c' e, step c o = Ok (c', e) ->
  hwm c' = hwm c /\ has_wc c' = has_wc c /\ has_hwm c' = has_hwm c.
Proof. exact step_const. Qed.
Print Assumptions C13_settings_constant.

(* ---- non-vacuity (mark 4): empty block and whole block (WC each), partial write (backlog 3),
   a send queued behind it that lands exactly on the mark (HW 4), one above the mark (nothing),
   partial drain to 3, a crossing again (HW 5), a failed drain, the full drain (WC), and the
   five callbacks run in queueing order ---------------------------------------------------- *)
Definition ex_ops : list op :=
  [ Establish;
    Send [] AcceptAll;
    Send [x61; x62] AcceptAll;
    Send [x63; x64; x65; x66] (Accept 1);
    Send [x67] AcceptAll;
    Send [x68] AcceptAll;
    EvWritable (Accept 2);
    Send [x69; x6a] (Err EAGAIN);
    EvWritable (Err EINTR);
    EvWritable AcceptAll;
    RunOne AcceptAll; RunOne AcceptAll; RunOne AcceptAll; RunOne AcceptAll; RunOne AcceptAll ].

Example ex_run :
  exists c, run (init 4%N true true) ex_ops
            = Ok (c, [EvUp; EvErrorLogged; EvWC; EvWC; EvHWM 4; EvHWM 5; EvWC]) /\
    wire c = [x61; x62; x63; x64; x65; x66; x67; x68; x69; x6a] /\ outb c = [] /\ pending c = [].
Proof. vm_compute. eexists. repeat split. Qed.

(* a reachable state just below the mark in which the next send crosses it, and one in which
   the next writability event drains the backlog *)
Example ex_reach_crossing :
  exists c c' e, reach c /\ length (outb c) = 3 /\ hwm c = 4%N /\
    step c (Send [x67] AcceptAll) = Ok (c', e) /\
    send_of c (Send [x67] AcceptAll) = Some ([x67], AcceptAll, pending c) /\
    pending c' = pending c ++ [FHighWater 4].
Proof.
  destruct (run (init 4%N true true) (firstn 4 ex_ops)) as [[c e]| |] eqn:E;
    try (vm_compute in E; discriminate).
  exists c. assert (Hr : reach c) by (eapply run_reach; [apply reach_init|exact E]).
  vm_compute in E. injection E as <- _. eexists _, _. split; [exact Hr|].
  vm_compute. repeat split.
Qed.

Example ex_reach_drain :
  exists c c' e, reach c /\ length (outb c) = 5 /\ writing c = true /\ has_wc c = true /\
    step c (EvWritable AcceptAll) = Ok (c', e) /\ outb c' = [] /\
    pending c' = pending c ++ [FWriteComplete].
Proof.
  destruct (run (init 4%N true true) (firstn 9 ex_ops)) as [[c e]| |] eqn:E;
    try (vm_compute in E; discriminate).
  exists c. assert (Hr : reach c) by (eapply run_reach; [apply reach_init|exact E]).
  vm_compute in E. injection E as <- _. eexists _, _. split; [exact Hr|].
  vm_compute. repeat split.
Qed.
