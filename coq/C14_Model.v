(* C14_Model: BlockingQueue<T>, BoundedBlockingQueue<T>, CountDownLatch as monitors over the
   generic semantics of Conc_Model, read off muduo/base/BlockingQueue.h,
   BoundedBlockingQueue.h, CountDownLatch.cc (T := Z).  No proofs here.

   Every method is   MutexLockGuard lock(mutex_); while (guard) cond.wait(); code; notify;
   so it is one [body] (see Conc_Model): Block c = "guard true, wait on c",
   Ret s' r sigs = "guard false: new state, result, notifications in program order".
   MutexLock::holder_ and the UnassignGuard of Condition::wait are the [holder] field of
   Conc_Model.sys (assigned with the mutex, cleared on unlock AND around a wait). *)
From Coq Require Import List ZArith Arith Bool.
From Muduo Require Import Conc_Model.
Import ListNotations.
Open Scope Z_scope.

Inductive qres := RUnit | RVal (v : Z) | RList (l : list Z) | RSize (n : nat) | RBool (b : bool) | RInt (z : Z).

(* ---------------------------------------------------------------- BlockingQueue.h *)
Definition notEmpty : cond := 0%nat.   (* notEmpty_ *)
Definition notFull : cond := 1%nat.    (* notFull_ (bounded queue only) *)

Inductive bq_op := BPut (v : Z) | BTake | BDrain | BSize.

Definition bq_body (o : bq_op) (q : list Z) : outcome (list Z) qres :=
  match o with
  | BPut v => Ret (q ++ [v]) RUnit [Notify notEmpty]            (* push_back; notEmpty_.notify() *)
  | BTake => match q with
             | [] => Block notEmpty                             (* while (queue_.empty()) notEmpty_.wait() *)
             | x :: q' => Ret q' (RVal x) []                    (* front(); pop_front(); no notification *)
             end
  | BDrain => Ret [] (RList q) []                               (* queue = std::move(queue_) *)
  | BSize => Ret q (RSize (length q)) []
  end.

(* ---------------------------------------------------------------- BoundedBlockingQueue.h *)
Inductive bbq_op := QPut (v : Z) | QTake | QSize | QEmpty | QFull | QCapacity.

(* boost::circular_buffer::full() is size() == capacity() *)
Definition bbq_body (cap : nat) (o : bbq_op) (q : list Z) : outcome (list Z) qres :=
  match o with
  | QPut v => if Nat.eqb (length q) cap then Block notFull      (* while (queue_.full()) notFull_.wait() *)
              else Ret (q ++ [v]) RUnit [Notify notEmpty]
  | QTake => match q with
             | [] => Block notEmpty
             | x :: q' => Ret q' (RVal x) [Notify notFull]      (* pop_front(); notFull_.notify() *)
             end
  | QSize => Ret q (RSize (length q)) []
  | QEmpty => Ret q (RBool (Nat.eqb (length q) 0)) []
  | QFull => Ret q (RBool (Nat.eqb (length q) cap)) []
  | QCapacity => Ret q (RSize cap) []
  end.

(* ---------------------------------------------------------------- CountDownLatch.cc *)
Definition latchCond : cond := 0%nat.  (* condition_ *)

Inductive latch_op := LCountDown | LWait | LGetCount.

(* count_ is an int; the model uses unbounded Z (no wrap-around: would need 2^31 count-downs) *)
Definition latch_body (o : latch_op) (c : Z) : outcome Z qres :=
  match o with
  | LCountDown => let c' := c - 1 in
                  Ret c' RUnit (if c' =? 0 then [NotifyAll latchCond] else [])   (* if (count_ == 0) notifyAll() *)
  | LWait => if 0 <? c then Block latchCond else Ret c RUnit []                  (* while (count_ > 0) wait() *)
  | LGetCount => Ret c (RInt c) []
  end.

(* ---------------------------------------------------------------- observations on histories *)
(* values put, in section (= linearisation) order *)
Definition bq_puts (h : list (nat * bq_op * qres)) : list Z :=
  flat_map (fun e => match e with (_, BPut v, _) => [v] | _ => [] end) h.
Definition bbq_puts (h : list (nat * bbq_op * qres)) : list Z :=
  flat_map (fun e => match e with (_, QPut v, _) => [v] | _ => [] end) h.
(* the same with the producing thread attached: (producer, value) *)
Definition bq_puts_by (h : list (nat * bq_op * qres)) : list (nat * Z) :=
  flat_map (fun e => match e with (t, BPut v, _) => [(t, v)] | _ => [] end) h.
Definition bbq_puts_by (h : list (nat * bbq_op * qres)) : list (nat * Z) :=
  flat_map (fun e => match e with (t, QPut v, _) => [(t, v)] | _ => [] end) h.
Definition put_by (p : nat) (x : nat * Z) : bool := Nat.eqb (fst x) p.
(* values returned by take()/drain(), in section order *)
Definition rets {op : Type} (h : list (nat * op * qres)) : list Z :=
  flat_map (fun e => match e with (_, _, RVal v) => [v] | (_, _, RList l) => l | _ => [] end) h.

(* the queue a call found, computed from the history before it *)
Definition bq_before (h1 : list (nat * bq_op * qres)) : list Z := skipn (length (rets h1)) (bq_puts h1).
Definition bbq_before (h1 : list (nat * bbq_op * qres)) : list Z := skipn (length (rets h1)) (bbq_puts h1).

(* client classification used by the notification discipline *)
Definition bq_blocker (c : cond) (o : bq_op) : bool :=
  match o with BTake => Nat.eqb c notEmpty | _ => false end.
Definition bbq_blocker (c : cond) (o : bbq_op) : bool :=
  match o with QTake => Nat.eqb c notEmpty | QPut _ => Nat.eqb c notFull | _ => false end.
Definition latch_blocker (c : cond) (o : latch_op) : bool :=
  match o with LWait => Nat.eqb c latchCond | _ => false end.

(* what MutexLock::isLockedByThisThread() returns when evaluated by thread t *)
Definition isLockedByThisThread {S op res} (s : sys S op res) (t : nat) : bool :=
  match holder s with Some h => Nat.eqb h t | None => false end.
