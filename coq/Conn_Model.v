(* Conn_Model: executable model of one muduo::net::TcpConnection as a sequential state
   machine driven by an adversarial environment (DESIGN 3.2, Appendix B.1):
   loop-thread API calls, foreign-thread API calls cut into their atomic micro-steps,
   kernel results, poller events, and the loop's pending-functor queue (one functor per
   RunOne step: FIFO is what matters here; batch boundaries belong to C04).
   Shared by C01 (streams), C03 (shutdown / force close), C13 (write-complete / high-water),
   C11 (faults are just more environment inputs) and C02 (life cycle).
   Mirrors muduo/net/TcpConnection.cc branch by branch.  No proofs in this file. *)
From Coq Require Import List ZArith Lia Bool Arith NArith.
From Coq.Strings Require Import Byte.
Import ListNotations.

Inductive cstate := Connecting | Connected | Disconnecting | Disconnected.

Definition cstate_eqb (a b : cstate) : bool :=
  match a, b with
  | Connecting, Connecting | Connected, Connected
  | Disconnecting, Disconnecting | Disconnected, Disconnected => true
  | _, _ => false
  end.

Inductive errno := EAGAIN | EINTR | EPIPE | ECONNRESET | EOTHER.

(* what the kernel does with a write(fd, buf, len) *)
Inductive kres := Accept (k : nat) | AcceptAll | Err (e : errno).

(* how many of len offered bytes the kernel takes; None = the call failed *)
Definition taken (k : kres) (len : nat) : option nat :=
  match k with Accept n => Some (Nat.min n len) | AcceptAll => Some len | Err _ => None end.

(* functors sitting in EventLoop::pendingFunctors_ on behalf of this connection *)
Inductive functor :=
| FSend (t : nat) (d : list byte)   (* bound sendInLoop(copy of the data); binds raw this *)
| FShutdown                          (* shutdownInLoop *)
| FForceClose                        (* forceCloseInLoop; strong reference *)
| FStartRead | FStopRead
| FWriteComplete                     (* user callback *)
| FHighWater (n : nat)               (* user callback, carries the backlog size *)
| FDestroy.                          (* connectDestroyed queued by the owner after close *)

(* user-visible callbacks and log-level effects of one step *)
Inductive event :=
| EvUp | EvDown
| EvMsg (buffered : nat)             (* message callback; size of the input buffer at the call *)
| EvWC | EvHWM (n : nat)
| EvGiveUp                           (* "disconnected, give up writing" *)
| EvFin                              (* ::shutdown(fd, SHUT_WR) *)
| EvErrorLogged.                     (* handleError / LOG_SYSERR: nothing else happens *)

Record conn := mkConn {
  st : cstate;                 (* state_ *)
  outb : list byte;            (* outputBuffer_ readable bytes *)
  inb : list byte;             (* inputBuffer_ readable bytes *)
  writing : bool;              (* channel_->isWriting() *)
  rd_chan : bool;              (* channel_->isReading() *)
  rd_flag : bool;              (* reading_ *)
  registered : bool;           (* channel in the poller (not yet remove()d) *)
  hwm : N;                     (* highWaterMark_ (binary: the default is 64 MiB) *)
  has_wc : bool;               (* writeCompleteCallback_ installed *)
  has_hwm : bool;              (* highWaterMarkCallback_ installed *)
  wire : list byte;            (* everything the kernel accepted = what the peer reads *)
  fin : bool;                  (* write side half-closed *)
  pending : list functor;      (* the loop's functor queue, oldest first *)
  chk : list (nat * bool);     (* per foreign thread: result of its last unsynchronised state test *)
  delayed : nat;               (* outstanding forceCloseWithDelay timers (weak references) *)
  (* ghost *)
  accepted : list byte;        (* concatenation of the blocks sendInLoop took responsibility for *)
  consumed : list byte;        (* bytes the user retrieved from the input buffer *)
  delivered : list byte;       (* bytes the kernel delivered to readFd *)
  enq : list (nat * list byte);(* foreign sends in enqueue order *)
  ran : list (nat * list byte);(* foreign sends in execution order *)
  ups : nat; downs : nat       (* connection callbacks so far *)
}.

Definition init (mark : N) (wc hw : bool) : conn :=
  mkConn Connecting [] [] false false true false mark wc hw [] false [] [] 0 [] [] [] [] [] 0 0.

Definition is_fatal (e : errno) : bool :=
  match e with EPIPE | ECONNRESET => true | _ => false end.

(* environment contract (DESIGN 3.4): once the write side is shut down the kernel
   refuses every write with EPIPE, whatever the script says *)
Definition effective (c : conn) (k : kres) : kres := if fin c then Err EPIPE else k.

Definition set_pending (c : conn) (p : list functor) : conn :=
  mkConn (st c) (outb c) (inb c) (writing c) (rd_chan c) (rd_flag c) (registered c) (hwm c) (has_wc c)
         (has_hwm c) (wire c) (fin c) p (chk c) (delayed c) (accepted c) (consumed c) (delivered c)
         (enq c) (ran c) (ups c) (downs c).

Definition set_st (c : conn) (s : cstate) : conn :=
  mkConn s (outb c) (inb c) (writing c) (rd_chan c) (rd_flag c) (registered c) (hwm c) (has_wc c)
         (has_hwm c) (wire c) (fin c) (pending c) (chk c) (delayed c) (accepted c) (consumed c)
         (delivered c) (enq c) (ran c) (ups c) (downs c).

(* TcpConnection::sendInLoop, TcpConnection.cc:139-192 *)
Definition sendInLoop (c : conn) (d : list byte) (k : kres) : conn * list event :=
  if cstate_eqb (st c) Disconnected then (c, [EvGiveUp]) else
  let direct := negb (writing c) && (length (outb c) =? 0) in
  let '(nwrote, fatal, wrote_ok) :=
    if direct then
      match effective c k with
      | Err e => (0, is_fatal e, false)
      | k' => (match taken k' (length d) with Some n => n | None => 0 end, false, true)
      end
    else (0, false, false) in
  let remaining := length d - nwrote in
  let p1 := if wrote_ok && (remaining =? 0) && has_wc c
            then pending c ++ [FWriteComplete] else pending c in
  let queue := negb fatal && (0 <? remaining) in
  let old := length (outb c) in
  let p2 := if queue && (hwm c <=? N.of_nat (old + remaining))%N && (N.of_nat old <? hwm c)%N && has_hwm c
            then p1 ++ [FHighWater (old + remaining)] else p1 in
  (mkConn (st c)
          (if queue then outb c ++ skipn nwrote d else outb c)
          (inb c)
          (if queue then true else writing c)
          (rd_chan c) (rd_flag c) (registered c) (hwm c) (has_wc c) (has_hwm c)
          (wire c ++ firstn nwrote d) (fin c) p2 (chk c) (delayed c)
          (if fatal then accepted c else accepted c ++ d)
          (consumed c) (delivered c) (enq c) (ran c) (ups c) (downs c),
   if direct then match effective c k with Err EAGAIN => [] | Err _ => [EvErrorLogged] | _ => [] end else []).

(* TcpConnection::shutdownInLoop, 205-213 *)
Definition shutdownInLoop (c : conn) : conn * list event :=
  if writing c then (c, []) else
  (mkConn (st c) (outb c) (inb c) (writing c) (rd_chan c) (rd_flag c) (registered c) (hwm c) (has_wc c)
          (has_hwm c) (wire c) true (pending c) (chk c) (delayed c) (accepted c) (consumed c)
          (delivered c) (enq c) (ran c) (ups c) (downs c), [EvFin]).

(* TcpConnection::handleWrite, 368-406 *)
Definition handleWrite (c : conn) (k : kres) : conn * list event :=
  if writing c then
    match taken (effective c k) (length (outb c)) with
    | Some n' =>
        if 0 <? n' then
          let out' := skipn n' (outb c) in
          let c1 := mkConn (st c) out' (inb c)
                           (if length out' =? 0 then false else true)
                           (rd_chan c) (rd_flag c) (registered c) (hwm c) (has_wc c) (has_hwm c)
                           (wire c ++ firstn n' (outb c)) (fin c)
                           (if (length out' =? 0) && has_wc c then pending c ++ [FWriteComplete] else pending c)
                           (chk c) (delayed c) (accepted c) (consumed c) (delivered c) (enq c) (ran c)
                           (ups c) (downs c) in
          if (length out' =? 0) && cstate_eqb (st c) Disconnecting then shutdownInLoop c1 else (c1, [])
        else (c, [EvErrorLogged])
    | None => (c, [EvErrorLogged])
    end
  else (c, []).

(* TcpConnection::handleClose, 408-421; the owner's close callback queues connectDestroyed *)
Definition handleClose (c : conn) : conn * list event :=
  (mkConn Disconnected (outb c) (inb c) false false (rd_flag c) (registered c) (hwm c) (has_wc c) (has_hwm c)
          (wire c) (fin c) (pending c ++ [FDestroy]) (chk c) (delayed c) (accepted c) (consumed c)
          (delivered c) (enq c) (ran c) (ups c) (S (downs c)), [EvDown]).

Definition closable (c : conn) : bool :=
  cstate_eqb (st c) Connected || cstate_eqb (st c) Disconnecting.

(* TcpConnection::forceCloseInLoop, 261-269 *)
Definition forceCloseInLoop (c : conn) : conn * list event :=
  if closable c then handleClose c else (c, []).

(* TcpConnection::forceClose, 239-247 (same code on any thread: always queueInLoop) *)
Definition forceClose (c : conn) : conn :=
  if closable c then set_pending (set_st c Disconnecting) (pending c ++ [FForceClose]) else c.

Inductive res (A : Type) := Ok (a : A) | Rejected | Fault.
Arguments Ok {A} a.
Arguments Rejected {A}.
Arguments Fault {A}.

(* TcpConnection::connectDestroyed, 334-345, followed by Channel::remove (asserts isNoneEvent) *)
Definition connectDestroyed (c : conn) : res (conn * list event) :=
  if negb (registered c) then Fault else   (* Poller::removeChannel asserts the channel is known *)
  let '(c1, evs) :=
    if closable c then   (* kConnected || kDisconnecting (after the fix of F-5) *)
      (mkConn Disconnected (outb c) (inb c) false false (rd_flag c) (registered c) (hwm c) (has_wc c)
              (has_hwm c) (wire c) (fin c) (pending c) (chk c) (delayed c) (accepted c) (consumed c)
              (delivered c) (enq c) (ran c) (ups c) (S (downs c)), [EvDown])
    else (c, []) in
  if writing c1 || rd_chan c1 then Fault   (* assert(isNoneEvent()) in Channel::remove *)
  else Ok (mkConn (st c1) (outb c1) (inb c1) (writing c1) (rd_chan c1) (rd_flag c1) false (hwm c1) (has_wc c1)
                  (has_hwm c1) (wire c1) (fin c1) (pending c1) (chk c1) (delayed c1) (accepted c1)
                  (consumed c1) (delivered c1) (enq c1) (ran c1) (ups c1) (downs c1), evs).

Definition set_reading (c : conn) (chan flag : bool) : conn :=
  mkConn (st c) (outb c) (inb c) (writing c) chan flag true (hwm c) (has_wc c) (has_hwm c)
         (wire c) (fin c) (pending c) (chk c) (delayed c) (accepted c) (consumed c) (delivered c)
         (enq c) (ran c) (ups c) (downs c).

(* startReadInLoop / stopReadInLoop, 298-321 (with the state test added by the fix of F-14).
   Channel::update() also (re-)registers the channel, which is why the state test matters. *)
Definition startReadInLoop (c : conn) : conn :=
  if negb (cstate_eqb (st c) Disconnected) && (negb (rd_flag c) || negb (rd_chan c))
  then set_reading c true true else c.
Definition stopReadInLoop (c : conn) : conn :=
  if negb (cstate_eqb (st c) Disconnected) && (rd_flag c || rd_chan c)
  then set_reading c false false else c.

Fixpoint lookup (t : nat) (l : list (nat * bool)) : bool :=
  match l with
  | [] => false
  | (t', b) :: r => if t =? t' then b else lookup t r
  end.

Inductive op :=
| Establish                               (* connectEstablished *)
| Send (d : list byte) (k : kres)         (* send() on the loop thread *)
| FSendCheck (t : nat)                    (* foreign send(): the state test *)
| FSendEnq (t : nat) (d : list byte)      (* foreign send(): the enqueue (if the test passed) *)
| RunOne (k : kres)                       (* the loop runs the oldest pending functor *)
| EvWritable (k : kres)                   (* POLLOUT -> handleWrite *)
| EvReadData (d : list byte)              (* POLLIN, readFd delivered d (non-empty) *)
| EvReadEOF                               (* POLLIN, read returned 0 *)
| EvReadErr                               (* POLLIN, read failed *)
| EvHup                                   (* POLLHUP without POLLIN -> handleClose *)
| EvError                                 (* POLLERR -> handleError *)
| Retrieve (n : nat)                      (* the user consumes n bytes of the input buffer *)
| Shutdown                                (* shutdown() on the loop thread *)
| XShutdown                               (* shutdown() on a foreign thread *)
| ForceClose                              (* forceClose(), any thread *)
| ForceCloseDelay                         (* forceCloseWithDelay(): arms a timer with a weak ref *)
| DelayFire                               (* such a timer fires *)
| StartRead | StopRead                    (* on the loop thread *)
| XStartRead | XStopRead                  (* on a foreign thread *)
| OwnerDestroy.                           (* ~TcpServer: connectDestroyed without a close *)

(* handleClose starts with assert(state_ == kConnected || state_ == kDisconnecting) *)
Definition handleCloseChecked (c : conn) : res (conn * list event) :=
  if closable c then Ok (handleClose c) else Fault.

Definition is_destroy (f : functor) : bool := match f with FDestroy => true | _ => false end.

Definition ok (x : conn * list event) : res (conn * list event) := Ok x.

Definition run_functor (c : conn) (f : functor) (k : kres) : res (conn * list event) :=
  match f with
  | FSend t d =>
      let '(c1, evs) := sendInLoop c d k in
      ok (mkConn (st c1) (outb c1) (inb c1) (writing c1) (rd_chan c1) (rd_flag c1) (registered c1) (hwm c1)
                 (has_wc c1) (has_hwm c1) (wire c1) (fin c1) (pending c1) (chk c1) (delayed c1)
                 (accepted c1) (consumed c1) (delivered c1) (enq c1) (ran c1 ++ [(t, d)]) (ups c1) (downs c1), evs)
  | FShutdown => ok (shutdownInLoop c)
  | FForceClose => ok (forceCloseInLoop c)
  | FStartRead => ok (startReadInLoop c, [])
  | FStopRead => ok (stopReadInLoop c, [])
  | FWriteComplete => ok (c, [EvWC])
  | FHighWater n => ok (c, [EvHWM n])
  | FDestroy => connectDestroyed c
  end.

(* operations a user can only issue once it holds the connection pointer, i.e. after UP *)
Definition user_op (o : op) : bool :=
  match o with
  | Send _ _ | FSendCheck _ | FSendEnq _ _ | Retrieve _ | Shutdown | XShutdown | ForceClose
  | ForceCloseDelay | StartRead | StopRead | XStartRead | XStopRead => true
  | _ => false
  end.

Definition step (c : conn) (o : op) : res (conn * list event) :=
  if user_op o && cstate_eqb (st c) Connecting then Rejected else
  match o with
  | Establish =>
      if cstate_eqb (st c) Connecting then
        ok (mkConn Connected (outb c) (inb c) (writing c) true (rd_flag c) true (hwm c) (has_wc c) (has_hwm c)
                   (wire c) (fin c) (pending c) (chk c) (delayed c) (accepted c) (consumed c) (delivered c)
                   (enq c) (ran c) (S (ups c)) (downs c), [EvUp])
      else Rejected
  | Send d k =>
      if cstate_eqb (st c) Connected then ok (sendInLoop c d k) else ok (c, [])
  | FSendCheck t =>
      ok (mkConn (st c) (outb c) (inb c) (writing c) (rd_chan c) (rd_flag c) (registered c) (hwm c) (has_wc c)
                 (has_hwm c) (wire c) (fin c) (pending c) ((t, cstate_eqb (st c) Connected) :: chk c)
                 (delayed c) (accepted c) (consumed c) (delivered c) (enq c) (ran c) (ups c) (downs c), [])
  | FSendEnq t d =>
      if lookup t (chk c) then
        ok (mkConn (st c) (outb c) (inb c) (writing c) (rd_chan c) (rd_flag c) (registered c) (hwm c) (has_wc c)
                   (has_hwm c) (wire c) (fin c) (pending c ++ [FSend t d]) ((t, false) :: chk c)
                   (delayed c) (accepted c) (consumed c) (delivered c) (enq c ++ [(t, d)]) (ran c)
                   (ups c) (downs c), [])
      else ok (c, [])
  | RunOne k =>
      match pending c with
      | [] => ok (c, [])
      | f :: rest => run_functor (set_pending c rest) f k
      end
  | EvWritable k => if registered c then ok (handleWrite c k) else Rejected
  | EvReadData d =>
      if rd_chan c && registered c && (0 <? length d) then
        ok (mkConn (st c) (outb c) (inb c ++ d) (writing c) (rd_chan c) (rd_flag c) (registered c) (hwm c)
                   (has_wc c) (has_hwm c) (wire c) (fin c) (pending c) (chk c) (delayed c) (accepted c)
                   (consumed c) (delivered c ++ d) (enq c) (ran c) (ups c) (downs c),
            [EvMsg (length (inb c ++ d))])
      else Rejected
  | EvReadEOF => if rd_chan c && registered c then handleCloseChecked c else Rejected
  | EvReadErr => if rd_chan c && registered c then ok (c, [EvErrorLogged]) else Rejected
  | EvHup => if (rd_chan c || writing c) && registered c then handleCloseChecked c else Rejected
  | EvError => if (rd_chan c || writing c) && registered c then ok (c, [EvErrorLogged]) else Rejected
  | Retrieve n =>
      if n <=? length (inb c) then
        ok (mkConn (st c) (outb c) (skipn n (inb c)) (writing c) (rd_chan c) (rd_flag c) (registered c) (hwm c)
                   (has_wc c) (has_hwm c) (wire c) (fin c) (pending c) (chk c) (delayed c) (accepted c)
                   (consumed c ++ firstn n (inb c)) (delivered c) (enq c) (ran c) (ups c) (downs c), [])
      else Rejected
  | Shutdown =>
      if cstate_eqb (st c) Connected then ok (shutdownInLoop (set_st c Disconnecting)) else ok (c, [])
  | XShutdown =>
      if cstate_eqb (st c) Connected
      then ok (set_pending (set_st c Disconnecting) (pending c ++ [FShutdown]), [])
      else ok (c, [])
  | ForceClose => ok (forceClose c, [])
  | ForceCloseDelay =>
      if closable c then
        let c1 := set_st c Disconnecting in
        ok (mkConn (st c1) (outb c1) (inb c1) (writing c1) (rd_chan c1) (rd_flag c1) (registered c1) (hwm c1)
                   (has_wc c1) (has_hwm c1) (wire c1) (fin c1) (pending c1) (chk c1) (S (delayed c1))
                   (accepted c1) (consumed c1) (delivered c1) (enq c1) (ran c1) (ups c1) (downs c1), [])
      else ok (c, [])
  | DelayFire =>
      match delayed c with
      | O => Rejected
      | S n =>
          let c1 := forceClose c in
          ok (mkConn (st c1) (outb c1) (inb c1) (writing c1) (rd_chan c1) (rd_flag c1) (registered c1) (hwm c1)
                     (has_wc c1) (has_hwm c1) (wire c1) (fin c1) (pending c1) (chk c1) n
                     (accepted c1) (consumed c1) (delivered c1) (enq c1) (ran c1) (ups c1) (downs c1), [])
      end
  | StartRead => if registered c then ok (startReadInLoop c, []) else Rejected
  | StopRead => if registered c then ok (stopReadInLoop c, []) else Rejected
  | XStartRead => ok (set_pending c (pending c ++ [FStartRead]), [])
  | XStopRead => ok (set_pending c (pending c ++ [FStopRead]), [])
  | OwnerDestroy =>
      (* single-loop ~TcpServer: a connection whose close has been processed is no longer in
         the owner's map, so the owner cannot destroy it a second time *)
      if registered c && negb (existsb is_destroy (pending c)) then connectDestroyed c else Rejected
  end.

(* run an op list; Rejected ops are skipped by the harness, so [run] stops at the first
   non-Ok result and reports it *)
Fixpoint run (c : conn) (ops : list op) : res (conn * list event) :=
  match ops with
  | [] => Ok (c, [])
  | o :: rest =>
      match step c o with
      | Ok (c1, e1) =>
          match run c1 rest with
          | Ok (c2, e2) => Ok (c2, e1 ++ e2)
          | Rejected => Rejected
          | Fault => Fault
          end
      | Rejected => Rejected
      | Fault => Fault
      end
  end.

(* ---- a whole doPendingFunctors batch: the functors present when the batch starts, in
   order; a scripted kernel answer is consumed only by a functor that really calls write() *)
Definition uses_kernel (c : conn) (f : functor) : bool :=
  match f with
  | FSend _ _ => negb (cstate_eqb (st c) Disconnected) && negb (writing c) && (length (outb c) =? 0)
  | _ => false
  end.

Fixpoint run_batch (n : nat) (c : conn) (ks : list kres) : res (conn * list event) :=
  match n with
  | O => Ok (c, [])
  | S n' =>
      match pending c with
      | [] => Ok (c, [])
      | f :: _ =>
          let '(k, ks') := if uses_kernel c f
                           then match ks with k :: r => (k, r) | [] => (AcceptAll, []) end
                           else (AcceptAll, ks) in
          match step c (RunOne k) with
          | Ok (c1, e1) =>
              match run_batch n' c1 ks' with
              | Ok (c2, e2) => Ok (c2, e1 ++ e2)
              | Rejected => Rejected
              | Fault => Fault
              end
          | Rejected => Rejected
          | Fault => Fault
          end
      end
  end.

(* ==========================================================================================
   Foreign close requests cut into their micro-steps (added 2026-10-01; everything above is
   unchanged).  shutdown(), forceClose() and forceCloseWithDelay() read
       if (state_ == kConnected [|| state_ == kDisconnecting]) { setState(kDisconnecting); <hand-off> }
   with a plain load and a plain store of state_.  Called from a thread other than the loop
   thread, the load, the store and the hand-off (queueInLoop / runInLoop / runAfter) are three
   steps between which the loop thread runs.  The ops XShutdown / ForceClose / ForceCloseDelay
   of [op] execute the three at once (a call on the loop thread, or one whose load and store
   are not separated by a loop-thread state change); the x-layer below executes them one by
   one.  [Base o] is an op of the machine above.
   The x-machine also keeps the [registered] flag faithful in states the invariant of the base
   machine excludes: every Channel::update() (re-)registers the channel ([rereg]); in the
   reachable states of the base machine this changes nothing (Conn_Race.rereg_id). *)
Inductive creq := RShutdown | RForceClose | RForceCloseDelay.

(* the unsynchronised state test of the request *)
Definition creq_test (r : creq) (s : cstate) : bool :=
  match r with
  | RShutdown => cstate_eqb s Connected
  | RForceClose | RForceCloseDelay => cstate_eqb s Connected || cstate_eqb s Disconnecting
  end.

(* a request in flight on foreign thread [rq_thread]: its kind, whether its state test passed,
   whether its store has been executed *)
Record xreq := mkReq { rq_thread : nat; rq_kind : creq; rq_passed : bool; rq_stored : bool }.

(* [xtimers]: a forceCloseWithDelay() called on a foreign thread hands TimerQueue::addTimerInLoop to the
   loop's functor queue (runAfter -> addTimer -> runInLoop); the timer is armed only when the loop
   runs that functor.  [functor] has no constructor for it, so the x-machine keeps, for each such
   functor in the queue, the number of functors of [pending] that are AHEAD of it (non-decreasing
   list, oldest first): the real queue is [pending] with these functors interleaved. *)
Record xconn := mkX { xbase : conn; xreqs : list xreq; xtimers : list nat }.

Definition xinit (mark : N) (wc hw : bool) : xconn := mkX (init mark wc hw) [] [].

Inductive xop :=
| Base (o : op)
| XCheck (t : nat) (r : creq)    (* the load of state_ and the comparison *)
| XSet (t : nat)                 (* setState(kDisconnecting), if the test had passed *)
| XEnq (t : nat)                 (* queueInLoop / runInLoop / runAfter, if the test had passed; the call returns *)
| XRunTimer.                     (* the loop runs the oldest functor of the real queue, and it is an addTimerInLoop *)

Fixpoint find_req (t : nat) (l : list xreq) : option xreq :=
  match l with
  | [] => None
  | q :: r => if rq_thread q =? t then Some q else find_req t r
  end.

Definition drop_req (t : nat) (l : list xreq) : list xreq :=
  filter (fun q => negb (rq_thread q =? t)) l.

Definition set_registered (c : conn) (b : bool) : conn :=
  mkConn (st c) (outb c) (inb c) (writing c) (rd_chan c) (rd_flag c) b (hwm c) (has_wc c) (has_hwm c)
         (wire c) (fin c) (pending c) (chk c) (delayed c) (accepted c) (consumed c) (delivered c)
         (enq c) (ran c) (ups c) (downs c).

(* Channel::remove() unregisters; every Channel::update() - an interest change, or the
   disableAll() of handleClose / connectDestroyed - (re-)registers *)
Definition rereg (c c' : conn) : conn :=
  if registered c && negb (registered c') then c'
  else if negb (Bool.eqb (writing c) (writing c')) || negb (Bool.eqb (rd_chan c) (rd_chan c'))
          || negb (downs c =? downs c')
       then set_registered c' true
       else c'.

(* the hand-off of a request whose test passed, on the base state; for RForceCloseDelay this is
   the arming of the timer (executed at once on the loop thread, by the queued addTimerInLoop
   functor for a foreign call) *)
Definition creq_enqueue (r : creq) (c : conn) : conn :=
  match r with
  | RShutdown => set_pending c (pending c ++ [FShutdown])          (* runInLoop(shutdownInLoop), not in the loop thread *)
  | RForceClose => set_pending c (pending c ++ [FForceClose])      (* queueInLoop(forceCloseInLoop), strong reference *)
  | RForceCloseDelay =>                                            (* timers_.insert: makeWeakCallback(.., forceClose) *)
      mkConn (st c) (outb c) (inb c) (writing c) (rd_chan c) (rd_flag c) (registered c) (hwm c) (has_wc c)
             (has_hwm c) (wire c) (fin c) (pending c) (chk c) (S (delayed c)) (accepted c) (consumed c)
             (delivered c) (enq c) (ran c) (ups c) (downs c)
  end.

(* the oldest functor of the real queue is an addTimerInLoop *)
Definition timer_due (l : list nat) : bool := match l with 0 :: _ => true | _ => false end.

Definition is_delay (r : creq) : bool := match r with RForceCloseDelay => true | _ => false end.

(* the marks after a Base step: a RunOne that ran a functor of [pending] brings every queued
   addTimerInLoop one place forward *)
Definition xtimers_after (c : conn) (o : op) (l : list nat) : list nat :=
  match o with
  | RunOne _ => match pending c with [] => l | _ :: _ => map pred l end
  | _ => l
  end.

Definition xstep (x : xconn) (o : xop) : res (xconn * list event) :=
  match o with
  | Base b =>
      if (match b with RunOne _ => timer_due (xtimers x) | _ => false end) then Rejected
      else
      match step (xbase x) b with
      | Ok (c', e) => Ok (mkX (rereg (xbase x) c') (xreqs x) (xtimers_after (xbase x) b (xtimers x)), e)
      | Rejected => Rejected
      | Fault => Fault
      end
  | XCheck t r =>
      if cstate_eqb (st (xbase x)) Connecting then Rejected      (* no user holds the pointer before UP *)
      else match find_req t (xreqs x) with
           | Some _ => Rejected                                  (* one call at a time per thread *)
           | None => Ok (mkX (xbase x) (mkReq t r (creq_test r (st (xbase x))) false :: xreqs x) (xtimers x), [])
           end
  | XSet t =>
      match find_req t (xreqs x) with
      | Some q =>
          if rq_stored q then Rejected
          else Ok (mkX (if rq_passed q then set_st (xbase x) Disconnecting else xbase x)
                       (mkReq t (rq_kind q) (rq_passed q) true :: drop_req t (xreqs x)) (xtimers x), [])
      | None => Rejected
      end
  | XEnq t =>
      match find_req t (xreqs x) with
      | Some q =>
          if rq_stored q
          then Ok (mkX (if rq_passed q && negb (is_delay (rq_kind q)) then creq_enqueue (rq_kind q) (xbase x) else xbase x)
                       (drop_req t (xreqs x))
                       (if rq_passed q && is_delay (rq_kind q) then xtimers x ++ [length (pending (xbase x))] else xtimers x), [])
          else Rejected
      | None => Rejected
      end
  | XRunTimer =>
      match xtimers x with
      | 0 :: r => Ok (mkX (creq_enqueue RForceCloseDelay (xbase x)) (xreqs x) r, [])
      | _ => Rejected
      end
  end.

Fixpoint xrun (x : xconn) (ops : list xop) : res (xconn * list event) :=
  match ops with
  | [] => Ok (x, [])
  | o :: rest =>
      match xstep x o with
      | Ok (x1, e1) =>
          match xrun x1 rest with
          | Ok (x2, e2) => Ok (x2, e1 ++ e2)
          | Rejected => Rejected
          | Fault => Fault
          end
      | Rejected => Rejected
      | Fault => Fault
      end
  end.
