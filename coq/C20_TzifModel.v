(* C20_TzifModel: executable model of muduo's TZif reader, detail::readTimeZoneFile and
   detail::readDataBlock (muduo/base/TimeZone.cc:169-283), statement by statement.  No proofs.
   The rejection tests on the six counts, the count that bounds each loop / reserve / readBytes, the
   version-2 skip expression with its int multiplications, the magic and version literals, the
   header field lengths, both skip constants and the v1 flags handed to readDataBlock are NOT
   written here: they are Gen_C20Tz.readDataBlock_* / readTimeZoneFile_*, regenerated from the
   C++ on every run (the generator also checks the order of the reads and loops).

   The file is a list of bytes with a read position ([cur]: position and the bytes from there
   on).  detail::File:
     readBytes(n) / readInt32 / readInt64 / readUInt8   fread of exactly n bytes, big-endian
         two's complement; a short read throws std::logic_error          -> [None]
     skip(d)     fseek(fp, d, SEEK_CUR), result ignored: a move before the start of the file
                 fails and leaves the position where it was; a move past the end succeeds (the
                 next non-empty read is short)
   Every std::logic_error (short read, bad magic, std::length_error of vector::reserve with a
   negative count, std::out_of_range of localtimes.at(idx) in Data::addTransition) is caught in
   readTimeZoneFile, which then returns false                             -> [TzFail]
   A rejected block (leap seconds present, isutcnt / isstdcnt neither 0 nor typecnt) returns
   false as well                                                          -> [TzFail]
   Outside the C++ semantics (int overflow in `6 * typecnt` / `8 * leapcnt`, int64_t overflow in
   `utcTime + lt.utcOffset` of Data::addTransition, a variable-length array `char buf[charcnt]` with
   charcnt <= 0 in readBytes(charcnt))                                                    -> [TzUndefined]
   Success: the table (Data::localtimes offsets, Data::transitions)       -> [TzOk tb]
   The abbreviation characters and the v2 footer (TZ string) are read by the C++ but never
   used by the conversions of this property; they are not part of [tzdata]. *)
From Coq Require Import List ZArith Bool Arith NArith.
From Coq.Strings Require Import Byte.
From Muduo Require Import Base_Bytes C20_Model Gen_C20Tz.
Import ListNotations.
Local Open Scope Z_scope.

Inductive tzres := TzOk (tb : tzdata) | TzFail | TzUndefined.

Record cur := mkCur { cpos : nat; crest : list byte }.

(* exactly n bytes *)
Fixpoint take_n (n : nat) (l : list byte) : option (list byte * list byte) :=
  match n with
  | O => Some ([], l)
  | S k => match l with
           | [] => None
           | b :: r => match take_n k r with Some (x, y) => Some (b :: x, y) | None => None end
           end
  end.

Definition readBytes (n : nat) (c : cur) : option (list byte * cur) :=
  match take_n n (crest c) with
  | Some (x, y) => Some (x, mkCur (cpos c + n) y)
  | None => None
  end.

Definition readInt32 (c : cur) : option (Z * cur) :=
  match readBytes 4 c with Some (b, c') => Some (be_decode_signed b, c') | None => None end.
Definition readInt64 (c : cur) : option (Z * cur) :=
  match readBytes 8 c with Some (b, c') => Some (be_decode_signed b, c') | None => None end.
Definition readUInt8 (c : cur) : option (Z * cur) :=
  match readBytes 1 c with Some (b, c') => Some (be_decode b, c') | None => None end.

(* fseek(SEEK_CUR) on the file [file].  A position past the end is recorded as the end: no
   non-empty read succeeds at either, and the reader never seeks again before its next
   non-empty read. *)
Definition skip (file : list byte) (d : Z) (c : cur) : cur :=
  let np := Z.of_nat (cpos c) + d in
  if np <? 0 then c
  else let n := Z.to_nat (Z.min np (Z.of_nat (length file))) in mkCur n (skipn n file).

(* n reads in a row *)
Fixpoint readMany {A} (rd1 : cur -> option (A * cur)) (n : nat) (c : cur) : option (list A * cur) :=
  match n with
  | O => Some ([], c)
  | S k => match rd1 c with
           | Some (x, c1) => match readMany rd1 k c1 with Some (xs, c2) => Some (x :: xs, c2) | None => None end
           | None => None
           end
  end.

Definition readCounts (c : cur) : option (list Z * cur) := readMany readInt32 6 c.

(* one ttinfo entry: gmtoff, isdst, abbrind *)
Definition readType (c : cur) : option (Z * cur) :=
  match readInt32 c with
  | Some (off, c1) =>
    match readUInt8 c1 with
    | Some (_, c2) => match readUInt8 c2 with Some (_, c3) => Some (off, c3) | None => None end
    | None => None
    end
  | None => None
  end.

(* the loop `data->addTransition(trans[i], localtimes[i])`: localtimes.at(idx) throws when idx
   is not below the number of types; then `utcTime + lt.utcOffset` is computed in int64_t (the
   shifted-local column): signed overflow is outside the C++ semantics *)
Inductive addres := AddOk (l : list transition) | AddFail | AddUndefined.

Definition fits_int64 (x : Z) : bool := (-9223372036854775808 <=? x) && (x <=? 9223372036854775807).

Fixpoint addTransitions (offs : list Z) (ts : list Z) (is : list Z) : addres :=
  match ts, is with
  | t :: ts', i :: is' =>
    if (Z.to_nat i <? length offs)%nat then
      if fits_int64 (t + nth (Z.to_nat i) offs 0) then
        match addTransitions offs ts' is' with AddOk r => AddOk (mkTr t (Z.to_nat i) :: r) | x => x end
      else AddUndefined
    else AddFail
  | _, _ => AddOk []
  end.

(* bool readDataBlock(File& f, Data* data, bool v1) *)
Definition readDataBlock (c : cur) (v1 : bool) : tzres :=
  match readCounts c with
  | Some ([n0; n1; n2; n3; n4; n5], c1) =>
    if readDataBlock_reject n0 n1 n2 n3 n4 n5 then TzFail
    else if readDataBlock_reserve_times n0 n1 n2 n3 n4 n5 <? 0 then TzFail    (* trans.reserve: std::length_error *)
    else
      match readMany (if v1 then readInt32 else readInt64) (Z.to_nat (readDataBlock_ntimes n0 n1 n2 n3 n4 n5)) c1 with
      | None => TzFail
      | Some (ts, c2) =>
        if readDataBlock_reserve_idx n0 n1 n2 n3 n4 n5 <? 0 then TzFail
        else
        match readMany readUInt8 (Z.to_nat (readDataBlock_nidx n0 n1 n2 n3 n4 n5)) c2 with
        | None => TzFail
        | Some (is, c3) =>
          if readDataBlock_reserve_types n0 n1 n2 n3 n4 n5 <? 0 then TzFail    (* data->localtimes.reserve *)
          else
            match readMany readType (Z.to_nat (readDataBlock_ntypes n0 n1 n2 n3 n4 n5)) c3 with
            | None => TzFail
            | Some (offs, c4) =>
              let na := Z.to_nat (readDataBlock_nadd n0 n1 n2 n3 n4 n5) in
              match addTransitions offs (firstn na ts) (firstn na is) with
              | AddFail => TzFail
              | AddUndefined => TzUndefined
              | AddOk trs =>
                if readDataBlock_nchars n0 n1 n2 n3 n4 n5 <=? 0 then TzUndefined   (* char buf[n]: the bound must be positive *)
                else match readBytes (Z.to_nat (readDataBlock_nchars n0 n1 n2 n3 n4 n5)) c4 with
                     | None => TzFail
                     | Some _ => TzOk (mkTz trs offs)
                     end
              end
            end
        end
      end
  | _ => TzFail
  end.

Definition magic : list byte := [x54; x5a; x69; x66].   (* "TZif": the writer's side *)

Definition chars (l : list Z) : list byte := map byte_of_Z l.

Fixpoint bytes_eqb (a b : list byte) : bool :=
  match a, b with
  | [], [] => true
  | x :: a', y :: b' => Byte.eqb x y && bytes_eqb a' b'
  | _, _ => false
  end.

(* bool readTimeZoneFile(const char* zonefile, Data* data) on the contents of the file *)
Definition tzif_parse (file : list byte) : tzres :=
  let c0 := mkCur 0 file in
  match readBytes (Z.to_nat readTimeZoneFile_head_len) c0 with
  | None => TzFail
  | Some (head, c1) =>
    if negb (bytes_eqb head (chars readTimeZoneFile_magic)) then TzFail
    else
      match readBytes (Z.to_nat readTimeZoneFile_version_len) c1 with
      | None => TzFail
      | Some (version, c2) =>
        match readBytes (Z.to_nat readTimeZoneFile_reserved_len) c2 with
        | None => TzFail
        | Some (_, c3) =>
          match readCounts c3 with
          | Some ([n0; n1; n2; n3; n4; n5], c4) =>
            if bytes_eqb version (chars readTimeZoneFile_v2) then
              if negb (readTimeZoneFile_skip_fits n0 n1 n2 n3 n4 n5) then TzUndefined
              else
                let c5 := skip file (readTimeZoneFile_skip n0 n1 n2 n3 n4 n5) c4 in
                match readBytes (Z.to_nat readTimeZoneFile_head2_len) c5 with
                | None => TzFail
                | Some (head2, c6) =>
                  if negb (bytes_eqb head2 (chars readTimeZoneFile_magic2)) then TzFail
                  else readDataBlock (skip file readTimeZoneFile_skip2 c6) readTimeZoneFile_v2_block_v1
                end
            else readDataBlock (skip file readTimeZoneFile_rewind c4) readTimeZoneFile_v1_block_v1
          | _ => TzFail
          end
        end
      end
  end.

(* ------------------------------------------------------------------ RFC 8536 writer (specification side) *)

Definition be32 (x : Z) : list byte := be_encode 4 x.

(* a data block with leapcnt = 0: six counts, transition times (w bytes each), transition
   types, ttinfo entries (isdst and abbrind both 0 here; [encode_block_g] below writes any
   bytes there), abbreviation characters, then the standard/wall and UT/local indicators *)
Definition encode_block (w : nat) (tb : tzdata) (abbr isstd isut : list byte) : list byte :=
  be32 (Z.of_nat (length isut)) ++ be32 (Z.of_nat (length isstd)) ++ be32 0 ++
  be32 (Z.of_nat (length (trans tb))) ++ be32 (Z.of_nat (length (offs tb))) ++ be32 (Z.of_nat (length abbr)) ++
  concat (map (fun tr => be_encode w (tutc tr)) (trans tb)) ++
  map (fun tr => byte_of_Z (Z.of_nat (tidx tr))) (trans tb) ++
  concat (map (fun o => be32 o ++ [x00; x00]) (offs tb)) ++
  abbr ++ isstd ++ isut.

Definition header (version : byte) : list byte := magic ++ [version] ++ repeat x00 15.

(* a version-1 file (also what muduo reads of any file whose version byte is not '2') *)
Definition encode_v1 (version : byte) (tb : tzdata) (abbr isstd isut tail : list byte) : list byte :=
  header version ++ encode_block 4 tb abbr isstd isut ++ tail.

(* a version-2 file: v1 header and data (any table [tb1]), second header, 64-bit data, footer *)
Definition encode_v2 (tb1 : tzdata) (abbr1 isstd1 isut1 : list byte)
                     (tb : tzdata) (abbr isstd isut footer : list byte) : list byte :=
  header x32 ++ encode_block 4 tb1 abbr1 isstd1 isut1 ++
  header x32 ++ encode_block 8 tb abbr isstd isut ++ footer.

(* ---- the general writer: every ttinfo entry carries its own isdst byte and abbreviation
   (designation) index byte, [tts] = one pair (isdst, desigidx) per local time type, in the order
   of [offs tb]; any bytes -- the reader stores them and the conversions never look at them.
   [encode_block] / [encode_v1] / [encode_v2] above are the special case of all-zero pairs
   ([tts_zero], C20_TzifProofs.encode_block_zero). *)
Definition ttinfo_bytes (ot : Z * (byte * byte)) : list byte :=
  be32 (fst ot) ++ [fst (snd ot); snd (snd ot)].

Definition encode_block_g (w : nat) (tb : tzdata) (tts : list (byte * byte)) (abbr isstd isut : list byte) : list byte :=
  be32 (Z.of_nat (length isut)) ++ be32 (Z.of_nat (length isstd)) ++ be32 0 ++
  be32 (Z.of_nat (length (trans tb))) ++ be32 (Z.of_nat (length (offs tb))) ++ be32 (Z.of_nat (length abbr)) ++
  concat (map (fun tr => be_encode w (tutc tr)) (trans tb)) ++
  map (fun tr => byte_of_Z (Z.of_nat (tidx tr))) (trans tb) ++
  concat (map ttinfo_bytes (combine (offs tb) tts)) ++
  abbr ++ isstd ++ isut.

Definition encode_v1_g (version : byte) (tb : tzdata) (tts : list (byte * byte)) (abbr isstd isut tail : list byte) : list byte :=
  header version ++ encode_block_g 4 tb tts abbr isstd isut ++ tail.

Definition encode_v2_g (tb1 : tzdata) (tts1 : list (byte * byte)) (abbr1 isstd1 isut1 : list byte)
                       (tb : tzdata) (tts : list (byte * byte)) (abbr isstd isut footer : list byte) : list byte :=
  header x32 ++ encode_block_g 4 tb1 tts1 abbr1 isstd1 isut1 ++
  header x32 ++ encode_block_g 8 tb tts abbr isstd isut ++ footer.

Definition tts_zero (tb : tzdata) : list (byte * byte) := repeat (x00, x00) (length (offs tb)).
