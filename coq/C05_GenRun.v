(* C05_GenRun: call sequences executed with the functions generated from the CURRENT
   EventLoopThreadPool.cc (Gen_C05).  Definitions only (extracted; must build when a proof breaks). *)
From Coq Require Import List.
Import ListNotations.
From Muduo Require Import C05_Model Gen_C05.

Fixpoint gen_pool_run (n next : nat) (ops : list pop) : list (option nat) * nat :=
  match ops with
  | [] => ([], next)
  | PNext :: r =>
      let '(x, next') := gen_get_next n next in
      let '(xs, fin) := gen_pool_run n next' r in (x :: xs, fin)
  | PHash h :: r =>
      let '(x, next') := gen_get_hash n next h in
      let '(xs, fin) := gen_pool_run n next' r in (x :: xs, fin)
  end.
