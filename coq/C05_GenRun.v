(* C05_GenRun: call sequences executed with the functions generated from the CURRENT
   EventLoopThreadPool.cc (Gen_C05; C integer semantics over Z).  Definitions only (extracted; must
   build when a proof breaks). *)
From Coq Require Import List ZArith.
Import ListNotations.
From Muduo Require Import C05_Model Gen_C05.

(* n = loops_.size(), next = next_ (an int), hash codes are size_t values *)
Fixpoint gen_pool_run (n next : Z) (ops : list pop) : list (option Z) * Z :=
  match ops with
  | [] => ([], next)
  | PNext :: r =>
      let '(x, next') := gen_get_next n next in
      let '(xs, fin) := gen_pool_run n next' r in (x :: xs, fin)
  | PHash h :: r =>
      let '(x, next') := gen_get_hash n next (Z.of_nat h) in
      let '(xs, fin) := gen_pool_run n next' r in (x :: xs, fin)
  end.

