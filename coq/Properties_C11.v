(* Properties_C11: transient socket faults delay service but never corrupt, wedge or leak.
   Listener side (Acceptor + sockets::accept classification, regenerated from the source),
   classification of connect errors, the interrupted poll call.  The connection-level
   statements (a fault is exactly a delay) are about Conn_Model and live in the second half. *)
From Coq Require Import List ZArith Lia Bool Arith.
From Muduo Require Import Gen_C11 C11_Model C11_Proofs.
Import ListNotations.
Local Open Scope Z_scope.

(* the accept errors the property lists are in the non-fatal class of the CURRENT source *)
Theorem C11_accept_classify :
  forallb (fun e => match accept_class e with Expected => true | Fatal => false end)
          [errno_EAGAIN; errno_ECONNABORTED; errno_EINTR; errno_EMFILE] = true.
Proof. exact listed_accept_faults_expected. Qed.
Print Assumptions C11_accept_classify.

(* EAGAIN / ECONNABORTED / EINTR / EPROTO / EPERM: nothing changes, no abort, listener stays as it was *)
Theorem C11_accept_transient : forall a e,
  dead a = false -> accept_class e = Expected -> e <> errno_EMFILE ->
  handleRead a (AErr e) = (a, []).
Proof. exact accept_transient. Qed.
Print Assumptions C11_accept_transient.

(* EMFILE with a connection pending: exactly one pending connection is accepted on the spare
   descriptor and closed, the spare descriptor is valid again, the descriptor census is unchanged *)
Theorem C11_emfile_closes_pending : forall a n,
  dead a = false -> pendq a = S n ->
  handleRead a (AErr errno_EMFILE) =
  (mkAcc n true (handed a) (S (valved a)) (open_fds a) false, [ValveClosed]).
Proof. exact emfile_closes_pending. Qed.
Print Assumptions C11_emfile_closes_pending.

(* with the shortage persisting, as many dispatches as there are pending connections empty the
   listen queue, after which a level-triggered listener is no longer ready: no spinning *)
Theorem C11_emfile_no_spin : forall a, dead a = false -> pendq (starve a (pendq a)) = O.
Proof. exact emfile_no_spin. Qed.
Print Assumptions C11_emfile_no_spin.

Theorem C11_emfile_accounting : forall a n, dead a = false ->
  pendq (starve a n) = (pendq a - n)%nat /\ dead (starve a n) = false /\
  handed (starve a n) = handed a /\ open_fds (starve a n) = open_fds a /\
  (valved (starve a n) = valved a + Nat.min n (pendq a))%nat.
Proof. exact starve_pendq. Qed.
Print Assumptions C11_emfile_accounting.

(* no transient class ever aborts or wedges the listener *)
Theorem C11_accept_never_aborts_on_transient : forall a r,
  dead a = false ->
  (match r with AOk => True | AErr e => accept_class e = Expected end) ->
  dead (fst (handleRead a r)) = false /\ ~ In Abort (snd (handleRead a r)).
Proof. exact handleRead_no_abort_on_expected. Qed.
Print Assumptions C11_accept_never_aborts_on_transient.

(* every connection that reached the listen queue ends handed over, closed by the valve, or is
   still pending: none lost, none duplicated, no descriptor leaked, for every history *)
Theorem C11_accept_conservation : forall ops a, dead a = false ->
  let a' := fst (arun a ops) in
  dead a' = false ->
  (pendq a' + handed a' + valved a' =
   pendq a + handed a + valved a + length (filter (fun o => match o with Connect => true | _ => false end) ops))%nat
  /\ open_fds a' = open_fds a.
Proof. exact conservation. Qed.
Print Assumptions C11_accept_conservation.

Theorem C11_poll_eintr : forall e, poll_iteration (PErr e) = (0%nat, true).
Proof. exact poll_fault_iterates. Qed.
Print Assumptions C11_poll_eintr.

Theorem C11_connect_classify :
  zmem errno_EINPROGRESS connect_proceed = true /\
  zmem errno_ECONNREFUSED connect_retry = true /\
  zmem errno_ENETUNREACH connect_retry = true /\
  zmem errno_EINPROGRESS connect_giveup = false /\
  zmem errno_ECONNREFUSED connect_giveup = false /\
  zmem errno_ENETUNREACH connect_giveup = false.
Proof. exact listed_connect_faults_classified. Qed.
Print Assumptions C11_connect_classify.

(* non-vacuity: a listener with two pending connections under a persisting shortage *)
Example ex_emfile :
  let a := client_connects (client_connects acc_init) in
  dead a = false /\ pendq a = 2%nat /\ pendq (starve a 2) = 0%nat /\ valved (starve a 2) = 2%nat.
Proof. vm_compute. repeat split; reflexivity. Qed.
