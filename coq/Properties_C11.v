(* Properties_C11: transient socket faults delay service but never corrupt, wedge or leak.
   Only statements, closed by [exact], each followed by Print Assumptions, and non-vacuity examples.

   Part 1 - connections (Conn_Model, the model of C01 / C03 / C13): faults at the write, readv
   and poll-event sites are ordinary environment inputs of the model ([Err e] answers to write
   calls, [EvReadErr], [EvError]), so the stream, life-cycle and notification theorems of
   Properties_C01 / C03 / C13 already quantify over every fault sequence.  What is added here:
   a fault is EXACTLY a delay (transparency), the two anchored mechanisms on single steps, and the
   errno classification of the CURRENT source (regenerated, Gen_Conn.v).
   Part 2 - the listener (C11_Model: Acceptor::handleRead over the regenerated switch table of
   sockets::accept, its EMFILE branch run statement by statement as regenerated), the
   classification of connect errors (regenerated switch of Connector::connect; the retry behaviour
   itself is C12's).
   Part 3 - the poll call of both back-ends executed from its regenerated pieces (guards AND what
   every branch does, fail closed), the body of EventLoop::loop / doPendingFunctors executed
   statement by statement, and what an interrupted poll does to the loop.
   Tie: differential execution of both models against the real classes under scripted faults,
   every faulted scenario also run as its fault-free twin (bin/check C11). *)
From Coq Require Import List ZArith Lia Bool Arith NArith.
From Coq.Strings Require Import Byte.
From Muduo Require Import Gen_Consts Gen_Conn Gen_C11 C11_Model C11_Proofs C11_ProofsLoop
                          Conn_Model Conn_Proofs Conn_Faults Conn_GenTie Conn_GenTieRead.
Import ListNotations.

(* ========================================================================================== *)
(* Part 1: a transient fault on a connection is exactly a delay                                 *)
(* ========================================================================================== *)
(* HEADLINE.  Take any history - any state c to start from - and replace every transient fault
   by the corresponding zero-progress outcome ([calm], below: a failed write of a block - empty or
   not, the user's send() is never erased - becomes a write that took 0 bytes; a failed drain, a
   failed read, an error event simply do not happen).  The calmed history is accepted, contains no
   fault, and ends in THE SAME STATE c' - every field: wire, backlog, input buffer, state, write
   and read interest, registration, functor queue (pending notifications included), half-close -
   with the same events apart from error-log lines ([quiet]).  So no byte is lost, duplicated or
   reordered, no callback is missed or repeated, nothing is wedged: whatever the fault-free
   history guarantees (Properties_C01 / C03 / C13) the faulted one does.
   [env_ok_run]: the kernel never fails a ZERO-LENGTH write with a transient error (write(fd, p, 0)
   on a socket returns 0) - neither that of a queued empty block nor the direct one of a loop-thread
   send of an empty block; see C11_empty_block_fault_visible, C11_empty_send_fault_visible. *)
Theorem C11_fault_transparent : forall ops c c' e,
  run c ops = Ok (c', e) -> env_ok_run c ops ->
  exists e', run c (flat_map calm ops) = Ok (c', e') /\ quiet e' = quiet e /\
             forallb faultless (flat_map calm ops) = true.
Proof. exact fault_transparent. Qed.
Print Assumptions C11_fault_transparent.

(* a transient kernel answer: the call failed with an errno that is not fatal for the connection
   (EAGAIN / EWOULDBLOCK, EINTR, and any other errno except EPIPE and ECONNRESET) *)
Theorem C11_transient_def : forall k, transient k = match k with Err e => negb (is_fatal e) | _ => false end.
Proof. exact transient_unfold. Qed.
Print Assumptions C11_transient_def.

Theorem C11_calm_def : forall o,
  calm o =
  match o with
  | Send d k => if transient k then [Send d (Accept 0)] else [o]
  | RunOne k => if transient k then [RunOne (Accept 0)] else [o]
  | EvWritable k => if transient k then [] else [o]
  | EvReadErr | EvError => []
  | _ => [o]
  end.
Proof. exact calm_unfold. Qed.
Print Assumptions C11_calm_def.

Theorem C11_faultless_def : forall o,
  faultless o =
  match o with
  | Send _ k | RunOne k | EvWritable k => negb (transient k)
  | EvReadErr | EvError => false
  | _ => true
  end.
Proof. exact faultless_unfold. Qed.
Print Assumptions C11_faultless_def.

Theorem C11_quiet_def : forall e,
  quiet e = filter (fun x => match x with EvErrorLogged => false | _ => true end) e.
Proof. exact quiet_unfold. Qed.
Print Assumptions C11_quiet_def.

Theorem C11_env_ok_def : forall c o,
  env_ok c o =
  match o with
  | RunOne k => match pending c with FSend _ [] :: _ => transient k = false | _ => True end
  | Send [] k => if negb (writing c) && (length (outb c) =? 0) then transient k = false else True
  | _ => True
  end.
Proof. exact env_ok_unfold. Qed.
Print Assumptions C11_env_ok_def.

Theorem C11_env_ok_run_def : forall c ops,
  env_ok_run c ops =
  match ops with
  | [] => True
  | o :: r => env_ok c o /\ match step c o with Ok (c1, _) => env_ok_run c1 r | _ => True end
  end.
Proof. exact env_ok_run_unfold. Qed.
Print Assumptions C11_env_ok_run_def.

(* the calmed history of a history is fault-free, and calming a fault-free op changes nothing *)
Theorem C11_calm_faultless : forall o, forallb faultless (calm o) = true.
Proof. exact calm_faultless. Qed.
Print Assumptions C11_calm_faultless.

Theorem C11_calm_idempotent : forall o, faultless o = true -> calm o = [o].
Proof. exact calm_idem. Qed.
Print Assumptions C11_calm_idempotent.

(* anchored mechanism 1: a failed write counts as zero bytes written unless the error is fatal.
   sendInLoop (either thread's block) queues the WHOLE block behind the backlog and arms write
   interest; nothing reaches the wire; at most the high-water callback is queued.  handleWrite
   changes nothing at all (the backlog stays queued, interest stays on). *)
Theorem C11_write_fault_keeps_backlog :
  (forall c o c' e d k p, step c o = Ok (c', e) -> send_of c o = Some (d, k, p) ->
     transient k = true -> fin c = false ->
     wire c' = wire c /\ outb c' = outb c ++ d /\ accepted c' = accepted c ++ d /\
     (d <> [] -> writing c' = true) /\
     (pending c' = p \/ exists n, pending c' = p ++ [FHighWater n])) /\
  (forall c k c' e, step c (EvWritable k) = Ok (c', e) -> transient k = true ->
     c' = c /\ quiet e = []).
Proof. exact write_fault_keeps_backlog. Qed.
Print Assumptions C11_write_fault_keeps_backlog.

(* anchored mechanism 2: a failed read, and an error event, change no field of the connection -
   not the input buffer, not the state, not the interest; they are only logged *)
Theorem C11_read_fault_untouched : forall c c' e,
  (step c EvReadErr = Ok (c', e) -> c' = c /\ e = [EvErrorLogged]) /\
  (step c EvError = Ok (c', e) -> c' = c /\ e = [EvErrorLogged]).
Proof. exact read_fault_untouched. Qed.
Print Assumptions C11_read_fault_untouched.

(* why [env_ok_run] is there: the one place where the code distinguishes a transient error from
   "nothing written" is the zero-length write of an empty block, where the error suppresses the
   write-complete callback (the callback is queued inside `if (nwrote >= 0)`) *)
Theorem C11_empty_block_fault_visible :
  exists c c1 c2 e1 e2, reach c /\
    step c (RunOne (Err EAGAIN)) = Ok (c1, e1) /\ step c (RunOne (Accept 0)) = Ok (c2, e2) /\
    pending c1 = [] /\ pending c2 = [FWriteComplete].
Proof. exact empty_block_fault_visible. Qed.
Print Assumptions C11_empty_block_fault_visible.

(* the same for the direct zero-length write of a loop-thread send of an empty block (nothing queued,
   write interest off): with Err EAGAIN no write-complete is queued, with "0 bytes taken" one is.
   Hence the [Send [] k] clause of [env_ok]; without it the theorem would be false for this history. *)
Theorem C11_empty_send_fault_visible :
  exists c c1 c2 e1 e2, reach c /\
    step c (Send [] (Err EAGAIN)) = Ok (c1, e1) /\ step c (Send [] (Accept 0)) = Ok (c2, e2) /\
    pending c1 = [] /\ pending c2 = [FWriteComplete].
Proof. exact empty_send_fault_visible. Qed.
Print Assumptions C11_empty_send_fault_visible.

(* ---- source: the errno classification of the direct write in the CURRENT sendInLoop ---------- *)
(* `errno != EWOULDBLOCK` (not logged), `errno == EPIPE || errno == ECONNRESET` (fatal: the block
   is dropped); EAGAIN is EWOULDBLOCK on this platform.  Moving an errno between the classes in
   the source breaks this theorem (and C11_sendInLoop_is_source). *)
Theorem C11_source_write_errno_classes : forall e,
  sendInLoop_fatal_test (errno_code e) = is_fatal e /\
  sendInLoop_not_wouldblock_test (errno_code e) = (match e with EAGAIN => false | _ => true end) /\
  (is_fatal e = true <-> e = EPIPE \/ e = ECONNRESET) /\
  errno_code EAGAIN = errno_EWOULDBLOCK.
Proof. exact source_write_errno_classes. Qed.
Print Assumptions C11_source_write_errno_classes.

Theorem C11_sendInLoop_is_source : forall c d k, sendInLoop_src c d k = sendInLoop c d k.
Proof. exact sendInLoop_is_source. Qed.
Print Assumptions C11_sendInLoop_is_source.

Theorem C11_handleWrite_is_source : forall c k, handleWrite_src c k = handleWrite c k.
Proof. exact handleWrite_is_source. Qed.
Print Assumptions C11_handleWrite_is_source.

(* handleRead: `n > 0` message callback / `n == 0` handleClose / else log + handleError only *)
Theorem C11_handleRead_is_source : forall c d, (rd_chan c && registered c)%bool = true ->
  (0 < length d -> step c (EvReadData d) = handleRead_src c (Z.of_nat (length d)) d) /\
  step c EvReadEOF = handleRead_src c 0 [] /\
  step c EvReadErr = handleRead_src c (-1) [].
Proof. exact handleRead_is_source. Qed.
Print Assumptions C11_handleRead_is_source.

Theorem C11_handleRead_dispatch : handleRead_dispatch = true.
Proof. exact tie_read_dispatch. Qed.
Print Assumptions C11_handleRead_dispatch.

(* ========================================================================================== *)
(* Part 2: the listener, connect, the poll call                                                 *)
(* ========================================================================================== *)
Local Open Scope Z_scope.

(* the accept errors the property lists are in the non-fatal class of the CURRENT source *)
Theorem C11_accept_classify :
  forallb (fun e => match accept_class e with Expected => true | Fatal => false end)
          [errno_EAGAIN; errno_ECONNABORTED; errno_EINTR; errno_EMFILE] = true.
Proof. exact listed_accept_faults_expected. Qed.
Print Assumptions C11_accept_classify.

(* EAGAIN / ECONNABORTED / EINTR / EPROTO / EPERM: nothing changes, no abort, listener stays as it was *)
Theorem C11_accept_transient : forall a e,
  dead a = false -> accept_class e = Expected -> e <> errno_EMFILE ->
  handleRead a (AErr e) = (a, []).
Proof. exact accept_transient. Qed.
Print Assumptions C11_accept_transient.

(* [idle_ok] (the spare descriptor idleFd_ is open on /dev/null) and [open_fds] (descriptors the
   listener holds) are COMPUTED by C11_Model.handleRead from the EMFILE branch as it stands in the
   source (acceptor_valve_protocol, regenerated; run by run_valve / valve_step, C11_valve_step_def):
     open_fds' = open_fds - [spare was open] + [spare is open] + #(descriptor numbers overwritten while open).
   So the descriptor conjuncts below are consequences of the source's statements, not constants of
   the model (REVIEW_C item 5); a dropped or misplaced close/open in the branch breaks them. *)

(* EMFILE with a connection pending: exactly one pending connection is accepted on the spare
   descriptor and closed, the spare descriptor is valid again, the descriptor census is unchanged *)
Theorem C11_emfile_closes_pending : forall a n,
  dead a = false -> idle_ok a = true -> (0 < open_fds a)%nat -> pendq a = S n ->
  handleRead a (AErr errno_EMFILE) =
  (mkAcc n true (handed a) (S (valved a)) (open_fds a) false, [ValveClosed]).
Proof. exact emfile_closes_pending. Qed.
Print Assumptions C11_emfile_closes_pending.

(* with the shortage persisting, as many dispatches as there are pending connections empty the
   listen queue, after which a level-triggered listener is no longer ready: no spinning *)
Theorem C11_emfile_no_spin : forall a, dead a = false -> idle_ok a = true /\ (0 < open_fds a)%nat ->
  pendq (starve a (pendq a)) = O.
Proof. exact emfile_no_spin. Qed.
Print Assumptions C11_emfile_no_spin.

Theorem C11_emfile_accounting : forall a n, dead a = false -> idle_ok a = true /\ (0 < open_fds a)%nat ->
  pendq (starve a n) = (pendq a - n)%nat /\ dead (starve a n) = false /\
  handed (starve a n) = handed a /\ open_fds (starve a n) = open_fds a /\
  idle_ok (starve a n) = true /\
  (valved (starve a n) = valved a + Nat.min n (pendq a))%nat.
Proof. exact starve_pendq. Qed.
Print Assumptions C11_emfile_accounting.

(* no transient class ever aborts or wedges the listener *)
Theorem C11_accept_never_aborts_on_transient : forall a r,
  dead a = false ->
  (match r with AOk => True | AErr e => accept_class e = Expected end) ->
  dead (fst (handleRead a r)) = false /\ ~ In Abort (snd (handleRead a r)).
Proof. exact handleRead_no_abort_on_expected. Qed.
Print Assumptions C11_accept_never_aborts_on_transient.

(* every connection that reached the listen queue ends handed over, closed by the valve, or is
   still pending: none lost, none duplicated; after every history the listener holds as many
   descriptors as before (none leaked) and its spare descriptor is valid - from any state in which
   the spare descriptor is valid, the initial one included (ex_emfile) *)
Theorem C11_accept_conservation : forall ops a, dead a = false -> idle_ok a = true /\ (0 < open_fds a)%nat ->
  let a' := fst (arun a ops) in
  dead a' = false ->
  (pendq a' + handed a' + valved a' =
   pendq a + handed a + valved a + length (filter (fun o => match o with Connect => true | _ => false end) ops))%nat
  /\ open_fds a' = open_fds a /\ idle_ok a' = true.
Proof. exact conservation. Qed.
Print Assumptions C11_accept_conservation.

(* connect: EINPROGRESS proceeds to watching writability; ECONNREFUSED / ENETUNREACH are in the
   retry class; none of the three is in the give-up class (regenerated switch table) *)
Theorem C11_connect_classify :
  zmem errno_EINPROGRESS connect_proceed = true /\
  zmem errno_ECONNREFUSED connect_retry = true /\
  zmem errno_ENETUNREACH connect_retry = true /\
  zmem errno_EINPROGRESS connect_giveup = false /\
  zmem errno_ECONNREFUSED connect_giveup = false /\
  zmem errno_ENETUNREACH connect_giveup = false.
Proof. exact listed_connect_faults_classified. Qed.
Print Assumptions C11_connect_classify.

(* ---- connect faults: no descriptor leak, as a theorem of C11 itself ---------------------------- *)
(* [connect_attempt e] is what Connector::connect does with the ONE socket it creates when ::connect
   leaves errno e (0 = success), read off regenerated facts: per switch group how often its body
   calls connecting(sockfd) / retry(sockfd) / sockets::close(sockfd), that retry() closes its
   argument once and unconditionally, that connecting() closes nothing and hands the descriptor to
   a new Channel with write interest.  For EVERY errno the socket is closed exactly once and not
   watched, or not closed and watched: never leaked, never closed twice.  (What happens to a
   watched socket afterwards - handleWrite / handleError, the back-off - is C12's.) *)
Theorem C11_connect_fault_no_leak : forall e,
  at_created (connect_attempt e) = 1%nat /\
  ((at_closes (connect_attempt e) = 1%nat /\ at_watched (connect_attempt e) = false) \/
   (at_closes (connect_attempt e) = 0%nat /\ at_watched (connect_attempt e) = true)).
Proof. exact connect_fault_no_leak. Qed.
Print Assumptions C11_connect_fault_no_leak.

Theorem C11_connect_attempt_def : forall e,
  connect_attempt e =
  let '(cg, rt, cl) := connect_group_of e connect_groups in
  mkAttempt connect_creates_sockets
            (cl + rt * connector_retry_closes + cg * connector_connecting_closes)
            ((0 <? cg)%nat && connector_connecting_watches)
            rt.
Proof. exact connect_attempt_unfold. Qed.
Print Assumptions C11_connect_attempt_def.

(* the listed transient classes: ECONNREFUSED / ENETUNREACH close the socket and arm one retry;
   EINPROGRESS (and EINTR, and success) is watched for writability; sockets::connect is the bare
   system call *)
Theorem C11_connect_listed_faults :
  connect_attempt errno_ECONNREFUSED = mkAttempt 1 1 false 1 /\
  connect_attempt errno_ENETUNREACH = mkAttempt 1 1 false 1 /\
  connect_attempt errno_EINPROGRESS = mkAttempt 1 0 true 0 /\
  connect_attempt errno_EINTR = mkAttempt 1 0 true 0 /\
  connect_attempt 0 = mkAttempt 1 0 true 0 /\
  sockets_connect_is_plain = true /\ connector_retry_all_closes = 1%nat.
Proof. exact connect_listed_faults. Qed.
Print Assumptions C11_connect_listed_faults.

(* ---- Acceptor: the current source, statement by statement ------------------------------------- *)
(* `connfd >= 0`, `errno == EMFILE`, `newConnectionCallback_`; no loop in handleRead and one accept
   outside the valve (one connection per dispatch, as C11_Model.handleRead); listen() enables reading
   after ::listen; the destructor disables, removes, closes the spare descriptor *)
Theorem C11_acceptor_guards :
  (forall fd, acceptor_ok_test (Z.of_nat fd) = true) /\ acceptor_ok_test (-1) = false /\
  (forall e, acceptor_emfile_test e = (e =? errno_EMFILE)) /\
  (forall b, acceptor_has_cb_test b = b) /\
  acceptor_handleRead_loops = 0%nat /\ acceptor_accepts_outside_valve = 1%nat /\
  acceptor_listen_then_enable = true /\ acceptor_dtor_closes_idle = true.
Proof. exact acceptor_guards. Qed.
Print Assumptions C11_acceptor_guards.

(* the EMFILE branch as it stands (`acceptor_valve_protocol`: 1 = ::close(idleFd_), 2 = idleFd_ =
   ::accept(listener), 3 = idleFd_ = ::open("/dev/null")) run statement by statement
   ([valve_step]: overwriting a descriptor number that is still open counts as a leak; closing the
   spare descriptor while it holds an accepted connection closes that connection): the spare
   descriptor is valid again, nothing leaked, and the listener state is the one handleRead computes.
   Dropping or reordering a statement of the branch breaks this lemma. *)
Theorem C11_valve_protocol_is_model : forall a,
  dead a = false -> idle_ok a = true -> (0 < open_fds a)%nat ->
  let v := run_valve (mkValve IdleNull (pendq a) 0 0) acceptor_valve_protocol in
  v_idle v = IdleNull /\ v_leaked v = 0%nat /\ (v_pend v + v_closed v = pendq a)%nat /\ (v_closed v <= 1)%nat /\
  fst (handleRead a (AErr errno_EMFILE)) =
    mkAcc (v_pend v) true (handed a) (valved a + v_closed v) (open_fds a) false.
Proof. exact valve_protocol_is_model. Qed.
Print Assumptions C11_valve_protocol_is_model.

Theorem C11_valve_step_def : forall v code,
  valve_step v code =
  let lost := match v_idle v with IdleClosed => 0%nat | _ => 1%nat end in
  if code =? 1 then
    mkValve IdleClosed (v_pend v) (match v_idle v with IdleConn => S (v_closed v) | _ => v_closed v end) (v_leaked v)
  else if code =? 2 then
    match v_pend v with
    | O => mkValve IdleClosed O (v_closed v) (v_leaked v + lost)
    | S n => mkValve IdleConn n (v_closed v) (v_leaked v + lost)
    end
  else if code =? 3 then mkValve IdleNull (v_pend v) (v_closed v) (v_leaked v + lost)
  else v.
Proof. exact valve_step_unfold. Qed.
Print Assumptions C11_valve_step_def.

(* ========================================================================================== *)
(* Part 3: EINTR on the poll call - the loop neither exits, aborts nor spins                      *)
(* ========================================================================================== *)
(* (rewritten 2026-10-02 after REVIEW_C item 2.)  Nothing below is a literal of the model:
   [poll_call src a k] EXECUTES EPollPoller::poll / PollPoller::poll from their regenerated pieces
   (lib/gen_C11.py, clang AST, whole function, fail closed): the three guards over the return value
   and errno, and per branch the codes of its statements - 1 = fillActiveChannels(numEvents,
   activeChannels), 2 = trace/debug/info log line, 3 = bookkeeping (events_.resize, errno =
   savedErrno), 4 = warn/error-level log line, ANYTHING ELSE (LOG_SYSFATAL / LOG_FATAL recognised
   by the Logger constructor's arguments, abort, exit, assert, return, a call or node kind the
   translator does not know) = 9, which [pstmt] executes as "the process aborts".  *)

(* the current source of both back-ends: entries are handed to the loop only when the system call
   reported some (n > 0); n == 0 and n < 0 leave the caller's list untouched and RETURN NORMALLY;
   only an errno other than EINTR is logged; no outcome aborts.  A LOG_SYSFATAL, an abort(), a
   fillActiveChannels or anything untranslatable in the n == 0 / n < 0 branches breaks this theorem. *)
Theorem C11_poll_is_source :
  (forall a k, poll_call epoll_src a k =
     if k_n k >? 0 then mkPollout (a ++ k_ready k) false false
     else if k_n k =? 0 then mkPollout a false false
     else mkPollout a (negb (k_errno k =? errno_EINTR)) false) /\
  (forall a k, poll_call ppoll_src a k =
     if k_n k >? 0 then mkPollout (a ++ k_ready k) false false
     else if k_n k =? 0 then mkPollout a false false
     else mkPollout a (negb (k_errno k =? errno_EINTR)) false).
Proof. exact poll_is_source. Qed.
Print Assumptions C11_poll_is_source.

Theorem C11_poll_call_def : forall src a k,
  poll_call src a k =
  let run := fold_left (pstmt (k_ready k)) in
  let o0 := run (ps_pro src) (mkPollout a false false) in
  if ps_some src (k_n k) then run (ps_bsome src) o0
  else if ps_none src (k_n k) then run (ps_bnone src) o0
  else run (map snd (filter (fun gc => negb (fst gc) || ps_log src (k_errno k)) (ps_berr src))) o0.
Proof. exact poll_call_unfold. Qed.
Print Assumptions C11_poll_call_def.

Theorem C11_pstmt_def : forall ready o code,
  pstmt ready o code =
  if po_aborted o then o
  else if code =? 1 then mkPollout (po_active o ++ ready) (po_errlog o) false
  else if (code =? 2) || (code =? 3) then o
  else if code =? 4 then mkPollout (po_active o) true false
  else mkPollout (po_active o) (po_errlog o) true.
Proof. exact pstmt_unfold. Qed.
Print Assumptions C11_pstmt_def.

(* REVIEW_E E-4: WHY a pass happens only when the environment gives a reason.  The loop model takes one
   environment input per pass ("the poll call returned"); that the real poll call does not return by itself
   all the time is (1) this theorem - the time-out EventLoop::loop hands to Poller::poll is the constant
   kPollTimeMs, which is positive (10 s on the pinned tree), and both back-ends hand their parameter
   `timeoutMs` to ::epoll_wait / ::poll untouched - plus (2) the kernel contract that a call with a positive
   time-out returns only for readiness, a signal or expiry.  A zero time-out (kPollTimeMs = 0, poll(0, ..),
   ::epoll_wait(.., 0)) IS the loop spinning; it breaks this theorem and the idle scenarios of bin/check C11.
   REVIEW_F F-3 (c): the OTHER arguments of the system call are regenerated too ([.._syscall_args_ok], canonical
   text in Gen_C11.v): ::epoll_wait(epollfd_, &*events_.begin(), static_cast<int>(events_.size()), timeoutMs) and
   ::poll(&*pollfds_.begin(), pollfds_.size(), timeoutMs) - the poller's own descriptor, its own array, and the
   WHOLE array as the count.  A count of 0 makes epoll_wait fail with EINVAL at once (a spin that logs every pass)
   and makes poll see no event; with these arguments [k_ready] of the model is what the kernel reports for the
   poller's registered set (what that set is: C09). *)
Theorem C11_poll_timeout_positive :
  eventloop_poll_timeout_is_kPollTimeMs = true /\ 0 < eventloop_kPollTimeMs /\
  epoll_poll_passes_timeout = true /\ ppoll_poll_passes_timeout = true /\
  epoll_poll_syscall_args_ok = true /\ ppoll_poll_syscall_args_ok = true.
Proof. exact (conj eq_refl (conj eq_refl (conj eq_refl (conj eq_refl (conj eq_refl eq_refl))))). Qed.
Print Assumptions C11_poll_timeout_positive.

(* EventLoop::loop: the condition of its while loop is `!quit_`, and its body and doPendingFunctors
   AS THEY STAND IN THE SOURCE (statement codes regenerated, anything unknown = abort), run statement
   by statement by [iter_src] / [lstmt] / [dstmt], are the loop pass [iter] of C11_Model:
   activeChannels_.clear(); poll; ++iteration_; handleEvent on EVERY active channel; then
   doPendingFunctors runs everything pending at that moment (what the handlers queued included),
   what the functors queue stays for the next pass.  No statement of the body writes quit_, breaks
   or returns (it would be code 9). *)
Theorem C11_loop_body_is_source : forall (U : Type) (hnd fnb : behaviour U) src l k,
  iter_src hnd fnb src eventloop_loop_body eventloop_doPending_body l k = iter hnd fnb src l k /\
  eventloop_while_cond_is_not_quit = true.
Proof. exact loop_body_is_source. Qed.
Print Assumptions C11_loop_body_is_source.

Theorem C11_iter_def : forall (U : Type) (hnd fnb : behaviour U) src l k,
  iter hnd fnb src l k =
  let o := poll_call src [] k in
  if po_aborted o then
    (mkL (l_user l) (l_pending l) (l_quit l) (l_iter l) (po_active o), mkIT [] [] [] (po_errlog o), true)
  else
    let '(u1, q1, x1) := run_list hnd (po_active o) (l_user l) in
    let run := l_pending l ++ q1 in
    let '(u2, q2, x2) := run_list fnb run u1 in
    (mkL u2 q2 (l_quit l || x1 || x2) (S (l_iter l)) (po_active o),
     mkIT (po_active o) run (q1 ++ q2) (po_errlog o), false).
Proof. exact iter_unfold. Qed.
Print Assumptions C11_iter_def.

(* `while (!quit_) { pass }`, one environment input per pass: what other threads did while the loop
   thread was blocked (queueInLoop / quit) and how the poll call returned *)
Theorem C11_loop_run_def : forall (U : Type) (hnd fnb : behaviour U) src l ins,
  loop_run hnd fnb src l ins =
  match ins with
  | [] => (l, [], false)
  | (xs, k) :: rest =>
      if l_quit l then (l, [], false)
      else
        let l1 := fold_left apply_ext xs l in
        let '(l2, t, ab) := iter hnd fnb src l1 k in
        let t' := mkIT (t_disp t) (t_ran t) (ext_queued xs ++ t_queued t) (t_errlog t) in
        if ab then (l2, [t'], true)
        else let '(l3, ts, ab') := loop_run hnd fnb src l2 rest in (l3, t' :: ts, ab')
  end.
Proof. exact loop_run_unfold. Qed.
Print Assumptions C11_loop_run_def.

(* HEADLINE of part 3.  A pass whose poll call was interrupted (errno e; EINTR or any other
   failure), under either current back-end, from ANY loop state: no channel is dispatched; every
   pending functor still runs, in order (doPendingFunctors is not skipped); quit_ is set only if one
   of those functors called quit() - the failed poll itself never ends the loop; the pass counts as
   one iteration; nothing aborts; EINTR is silent (other errnos log one line). *)
Theorem C11_poll_eintr : forall (U : Type) (hnd fnb : behaviour U) src,
  src = epoll_src \/ src = ppoll_src ->
  forall l e ready,
  iter hnd fnb src l (k_intr e ready) =
  let '(u, q, x) := run_list fnb (l_pending l) (l_user l) in
  (mkL u q (l_quit l || x) (S (l_iter l)) [],
   mkIT [] (l_pending l) q (negb (e =? errno_EINTR)), false).
Proof. exact poll_eintr. Qed.
Print Assumptions C11_poll_eintr.

(* faults are a delay: in EVERY run, replacing each failed poll call by one that timed out
   ([calm_in]: return value 0 - the fault-free way of "nothing happened yet") gives the same final
   state and the same passes (dispatches, functor runs, queueings), apart from the error-log flag;
   neither run aborts *)
Theorem C11_interrupted_poll_is_a_delay : forall (U : Type) (hnd fnb : behaviour U) src,
  src = epoll_src \/ src = ppoll_src ->
  forall ins l,
  let '(l1, ts1, ab1) := loop_run hnd fnb src l ins in
  let '(l2, ts2, ab2) := loop_run hnd fnb src l (map calm_in ins) in
  l2 = l1 /\ map quiet_t ts2 = map quiet_t ts1 /\ ab1 = false /\ ab2 = false.
Proof. exact interrupted_poll_is_a_delay. Qed.
Print Assumptions C11_interrupted_poll_is_a_delay.

(* a finite burst of interrupted polls on a loop with nothing pending that nobody touches meanwhile,
   followed by ANY pass (normal or not, with whatever other threads did before it): exactly the
   final state, dispatches and functor runs of that pass alone; iteration_ is larger by the length
   of the burst and every pass of the burst is empty: iteration count = k + 1 *)
Theorem C11_interrupt_burst_then_normal : forall (U : Type) (hnd fnb : behaviour U) src,
  src = epoll_src \/ src = ppoll_src ->
  forall (errs : list (Z * list nat)) l xs k, l_pending l = [] -> l_quit l = false ->
  loop_run hnd fnb src l (map (fun er => ([], k_intr (fst er) (snd er))) errs ++ [(xs, k)]) =
  let '(l', ts, ab) := loop_run hnd fnb src l [(xs, k)] in
  (mkL (l_user l') (l_pending l') (l_quit l') (length errs + l_iter l') (l_active l'),
   map (fun er => mkIT [] [] [] (negb (fst er =? errno_EINTR))) errs ++ ts, ab).
Proof. exact interrupt_burst_then_normal. Qed.
Print Assumptions C11_interrupt_burst_then_normal.

(* no spinning - what the model can and cannot say (REVIEW_E E-4).  [loop_run] makes ONE pass per environment
   input, by construction (it recurses on the input list): "no pass without a return of the poll call, one pass
   per return" is the modelling of `while (!quit_) { ..poll..; }` whose tie to the source is
   C11_loop_body_is_source (exactly one poll call per pass).  It does NOT say how often the poll call returns:
   that is C11_poll_timeout_positive + the kernel (a positive time-out returns only for readiness, a signal,
   expiry).  What IS a theorem about the loop's own contribution:
   (1) An idle loop hit by k interrupts is afterwards exactly where it was - same user
   state, nothing pending, quit_ clear - with iteration_ + k: an interrupted pass leaves nothing behind
   (no functor, no wake-up, no change of anything a callback acts on) that could make the loop go round
   again by itself; every further pass needs a further return of the poll call, i.e. a further
   signal delivery by the environment.  (2) in EVERY run the number of passes is at most the number
   of environment inputs and iteration_ advances by exactly that number (part of the next theorem). *)
Theorem C11_poll_eintr_no_spin : forall (U : Type) (hnd fnb : behaviour U) src,
  src = epoll_src \/ src = ppoll_src ->
  forall (errs : list (Z * list nat)) l, l_pending l = [] -> l_quit l = false -> errs <> [] ->
  loop_run hnd fnb src l (map (fun er => ([], k_intr (fst er) (snd er))) errs) =
  (mkL (l_user l) [] false (length errs + l_iter l) [],
   map (fun er => mkIT [] [] [] (negb (fst er =? errno_EINTR))) errs, false).
Proof. exact poll_eintr_no_spin. Qed.
Print Assumptions C11_poll_eintr_no_spin.

(* EVERY run - interrupted polls anywhere, in any number, other threads queueing in between:
   tasks: the functors run, in order, followed by those still pending are exactly those pending at
   the start followed by all that were queued, in queueing order (none lost, duplicated, reordered);
   events: the channels dispatched are exactly the entries reported by the successful poll calls
   (a failed call contributes none, none is dispatched twice);
   iteration_ advances by the number of passes; the loop stops before the inputs are used up only with
   quit_ set; nothing aborts.  ([length ts <= length ins] is structural - one pass per environment input, see
   the comment of C11_poll_eintr_no_spin; it is stated for completeness, not as evidence against spinning.) *)
Theorem C11_loop_conservation : forall (U : Type) (hnd fnb : behaviour U) src,
  src = epoll_src \/ src = ppoll_src ->
  forall ins l,
  let '(l', ts, ab) := loop_run hnd fnb src l ins in
  concat (map t_ran ts) ++ l_pending l' = l_pending l ++ concat (map t_queued ts) /\
  concat (map t_disp ts) =
    concat (map (fun i => if k_n (snd i) >? 0 then k_ready (snd i) else []) (firstn (length ts) ins)) /\
  l_iter l' = (l_iter l + length ts)%nat /\ (length ts <= length ins)%nat /\
  ((length ts < length ins)%nat -> l_quit l' = true) /\ ab = false.
Proof. exact loop_conservation_current. Qed.
Print Assumptions C11_loop_conservation.

Theorem C11_calm_in_def : forall i,
  calm_in i = (fst i, if k_n (snd i) <? 0 then mkKans 0 0 [] else snd i).
Proof. exact calm_in_unfold. Qed.
Print Assumptions C11_calm_in_def.

(* ========================================================================================== *)
(* Non-vacuity                                                                                  *)
(* ========================================================================================== *)
(* a listener with two pending connections under a persisting shortage *)
Example ex_emfile :
  let a := client_connects (client_connects acc_init) in
  dead a = false /\ idle_ok a = true /\ open_fds a = 2%nat /\ pendq a = 2%nat /\
  pendq (starve a 2) = 0%nat /\ valved (starve a 2) = 2%nat /\ open_fds (starve a 2) = 2%nat.
Proof. vm_compute. repeat split; reflexivity. Qed.

(* the loop: channel 1's handler queues functor 5, functor 10 queues functor 0, functor 99 quits.
   Two interrupted polls, another thread queueing functor 10 during the second; then a normal poll
   reporting channels 1 and 2; a time-out; functor 99 from another thread; a last input that is not
   used any more.  The hypotheses of the theorems of part 3 hold (start: nothing pending, quit_
   clear) and every kind of pass occurs *)
Example ex_loop :
  let hnd : behaviour nat := fun c u => (u + 1, if Nat.eqb c 1 then [5] else [], false)%nat in
  let fnb : behaviour nat := fun f u => (u + 10, if Nat.eqb f 10 then [0%nat] else [], Nat.eqb f 99)%nat in
  loop_run hnd fnb epoll_src (mkL 0%nat [] false 0 [])
    [ ([], k_intr errno_EINTR [7%nat]); ([XQueue 10], k_intr errno_EINTR []);
      ([], mkKans 2 0 [1%nat; 2%nat]); ([], k_timeout); ([XQueue 99], mkKans 1 0 []); ([XQueue 3], k_timeout) ] =
  (mkL 42%nat [] true 5 [],
   [ mkIT [] [] [] false; mkIT [] [10%nat] [10%nat; 0%nat] false; mkIT [1%nat; 2%nat] [0%nat; 5%nat] [5%nat] false;
     mkIT [] [] [] false; mkIT [] [99%nat] [99%nat] false ], false).
Proof. vm_compute. reflexivity. Qed.

(* a history with faults at every injection site of a connection and its calmed version: both
   are accepted, end in the same state, and the hypothesis of the transparency theorem holds *)
Example ex_faulty_twin :
  flat_map calm ex_faulty =
  [ Establish; Send [x61; x62; x63] (Accept 0); FSendCheck 2; FSendEnq 2 [x64];
    RunOne (Accept 0); EvWritable (Accept 2); Send [] (Accept 0); EvWritable AcceptAll; RunOne (Accept 0);
    RunOne AcceptAll ] /\
  exists c e e', run (init 4%N true true) ex_faulty = Ok (c, e) /\
    run (init 4%N true true) (flat_map calm ex_faulty) = Ok (c, e') /\
    wire c = [x61; x62; x63; x64] /\ outb c = [] /\
    quiet e = [EvUp; EvHWM 4; EvWC] /\ quiet e' = [EvUp; EvHWM 4; EvWC] /\
    env_ok_run (init 4%N true true) ex_faulty.
Proof. split; [reflexivity|]. vm_compute. eexists _, _, _. repeat split. Qed.

(* ========================================================================================== *)
(* errno is captured before the log statement (finding F-27, fixed in /repo).  Kept LAST in this file:  *)
(* on a tree without the fix only this statement stops checking.                                  *)
(* ========================================================================================== *)
(* Acceptor::handleRead classifies by `== EMFILE`, sendInLoop by `!= EWOULDBLOCK` and `== EPIPE || == ECONNRESET`;
   both paths log (LOG_SYSERR) and the logger's output function may change errno.  Regenerated (clang AST,
   lib/errno_order.py): no log statement lies on the path between the failing system call and the point where the
   tested value is captured (a single-assignment copy `int savedErrno = errno;` taken before the LOG_SYSERR, or a
   direct read of errno before it).  A local copy of errno is canonicalised to `errno` in the guards above
   (acceptor_emfile_test, sendInLoop_fatal_test), so the guards say WHICH value is compared and this theorem
   says WHEN it is taken - which is what entitles the models to use one errno for both tests of a path.
   Reverting the fix makes both facts false (and the clobbering-sink cases of bin/check C11 fail).
   Since REVIEW_E E-6 the two facts are false for ANY call / constructor / new / delete other than
   __errno_location() on that path (a `::close(-1)` before the copy, a helper that logs), not only for a log
   statement.  They are intra-procedural; the two callees between ::accept4 and Acceptor::handleRead are covered
   one level each: sockets::accept copies errno right after ::accept4, each of its non-fatal switch groups is
   exactly `errno = savedErrno; break;`, these are the only stores to errno in the function, and EVERY statement
   that follows the switch - inside `if (connfd < 0)` and after it, up to the final `return` - is free of calls,
   constructions and stores to errno (REVIEW_F F-3 a; its own LOG_SYSERR sits between the copy and the switch);
   Socket::accept makes no call and no store to errno on the failure path.  In all facts a STORE to errno
   (`errno = 0;`) on the path counts like a call (REVIEW_F F-3 b).  Anything deeper (what the kernel wrappers of libc
   do, inlined helpers in other translation units) is residue. *)
Theorem C11_errno_captured_before_log :
  Acceptor_handleRead_tests_saved_errno = true /\ sendInLoop_tests_saved_errno = true /\
  sockets_accept_restores_errno = true /\ Socket_accept_keeps_errno = true.
Proof. exact (conj eq_refl (conj eq_refl (conj eq_refl eq_refl))). Qed.
Print Assumptions C11_errno_captured_before_log.
