(* C05_Model: (1) EventLoopThread (start-up handshake, destructor) as a layer over the LoopModel
   of C04_Model (the quit flag / wake-up descriptor / loop() of EventLoop.cc are modelled there);
   (2) EventLoopThreadPool::getNextLoop / getLoopForHash as pure functions.
   Executable, total, no proofs.

   EventLoopThread (EventLoopThread.cc).  Two threads:
     owner : startLoop()  = Thread::start() [pthread_create; wait until the child has published its
                            tid]; { lock; while (loop_ == NULL) cond_.wait(); loop = loop_; unlock }
             user code    = calls of queueInLoop / runInLoop / quit on the returned loop
             ~EventLoopThread = exiting_ = true; if (loop_ != NULL) [unlocked read]
                                { loop_->quit(); thread_.join(); }
     child : threadFunc() = EventLoop loop; callback_(&loop); { lock; loop_ = &loop; notify; unlock }
                            loop.loop(); { lock; loop_ = NULL; unlock } ~EventLoop; exit
   The embedded LoopModel state `ls` has the child as its loop thread; the owner's user code is its
   foreign thread 0 and the destructor's quit() its foreign thread 1 (both executed by the owner).
   `alive` tracks the lifetime of the stack-allocated EventLoop; a step of the owner on the loop
   while alive = false is a use of a destroyed object (uaf_user / uaf_dtor).
   The parts of EventLoopThread.cc that the theorems depend on are the `eshape`, regenerated from
   the current source by lib/gen_C05.py. *)
From Coq Require Import List Bool Arith ZArith.
Import ListNotations.
From Muduo Require Import C04_Model.

(* C integer semantics used by the functions generated from EventLoopThreadPool.cc (lib/gen_C05.py):
   `int` arithmetic wraps in two's complement (what the compiled code does; gcc -fwrapv), a
   conversion to size_t is reduction modulo 2^64 *)
Definition wrap32 (z : Z) : Z := ((z + 2147483648) mod 4294967296 - 2147483648)%Z.
Definition to_size (z : Z) : Z := (z mod 18446744073709551616)%Z.

Record eshape := mkEShape {
  tf_notifies : bool;     (* threadFunc: cond_.notify()/notifyAll() after loop_ = &loop, under the mutex *)
  sl_while : bool;        (* startLoop: the wait is in a `while (loop_ == NULL)` (false: an `if`) *)
  dtor_quits : bool;      (* ~EventLoopThread: loop_->quit() when loop_ != NULL *)
  dtor_joins : bool;      (* ~EventLoopThread: thread_.join() after it *)
  tf_clears : bool }.     (* threadFunc: { lock; loop_ = NULL; } after loop.loop() returned *)

Definition pinned_eshape : eshape := mkEShape true true true true true.

Inductive opc :=
| OInit      (* before startLoop() *)
| OLatch     (* Thread::start(): child created, waiting for its tid (CountDownLatch) *)
| OLock      (* startLoop: before MutexLockGuard lock(mutex_) *)
| OTest      (* holding mutex_: loop_ == NULL ? *)
| OWait      (* inside cond_.wait(): mutex released, in the wait set or signalled *)
| OUnlock    (* loop = loop_ taken; before the unlock *)
| OUser      (* startLoop() returned; user code on the loop *)
| ODtor      (* ~EventLoopThread: exiting_ = true; before the unlocked read of loop_ *)
| OQuit      (* loop_ was non-null: inside loop_->quit() *)
| OJoin      (* thread_.join() *)
| ODone.

Inductive cpc :=
| CNone      (* not created *)
| CStart     (* running; before the tid is published / the latch counted down *)
| CCons      (* before `EventLoop loop;` *)
| CCallback  (* callback_(&loop) *)
| CLock1 | CPublish | CUnlock1
| CLoop      (* loop.loop() *)
| CLock2 | CClear | CUnlock2
| CDestroy   (* ~EventLoop of the stack object *)
| CExited.

Record elt := mkElt {
  ls : st;                 (* the loop (C04_Model) *)
  eo : opc; ec : cpc;
  ptr : bool;              (* loop_ != NULL *)
  got : option bool;       (* startLoop()'s result, once taken: is it non-null *)
  alive : bool;            (* the stack EventLoop exists *)
  mtx : option bool;       (* holder of mutex_: Some true = owner, Some false = child *)
  signalled : bool;        (* the owner's wait has been ended (notify / spurious); it needs the mutex *)
  tidpub : bool;           (* the child has published its tid (Thread::start may return) *)
  uaf_user : bool;         (* user code touched the loop after it was destroyed *)
  uaf_dtor : bool }.       (* the destructor's quit() touched the loop after it was destroyed *)

Inductive elabel :=
| EO         (* next step of the owner *)
| EC         (* next step of the child *)
| ECRead     (* child, inside loop(): handleRead() of the wake-up channel *)
| ESpur.     (* spurious wake-up of the owner's cond_.wait() *)

Definition with_ls (e : elt) (l : st) : elt :=
  mkElt l (eo e) (ec e) (ptr e) (got e) (alive e) (mtx e) (signalled e) (tidpub e) (uaf_user e) (uaf_dtor e).
Definition with_eo (e : elt) (o : opc) : elt :=
  mkElt (ls e) o (ec e) (ptr e) (got e) (alive e) (mtx e) (signalled e) (tidpub e) (uaf_user e) (uaf_dtor e).
Definition with_ec (e : elt) (c : cpc) : elt :=
  mkElt (ls e) (eo e) c (ptr e) (got e) (alive e) (mtx e) (signalled e) (tidpub e) (uaf_user e) (uaf_dtor e).
Definition with_mtx (e : elt) (m : option bool) : elt :=
  mkElt (ls e) (eo e) (ec e) (ptr e) (got e) (alive e) m (signalled e) (tidpub e) (uaf_user e) (uaf_dtor e).

Definition fcode_at (l : st) (i : nat) : list mop := nth i (fcode l) [].
Definition mtx_free (e : elt) : bool := match mtx e with None => true | Some _ => false end.

Definition owner_step (es : eshape) (sh : shape) (scr : scripts) (e : elt) : option elt :=
  match eo e with
  | OInit =>
      match ec e with
      | CNone => Some (with_ec (with_eo e OLatch) CStart)
      | _ => None
      end
  | OLatch => if tidpub e then Some (with_eo e OLock) else None
  | OLock => if mtx_free e then Some (with_mtx (with_eo e OTest) (Some true)) else None
  | OTest =>
      if ptr e
      then Some (mkElt (ls e) OUnlock (ec e) (ptr e) (Some (ptr e)) (alive e) (mtx e) (signalled e) (tidpub e)
                       (uaf_user e) (uaf_dtor e))
      else Some (mkElt (ls e) OWait (ec e) (ptr e) (got e) (alive e) None false (tidpub e) (uaf_user e) (uaf_dtor e))
  | OWait =>
      if signalled e && mtx_free e
      then if sl_while es
           then Some (mkElt (ls e) OTest (ec e) (ptr e) (got e) (alive e) (Some true) false (tidpub e)
                            (uaf_user e) (uaf_dtor e))
           else Some (mkElt (ls e) OUnlock (ec e) (ptr e) (Some (ptr e)) (alive e) (Some true) false (tidpub e)
                            (uaf_user e) (uaf_dtor e))
      else None
  | OUnlock => Some (with_mtx (with_eo e OUser) None)
  | OUser =>
      match fcode_at (ls e) 0 with
      | [] => Some (with_eo e ODtor)
      | _ :: _ =>
          match step sh scr (ls e) (TF 0) with
          | Some l' =>
              Some (mkElt l' (eo e) (ec e) (ptr e) (got e) (alive e) (mtx e) (signalled e) (tidpub e)
                          (uaf_user e || negb (alive e)) (uaf_dtor e))
          | None => None
          end
      end
  | ODtor =>    (* exiting_ = true; if (loop_ != NULL)  -- read without the mutex *)
      if ptr e
      then (if dtor_quits es then Some (with_eo e OQuit) else Some (with_eo e (if dtor_joins es then OJoin else ODone)))
      else Some (with_eo e ODone)
  | OQuit =>
      match fcode_at (ls e) 1 with
      | [] => Some (with_eo e (if dtor_joins es then OJoin else ODone))
      | _ :: _ =>
          match step sh scr (ls e) (TF 1) with
          | Some l' =>
              Some (mkElt l' (eo e) (ec e) (ptr e) (got e) (alive e) (mtx e) (signalled e) (tidpub e)
                          (uaf_user e) (uaf_dtor e || negb (alive e)))
          | None => None
          end
      end
  | OJoin => match ec e with CExited => Some (with_eo e ODone) | _ => None end
  | ODone => None
  end.

Definition child_step (es : eshape) (sh : shape) (scr : scripts) (e : elt) : option elt :=
  match ec e with
  | CNone => None
  | CStart =>
      Some (mkElt (ls e) (eo e) CCons (ptr e) (got e) (alive e) (mtx e) (signalled e) true (uaf_user e) (uaf_dtor e))
  | CCons =>
      Some (mkElt (ls e) (eo e) CCallback (ptr e) (got e) true (mtx e) (signalled e) (tidpub e) (uaf_user e) (uaf_dtor e))
  | CCallback =>
      match pc (ls e), lcode (ls e) with
      | LPre, _ :: _ =>
          match step sh scr (ls e) TLoop with Some l' => Some (with_ls e l') | None => None end
      | _, _ => Some (with_ec e CLock1)
      end
  | CLock1 => if mtx_free e then Some (with_mtx (with_ec e CPublish) (Some false)) else None
  | CPublish =>   (* loop_ = &loop; cond_.notify() *)
      Some (mkElt (ls e) (eo e) CUnlock1 true (got e) (alive e) (mtx e)
                  (signalled e || (tf_notifies es && match eo e with OWait => true | _ => false end))
                  (tidpub e) (uaf_user e) (uaf_dtor e))
  | CUnlock1 => Some (with_mtx (with_ec e CLoop) None)
  | CLoop =>
      match pc (ls e), lnext (ls e) with
      | LDone, [] => Some (with_ec e (if tf_clears es then CLock2 else CDestroy))
      | _, _ => match step sh scr (ls e) TLoop with Some l' => Some (with_ls e l') | None => None end
      end
  | CLock2 => if mtx_free e then Some (with_mtx (with_ec e CClear) (Some false)) else None
  | CClear =>
      Some (mkElt (ls e) (eo e) CUnlock2 false (got e) (alive e) (mtx e) (signalled e) (tidpub e) (uaf_user e) (uaf_dtor e))
  | CUnlock2 => Some (with_mtx (with_ec e CDestroy) None)
  | CDestroy =>
      Some (mkElt (ls e) (eo e) CExited (ptr e) (got e) false (mtx e) (signalled e) (tidpub e) (uaf_user e) (uaf_dtor e))
  | CExited => None
  end.

Definition estep (es : eshape) (sh : shape) (scr : scripts) (e : elt) (lab : elabel) : option elt :=
  match lab with
  | EO => owner_step es sh scr e
  | EC => child_step es sh scr e
  | ECRead =>
      match ec e with
      | CLoop => match step sh scr (ls e) TRead with Some l' => Some (with_ls e l') | None => None end
      | _ => None
      end
  | ESpur =>
      match eo e with
      | OWait =>
          if signalled e then None
          else Some (mkElt (ls e) (eo e) (ec e) (ptr e) (got e) (alive e) (mtx e) true (tidpub e) (uaf_user e) (uaf_dtor e))
      | _ => None
      end
  end.

(* cb = what the thread-init callback does with the loop; uacts = the owner's calls on the loop
   between startLoop() and the destruction of the EventLoopThread *)
Definition einit (cb : list act) (uacts : list act) : elt :=
  mkElt (init cb [] [uacts; [AQuit]]) OInit CNone false None false None false false false false.

Fixpoint erun (es : eshape) (sh : shape) (scr : scripts) (e : elt) (labs : list elabel) : option elt :=
  match labs with
  | [] => Some e
  | l :: r => match estep es sh scr e l with Some e' => erun es sh scr e' r | None => None end
  end.

Definition enabled_any (es : eshape) (sh : shape) (scr : scripts) (e : elt) : bool :=
  match estep es sh scr e EO, estep es sh scr e EC, estep es sh scr e ECRead with
  | None, None, None => false
  | _, _, _ => true
  end.

(* ------------------------------------------------------------------ EventLoopThreadPool *)
(* loops_ = [0; 1; ...; n-1] (indices of the N loops created by start()); None = baseLoop_.
   The three tests are parameters; lib/gen_C05.py regenerates them from EventLoopThreadPool.cc:
     pool_nonempty n     : !loops_.empty()
     pool_wrap next n    : implicit_cast<size_t>(next_) >= loops_.size()   (after ++next_)
     pool_hash_index h n : hashCode % loops_.size() *)
Record pshape := mkPShape {
  p_nonempty : nat -> bool;
  p_wrap : nat -> nat -> bool;
  p_hash : nat -> nat -> nat }.

Definition pinned_pshape : pshape :=
  mkPShape (fun n => negb (n =? 0)) (fun next n => n <=? next) (fun h n => h mod n).

(* getNextLoop: result and new value of next_ *)
Definition get_next (ps : pshape) (n next : nat) : option nat * nat :=
  if p_nonempty ps n
  then (Some next, if p_wrap ps (S next) n then 0 else S next)
  else (None, next).

Definition get_hash (ps : pshape) (n h : nat) : option nat :=
  if p_nonempty ps n then Some (p_hash ps h n) else None.

Inductive pop := PNext | PHash (h : nat).

(* run a sequence of calls from cursor `next`; results in call order *)
Fixpoint pool_run (ps : pshape) (n next : nat) (ops : list pop) : list (option nat) * nat :=
  match ops with
  | [] => ([], next)
  | PNext :: r =>
      let '(x, next') := get_next ps n next in
      let '(xs, fin) := pool_run ps n next' r in (x :: xs, fin)
  | PHash h :: r =>
      let '(xs, fin) := pool_run ps n next r in (get_hash ps n h :: xs, fin)
  end.
