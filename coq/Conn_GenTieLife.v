(* Conn_GenTieLife: the life-cycle entry points of TcpConnection.cc as they stand in /repo NOW
   (send's state test, shutdown, forceClose, forceCloseWithDelay, forceCloseInLoop, handleClose's
   and connectEstablished's asserts, connectDestroyed), tied to Conn_Model.  Same scheme as
   Conn_GenTie: every guard of Gen_Conn.v equals the model's test, and each model step is equal
   to the step re-assembled from the generated guards.  The structure facts at the end record
   which reference each queued functor holds (they are what the model's [FSend t d] = "owns a
   copy of d", [FForceClose] = "strong reference", [delayed] = "weak reference" stand for). *)
From Coq Require Import List ZArith Lia Bool Arith NArith.
From Coq.Strings Require Import Byte.
From Muduo Require Import Gen_Consts Gen_Conn Conn_Model Conn_GenTie.
Import ListNotations.

Lemma closable_code c :
  ((st_code (st c) =? TcpConnection_kConnected)%Z || (st_code (st c) =? TcpConnection_kDisconnecting)%Z)%bool = closable c.
Proof.
  unfold closable.
  change TcpConnection_kConnected with (st_code Connected).
  change TcpConnection_kDisconnecting with (st_code Disconnecting).
  rewrite !st_code_eqb. reflexivity.
Qed.

(* ---- guards -------------------------------------------------------------------------------- *)
Lemma tie_send_sp_state_test c :
  send_sp_state_test TcpConnection_kConnected (st_code (st c)) = cstate_eqb (st c) Connected.
Proof. unfold send_sp_state_test. apply (st_code_eqb (st c) Connected). Qed.

Lemma tie_send_buf_state_test c :
  send_buf_state_test TcpConnection_kConnected (st_code (st c)) = cstate_eqb (st c) Connected.
Proof. unfold send_buf_state_test. apply (st_code_eqb (st c) Connected). Qed.

Lemma tie_send_inloop_tests (b : bool) : send_sp_inloop_test b = b /\ send_buf_inloop_test b = b.
Proof. split; reflexivity. Qed.

Lemma tie_shutdown_state_test c :
  shutdown_state_test TcpConnection_kConnected (st_code (st c)) = cstate_eqb (st c) Connected.
Proof. unfold shutdown_state_test. apply (st_code_eqb (st c) Connected). Qed.

Lemma tie_forceClose_state_test c :
  forceClose_state_test TcpConnection_kConnected TcpConnection_kDisconnecting (st_code (st c)) = closable c.
Proof. unfold forceClose_state_test. apply closable_code. Qed.

Lemma tie_forceCloseWithDelay_state_test c :
  forceCloseWithDelay_state_test TcpConnection_kConnected TcpConnection_kDisconnecting (st_code (st c)) = closable c.
Proof. unfold forceCloseWithDelay_state_test. apply closable_code. Qed.

Lemma tie_forceclose_state_test c :
  forceCloseInLoop_forceclose_state_test TcpConnection_kConnected TcpConnection_kDisconnecting (st_code (st c)) = closable c.
Proof. unfold forceCloseInLoop_forceclose_state_test. apply closable_code. Qed.

Lemma tie_destroy_state_test c :
  connectDestroyed_destroy_state_test TcpConnection_kConnected TcpConnection_kDisconnecting (st_code (st c)) = closable c.
Proof. unfold connectDestroyed_destroy_state_test. apply closable_code. Qed.

Lemma tie_handleClose_assert c :
  handleClose_assert_test TcpConnection_kConnected TcpConnection_kDisconnecting (st_code (st c)) = closable c.
Proof. unfold handleClose_assert_test. apply closable_code. Qed.

Lemma tie_connectEstablished_assert c :
  connectEstablished_assert_test TcpConnection_kConnecting (st_code (st c)) = cstate_eqb (st c) Connecting.
Proof. unfold connectEstablished_assert_test. apply (st_code_eqb (st c) Connecting). Qed.

(* ---- steps re-assembled from the generated guards ------------------------------------------ *)
Lemma not_connecting c : st c <> Connecting -> cstate_eqb (st c) Connecting = false.
Proof. destruct (st c); intros H; try reflexivity. contradiction. Qed.

(* send() on the loop thread: if (state_ == kConnected) { if (isInLoopThread()) sendInLoop(...) } *)
Theorem send_is_source : forall c d k, st c <> Connecting ->
  step c (Send d k) =
  Ok (if send_sp_state_test TcpConnection_kConnected (st_code (st c))
      then (if send_sp_inloop_test true then sendInLoop_src c d k else (c, []))
      else (c, [])).
Proof.
  intros c d k Hc. unfold step. cbn [user_op andb]. rewrite (not_connecting c Hc).
  rewrite tie_send_sp_state_test, sendInLoop_is_source. cbn [send_sp_inloop_test].
  destruct (cstate_eqb (st c) Connected); reflexivity.
Qed.

(* send() on a foreign thread: the unsynchronised test, then (if it passed and not in the loop
   thread) the functor is queued *)
Theorem foreign_send_is_source : forall c t d, st c <> Connecting ->
  (exists c', step c (FSendCheck t) = Ok (c', []) /\
     chk c' = (t, send_sp_state_test TcpConnection_kConnected (st_code (st c))) :: chk c /\
     pending c' = pending c /\ st c' = st c /\ outb c' = outb c /\ wire c' = wire c) /\
  (exists c', step c (FSendEnq t d) = Ok (c', []) /\
     pending c' = (if lookup t (chk c) then (if send_sp_inloop_test false then pending c else pending c ++ [FSend t d])
                   else pending c)).
Proof.
  intros c t d Hc. split.
  - unfold step. cbn [user_op andb]. rewrite (not_connecting c Hc), tie_send_sp_state_test.
    eexists. split; [reflexivity|]. cbn. auto 6.
  - unfold step. cbn [user_op andb]. rewrite (not_connecting c Hc). cbn [send_sp_inloop_test].
    destruct (lookup t (chk c)); eexists; split; reflexivity.
Qed.

(* shutdown(): if (state_ == kConnected) { setState(kDisconnecting); runInLoop(shutdownInLoop) } *)
Theorem shutdown_is_source : forall c, st c <> Connecting ->
  step c Shutdown =
    Ok (if shutdown_state_test TcpConnection_kConnected (st_code (st c))
        then shutdownInLoop_src (set_st c Disconnecting) else (c, [])) /\
  step c XShutdown =
    Ok (if shutdown_state_test TcpConnection_kConnected (st_code (st c))
        then (set_pending (set_st c Disconnecting) (pending c ++ [FShutdown]), []) else (c, [])).
Proof.
  intros c Hc. unfold step. cbn [user_op andb]. rewrite (not_connecting c Hc), tie_shutdown_state_test,
    shutdownInLoop_is_source.
  destruct (cstate_eqb (st c) Connected); split; reflexivity.
Qed.

(* forceClose(): if (state_ == kConnected || state_ == kDisconnecting) { setState(kDisconnecting);
   queueInLoop(forceCloseInLoop) }, and the same test in forceCloseWithDelay / forceCloseInLoop *)
Theorem forceClose_is_source : forall c,
  forceClose c =
  (if forceClose_state_test TcpConnection_kConnected TcpConnection_kDisconnecting (st_code (st c))
   then set_pending (set_st c Disconnecting) (pending c ++ [FForceClose]) else c) /\
  forceCloseInLoop c =
  (if forceCloseInLoop_forceclose_state_test TcpConnection_kConnected TcpConnection_kDisconnecting (st_code (st c))
   then handleClose c else (c, [])) /\
  handleCloseChecked c =
  (if handleClose_assert_test TcpConnection_kConnected TcpConnection_kDisconnecting (st_code (st c))
   then Ok (handleClose c) else Fault).
Proof.
  intros c. unfold forceClose, forceCloseInLoop, handleCloseChecked.
  rewrite tie_forceClose_state_test, tie_forceclose_state_test, tie_handleClose_assert. auto.
Qed.

Theorem forceCloseWithDelay_is_source : forall c, st c <> Connecting ->
  exists c', step c ForceCloseDelay = Ok (c', []) /\
    st c' = (if forceCloseWithDelay_state_test TcpConnection_kConnected TcpConnection_kDisconnecting (st_code (st c))
             then Disconnecting else st c) /\
    delayed c' = (if forceCloseWithDelay_state_test TcpConnection_kConnected TcpConnection_kDisconnecting (st_code (st c))
                  then S (delayed c) else delayed c) /\
    pending c' = pending c.
Proof.
  intros c Hc. unfold step. cbn [user_op andb]. rewrite (not_connecting c Hc), tie_forceCloseWithDelay_state_test.
  destruct (closable c); eexists; (split; [reflexivity|]); cbn; auto.
Qed.

(* connectEstablished: assert(state_ == kConnecting) *)
Theorem establish_is_source : forall c,
  (connectEstablished_assert_test TcpConnection_kConnecting (st_code (st c)) = false -> step c Establish = Rejected) /\
  (connectEstablished_assert_test TcpConnection_kConnecting (st_code (st c)) = true ->
     exists c', step c Establish = Ok (c', [EvUp]) /\ st c' = Connected /\ rd_chan c' = true /\ registered c' = true).
Proof.
  intros c. rewrite tie_connectEstablished_assert. unfold step. cbn [user_op andb]. split; intros ->.
  - reflexivity.
  - eexists. split; [reflexivity|]. cbn. auto.
Qed.

(* connectDestroyed: if (state_ == kConnected || state_ == kDisconnecting) { DOWN }; channel_->remove() *)
Theorem connectDestroyed_is_source : forall c, registered c = true ->
  connectDestroyed c =
  (if connectDestroyed_destroy_state_test TcpConnection_kConnected TcpConnection_kDisconnecting (st_code (st c))
   then Ok (mkConn Disconnected (outb c) (inb c) false false (rd_flag c) false (hwm c) (has_wc c)
                   (has_hwm c) (wire c) (fin c) (pending c) (chk c) (delayed c) (accepted c) (consumed c)
                   (delivered c) (enq c) (ran c) (ups c) (S (downs c)), [EvDown])
   else if (writing c || rd_chan c)%bool then Fault
   else Ok (mkConn (st c) (outb c) (inb c) (writing c) (rd_chan c) (rd_flag c) false (hwm c) (has_wc c)
                   (has_hwm c) (wire c) (fin c) (pending c) (chk c) (delayed c) (accepted c)
                   (consumed c) (delivered c) (enq c) (ran c) (ups c) (downs c), [])).
Proof.
  intros c Hr. rewrite tie_destroy_state_test. unfold connectDestroyed. rewrite Hr. cbn [negb].
  destruct (closable c); cbn; reflexivity.
Qed.

(* ---- structure facts ----------------------------------------------------------------------- *)
(* read off the current source: send(ptr,len) forwards to send(StringPiece); on the loop thread
   both overloads call sendInLoop inline (and send(Buffer* ) empties the caller's buffer); on a
   foreign thread the functor owns a COPY of the payload; shutdown() runs shutdownInLoop through
   runInLoop; forceClose() queues forceCloseInLoop holding shared_from_this();
   forceCloseWithDelay() arms a timer holding only a weak reference *)
Theorem source_structure_life :
  send_ptr_delegates_to_send = true /\
  send_sp_inloop_sends_inline = true /\ send_sp_foreign_copies_payload = true /\
  send_buf_inloop_sends_inline = true /\ send_buf_foreign_copies_payload = true /\
  send_buf_inloop_empties_caller_buffer = true /\
  shutdown_runs_in_loop = true /\
  forceClose_queues_strong_ref = true /\
  forceCloseWithDelay_holds_weak_ref = true.
Proof. repeat split; reflexivity. Qed.
