(* Properties_C03: shutdown() flushes everything before FIN; forceClose() closes at once, safely.
   Only statements, closed by [exact], each followed by Print Assumptions, and non-vacuity examples.
   Same model as C01 (Conn_Model; see the header of Properties_C01.v for the op vocabulary).
   [fin c] = the write side has been shut down (::shutdown(fd, SHUT_WR) was called: the peer sees
   end-of-stream after the bytes of [wire c]); [ForceCloseDelay] arms a timer that holds only a
   weak reference ([delayed] counts them), [DelayFire] = such a timer fires.
   [reach c] = c is reached from [init mark wc hw] by some list of accepted ops.
   Tie to the C++: the state tests of send / shutdown / forceClose / forceCloseWithDelay /
   forceCloseInLoop / handleClose, the `!isWriting()` of shutdownInLoop and the drain path of
   handleWrite of the CURRENT TcpConnection.cc are regenerated (Gen_Conn.v) and the model steps
   are proved equal to the steps re-assembled from them (section "source"); differential
   execution + the property text as an oracle on the implementation's output (bin/check C03).
   Definitions used below (Conn_Proofs):
     shut_op c o  = o is Shutdown, XShutdown, or a RunOne whose oldest functor is FShutdown;
     count f e    = number of events of e satisfying f;  is_up / is_down recognise EvUp / EvDown;
     set_aux c ch n = c with chk := ch and delayed := n (nothing else). *)
From Coq Require Import List ZArith Lia Bool Arith NArith.
From Coq.Strings Require Import Byte.
From Muduo Require Import Gen_Consts Gen_Conn Conn_Model Conn_Proofs Conn_Trace Conn_Race
                          Conn_GenTie Conn_GenTieLife.
Import ListNotations.

(* ---- the half-close ---------------------------------------------------------------------- *)
(* ::shutdown(fd, SHUT_WR) is issued only by shutdownInLoop (directly, from its functor, or
   from the drain path of handleWrite); when it happens on a connection that is up the backlog
   is empty and write interest is off, so everything sendInLoop ever took is already on the
   wire, before the FIN.  (On a connection that is already Disconnected a late FShutdown
   functor may still call ::shutdown: the connection is down, nothing is pending for it.) *)
Theorem C03_fin_after_backlog : forall c o c' e, reach c -> step c o = Ok (c', e) ->
  fin c = false -> fin c' = true ->
  In EvFin e /\
  (shut_op c o = true \/ exists k, o = EvWritable k) /\
  (st c' = Connected \/ st c' = Disconnecting ->
   outb c' = [] /\ writing c' = false /\ wire c' = accepted c').
Proof. exact P03_fin_after_backlog. Qed.
Print Assumptions C03_fin_after_backlog.

Theorem C03_shut_op_def : forall c o,
  shut_op c o =
  match o with
  | Shutdown | XShutdown => true
  | RunOne _ => match pending c with FShutdown :: _ => true | _ => false end
  | _ => false
  end.
Proof. exact shut_op_unfold. Qed.
Print Assumptions C03_shut_op_def.

(* nothing is written, and nothing more is taken, after the FIN - by any op list *)
Theorem C03_no_write_after_fin : forall c, reach c -> fin c = true ->
  st c <> Connected /\
  (forall o c' e, step c o = Ok (c', e) ->
     wire c' = wire c /\ accepted c' = accepted c /\ fin c' = true) /\
  (forall ops c' e, run c ops = Ok (c', e) ->
     wire c' = wire c /\ accepted c' = accepted c /\ fin c' = true).
Proof. exact P03_no_write_after_fin. Qed.
Print Assumptions C03_no_write_after_fin.

(* HEADLINE (flush, then FIN).  shutdown() on the loop thread with an empty backlog half-closes
   at once; with a backlog it only marks the connection Disconnecting.  Every later writability
   event moves bytes from the backlog to the wire, and the one that empties the backlog issues
   the half-close in the same step: the peer receives every queued byte and only then
   end-of-stream.  A foreign shutdown() does the same once its functor runs. *)
Theorem C03_shutdown_flushes_then_fin : forall c, reach c ->
  (st c = Connected -> outb c = [] ->
     exists c', step c Shutdown = Ok (c', [EvFin]) /\ fin c' = true /\ st c' = Disconnecting /\
       wire c' = wire c /\ outb c' = []) /\
  (st c = Connected -> outb c <> [] -> step c Shutdown = Ok (set_st c Disconnecting, [])) /\
  (st c = Connected ->
     step c XShutdown = Ok (set_pending (set_st c Disconnecting) (pending c ++ [FShutdown]), [])) /\
  (forall k rest, pending c = FShutdown :: rest -> st c = Disconnecting ->
     (outb c = [] -> exists c', step c (RunOne k) = Ok (c', [EvFin]) /\ fin c' = true /\ wire c' = wire c /\
                                 pending c' = rest) /\
     (outb c <> [] -> step c (RunOne k) = Ok (set_pending c rest, []))) /\
  (st c = Disconnecting -> fin c = false -> outb c <> [] -> forall k n,
     taken k (length (outb c)) = Some n -> 0 < n ->
     exists c' e, step c (EvWritable k) = Ok (c', e) /\
       wire c' = wire c ++ firstn n (outb c) /\ outb c' = skipn n (outb c) /\ st c' = Disconnecting /\
       (n < length (outb c) -> fin c' = false /\ e = [] /\ writing c' = true) /\
       (n = length (outb c) -> fin c' = true /\ e = [EvFin] /\ outb c' = [] /\ writing c' = false)).
Proof. exact shutdown_flushes_then_fin. Qed.
Print Assumptions C03_shutdown_flushes_then_fin.

(* over a whole history: if the connection is up and half-closed, the backlog is empty, write
   interest is off and the wire holds every block any sendInLoop of the history took
   ([step_block], Properties_C01.C01_step_block_def) - all of it before the FIN *)
Theorem C03_fin_all_on_wire : forall mark wc hw ops c e,
  run (init mark wc hw) ops = Ok (c, e) -> fin c = true -> st c = Connected \/ st c = Disconnecting ->
  outb c = [] /\ writing c = false /\ st c = Disconnecting /\
  wire c = flat_map step_block (trace (init mark wc hw) ops).
Proof. exact fin_all_on_wire. Qed.
Print Assumptions C03_fin_all_on_wire.

Theorem C03_step_block_def : forall c o c',
  step_block (c, o, c') =
  match send_of c o with
  | Some (d, k, _) => if send_fatal c k then [] else d
  | None => []
  end.
Proof. exact step_block_unfold. Qed.
Print Assumptions C03_step_block_def.

(* shutdown() on either thread and the execution of its functor leave the read side alone;
   in state Disconnecting data is still received and handed to the message callback, and the
   peer's close then produces the DOWN *)
Theorem C03_keeps_receiving : forall c, reach c ->
  (forall o c' e, step c o = Ok (c', e) -> shut_op c o = true ->
     rd_chan c' = rd_chan c /\ rd_flag c' = rd_flag c /\ registered c' = registered c /\
     inb c' = inb c /\ consumed c' = consumed c /\ delivered c' = delivered c /\
     ups c' = ups c /\ downs c' = downs c) /\
  (forall d, st c = Disconnecting -> rd_chan c = true -> d <> [] ->
     exists c', step c (EvReadData d) = Ok (c', [EvMsg (length (inb c ++ d))]) /\
       inb c' = inb c ++ d /\ delivered c' = delivered c ++ d /\ consumed c' = consumed c /\
       st c' = Disconnecting /\ rd_chan c' = true) /\
  (st c = Disconnecting -> rd_chan c = true ->
     exists c', step c EvReadEOF = Ok (c', [EvDown]) /\ st c' = Disconnected /\ downs c' = 1 /\ ups c' = 1).
Proof. exact P03_keeps_receiving. Qed.
Print Assumptions C03_keeps_receiving.

(* ---- UP / DOWN --------------------------------------------------------------------------- *)
Theorem C03_up_down_counts : forall c, reach c ->
  ups c <= 1 /\ downs c <= ups c /\
  (ups c = 0 <-> st c = Connecting) /\ (downs c = 1 <-> st c = Disconnected) /\
  forall o c' e, step c o = Ok (c', e) ->
    ups c' = ups c + count is_up e /\ downs c' = downs c + count is_down e.
Proof. exact P03_up_down_counts. Qed.
Print Assumptions C03_up_down_counts.

(* over a whole history: at most one UP, at most one DOWN, never a DOWN without the UP, and
   the DOWN has been delivered exactly when the connection is Disconnected *)
Theorem C03_down_at_most_once : forall mark wc hw ops c e,
  run (init mark wc hw) ops = Ok (c, e) ->
  count is_up e = ups c /\ count is_down e = downs c /\
  count is_up e <= 1 /\ count is_down e <= count is_up e /\
  (count is_down e = 1 <-> st c = Disconnected).
Proof. exact P03_down_at_most_once. Qed.
Print Assumptions C03_down_at_most_once.

Theorem C03_count_def : forall f e, count f e = length (filter f e).
Proof. exact count_unfold. Qed.
Print Assumptions C03_count_def.

Theorem C03_is_up_down_def : forall ev,
  is_up ev = (match ev with EvUp => true | _ => false end) /\
  is_down ev = (match ev with EvDown => true | _ => false end).
Proof. exact is_up_down_unfold. Qed.
Print Assumptions C03_is_up_down_def.

(* ---- forceClose -------------------------------------------------------------------------- *)
(* from any up state forceClose() (and a firing forceCloseWithDelay timer) only marks the
   connection Disconnecting and queues FForceClose; when that functor runs on a connection that
   is still up the connection goes DOWN exactly once, at once, whatever the peer does, with
   all interest off, and the owner's destroy is queued *)
Theorem C03_force_close_once : forall c, reach c -> st c = Connected \/ st c = Disconnecting ->
  step c ForceClose = Ok (set_pending (set_st c Disconnecting) (pending c ++ [FForceClose]), []) /\
  (forall n, delayed c = S n ->
     step c DelayFire =
     Ok (set_aux (set_pending (set_st c Disconnecting) (pending c ++ [FForceClose])) (chk c) n, [])) /\
  (forall k rest, pending c = FForceClose :: rest ->
     exists c', step c (RunOne k) = Ok (c', [EvDown]) /\
       st c' = Disconnected /\ downs c' = 1 /\ ups c' = 1 /\ writing c' = false /\ rd_chan c' = false /\
       pending c' = rest ++ [FDestroy] /\
       wire c' = wire c /\ outb c' = outb c /\ inb c' = inb c /\ fin c' = fin c).
Proof. exact P03_force_close_once. Qed.
Print Assumptions C03_force_close_once.

(* HEADLINE (closes at once, exactly once).  forceClose() - immediately, or when the timer of
   forceCloseWithDelay() fires - on a connection that is up: once the loop has run the tasks
   queued up to then (as many RunOne steps as there are functors in the queue; whatever the
   kernel answers; WITHOUT any event from the peer; no step is refused or faults) the connection
   is Disconnected and exactly one DOWN, no UP, was delivered in those steps. *)
Theorem C03_force_close_effective : forall c, reach c -> st c = Connected \/ st c = Disconnecting ->
  forall o c1 e1, o = ForceClose \/ o = DelayFire -> step c o = Ok (c1, e1) ->
  e1 = [] /\
  forall ks, length ks = length (pending c1) ->
  exists c2 e2, run c1 (map RunOne ks) = Ok (c2, e2) /\
    st c2 = Disconnected /\ downs c2 = 1 /\ count is_down e2 = 1 /\ count is_up e2 = 0.
Proof. exact force_close_effective. Qed.
Print Assumptions C03_force_close_effective.

(* the queued forced close is never lost: it stays in the queue until the loop runs it *)
Theorem C03_force_close_pending : forall c o c' e, step c o = Ok (c', e) ->
  In FForceClose (pending c) ->
  In FForceClose (pending c') \/ exists k rest, o = RunOne k /\ pending c = FForceClose :: rest.
Proof. exact P03_force_close_pending. Qed.
Print Assumptions C03_force_close_pending.

(* if something else closed the connection in between, running the functor only removes it *)
Theorem C03_force_close_late : forall c k rest, pending c = FForceClose :: rest -> st c = Disconnected ->
  step c (RunOne k) = Ok (set_pending c rest, []).
Proof. exact P03_force_close_late. Qed.
Print Assumptions C03_force_close_late.

(* on a connection that is already down all three entry points are the identity (the timer
   only disappears) *)
Theorem C03_force_close_noop_when_down : forall c, st c = Disconnected ->
  step c ForceClose = Ok (c, []) /\
  step c ForceCloseDelay = Ok (c, []) /\
  forall n, delayed c = S n -> step c DelayFire = Ok (set_aux c (chk c) n, []).
Proof. exact P03_force_close_noop_when_down. Qed.
Print Assumptions C03_force_close_noop_when_down.

Theorem C03_set_aux_def : forall c ch n,
  set_aux c ch n =
  mkConn (st c) (outb c) (inb c) (writing c) (rd_chan c) (rd_flag c) (registered c) (hwm c) (has_wc c)
         (has_hwm c) (wire c) (fin c) (pending c) ch n (accepted c) (consumed c) (delivered c)
         (enq c) (ran c) (ups c) (downs c).
Proof. exact set_aux_unfold. Qed.
Print Assumptions C03_set_aux_def.

(* ---- send() after shutdown() / forceClose() ---------------------------------------------- *)
(* on the loop thread the call is the identity; on a foreign thread, a state test made when the
   state is no longer Connected makes the enqueue step the identity, whatever ran in between *)
Theorem C03_send_after_close_discarded :
  (forall c d k, st c = Disconnecting \/ st c = Disconnected -> step c (Send d k) = Ok (c, [])) /\
  (forall c t c1 e1 ops c2 e2 d,
     step c (FSendCheck t) = Ok (c1, e1) -> st c <> Connected ->
     run c1 ops = Ok (c2, e2) -> ~ In (FSendCheck t) ops ->
     step c2 (FSendEnq t d) = Ok (c2, [])).
Proof. exact P03_send_after_close_discarded. Qed.
Print Assumptions C03_send_after_close_discarded.

(* ---- "every byte passed to send() before it is still delivered" (finding F-6) ------------- *)
(* Full text, read on the model: at the half-close every block of a send() that returned before
   (state test passed, functor queued: it is in [enq]) is on the wire.  False: a loop-thread
   shutdown() runs inline and overtakes a queued foreign block. *)
Theorem C03_flush_all_accepted_refuted :
  ~ (forall c o c' e, reach c -> step c o = Ok (c', e) -> fin c = false -> fin c' = true ->
       forall t d, In (t, d) (enq c') -> exists pre post, wire c' = pre ++ d ++ post).
Proof. exact P03_flush_all_accepted_refuted. Qed.
Print Assumptions C03_flush_all_accepted_refuted.

(* and the block is then lost for good, although the FIN was sent *)
Theorem C03_flush_all_accepted_witness :
  exists c e, run (init 1024%N true true)
                  [Establish; FSendCheck 1; FSendEnq 1 [x61; x62; x63]; Shutdown; RunOne AcceptAll]
              = Ok (c, e) /\
    enq c = [(1, [x61; x62; x63])] /\ ran c = [(1, [x61; x62; x63])] /\
    wire c = [] /\ outb c = [] /\ accepted c = [] /\ fin c = true /\ st c = Disconnecting /\
    e = [EvUp; EvFin; EvErrorLogged].
Proof. exact P01_f6_witness. Qed.
Print Assumptions C03_flush_all_accepted_witness.

(* second way (the drain path): send() has returned on the foreign thread while a backlog is
   pending; shutdown() can only mark the connection; handleWrite, seeing Disconnecting when the
   backlog empties, half-closes before the queued block runs.  Changing runInLoop to queueInLoop
   in shutdown() would not repair this one: the state is set synchronously. *)
Theorem C03_flush_drain_path_witness :
  exists c e, run (init 1024%N true true)
                  [Establish; Send [x61; x62; x63; x64] (Accept 1); FSendCheck 1; FSendEnq 1 [x65; x66];
                   Shutdown; EvWritable AcceptAll; RunOne AcceptAll; RunOne AcceptAll]
              = Ok (c, e) /\
    enq c = [(1, [x65; x66])] /\ ran c = [(1, [x65; x66])] /\
    wire c = [x61; x62; x63; x64] /\ outb c = [] /\ accepted c = [x61; x62; x63; x64] /\
    fin c = true /\ st c = Disconnecting /\ e = [EvUp; EvFin; EvErrorLogged; EvWC].
Proof. exact f6_drain_path_witness. Qed.
Print Assumptions C03_flush_drain_path_witness.

(* What holds (missing w.r.t. the full text: foreign blocks whose functor had not run when the
   half-close executed).  At the half-close of a connection that is up everything sendInLoop
   had taken is on the wire, and from then on neither the wire nor the accepted stream changes.
   Which sends were taken before: every loop-thread send made while Connected, and a foreign
   send exactly if its functor ran before the half-close
   (Properties_C01.C01_accepted_delivered_partial, restated here). *)
Theorem C03_flush_partial : forall c o c' e, reach c -> step c o = Ok (c', e) ->
  fin c = false -> fin c' = true -> st c' = Connected \/ st c' = Disconnecting ->
  wire c' = accepted c' /\ outb c' = [] /\
  (forall ops c2 e2, run c' ops = Ok (c2, e2) ->
     wire c2 = wire c' /\ accepted c2 = accepted c' /\ fin c2 = true).
Proof. exact P03_flush_partial. Qed.
Print Assumptions C03_flush_partial.

Theorem C03_flush_partial_sends : forall c, reach c ->
  (forall d k c' e, step c (Send d k) = Ok (c', e) -> st c = Connected -> nonfatal k ->
     accepted c' = accepted c ++ d) /\
  (forall k t d rest c' e, step c (RunOne k) = Ok (c', e) -> pending c = FSend t d :: rest ->
     st c <> Disconnected -> fin c = false -> nonfatal k ->
     accepted c' = accepted c ++ d /\ ran c' = ran c ++ [(t, d)]) /\
  (forall k t d rest c' e, step c (RunOne k) = Ok (c', e) -> pending c = FSend t d :: rest ->
     fin c = true \/ st c = Disconnected ->
     accepted c' = accepted c /\ wire c' = wire c /\ outb c' = outb c /\ ran c' = ran c ++ [(t, d)]).
Proof. exact P01_accepted_delivered_partial. Qed.
Print Assumptions C03_flush_partial_sends.

(* ---- close requests from a FOREIGN thread: load, store and hand-off are separate steps ------- *)
(* shutdown(), forceClose(), forceCloseWithDelay() read
     if (state_ == kConnected [|| state_ == kDisconnecting]) { setState(kDisconnecting); <hand-off> }
   with a plain load and a plain store.  On the loop thread (ops Shutdown, ForceClose,
   ForceCloseDelay, DelayFire above) the three are one step.  Called from another thread the loop
   thread runs between them; the x-machine of Conn_Model ([xstep], spelled out by C03_xstep_def:
   [Base o] = an op of the machine above, [XCheck t r] = the load and comparison, [XSet t] = the
   store, [XEnq t] = queueInLoop / runInLoop / runAfter, [XRunTimer] = the loop runs the addTimerInLoop
   functor a foreign forceCloseWithDelay() queued) executes them one by one.

   REFUTED (finding F-19, key "foreign-close-request-races-close").  "forceClose() brings the
   connection DOWN exactly once" is false when the loop thread closes the connection between a
   foreign request's load and its store: the store overwrites kDisconnected with kDisconnecting,
   and the queued connectDestroyed (or, if that has already run, the queued forceCloseInLoop)
   passes its state test and reports DOWN a second time.  Same for shutdown() and
   forceCloseWithDelay(). *)
Theorem C03_force_close_once_foreign_refuted :
  ~ (forall mark wc hw ops x e, xrun (xinit mark wc hw) ops = Ok (x, e) -> count is_down e <= 1).
Proof. exact down_once_foreign_refuted. Qed.
Print Assumptions C03_force_close_once_foreign_refuted.

(* the witness, for each of the three requests r: UP, DOWN, DOWN; the hypothesis of the partial
   theorem below fails on it; the stream equations of C01 still hold at the end, the invariant of
   the base machine does not *)
Theorem C03_foreign_close_race_witness : forall r,
  exists x e, xrun (xinit 1024%N true true) (race_ops r) = Ok (x, e) /\
    count is_down e = 2 /\ count is_up e = 1 /\ downs (xbase x) = 2 /\
    filter (fun ev => is_up ev || is_down ev) e = [EvUp; EvDown; EvDown] /\
    ~ race_free (xinit 1024%N true true) (race_ops r) /\
    InvS (xbase x) /\ ~ Inv (xbase x).
Proof. exact race_witness. Qed.
Print Assumptions C03_foreign_close_race_witness.

Theorem C03_race_ops_def : forall r,
  race_ops r = [Base Establish; XCheck 1 r; Base EvReadEOF; XSet 1; XEnq 1; Base (RunOne AcceptAll)].
Proof. exact race_ops_unfold. Qed.
Print Assumptions C03_race_ops_def.

(* the other order: connectDestroyed has already run (channel removed) when the store lands; the
   queued forceCloseInLoop then runs handleClose a second time on the unregistered connection *)
Theorem C03_foreign_close_race_witness2 :
  exists x e, xrun (xinit 1024%N true true) race_ops2 = Ok (x, e) /\
    filter (fun ev => is_up ev || is_down ev) e = [EvUp; EvDown; EvDown] /\ downs (xbase x) = 2 /\
    registered (xbase x) = false /\ st (xbase x) = Disconnected.
Proof. exact race_witness2. Qed.
Print Assumptions C03_foreign_close_race_witness2.

Theorem C03_race_ops2_def :
  race_ops2 = [Base Establish; XCheck 1 RForceClose; Base EvReadEOF; Base (RunOne AcceptAll); XSet 1; XEnq 1;
               Base (RunOne AcceptAll); Base (RunOne AcceptAll)].
Proof. exact race_ops2_unfold. Qed.
Print Assumptions C03_race_ops2_def.

(* PARTIAL (missing w.r.t. the text: histories in which the loop thread changes state_ between a
   foreign request's load and its store).  Hypothesis [race_free]: at every store the request's
   state test still passes - in particular when load and store are adjacent, when the call is made
   on the loop thread, or when no loop-thread step in between changes the state.  Then, wherever
   the loads, stores and hand-offs are placed: no assertion of the C++ fires, the full invariant
   of the base machine holds at the end (so every theorem above that is stated for reachable
   states applies), at most one UP, at most one DOWN, and DOWN exactly when Disconnected. *)
Theorem C03_force_close_once_foreign_partial : forall mark wc hw ops,
  race_free (xinit mark wc hw) ops ->
  xrun (xinit mark wc hw) ops <> Fault /\
  forall x e, xrun (xinit mark wc hw) ops = Ok (x, e) ->
    Inv (xbase x) /\ count is_up e <= 1 /\ count is_down e <= count is_up e /\
    (count is_down e = 1 <-> st (xbase x) = Disconnected).
Proof. exact force_close_once_foreign_partial. Qed.
Print Assumptions C03_force_close_once_foreign_partial.

(* and C03_fin_all_on_wire over the x-machine: in a race-free history a connection that is up and
   half-closed has an empty backlog, interest off, and every block any sendInLoop of the history
   took on the wire, before the FIN ([xtrace] = the Base steps, Properties_C01.C01_xtrace_def) *)
Theorem C03_fin_all_on_wire_race_free : forall mark wc hw ops x e,
  race_free (xinit mark wc hw) ops -> xrun (xinit mark wc hw) ops = Ok (x, e) ->
  fin (xbase x) = true -> st (xbase x) = Connected \/ st (xbase x) = Disconnecting ->
  outb (xbase x) = [] /\ writing (xbase x) = false /\ st (xbase x) = Disconnecting /\
  wire (xbase x) = flat_map step_block (xtrace (xinit mark wc hw) ops).
Proof. exact xfin_all_on_wire. Qed.
Print Assumptions C03_fin_all_on_wire_race_free.

(* C03_shutdown_flushes_then_fin over the x-machine: the state any race-free history reaches satisfies
   the same clauses (flush, then FIN in the step that empties the backlog), and there a Base op of
   the x-machine is the op of the base machine the clauses talk about *)
Theorem C03_shutdown_flushes_then_fin_race_free : forall mark wc hw ops x e,
  race_free (xinit mark wc hw) ops -> xrun (xinit mark wc hw) ops = Ok (x, e) ->
  ((st (xbase x) = Connected -> outb (xbase x) = [] ->
     exists c', step (xbase x) Shutdown = Ok (c', [EvFin]) /\ fin c' = true /\ st c' = Disconnecting /\
       wire c' = wire (xbase x) /\ outb c' = []) /\
  (st (xbase x) = Connected -> outb (xbase x) <> [] -> step (xbase x) Shutdown = Ok (set_st (xbase x) Disconnecting, [])) /\
  (st (xbase x) = Connected ->
     step (xbase x) XShutdown = Ok (set_pending (set_st (xbase x) Disconnecting) (pending (xbase x) ++ [FShutdown]), [])) /\
  (forall k rest, pending (xbase x) = FShutdown :: rest -> st (xbase x) = Disconnecting ->
     (outb (xbase x) = [] -> exists c', step (xbase x) (RunOne k) = Ok (c', [EvFin]) /\ fin c' = true /\ wire c' = wire (xbase x) /\
                                 pending c' = rest) /\
     (outb (xbase x) <> [] -> step (xbase x) (RunOne k) = Ok (set_pending (xbase x) rest, []))) /\
  (st (xbase x) = Disconnecting -> fin (xbase x) = false -> outb (xbase x) <> [] -> forall k n,
     taken k (length (outb (xbase x))) = Some n -> 0 < n ->
     exists c' e, step (xbase x) (EvWritable k) = Ok (c', e) /\
       wire c' = wire (xbase x) ++ firstn n (outb (xbase x)) /\ outb c' = skipn n (outb (xbase x)) /\ st c' = Disconnecting /\
       (n < length (outb (xbase x)) -> fin c' = false /\ e = [] /\ writing c' = true) /\
       (n = length (outb (xbase x)) -> fin c' = true /\ e = [EvFin] /\ outb c' = [] /\ writing c' = false))) /\
  forall o, xstep x (Base o) =
    if (match o with RunOne _ => timer_due (xtimers x) | _ => false end) then Rejected else
    match step (xbase x) o with
    | Ok (c', e') => Ok (mkX c' (xreqs x) (xtimers_after (xbase x) o (xtimers x)), e')
    | Rejected => Rejected
    | Fault => Fault
    end.
Proof. exact xshutdown_flushes_then_fin. Qed.
Print Assumptions C03_shutdown_flushes_then_fin_race_free.

(* C03_force_close_effective over the x-machine.  In the state x a race-free history reaches, with
   FForceClose in the queue behind |pre0| functors (put there by forceClose() on the loop thread, a
   firing delayed close, or the hand-off of a foreign forceClose(): C03_force_close_requests), ANY
   sequence of the loop's task steps ([is_task]: RunOne, or XRunTimer for a queued addTimerInLoop)
   with more than |pre0| RunOne steps - any kernel answers, no peer event - ends Disconnected, and
   the whole history has exactly one UP and one DOWN *)
Theorem C03_force_close_effective_race_free : forall mark wc hw ops0 x e0,
  race_free (xinit mark wc hw) ops0 -> xrun (xinit mark wc hw) ops0 = Ok (x, e0) ->
  forall pre0 post0, pending (xbase x) = pre0 ++ FForceClose :: post0 ->
  forall ops x' e, forallb is_task ops = true -> length pre0 < length (filter is_runone ops) ->
  xrun x ops = Ok (x', e) ->
  st (xbase x') = Disconnected /\ downs (xbase x') = 1 /\ count is_down (e0 ++ e) = 1 /\ count is_up (e0 ++ e) = 1.
Proof. exact xforce_close_effective. Qed.
Print Assumptions C03_force_close_effective_race_free.

Theorem C03_is_task_def : forall o,
  is_task o = (match o with XRunTimer => true | Base (RunOne _) => true | _ => false end) /\
  is_runone o = (match o with Base (RunOne _) => true | _ => false end).
Proof. exact is_task_unfold. Qed.
Print Assumptions C03_is_task_def.

(* the task steps never fault and are never refused: exactly one kind is enabled *)
Theorem C03_loop_task_enabled : forall x, XInv x ->
  (timer_due (xtimers x) = true -> exists x', xstep x XRunTimer = Ok (x', [])) /\
  (timer_due (xtimers x) = false -> forall k, exists x' e, xstep x (Base (RunOne k)) = Ok (x', e)).
Proof. exact loop_task_enabled. Qed.
Print Assumptions C03_loop_task_enabled.

(* how a request puts FForceClose at the end of the queue ([XInv x]: the invariant of the base
   machine on xbase x, which every race-free history establishes) *)
Theorem C03_force_close_requests : forall x, XInv x -> st (xbase x) = Connected \/ st (xbase x) = Disconnecting ->
  (exists x1, xstep x (Base ForceClose) = Ok (x1, []) /\ pending (xbase x1) = pending (xbase x) ++ [FForceClose]) /\
  (forall n, delayed (xbase x) = S n ->
     exists x1, xstep x (Base DelayFire) = Ok (x1, []) /\ pending (xbase x1) = pending (xbase x) ++ [FForceClose]) /\
  (forall t q, find_req t (xreqs x) = Some q -> rq_kind q = RForceClose -> rq_passed q = true -> rq_stored q = true ->
     exists x1, xstep x (XEnq t) = Ok (x1, []) /\ pending (xbase x1) = pending (xbase x) ++ [FForceClose]).
Proof. exact xforce_close_requests. Qed.
Print Assumptions C03_force_close_requests.

Theorem C03_race_free_def : forall x ops,
  race_free x ops =
  match ops with
  | [] => True
  | o :: r => set_ok x o /\ match xstep x o with Ok (x1, _) => race_free x1 r | _ => True end
  end.
Proof. exact race_free_unfold. Qed.
Print Assumptions C03_race_free_def.

Theorem C03_set_ok_def : forall x o,
  set_ok x o =
  match o with
  | XSet t =>
      match find_req t (xreqs x) with
      | Some q => rq_passed q = true -> rq_stored q = false -> creq_test (rq_kind q) (st (xbase x)) = true
      | None => True
      end
  | _ => True
  end.
Proof. exact set_ok_unfold. Qed.
Print Assumptions C03_set_ok_def.

Theorem C03_creq_test_def : forall r s,
  creq_test r s = match r with
                  | RShutdown => cstate_eqb s Connected
                  | RForceClose | RForceCloseDelay => cstate_eqb s Connected || cstate_eqb s Disconnecting
                  end.
Proof. exact creq_test_unfold. Qed.
Print Assumptions C03_creq_test_def.

Theorem C03_xstep_def : forall x o,
  xstep x o =
  match o with
  | Base b =>
      if (match b with RunOne _ => timer_due (xtimers x) | _ => false end) then Rejected
      else
      match step (xbase x) b with
      | Ok (c', e) => Ok (mkX (rereg (xbase x) c') (xreqs x) (xtimers_after (xbase x) b (xtimers x)), e)
      | Rejected => Rejected
      | Fault => Fault
      end
  | XCheck t r =>
      if cstate_eqb (st (xbase x)) Connecting then Rejected
      else match find_req t (xreqs x) with
           | Some _ => Rejected
           | None => Ok (mkX (xbase x) (mkReq t r (creq_test r (st (xbase x))) false :: xreqs x) (xtimers x), [])
           end
  | XSet t =>
      match find_req t (xreqs x) with
      | Some q =>
          if rq_stored q then Rejected
          else Ok (mkX (if rq_passed q then set_st (xbase x) Disconnecting else xbase x)
                       (mkReq t (rq_kind q) (rq_passed q) true :: drop_req t (xreqs x)) (xtimers x), [])
      | None => Rejected
      end
  | XEnq t =>
      match find_req t (xreqs x) with
      | Some q =>
          if rq_stored q
          then Ok (mkX (if rq_passed q && negb (is_delay (rq_kind q)) then creq_enqueue (rq_kind q) (xbase x) else xbase x)
                       (drop_req t (xreqs x))
                       (if rq_passed q && is_delay (rq_kind q) then xtimers x ++ [length (pending (xbase x))] else xtimers x), [])
          else Rejected
      | None => Rejected
      end
  | XRunTimer =>
      match xtimers x with
      | 0 :: r => Ok (mkX (creq_enqueue RForceCloseDelay (xbase x)) (xreqs x) r, [])
      | _ => Rejected
      end
  end.
Proof. exact xstep_unfold. Qed.
Print Assumptions C03_xstep_def.

(* [xtimers]: a foreign forceCloseWithDelay() hands TimerQueue::addTimerInLoop to the loop's functor
   queue; the x-machine keeps, for each such functor, how many functors of [pending] are ahead of
   it; [XRunTimer] = the loop runs it (the timer is armed: delayed + 1); RunOne is refused while an
   addTimerInLoop is the oldest functor of the real queue *)
Theorem C03_xtimers_def : forall c o l,
  xtimers_after c o l = (match o with
                         | RunOne _ => match pending c with [] => l | _ :: _ => map pred l end
                         | _ => l
                         end) /\
  timer_due l = (match l with 0 :: _ => true | _ => false end).
Proof. exact xtimers_unfold. Qed.
Print Assumptions C03_xtimers_def.

(* adjacent load, store and hand-off of a foreign shutdown() / forceClose() ARE the atomic ops of the
   machine above; a foreign forceCloseWithDelay() additionally needs the loop to run the queued
   addTimerInLoop (at once, when nothing else is queued), unless its test failed; and on a state
   satisfying the invariant a Base op of the x-machine is the op of the base machine ([rereg],
   which keeps the registration flag faithful in racy states, is then the identity) *)
Theorem C03_adjacent_is_atomic : forall c reqs tm t, st c <> Connecting -> find_req t reqs = None ->
  xrun (mkX c reqs tm) [XCheck t RShutdown; XSet t; XEnq t] = xstep (mkX c reqs tm) (Base XShutdown) /\
  xrun (mkX c reqs tm) [XCheck t RForceClose; XSet t; XEnq t] = xstep (mkX c reqs tm) (Base ForceClose) /\
  (pending c = [] -> tm = [] ->
   xrun (mkX c reqs tm) [XCheck t RForceCloseDelay; XSet t; XEnq t; XRunTimer] = xstep (mkX c reqs tm) (Base ForceCloseDelay) \/
   (creq_test RForceCloseDelay (st c) = false /\
    xrun (mkX c reqs tm) [XCheck t RForceCloseDelay; XSet t; XEnq t] = xstep (mkX c reqs tm) (Base ForceCloseDelay))).
Proof. exact adjacent_is_atomic. Qed.
Print Assumptions C03_adjacent_is_atomic.

Theorem C03_xstep_base : forall c reqs tm o, Inv c ->
  xstep (mkX c reqs tm) (Base o) =
  if (match o with RunOne _ => timer_due tm | _ => false end) then Rejected else
  match step c o with
  | Ok (c', e) => Ok (mkX c' reqs (xtimers_after c o tm), e)
  | Rejected => Rejected
  | Fault => Fault
  end.
Proof. exact xstep_base. Qed.
Print Assumptions C03_xstep_base.

(* ---- source: the tests of the current TcpConnection.cc ------------------------------------ *)
(* shutdown(): `if (state_ == kConnected)`; inline shutdownInLoop on the loop thread, a queued
   functor from a foreign thread *)
Theorem C03_shutdown_is_source : forall c, st c <> Connecting ->
  step c Shutdown =
    Ok (if shutdown_state_test TcpConnection_kConnected (st_code (st c))
        then shutdownInLoop_src (set_st c Disconnecting) else (c, [])) /\
  step c XShutdown =
    Ok (if shutdown_state_test TcpConnection_kConnected (st_code (st c))
        then (set_pending (set_st c Disconnecting) (pending c ++ [FShutdown]), []) else (c, [])).
Proof. exact shutdown_is_source. Qed.
Print Assumptions C03_shutdown_is_source.

(* shutdownInLoop: `if (!channel_->isWriting()) socket_->shutdownWrite()` *)
Theorem C03_shutdownInLoop_is_source : forall c, shutdownInLoop_src c = shutdownInLoop c.
Proof. exact shutdownInLoop_is_source. Qed.
Print Assumptions C03_shutdownInLoop_is_source.

(* handleWrite: `n > 0`, retrieve(n), `readableBytes() == 0`, disableWriting BEFORE the
   `state_ == kDisconnecting` test that calls shutdownInLoop *)
Theorem C03_handleWrite_is_source : forall c k, handleWrite_src c k = handleWrite c k.
Proof. exact handleWrite_is_source. Qed.
Print Assumptions C03_handleWrite_is_source.

(* forceClose / forceCloseInLoop / handleClose's assert: `state_ == kConnected || state_ == kDisconnecting` *)
Theorem C03_forceClose_is_source : forall c,
  forceClose c =
  (if forceClose_state_test TcpConnection_kConnected TcpConnection_kDisconnecting (st_code (st c))
   then set_pending (set_st c Disconnecting) (pending c ++ [FForceClose]) else c) /\
  forceCloseInLoop c =
  (if forceCloseInLoop_forceclose_state_test TcpConnection_kConnected TcpConnection_kDisconnecting (st_code (st c))
   then handleClose c else (c, [])) /\
  handleCloseChecked c =
  (if handleClose_assert_test TcpConnection_kConnected TcpConnection_kDisconnecting (st_code (st c))
   then Ok (handleClose c) else Fault).
Proof. exact forceClose_is_source. Qed.
Print Assumptions C03_forceClose_is_source.

Theorem C03_forceCloseWithDelay_is_source : forall c, st c <> Connecting ->
  exists c', step c ForceCloseDelay = Ok (c', []) /\
    st c' = (if forceCloseWithDelay_state_test TcpConnection_kConnected TcpConnection_kDisconnecting (st_code (st c))
             then Disconnecting else st c) /\
    delayed c' = (if forceCloseWithDelay_state_test TcpConnection_kConnected TcpConnection_kDisconnecting (st_code (st c))
                  then S (delayed c) else delayed c) /\
    pending c' = pending c.
Proof. exact forceCloseWithDelay_is_source. Qed.
Print Assumptions C03_forceCloseWithDelay_is_source.

(* send() is accepted only in the connected state: `if (state_ == kConnected)` on both threads *)
Theorem C03_send_is_source : forall c d k, st c <> Connecting ->
  step c (Send d k) =
  Ok (if send_sp_state_test TcpConnection_kConnected (st_code (st c))
      then (if send_sp_inloop_test true then sendInLoop_src c d k else (c, []))
      else (c, [])).
Proof. exact send_is_source. Qed.
Print Assumptions C03_send_is_source.

Theorem C03_foreign_send_is_source : forall c t d, st c <> Connecting ->
  (exists c', step c (FSendCheck t) = Ok (c', []) /\
     chk c' = (t, send_sp_state_test TcpConnection_kConnected (st_code (st c))) :: chk c /\
     pending c' = pending c /\ st c' = st c /\ outb c' = outb c /\ wire c' = wire c) /\
  (exists c', step c (FSendEnq t d) = Ok (c', []) /\
     pending c' = (if lookup t (chk c) then (if send_sp_inloop_test false then pending c else pending c ++ [FSend t d])
                   else pending c)).
Proof. exact foreign_send_is_source. Qed.
Print Assumptions C03_foreign_send_is_source.

(* which reference each queued close holds in the current source: forceClose() queues
   forceCloseInLoop with shared_from_this() (strong: the model's FForceClose functor is never
   dropped, C03_force_close_pending); forceCloseWithDelay() hands runAfter a makeWeakCallback
   (weak: the model's [delayed] counter, whose firing on a connection that is down - or gone -
   is the identity, C03_force_close_noop_when_down); shutdown() goes through runInLoop *)
Theorem C03_source_structure :
  send_ptr_delegates_to_send = true /\
  send_sp_inloop_sends_inline = true /\ send_sp_foreign_copies_payload = true /\
  send_buf_inloop_sends_inline = true /\ send_buf_foreign_copies_payload = true /\
  send_buf_inloop_empties_caller_buffer = true /\
  shutdown_runs_in_loop = true /\
  forceClose_queues_strong_ref = true /\
  forceCloseWithDelay_holds_weak_ref = true.
Proof. exact source_structure_life. Qed.
Print Assumptions C03_source_structure.

(* ---- non-vacuity: shutdown with a backlog (half-close deferred to the drain path), sends
   after the shutdown discarded on both threads, data received while Disconnecting, a delayed
   and an immediate forced close, the late timer and a late forceClose as no-ops, destroy ---- *)
Definition ex_ops : list op :=
  [ Establish;
    Send [x61; x62; x63; x64] (Accept 1);
    Shutdown;
    Send [x65] AcceptAll;
    FSendCheck 3; FSendEnq 3 [x66];
    EvReadData [x70];
    EvWritable (Accept 2);
    ForceCloseDelay;
    EvWritable AcceptAll;
    EvReadData [x71];
    ForceClose;
    RunOne AcceptAll; RunOne AcceptAll; DelayFire; ForceClose; RunOne AcceptAll ].

Example ex_run :
  exists c, run (init 4%N true true) ex_ops = Ok (c, [EvUp; EvMsg 1; EvFin; EvMsg 2; EvWC; EvDown]) /\
    wire c = [x61; x62; x63; x64] /\ accepted c = wire c /\ enq c = [] /\ fin c = true /\
    st c = Disconnected /\ downs c = 1 /\ registered c = false /\ delayed c = 0 /\ pending c = [].
Proof. vm_compute. eexists. repeat split. Qed.

(* a reachable state in which shutdown() has been requested while a backlog is pending: the
   hypotheses of C03_fin_after_backlog / C03_flush_partial are met by the next drain *)
Example ex_reach_deferred :
  exists c c' e, reach c /\ st c = Disconnecting /\ outb c = [x64] /\ writing c = true /\
    fin c = false /\ delayed c = 1 /\ rd_chan c = true /\
    step c (EvWritable AcceptAll) = Ok (c', e) /\ fin c' = true /\ st c' = Disconnecting.
Proof.
  destruct (run (init 4%N true true) (firstn 9 ex_ops)) as [[c e]| |] eqn:E;
    try (vm_compute in E; discriminate).
  exists c. assert (Hr : reach c) by (eapply run_reach; [apply reach_init|exact E]).
  vm_compute in E. injection E as <- _. eexists _, _. split; [exact Hr|].
  vm_compute. repeat split.
Qed.

(* a reachable up state with FForceClose at the head of the queue *)
Example ex_reach_force :
  exists c rest, reach c /\ st c = Disconnecting /\ pending c = FForceClose :: rest.
Proof.
  destruct (run (init 4%N true true) [Establish; ForceClose]) as [[c e]| |] eqn:E;
    try (vm_compute in E; discriminate).
  exists c. assert (Hr : reach c) by (eapply run_reach; [apply reach_init|exact E]).
  vm_compute in E. injection E as <- _. eexists. split; [exact Hr|]. vm_compute. split; reflexivity.
Qed.

(* a race-free history of the x-machine with a foreign forceCloseWithDelay() (its addTimerInLoop
   queued) and a foreign forceClose() (FForceClose queued) in flight on an up connection with a
   backlog: the hypotheses of C03_force_close_effective_race_free are met, and two task steps end
   Disconnected *)
Example ex_x_force :
  let ops0 := [Base Establish; Base (Send [x61; x62] (Accept 1)); XCheck 5 RForceCloseDelay; XSet 5; XEnq 5;
               XCheck 6 RForceClose; XSet 6; XEnq 6] in
  race_free (xinit 4%N true true) ops0 /\
  exists x e0, xrun (xinit 4%N true true) ops0 = Ok (x, e0) /\
    pending (xbase x) = [FForceClose] /\ xtimers x = [0] /\ st (xbase x) = Disconnecting /\ outb (xbase x) = [x62] /\
    exists x' e, xrun x [XRunTimer; Base (RunOne AcceptAll)] = Ok (x', e) /\
      st (xbase x') = Disconnected /\ e = [EvDown] /\ delayed (xbase x') = 1.
Proof.
  split.
  - vm_compute. repeat split; intros; reflexivity.
  - vm_compute. eexists _, _. repeat split. eexists _, _. repeat split.
Qed.
