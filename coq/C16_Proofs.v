(* C16_Proofs: lemmas and invariants for C16_Model (AppendFile / LogFile / AsyncLogging). *)
From Coq Require Import List ZArith Bool Arith Lia Sorted.
From Muduo Require Import Gen_Consts Gen_C16 C16_Model.
Import ListNotations.
Local Open Scope Z_scope.

(* ====================================================================== AppendFile::append *)
Section SeqProofs.
  Variable A : Type.
  Implicit Types (data acc : list A) (env : list wres).

  (* for every pattern of short writes: what the stream got is a prefix of the record, in order; it is
     the whole record (and [written] = len) unless the stream reported an error, in which case it is a
     strict prefix *)
  Lemma af_loop_spec env : forall data,
    match af_loop env data with
    | (acc, w, er) =>
        exists tail, data = acc ++ tail /\
          (er = false -> tail = [] /\ w = length data) /\
          (er = true -> tail <> [])
    end.
  Proof.
    induction env as [|[k e] env IH]; intros data.
    - destruct data as [|a d]; cbn [af_loop].
      + exists []. repeat split; auto; discriminate.
      + exists []. rewrite app_nil_r. repeat split; auto; discriminate.
    - destruct data as [|a d]; cbn [af_loop].
      + exists []. repeat split; auto; discriminate.
      + destruct (Nat.leb_spec (length (a :: d)) k) as [Hle|Hlt].
        * exists []. rewrite app_nil_r. repeat split; auto; discriminate.
        * destruct e.
          -- exists (skipn k (a :: d)). rewrite firstn_skipn. repeat split; try discriminate.
             intros _ Hnil. pose proof (skipn_length k (a :: d)) as HL. rewrite Hnil in HL. cbn [length] in HL, Hlt. lia.
          -- specialize (IH (skipn k (a :: d))).
             destruct (af_loop env (skipn k (a :: d))) as [[acc w] er].
             destruct IH as [tail [Hd [Hok Herr]]].
             exists tail. split.
             ++ rewrite <- app_assoc, <- Hd, firstn_skipn. reflexivity.
             ++ split; [|exact Herr].
                intros Hf. destruct (Hok Hf) as [Ht Hw]. split; [exact Ht|].
                rewrite Hw, skipn_length. lia.
  Qed.

  Lemma af_loop_no_error env data acc w :
    af_loop env data = (acc, w, false) -> acc = data /\ w = length data.
  Proof.
    intros H. pose proof (af_loop_spec env data) as S. rewrite H in S.
    destruct S as [tail [Hd [Hok _]]]. destruct (Hok eq_refl) as [Ht Hw].
    subst tail. rewrite app_nil_r in Hd. auto.
  Qed.

  (* ==================================================================== LogFile *)
  Implicit Types (s : lf A) (o : sop_t A).

  Lemma roll_test_gt last now : LogFile_roll_guard_is_gt = true -> roll_test last now = (last <? now).
  Proof. intros H. unfold roll_test. rewrite H. reflexivity. Qed.

  Definition groups_ok s (chunks : list (list A)) : Prop :=
    files s <> [] /\
    exists groups : list (list (list A)),
      Forall2 (fun f g => snd f = concat g) (files s) groups /\ concat (rev groups) = chunks.

  Lemma groups_put s chunks acc w :
    groups_ok s chunks -> groups_ok (put acc w s) (chunks ++ [acc]).
  Proof.
    intros [Hne [groups [HF Hc]]]. unfold put.
    destruct (files s) as [|[nm d] r] eqn:Ef; [congruence|].
    inversion HF as [|f g fs gs Hfg HF' E1 E2]; subst. cbn [snd] in Hfg.
    split; [cbn [files]; discriminate|].
    exists ((g ++ [acc]) :: gs). cbn [files]. split.
    - constructor; [|exact HF']. cbn [snd]. rewrite Hfg, concat_app. cbn [concat]. rewrite app_nil_r. reflexivity.
    - cbn [rev]. rewrite !concat_app. cbn [concat]. rewrite !app_nil_r, app_assoc. reflexivity.
  Qed.

  Lemma groups_roll s chunks now :
    groups_ok s chunks -> groups_ok (fst (roll now s)) chunks.
  Proof.
    intros [Hne [groups [HF Hc]]]. unfold roll.
    destruct (roll_test (lastRoll s) now); cbn [fst]; [|split; [exact Hne|exists groups; auto]].
    split; [cbn [files]; discriminate|].
    exists ([] :: groups). cbn [files]. split.
    - constructor; [reflexivity|exact HF].
    - cbn [rev]. rewrite concat_app. cbn [concat]. rewrite !app_nil_r. exact Hc.
  Qed.

  Lemma groups_same_files s s' chunks :
    files s' = files s -> groups_ok s chunks -> groups_ok s' chunks.
  Proof. intros E [Hne H]. unfold groups_ok. rewrite E. auto. Qed.

  Lemma groups_step c s o chunks :
    groups_ok s chunks ->
    groups_ok (lf_step c s o) (chunks ++ match o with SAppend _ _ _ _ => [handed o] | _ => [] end).
  Proof.
    intros H. destruct o as [d env now now2| |now|]; cbn [lf_step handed].
    - unfold lf_append. destruct (af_loop env d) as [[acc w] er]. cbn [fst snd].
      pose proof (groups_put s chunks acc w H) as H1.
      destruct (rollSize c <? wb (put acc w s)); [apply groups_roll; exact H1|].
      destruct (checkEveryN c <=? cnt (put acc w s) + 1).
      + destruct (period now =? sop (set_cnt 0 (put acc w s))).
        * destruct (flushInterval c <? now - lastFlush (set_cnt 0 (put acc w s)));
            (eapply groups_same_files; [|exact H1]); reflexivity.
        * apply groups_roll. eapply groups_same_files; [|exact H1]. reflexivity.
      + eapply groups_same_files; [|exact H1]. reflexivity.
    - rewrite app_nil_r. eapply groups_same_files; [|exact H]. reflexivity.
    - rewrite app_nil_r. apply groups_roll. exact H.
    - rewrite app_nil_r. eapply groups_same_files; [|exact H]. reflexivity.
  Qed.

  Definition chunk_of o : list (list A) :=
    match o with SAppend _ _ _ _ => [handed o] | _ => [] end.

  Lemma groups_run c ops : forall s chunks,
    groups_ok s chunks -> groups_ok (lf_run c s ops) (chunks ++ flat_map chunk_of ops).
  Proof.
    induction ops as [|o ops IH]; intros s chunks H; cbn [lf_run fold_left flat_map].
    - rewrite app_nil_r. exact H.
    - change (fold_left (lf_step c) ops (lf_step c s o)) with (lf_run c (lf_step c s o) ops).
      rewrite app_assoc. apply IH. apply groups_step. exact H.
  Qed.

  Lemma roll_test_0 now : 0 < now -> roll_test 0 now = true.
  Proof. intros H. unfold roll_test. destruct LogFile_roll_guard_is_gt; [apply Z.ltb_lt|apply Z.leb_le]; lia. Qed.

  Lemma groups_new now : 0 < now -> groups_ok (lf_new now) [].
  Proof.
    intros Hn. unfold lf_new, roll. cbn [lastRoll].
    rewrite (roll_test_0 now Hn). cbn [fst].
    split; [cbn [files]; discriminate|]. exists [[]]. cbn [files]. split.
    - constructor; [reflexivity|constructor].
    - reflexivity.
  Qed.

  Lemma concat_map_concat (l : list (list (list A))) : concat (map (@concat A) l) = concat (concat l).
  Proof.
    induction l as [|x l IH]; cbn [map concat]; [reflexivity|]. rewrite concat_app, IH. reflexivity.
  Qed.

  Lemma Forall2_rev {X Y} (Rel : X -> Y -> Prop) l1 l2 : Forall2 Rel l1 l2 -> Forall2 Rel (rev l1) (rev l2).
  Proof.
    induction 1 as [|x y l1 l2 Hxy HF IH]; cbn [rev]; [constructor|].
    apply Forall2_app; [exact IH|]. constructor; [exact Hxy|constructor].
  Qed.

  Lemma groups_content s chunks :
    groups_ok s chunks -> concat (map snd (files_in_order s)) = concat chunks.
  Proof.
    intros [_ [groups [HF Hc]]]. unfold files_in_order. subst chunks.
    apply Forall2_rev in HF. rewrite <- concat_map_concat.
    f_equal. induction HF as [|f g fs gs Hfg HF IH]; cbn [map]; [reflexivity|]. rewrite Hfg, IH. reflexivity.
  Qed.

  (* the theorem: files in creation order = groups of whole chunks *)
  Lemma files_concat_groups c now ops :
    0 < now ->
    let s := lf_run c (lf_new now) ops in
    exists groups : list (list (list A)),
      Forall2 (fun f g => snd f = concat g) (files_in_order s) groups /\
      concat groups = flat_map chunk_of ops /\
      concat (map snd (files_in_order s)) = concat (flat_map chunk_of ops).
  Proof.
    intros Hn s. pose proof (groups_run c ops (lf_new now) [] (groups_new now Hn)) as H.
    cbn [app] in H. fold s in H. pose proof (groups_content _ _ H) as Hc.
    destruct H as [_ [groups [HF Hg]]].
    exists (rev groups). split; [apply Forall2_rev; exact HF|]. split; [exact Hg|exact Hc].
  Qed.

  Lemma chunks_no_error ops :
    forallb (fun o => negb (op_error o)) ops = true ->
    flat_map chunk_of ops = flat_map (@op_record A) ops.
  Proof.
    induction ops as [|o ops IH]; cbn [forallb flat_map]; [reflexivity|].
    intros H. apply andb_true_iff in H. destruct H as [Ho Hr]. rewrite (IH Hr). f_equal.
    destruct o as [d env now now2| |now|]; cbn [chunk_of op_record handed]; try reflexivity.
    cbn [op_error] in Ho. destruct (af_loop env d) as [[acc w] er] eqn:E. cbn [snd fst] in *.
    destruct er; [discriminate|]. apply af_loop_no_error in E. destruct E as [E _]. subst. reflexivity.
  Qed.

  (* ---- AppendFile::append, the retry loop in detail ---- *)
  (* [written] never exceeds what the stream accepted; on the ferror path it is exactly what the stream
     accepted before the failing call, and the failing call's bytes are on the stream but not counted *)
  Lemma af_loop_written env : forall data,
    match af_loop env data with
    | (acc, w, er) => (w <= length acc)%nat /\ (length acc <= length data)%nat /\ acc = firstn (length acc) data /\
                      (er = false -> w = length acc)
    end.
  Proof.
    induction env as [|[k e] env IH]; intros data.
    - destruct data as [|a d]; cbn [af_loop]; repeat split; auto; rewrite ?firstn_all; auto.
    - destruct data as [|a d]; cbn [af_loop]; [repeat split; auto|].
      destruct (Nat.leb_spec (length (a :: d)) k) as [Hle|Hlt].
      + repeat split; auto. rewrite firstn_all. reflexivity.
      + destruct e.
        * rewrite firstn_length. repeat split; try lia; try discriminate.
          rewrite Nat.min_l by lia. reflexivity.
        * specialize (IH (skipn k (a :: d))). destruct (af_loop env (skipn k (a :: d))) as [[acc w] er].
          destruct IH as [H1 [H2 [H3 H4]]]. rewrite skipn_length in H2.
          rewrite app_length, firstn_length, Nat.min_l by lia.
          repeat split; try lia.
          -- rewrite <- (firstn_skipn k (a :: d)) at 2. rewrite firstn_app, firstn_length, Nat.min_l by lia.
             replace (k + length acc - k)%nat with (length acc) by lia.
             rewrite firstn_firstn, Nat.min_r by lia. rewrite <- H3. reflexivity.
          -- intros Hf. rewrite (H4 Hf). reflexivity.
  Qed.

  (* short writes without ferror (zero-byte results included) are retried until the record is complete *)
  Lemma af_loop_retries env : forall data,
    Forall (fun x : wres => snd x = false) env -> af_loop env data = (data, length data, false).
  Proof.
    induction env as [|[k e] env IH]; intros data HF.
    - destruct data; reflexivity.
    - destruct data as [|a d]; [reflexivity|]. cbn [af_loop].
      inversion HF as [|x l He HF']; subst. cbn [snd] in He. subst e.
      destruct (Nat.leb_spec (length (a :: d)) k) as [Hle|Hlt]; [reflexivity|].
      rewrite (IH _ HF'). rewrite firstn_skipn, skipn_length. f_equal. f_equal. lia.
  Qed.

  (* ---- LogFile: bookkeeping invariants, for all configurations, clocks and op lists ---- *)
  Definition lf_inv (c : cfg) s : Prop :=
    sop s = period (lastRoll s) /\
    0 <= cnt s < Z.max 1 (checkEveryN c) /\
    match files s with
    | (nm, d) :: _ => nm = lastRoll s /\ 0 <= wb s <= Z.of_nat (length d)
    | [] => False
    end.

  Lemma lf_inv_roll c now s : lf_inv c s -> lf_inv c (fst (roll now s)).
  Proof.
    intros [H1 [H2 H3]]. unfold roll. destruct (roll_test (lastRoll s) now); cbn [fst]; [|exact (conj H1 (conj H2 H3))].
    unfold lf_inv. cbn [sop lastRoll cnt files wb length]. repeat split; auto; lia.
  Qed.

  Lemma lf_inv_put c acc w s : (w <= length acc)%nat -> lf_inv c s -> lf_inv c (put acc w s).
  Proof.
    intros Hw [H1 [H2 H3]]. unfold put. destruct (files s) as [|[nm d] r] eqn:E; [contradiction|].
    unfold lf_inv. cbn [sop lastRoll cnt files wb]. rewrite app_length. repeat split; auto; lia.
  Qed.

  Lemma lf_inv_same c s s' :
    sop s' = sop s -> lastRoll s' = lastRoll s -> files s' = files s -> wb s' = wb s ->
    0 <= cnt s' < Z.max 1 (checkEveryN c) -> lf_inv c s -> lf_inv c s'.
  Proof. intros E1 E2 E3 E4 Hc [H1 [H2 H3]]. unfold lf_inv. rewrite E1, E2, E3, E4. auto. Qed.

  Lemma lf_inv_step c s o : lf_inv c s -> lf_inv c (lf_step c s o).
  Proof.
    intros H. destruct o as [d env now now2| |now|]; cbn [lf_step].
    - unfold lf_append. pose proof (af_loop_written env d) as Hw.
      destruct (af_loop env d) as [[acc w] er]. destruct Hw as [Hw _]. cbn [fst].
      pose proof (lf_inv_put c acc w s Hw H) as H1. pose proof H1 as [_ [Hc _]].
      destruct (rollSize c <? wb (put acc w s)); [apply lf_inv_roll; exact H1|].
      destruct (Z.leb_spec (checkEveryN c) (cnt (put acc w s) + 1)) as [Hge|Hlt].
      + assert (H0 : lf_inv c (set_cnt 0 (put acc w s))) by (eapply lf_inv_same; [| | | | |exact H1]; try reflexivity; cbn [set_cnt cnt]; lia).
        destruct (period now =? sop (set_cnt 0 (put acc w s))).
        * destruct (flushInterval c <? now - lastFlush (set_cnt 0 (put acc w s)));
            [eapply lf_inv_same; [| | | | |exact H0]; try reflexivity; cbn [do_flush set_lastFlush set_cnt cnt]; lia|exact H0].
        * apply lf_inv_roll. exact H0.
      + eapply lf_inv_same; [| | | | |exact H1]; try reflexivity. cbn [set_cnt cnt]. lia.
    - eapply lf_inv_same; [| | | | |exact H]; try reflexivity. destruct H as [_ [Hc _]]. exact Hc.
    - apply lf_inv_roll. exact H.
    - eapply lf_inv_same; [| | | | |exact H]; try reflexivity. destruct H as [_ [Hc _]]. exact Hc.
  Qed.

  Lemma lf_inv_new c now : 0 < now -> lf_inv c (lf_new now).
  Proof.
    intros Hn. unfold lf_new, roll. cbn [lastRoll]. rewrite (roll_test_0 now Hn). cbn [fst].
    unfold lf_inv. cbn [sop lastRoll cnt files wb length]. repeat split; auto; lia.
  Qed.

  Lemma lf_inv_run c ops : forall s, lf_inv c s -> lf_inv c (lf_run c s ops).
  Proof.
    induction ops as [|o ops IH]; intros s H; cbn [lf_run fold_left]; [exact H|].
    apply IH. apply lf_inv_step. exact H.
  Qed.

  (* without stream errors writtenBytes_ is exactly the size of the current file *)
  Definition lf_exact s : Prop :=
    match files s with (nm, d) :: _ => wb s = Z.of_nat (length d) | [] => True end.

  Lemma lf_exact_roll now s : lf_exact s -> lf_exact (fst (roll now s)).
  Proof. intros H. unfold roll. destruct (roll_test (lastRoll s) now); cbn [fst]; [reflexivity|exact H]. Qed.

  Lemma lf_exact_step c s o : op_error o = false -> lf_exact s -> lf_exact (lf_step c s o).
  Proof.
    intros Hok H. destruct o as [d env now now2| |now|]; cbn [lf_step].
    - cbn [op_error] in Hok. unfold lf_append. destruct (af_loop env d) as [[acc w] er] eqn:E. cbn [snd fst] in *. subst er.
      apply af_loop_no_error in E. destruct E as [-> ->].
      assert (H1 : lf_exact (put d (length d) s)).
      { unfold lf_exact, put in *. destruct (files s) as [|[nm d0] r] eqn:Ef; [rewrite Ef; exact I|]. cbn [files wb]. rewrite app_length. lia. }
      destruct (rollSize c <? wb (put d (length d) s)); [apply lf_exact_roll; exact H1|].
      destruct (checkEveryN c <=? cnt (put d (length d) s) + 1).
      + destruct (period now =? sop (set_cnt 0 (put d (length d) s))).
        * destruct (flushInterval c <? now - lastFlush (set_cnt 0 (put d (length d) s))); exact H1.
        * apply lf_exact_roll. exact H1.
      + exact H1.
    - exact H.
    - apply lf_exact_roll. exact H.
    - exact H.
  Qed.

  Lemma lf_exact_run c ops : forall s,
    forallb (fun o => negb (op_error o)) ops = true -> lf_exact s -> lf_exact (lf_run c s ops).
  Proof.
    induction ops as [|o ops IH]; intros s Hok H; cbn [lf_run fold_left]; [exact H|].
    cbn [forallb] in Hok. apply andb_true_iff in Hok. destruct Hok as [Ho Hr].
    apply IH; [exact Hr|]. apply lf_exact_step; [|exact H]. destruct (op_error o); [discriminate|reflexivity].
  Qed.

  Theorem logfile_bookkeeping c now ops :
    0 < now ->
    let s := lf_run c (lf_new now) ops in
    sop s = period (lastRoll s) /\
    0 <= cnt s < Z.max 1 (checkEveryN c) /\
    (exists d older, files s = (lastRoll s, d) :: older /\ 0 <= wb s <= Z.of_nat (length d) /\
       (forallb (fun o => negb (op_error o)) ops = true -> wb s = Z.of_nat (length d))).
  Proof.
    intros Hn s. pose proof (lf_inv_run c ops _ (lf_inv_new c now Hn)) as [H1 [H2 H3]]. fold s in H1, H2, H3.
    split; [exact H1|]. split; [exact H2|].
    destruct (files s) as [|[nm d] older] eqn:E; [contradiction|]. destruct H3 as [-> Hw].
    exists d, older. repeat split; auto; try lia.
    intros Hok. assert (Hx : lf_exact (lf_new now)).
    { unfold lf_exact, lf_new, roll. destruct (roll_test (lastRoll _) now); cbn [fst files]; [reflexivity|exact I]. }
    pose proof (lf_exact_run c ops _ Hok Hx) as He. fold s in He. unfold lf_exact in He. rewrite E in He. exact He.
  Qed.

  (* ---- LogFile::append_unlocked, case by case: size roll / nothing / day-boundary roll / flush by interval ---- *)
  Theorem lf_append_cases c d env now now2 s :
    let '(acc, w, er) := af_loop env d in
    let s1 := put acc w s in
    let s' := fst (lf_append c d env now now2 s) in
    snd (lf_append c d env now now2 s) = er /\
    ( (* the file got too big: roll on the first clock value, count_ untouched, no flush *)
      (rollSize c < wb s1 /\ s' = fst (roll now s1))
      \/ (* not a check point: only count_ moves; the clock is not consulted, no flush, no roll *)
      (wb s1 <= rollSize c /\ cnt s1 + 1 < checkEveryN c /\ s' = set_cnt (cnt s1 + 1) s1)
      \/ (* check point in another period than the file's: day-boundary roll on the second clock value *)
      (wb s1 <= rollSize c /\ checkEveryN c <= cnt s1 + 1 /\ period now <> sop s1 /\
         s' = fst (roll now2 (set_cnt 0 s1)))
      \/ (* check point, same period, last flush too old: flush, lastFlush_ = now *)
      (wb s1 <= rollSize c /\ checkEveryN c <= cnt s1 + 1 /\ period now = sop s1 /\
         flushInterval c < now - lastFlush s1 /\ s' = do_flush (set_lastFlush now (set_cnt 0 s1)) /\
         nflush s' = S (nflush s) /\ lastFlush s' = now)
      \/ (* check point, same period, flushed recently: nothing but count_ = 0 *)
      (wb s1 <= rollSize c /\ checkEveryN c <= cnt s1 + 1 /\ period now = sop s1 /\
         now - lastFlush s1 <= flushInterval c /\ s' = set_cnt 0 s1 /\ nflush s' = nflush s) ).
  Proof.
    unfold lf_append. destruct (af_loop env d) as [[acc w] er]. cbn [fst snd]. split; [reflexivity|].
    assert (Hnf : nflush (put acc w s) = nflush s) by (unfold put; destruct (files s) as [|[nm d0] r]; reflexivity).
    assert (Hsop : sop (set_cnt 0 (put acc w s)) = sop (put acc w s)) by reflexivity.
    assert (Hlf : lastFlush (set_cnt 0 (put acc w s)) = lastFlush (put acc w s)) by reflexivity.
    destruct (Z.ltb_spec (rollSize c) (wb (put acc w s))) as [Hbig|Hsmall]; [left; auto|right].
    destruct (Z.leb_spec (checkEveryN c) (cnt (put acc w s) + 1)) as [Hchk|Hno]; [right|left; auto].
    rewrite Hsop, Hlf.
    destruct (Z.eqb_spec (period now) (sop (put acc w s))) as [Hsame|Hother]; [right|left; auto].
    destruct (Z.ltb_spec (flushInterval c) (now - lastFlush (put acc w s))) as [Hold|Hrecent]; [left|right].
    - repeat split; auto. cbn [do_flush set_lastFlush set_cnt nflush]. rewrite Hnf. reflexivity.
    - repeat split; auto.
  Qed.

  (* the flush interval as a guarantee: right after a check point that did not roll, the last flush (or the
     creation of the file) is at most flushInterval seconds older than the clock value just read *)
  Corollary flush_interval_kept c d env now now2 s :
    0 <= flushInterval c ->
    let '(acc, w, _) := af_loop env d in
    let s1 := put acc w s in
    let s' := fst (lf_append c d env now now2 s) in
    wb s1 <= rollSize c -> checkEveryN c <= cnt s1 + 1 -> period now = sop s1 ->
    now - lastFlush s' <= flushInterval c.
  Proof.
    intros Hfi. pose proof (lf_append_cases c d env now now2 s) as H.
    destruct (af_loop env d) as [[acc w] er]. cbn zeta in *. destruct H as [_ H]. intros Hs Hc Hp.
    destruct H as [[H _]|[[_ [H _]]|[[_ [_ [H _]]]|[[_ [_ [_ [_ [_ [_ H]]]]]]|[_ [_ [_ [H [E _]]]]]]]]]; try lia; try congruence.
    rewrite E. cbn [set_cnt lastFlush]. exact H.
  Qed.

  (* the day boundary: a check point whose first clock value lies in another period than the file's and
     whose second clock value is past the last creation second starts a new file named by that second,
     with startOfPeriod_ its period; the record just appended stays in the old file *)
  Corollary day_boundary_roll c d env now now2 s :
    LogFile_roll_guard_is_gt = true ->
    let '(acc, w, _) := af_loop env d in
    let s1 := put acc w s in
    let s' := fst (lf_append c d env now now2 s) in
    wb s1 <= rollSize c -> checkEveryN c <= cnt s1 + 1 -> period now <> sop s1 -> lastRoll s < now2 ->
    files s' = (now2, []) :: files s1 /\ sop s' = period now2 /\ lastRoll s' = now2 /\ lastFlush s' = now2 /\
    cnt s' = 0 /\ wb s' = 0.
  Proof.
    intros Hg. pose proof (lf_append_cases c d env now now2 s) as H.
    destruct (af_loop env d) as [[acc w] er]. cbn zeta in *. destruct H as [_ H]. intros Hs Hc Hp Hl.
    assert (Hlr : lastRoll (set_cnt 0 (put acc w s)) = lastRoll s) by (unfold put; destruct (files s) as [|[nm d0] r]; reflexivity).
    destruct H as [[H _]|[[_ [H _]]|[[_ [_ [_ E]]]|[[_ [_ [H _]]]|[_ [_ [H _]]]]]]]; try lia; try congruence.
    rewrite E. unfold roll. rewrite (roll_test_gt _ _ Hg), Hlr.
    destruct (Z.ltb_spec (lastRoll s) now2) as [_|Hc2]; [|lia]. cbn [fst files sop lastRoll lastFlush cnt wb set_cnt]. repeat split; reflexivity.
  Qed.

  (* ---- ~LogFile / ~AppendFile: fclose hands everything to the kernel ---- *)
  Definition lf_dirty s : Prop :=
    match files s with
    | (nm, d) :: _ => 0 <= dirty s <= Z.of_nat (length d)
    | [] => dirty s = 0
    end.

  Lemma lf_dirty_roll now s : lf_dirty s -> lf_dirty (fst (roll now s)).
  Proof.
    intros H. unfold roll. destruct (roll_test (lastRoll s) now); cbn [fst]; [|exact H].
    unfold lf_dirty. cbn [files dirty length]. lia.
  Qed.

  Lemma lf_dirty_same s s' : files s' = files s -> dirty s' = dirty s -> lf_dirty s -> lf_dirty s'.
  Proof. intros E1 E2 H. unfold lf_dirty. rewrite E1, E2. exact H. Qed.

  Lemma lf_dirty_zero s s' : files s' = files s -> dirty s' = 0 -> lf_dirty s'.
  Proof. intros E1 E2. unfold lf_dirty. rewrite E1, E2. destruct (files s) as [|[nm d] r]; lia. Qed.

  Lemma lf_dirty_step c s o : lf_dirty s -> lf_dirty (lf_step c s o).
  Proof.
    intros H. destruct o as [d env now now2| |now|]; cbn [lf_step].
    - unfold lf_append. destruct (af_loop env d) as [[acc w] er]. cbn [fst].
      assert (H1 : lf_dirty (put acc w s)).
      { unfold lf_dirty, put in *. destruct (files s) as [|[nm d0] r] eqn:Ef; [rewrite Ef; exact H|].
        cbn [files dirty]. rewrite app_length. lia. }
      destruct (rollSize c <? wb (put acc w s)); [apply lf_dirty_roll; exact H1|].
      destruct (checkEveryN c <=? cnt (put acc w s) + 1).
      + destruct (period now =? sop (set_cnt 0 (put acc w s))).
        * destruct (flushInterval c <? now - lastFlush (set_cnt 0 (put acc w s)));
            [eapply lf_dirty_zero; reflexivity|exact H1].
        * apply lf_dirty_roll. exact H1.
      + exact H1.
    - eapply lf_dirty_zero; reflexivity.
    - apply lf_dirty_roll. exact H.
    - eapply lf_dirty_zero; reflexivity.
  Qed.

  Lemma lf_dirty_run c ops : forall s, lf_dirty s -> lf_dirty (lf_run c s ops).
  Proof.
    induction ops as [|o ops IH]; intros s H; cbn [lf_run fold_left]; [exact H|]. apply IH. apply lf_dirty_step. exact H.
  Qed.

  Lemma lf_run_snoc c s ops o : lf_run c s (ops ++ [o]) = lf_step c (lf_run c s ops) o.
  Proof. unfold lf_run. rewrite fold_left_app. reflexivity. Qed.

  (* whatever happened before: the bytes stdio may still hold belong to the current file only and are at most
     its size; flush(), a roll (the old file is closed) and the destructor leave none; the destructor changes
     nothing else (no file content, no counter) *)
  Theorem logfile_destructor c now ops :
    let s := lf_run c (lf_new now) ops in
    lf_dirty s /\
    dirty (lf_step c s SClose) = 0 /\ files (lf_step c s SClose) = files s /\ nflush (lf_step c s SClose) = nflush s /\
    dirty (lf_step c s SFlush) = 0 /\ files (lf_step c s SFlush) = files s /\
    (forall t, snd (roll t s) = true -> dirty (fst (roll t s)) = 0) /\
    lf_run c (lf_new now) (ops ++ [SClose]) = lf_step c s SClose.
  Proof.
    intros s. split.
    - apply lf_dirty_run. unfold lf_new. apply lf_dirty_roll. unfold lf_dirty. reflexivity.
    - repeat split; try reflexivity; [|apply lf_run_snoc].
      intros t. unfold roll. destruct (roll_test (lastRoll s) t); cbn [fst snd]; [reflexivity|discriminate].
  Qed.

  (* ---- at most one new file per second: names strictly increase with creation ---- *)
  Hypothesis Hguard : LogFile_roll_guard_is_gt = true.

  Definition names_ok s : Prop :=
    StronglySorted (fun a b => b < a) (map fst (files s)) /\ Forall (fun n => n <= lastRoll s) (map fst (files s)).

  Lemma names_roll s now : names_ok s -> names_ok (fst (roll now s)).
  Proof.
    intros [Hs Hf]. unfold roll. rewrite (roll_test_gt _ _ Hguard).
    destruct (Z.ltb_spec (lastRoll s) now) as [Hlt|Hge]; cbn [fst]; [|split; assumption].
    split; cbn [files map fst lastRoll].
    - constructor; [exact Hs|]. eapply Forall_impl; [|exact Hf]. cbn. intros a Ha. lia.
    - constructor; [lia|]. eapply Forall_impl; [|exact Hf]. cbn. intros a Ha. lia.
  Qed.

  Lemma names_same s s' :
    map fst (files s') = map fst (files s) -> lastRoll s' = lastRoll s -> names_ok s -> names_ok s'.
  Proof. intros E1 E2 H. unfold names_ok. rewrite E1, E2. exact H. Qed.

  Lemma names_put s acc w : names_ok s -> names_ok (put acc w s).
  Proof.
    intros H. eapply names_same; [| |exact H]; unfold put; destruct (files s) as [|[nm d] r] eqn:E; cbn [files lastRoll map fst]; rewrite ?E; reflexivity.
  Qed.

  Lemma names_step c s o : names_ok s -> names_ok (lf_step c s o).
  Proof.
    intros H. destruct o as [d env now now2| |now|]; cbn [lf_step].
    - unfold lf_append. destruct (af_loop env d) as [[acc w] er]. cbn [fst].
      pose proof (names_put s acc w H) as H1.
      destruct (rollSize c <? wb (put acc w s)); [apply names_roll; exact H1|].
      destruct (checkEveryN c <=? cnt (put acc w s) + 1).
      + destruct (period now =? sop (set_cnt 0 (put acc w s))).
        * destruct (flushInterval c <? now - lastFlush (set_cnt 0 (put acc w s)));
            (eapply names_same; [| |exact H1]); reflexivity.
        * apply names_roll. eapply names_same; [| |exact H1]; reflexivity.
      + eapply names_same; [| |exact H1]; reflexivity.
    - eapply names_same; [| |exact H]; reflexivity.
    - apply names_roll. exact H.
    - eapply names_same; [| |exact H]; reflexivity.
  Qed.

  Lemma names_run c ops : forall s, names_ok s -> names_ok (lf_run c s ops).
  Proof.
    induction ops as [|o ops IH]; intros s H; cbn [lf_run fold_left]; [exact H|].
    apply IH. apply names_step. exact H.
  Qed.

  Lemma names_new now : names_ok (lf_new now).
  Proof.
    unfold lf_new. apply names_roll. split; cbn [files map]; constructor.
  Qed.

  Lemma ss_snoc {X} (Rel : X -> X -> Prop) l a :
    StronglySorted Rel l -> Forall (fun x => Rel x a) l -> StronglySorted Rel (l ++ [a]).
  Proof.
    induction l as [|x l IH]; intros Hs Hf; cbn [app].
    - constructor; constructor.
    - inversion Hs as [|y l' Hs' Hx]; subst. inversion Hf as [|y l' Hxa Hf']; subst.
      constructor; [apply IH; assumption|]. apply Forall_app. split; [exact Hx|]. constructor; [exact Hxa|constructor].
  Qed.

  Lemma ss_rev {X} (Rel : X -> X -> Prop) l :
    StronglySorted Rel l -> StronglySorted (fun a b => Rel b a) (rev l).
  Proof.
    induction 1 as [|a l Hs IH Hf]; cbn [rev]; [constructor|].
    apply ss_snoc; [exact IH|]. apply Forall_rev. exact Hf.
  Qed.

  Lemma names_increasing c now ops :
    StronglySorted Z.lt (map fst (files_in_order (lf_run c (@lf_new A now) ops))).
  Proof.
    pose proof (names_run c ops _ (names_new now)) as [Hs _].
    unfold files_in_order. rewrite map_rev. apply ss_rev in Hs. exact Hs.
  Qed.

  (* a roll creates a file only when the clock is past the previous creation second *)
  Lemma roll_guard now s : snd (roll now s) = true -> lastRoll s < now /\ lastRoll (fst (roll now s)) = now.
  Proof.
    unfold roll. rewrite (roll_test_gt _ _ Hguard).
    destruct (Z.ltb_spec (lastRoll s) now); cbn [fst snd]; [auto|discriminate].
  Qed.
End SeqProofs.

(* ====================================================================== several sinks *)
Section ProductProofs.
  Variables (S1 S2 O1 O2 : Type) (step1 : S1 -> O1 -> S1) (step2 : S2 -> O2 -> S2).

  (* whatever the interleaving: each component is its own model run on its own operations, in their order *)
  Lemma pair_run_split ops : forall s,
    pair_run S1 S2 O1 O2 step1 step2 s ops =
    (fold_left step1 (lefts O1 O2 ops) (fst s), fold_left step2 (rights O1 O2 ops) (snd s)).
  Proof.
    induction ops as [|o ops IH]; intros [s1 s2]; [reflexivity|].
    unfold pair_run in *. cbn [fold_left]. rewrite IH. destruct o; reflexivity.
  Qed.
End ProductProofs.

(* two LogFiles written alternately: the files of each are those of a LogFile that saw only its own operations *)
Lemma two_logfiles_independent (A : Type) (c1 c2 : cfg) (now1 now2 : Z) (ops : list (sop_t A + sop_t A)) :
  let s := pair_run _ _ _ _ (lf_step c1) (lf_step c2) (lf_new now1, lf_new now2) ops in
  fst s = lf_run c1 (lf_new now1) (lefts _ _ ops) /\ snd s = lf_run c2 (lf_new now2) (rights _ _ ops).
Proof. cbv zeta. rewrite pair_run_split. split; reflexivity. Qed.

(* ====================================================================== file names *)
Section NamesProofs.
  Variables (X : Type) (ltX : X -> X -> Prop).
  Notation lex := (lex_lt X ltX).

  Lemma lex_prefix p a b : lex a b -> lex (p ++ a) (p ++ b).
  Proof. intros H. induction p as [|x p IH]; cbn [app]; [exact H|apply lex_tail; exact IH]. Qed.

  (* two strings of the same length that compare as less keep doing so whatever follows them *)
  Lemma lex_same_len a b : lex a b -> length a = length b -> forall s1 s2, lex (a ++ s1) (b ++ s2).
  Proof.
    induction 1 as [x l|x y l1 l2 Hxy|x l1 l2 H IH]; intros Hl s1 s2; cbn [length] in Hl; cbn [app].
    - discriminate.
    - apply lex_head. exact Hxy.
    - apply lex_tail. apply IH. lia.
  Qed.

  Lemma fname_mono (stamp : Z -> list X) w base host pidlog a b :
    (forall t, length (stamp t) = w) -> lex (stamp a) (stamp b) ->
    lex (fname X stamp base host pidlog a) (fname X stamp base host pidlog b).
  Proof.
    intros Hw H. unfold fname. apply lex_prefix. apply lex_same_len; [exact H|]. rewrite !Hw. reflexivity.
  Qed.

  Lemma ss_map {U V} (f : U -> V) (RU : U -> U -> Prop) (RV : V -> V -> Prop) (Q : U -> Prop) l :
    (forall a b, Q a -> Q b -> RU a b -> RV (f a) (f b)) -> Forall Q l ->
    StronglySorted RU l -> StronglySorted RV (map f l).
  Proof.
    intros Hf HQ Hs. induction Hs as [|a l Hs IH Ha]; cbn [map]; [constructor|].
    inversion HQ as [|a' l' Qa Ql]; subst. constructor; [apply IH; exact Ql|].
    apply Forall_forall. intros v Hv. apply in_map_iff in Hv. destruct Hv as [u [<- Hu]].
    apply Hf; auto; [eapply Forall_forall in Ql; eauto|eapply Forall_forall in Ha; eauto].
  Qed.

  (* LogFile::getLogFileName: with basename, host name and pid fixed, and a time stamp of fixed width that
     grows (lexicographically) with the second - the contract of strftime("%Y%m%d-%H%M%S") over gmtime_r for
     years of four digits -, the names of the files grow strictly in creation order: sorting the directory
     by name gives the creation order, and no name is used twice *)
  Theorem file_names_increase (A : Type) (stamp : Z -> list X) (w : nat) (lo hi : Z) base host pidlog
      (c : cfg) (now : Z) (ops : list (sop_t A)) :
    LogFile_roll_guard_is_gt = true ->
    (forall t, length (stamp t) = w) ->
    (forall a b, lo <= a -> a < b -> b < hi -> lex (stamp a) (stamp b)) ->
    let fs := files_in_order (lf_run c (@lf_new A now) ops) in
    Forall (fun f => lo <= fst f < hi) fs ->
    StronglySorted lex (map (fun f => fname X stamp base host pidlog (fst f)) fs).
  Proof.
    intros Hg Hw Hm fs Hr.
    pose proof (names_increasing A Hg c now ops) as Hs. fold fs in Hs.
    rewrite <- (map_map fst (fname X stamp base host pidlog)).
    apply (ss_map _ Z.lt lex (fun t => lo <= t < hi)); [| |exact Hs].
    - intros a b Qa Qb Hab. apply (fname_mono stamp w); [exact Hw|]. apply Hm; lia.
    - apply Forall_forall. intros t Ht. apply in_map_iff in Ht. destruct Ht as [f [<- Hf]].
      eapply Forall_forall in Hr; eauto.
  Qed.
End NamesProofs.

(* ====================================================================== subsequences *)
Section Subseq.
  Context {X : Type}.
  Implicit Types l : list X.

  Lemma subseq_refl l : subseq l l.
  Proof. induction l; [apply subseq_nil|apply subseq_take; assumption]. Qed.

  Lemma subseq_nil_l l : subseq [] l.
  Proof. induction l; [apply subseq_nil|apply subseq_skip; assumption]. Qed.

  Lemma subseq_app l1 l1' l2 l2' : subseq l1 l1' -> subseq l2 l2' -> subseq (l1 ++ l2) (l1' ++ l2').
  Proof.
    induction 1 as [|x l1 l1' H IH|x l1 l1' H IH]; intros H2; cbn [app];
      [exact H2|apply subseq_skip; auto|apply subseq_take; auto].
  Qed.

  Lemma subseq_app_l l1 l2 : subseq l1 (l1 ++ l2).
  Proof. rewrite <- (app_nil_r l1) at 1. apply subseq_app; [apply subseq_refl|apply subseq_nil_l]. Qed.

  Lemma subseq_trans l1 l2 l3 : subseq l1 l2 -> subseq l2 l3 -> subseq l1 l3.
  Proof.
    intros H12 H23. revert l1 H12. induction H23 as [|x l2 l3 H IH|x l2 l3 H IH]; intros l1 H12.
    - exact H12.
    - apply subseq_skip. apply IH. exact H12.
    - inversion H12; subst; [apply subseq_skip|apply subseq_take]; apply IH; assumption.
  Qed.

  Lemma subseq_In l1 l2 x : subseq l1 l2 -> In x l1 -> In x l2.
  Proof. induction 1; cbn [In]; intros Hi; auto. destruct Hi; auto. Qed.

  Lemma subseq_NoDup l1 l2 : subseq l1 l2 -> NoDup l2 -> NoDup l1.
  Proof.
    induction 1 as [|x l1 l2 H IH|x l1 l2 H IH]; intros Hn; auto; inversion Hn; subst; auto.
    constructor; auto. intros Hi. eapply subseq_In in Hi; eauto.
  Qed.

  Lemma subseq_length l1 l2 : subseq l1 l2 -> (length l1 <= length l2)%nat.
  Proof. induction 1; cbn [length]; lia. Qed.
End Subseq.

(* ====================================================================== AsyncLogging *)
Section AsyncProofs.
  Variable R : Type.
  Variable rlen : R -> Z.
  Variable P : params.
  Hypothesis HP : params_ok P = true.
  Hypothesis Hagree : sites_agree P = true.

  Notation astate := (ast R).
  Notation stepP := (step R rlen P).
  Notation reachP := (reach R rlen P).
  Notation renderP := (render_batch R P).
  Notation pending := (pending R P).
  Notation fin_part := (fin_part R).
  Notation dropping := (dropping R P).
  Notation dropped_ofP := (dropped_of R P).
  Notation kept_ofP := (kept_of R P).

  (* the fit test of AsyncLogging::append passing implies that FixedBuffer::append copies *)
  Lemma fits_copies r (b : buf R) : fits R rlen P r b = true -> copies R rlen P r b = true.
  Proof.
    pose proof Hagree as H. unfold sites_agree in H. unfold fits, copies.
    destruct (p_fit_gt P), (p_copy_gt P); cbn in H; try discriminate; intros E; auto.
    apply Z.ltb_lt in E. apply Z.leb_le. lia.
  Qed.


  Lemma params_facts : (2 <= p_keep P)%nat /\ (2 <= p_rkeep P)%nat /\ (p_keep P <= p_thr P)%nat /\ 0 < p_cap P.
  Proof.
    pose proof HP as H. unfold params_ok in H.
    apply andb_true_iff in H. destruct H as [H H4]. apply andb_true_iff in H. destruct H as [H H3].
    apply andb_true_iff in H. destruct H as [H1 H2].
    apply Nat.leb_le in H1. apply Nat.leb_le in H2. apply Nat.leb_le in H3. apply Z.ltb_lt in H4. auto.
  Qed.

  Definition small (r : R) : Prop := rlen r < p_cap P.

  Lemma copies_empty r : small r -> copies R rlen P r empty_buf = true.
  Proof.
    unfold small, copies. cbn [empty_buf blen]. intros H.
    destruct (p_copy_gt P); [apply Z.ltb_lt|apply Z.leb_le]; lia.
  Qed.

  Ltac prj := cbn [sh be gh progs cur nxt bufs running pc nb1 nb2 twn fault hist owner mark swapmark batches
                   fbatch dropped out joined emit set_pc set_be recs blen] in *.

  Lemma flat_app (l1 l2 : list (buf R)) : flat (l1 ++ l2) = flat l1 ++ flat l2.
  Proof. unfold flat. apply flat_map_app. Qed.
  Lemma flat_one (b : buf R) : flat [b] = recs b.
  Proof. unfold flat. cbn [flat_map]. apply app_nil_r. Qed.

  Lemma Forall_upd_nth {X} (Q : X -> Prop) (l : list X) n x :
    Forall Q l -> Q x -> Forall Q (upd_nth n x l).
  Proof.
    revert n; induction l as [|h l IH]; intros n Hf Hx; destruct n; cbn [upd_nth]; auto;
      inversion Hf; subst; constructor; auto.
  Qed.

  (* ------------------------------------------------------------------ invariant 1: accounting *)
  Definition inv_hist (s : astate) : Prop :=
    hist (gh s) = taken (gh s) ++ flat (bufs (sh s)) ++ recs (cur (sh s)) /\
    swapmark (gh s) = length (taken (gh s)) /\
    Forall (Forall small) (progs s) /\
    (pc_final (pc (be s)) = false -> fbatch (gh s) = []).

  Lemma fe_append_recs r (s : shared_t R) :
    small r ->
    flat (bufs (fe_append R rlen P r s)) ++ recs (cur (fe_append R rlen P r s)) =
    (flat (bufs s) ++ recs (cur s)) ++ [r].
  Proof.
    intros Hr. unfold fe_append.
    destruct (fits R rlen P r (cur s)) eqn:E; prj.
    - unfold buf_append. rewrite (fits_copies _ _ E). prj. rewrite app_assoc. reflexivity.
    - unfold buf_append. rewrite (copies_empty r Hr). cbn [empty_buf blen recs]. prj.
      rewrite flat_app, flat_one. cbn [app]. reflexivity.
  Qed.

  Lemma inv_hist_init progs0 : Forall (Forall small) progs0 -> inv_hist (init progs0).
  Proof. intros H. unfold inv_hist, init, taken. prj. cbn. auto. Qed.

  Lemma loop_head_shape (s : astate) :
    exists p, loop_head R P s = set_pc R p s /\
      ((p = PLock /\ running (sh s) = true) \/
       (p = PFinalLock /\ running (sh s) = false /\ p_drain P = true) \/
       (p = PWrite [] true /\ running (sh s) = false /\ p_drain P = false)).
  Proof.
    unfold loop_head. destruct (running (sh s)); [eexists; split; [reflexivity|auto]|].
    destruct (p_drain P); eexists; (split; [reflexivity|auto]).
  Qed.

  Lemma inv_hist_step s l s' : inv_hist s -> stepP s l = Some s' -> inv_hist s'.
  Proof.
    intros [Hh [Hm [Hp Hf]]] Hstep. destruct l as [t| | |]; cbn [step] in Hstep.
    - destruct (nth_error (progs s) t) as [[|r rest]|] eqn:Ep; try discriminate.
      inversion Hstep; subst s'; clear Hstep. unfold inv_hist. prj.
      assert (Hrr : Forall small (r :: rest)).
      { eapply Forall_forall in Hp; [exact Hp|]. eapply nth_error_In; exact Ep. }
      inversion Hrr as [|x y Hr Hrest]; subst.
      repeat split.
      + rewrite Hh. unfold taken. prj. rewrite fe_append_recs by exact Hr.
        rewrite !app_assoc. reflexivity.
      + exact Hm.
      + apply Forall_upd_nth; assumption.
      + exact Hf.
    - unfold be_step in Hstep.
      destruct (pc (be s)) as [| | |batch|batch|[|b rest] [|]| |] eqn:Epc; inversion Hstep; subst s'; clear Hstep;
        cbn [pc_final] in Hf.
      + destruct (loop_head_shape s) as [p [E Hcase]]. rewrite E. unfold inv_hist. prj.
        repeat split; auto.
      + destruct (bufs (sh s)) eqn:Eb.
        * unfold inv_hist. prj. rewrite Eb. repeat split; auto.
        * unfold inv_hist, do_swap, taken. prj. rewrite Hf by reflexivity. rewrite !app_nil_r.
          rewrite concat_app. cbn [concat]. rewrite app_nil_r, !flat_app, flat_one. cbn [flat flat_map app].
          unfold taken in Hh. rewrite Hf, app_nil_r in Hh by reflexivity. rewrite Eb.
          repeat split; auto; rewrite Hh; rewrite ?app_assoc; reflexivity.
      + unfold inv_hist, do_swap, taken. prj. rewrite Hf by reflexivity. rewrite !app_nil_r.
        rewrite concat_app. cbn [concat]. rewrite app_nil_r, !flat_app, flat_one. cbn [flat flat_map app].
        unfold taken in Hh. rewrite Hf, app_nil_r in Hh by reflexivity.
        repeat split; auto; rewrite Hh; rewrite ?app_assoc; reflexivity.
      + unfold inv_hist, taken in *. prj. repeat split; auto.
      + unfold inv_hist, taken in *. prj. repeat split; auto.
      + unfold inv_hist, taken in *. prj. repeat split; auto.
      + match goal with |- inv_hist (loop_head R P ?x) => destruct (loop_head_shape x) as [p [E Hcase]]; rewrite E end.
        unfold inv_hist, taken in *. prj. repeat split; auto.
      + unfold inv_hist, taken in *. prj. repeat split; auto; try (intros Hx; discriminate).
      + unfold inv_hist, taken in *. prj. repeat split; auto.
      + unfold inv_hist, do_final_swap, taken. prj. cbn [pc_final].
        unfold taken in Hh. rewrite Hf, app_nil_r in Hh by reflexivity.
        rewrite !flat_app, flat_one.
        repeat split; auto; try (rewrite Hh; rewrite ?flat_app, !app_assoc; reflexivity);
          try (intros Hx; discriminate).
        cbn [flat flat_map empty_buf recs app]. rewrite app_nil_r. exact Hh.
    - destruct (mark (gh s)); inversion Hstep; subst s'; clear Hstep.
      unfold inv_hist, taken in *. prj. repeat split; auto.
    - destruct (mark (gh s)); try discriminate. destruct (pc (be s)) eqn:Epc; try discriminate.
      destruct (joined (gh s)); inversion Hstep; subst s'; clear Hstep.
      unfold inv_hist, taken in *. prj. rewrite Epc in *. repeat split; auto.
  Qed.
  (* ------------------------------------------------------------------ invariant 2: output accounting *)
  Definition inv_out (s : astate) : Prop :=
    out (gh s) ++ pending (pc (be s)) = flat_map renderP (batches (gh s)) ++ fin_part s /\
    (pc_final (pc (be s)) = false -> fbatch (gh s) = []) /\
    match pc (be s) with PAnn b | PWriteAnn b => (p_thr P <? length b)%nat = true | _ => True end.

  Lemma inv_out_init progs0 : inv_out (init progs0).
  Proof. unfold inv_out, init, fin_part. prj. cbn. auto. Qed.

  Lemma loop_head_out (x : astate) :
    out (gh x) = flat_map renderP (batches (gh x)) -> fbatch (gh x) = [] -> inv_out (loop_head R P x).
  Proof.
    intros Ho Hf. destruct (loop_head_shape x) as [p [E Hcase]]. rewrite E.
    unfold inv_out, fin_part. prj.
    destruct Hcase as [[Hp _]|[[Hp _]|[Hp _]]]; subst p; cbn [pending pc_final]; rewrite Hf, Ho; cbn [map app];
      rewrite ?app_nil_r; auto.
  Qed.

  Lemma inv_out_step s l s' : inv_out s -> stepP s l = Some s' -> inv_out s'.
  Proof.
    intros [Ho [Hf Ht]] Hstep. destruct l as [t| | |]; cbn [step] in Hstep.
    - destruct (nth_error (progs s) t) as [[|r rest]|]; try discriminate.
      inversion Hstep; subst s'; clear Hstep. unfold inv_out, fin_part in *. prj. auto.
    - unfold be_step in Hstep. unfold fin_part in Ho.
      destruct (pc (be s)) as [| | |batch|batch|[|b rest] [|]| |] eqn:Epc; inversion Hstep; subst s'; clear Hstep;
        cbn [pc_final pending] in *; rewrite ?app_nil_r in Ho.
      + apply loop_head_out; auto.
      + destruct (bufs (sh s)) eqn:Eb.
        * unfold inv_out, fin_part. prj. cbn [pc_final pending]. rewrite !app_nil_r. auto.
        * clear Eb. unfold inv_out, fin_part, do_swap. prj.
          rewrite flat_map_app. cbn [flat_map]. rewrite app_nil_r.
          destruct (p_thr P <? length (bufs (sh s) ++ [cur (sh s)]))%nat eqn:E; cbn [pc_final pending];
            rewrite app_nil_r, Ho; repeat split; auto.
          unfold render_batch. rewrite E. reflexivity.
      + unfold inv_out, fin_part, do_swap. prj.
        rewrite flat_map_app. cbn [flat_map]. rewrite app_nil_r.
        destruct (p_thr P <? length (bufs (sh s) ++ [cur (sh s)]))%nat eqn:E; cbn [pc_final pending];
          rewrite app_nil_r, Ho; repeat split; auto.
        unfold render_batch. rewrite E. reflexivity.
      + unfold inv_out, fin_part. prj. cbn [pc_final pending]. rewrite app_nil_r, <- Ho.
        repeat split; auto. unfold render_batch. rewrite Ht. rewrite <- app_assoc. reflexivity.
      + unfold inv_out, fin_part. prj. cbn [pc_final pending]. rewrite app_nil_r, <- Ho.
        repeat split; auto. rewrite <- app_assoc. reflexivity.
      + unfold inv_out, fin_part. prj. cbn [pc_final pending]. rewrite <- Ho.
        repeat split; auto. cbn [map app]. rewrite app_nil_r. reflexivity.
      + apply loop_head_out; prj; auto.
      + unfold inv_out, fin_part. prj. cbn [pc_final pending]. rewrite <- Ho.
        repeat split; auto. cbn [map app]. rewrite <- app_assoc. reflexivity.
      + unfold inv_out, fin_part. prj. cbn [pc_final pending]. rewrite app_nil_r, <- Ho.
        repeat split; auto. cbn [map app]. rewrite <- app_assoc. reflexivity.
      + unfold inv_out, fin_part, do_final_swap. prj. cbn [pc_final pending]. rewrite Ho.
        repeat split; auto. intros Hx; discriminate.
    - destruct (mark (gh s)); inversion Hstep; subst s'; clear Hstep.
      unfold inv_out, fin_part in *. prj. auto.
    - destruct (mark (gh s)); try discriminate. destruct (pc (be s)) eqn:Epc; try discriminate.
      destruct (joined (gh s)); inversion Hstep; subst s'; clear Hstep.
      unfold inv_out, fin_part in *. prj. rewrite Epc in *. auto.
  Qed.
  (* ------------------------------------------------------------------ invariant 3: stop() *)
  Definition inv_stop (s : astate) : Prop :=
    (running (sh s) = true -> mark (gh s) = None) /\
    (running (sh s) = false -> exists m, mark (gh s) = Some m /\ (m <= length (hist (gh s)))%nat) /\
    (pc (be s) = PFinalLock -> running (sh s) = false) /\
    (pc_final (pc (be s)) = true -> p_drain P = true ->
       exists m, mark (gh s) = Some m /\ (m <= swapmark (gh s))%nat) /\
    (joined (gh s) = true -> pc (be s) = PDone).

  Lemma inv_stop_init progs0 : inv_stop (init progs0).
  Proof. unfold inv_stop, init. prj. cbn [pc_final]. repeat split; intros; try discriminate; auto. Qed.

  Lemma fe_append_running r (s : shared_t R) : running (fe_append R rlen P r s) = running s.
  Proof. unfold fe_append. destruct (fits R rlen P r (cur s)); reflexivity. Qed.

  Lemma loop_head_stop (x : astate) :
    (running (sh x) = true -> mark (gh x) = None) ->
    (running (sh x) = false -> exists m, mark (gh x) = Some m /\ (m <= length (hist (gh x)))%nat) ->
    joined (gh x) = false ->
    inv_stop (loop_head R P x).
  Proof.
    intros H1 H2 Hj. destruct (loop_head_shape x) as [p [E Hcase]]. rewrite E.
    unfold inv_stop. prj.
    destruct Hcase as [[Hp Hr]|[[Hp [Hr Hd]]|[Hp [Hr Hd]]]]; subst p; cbn [pc_final];
      repeat split; auto; try discriminate; try congruence.
  Qed.

  Lemma inv_stop_step s l s' : inv_stop s -> stepP s l = Some s' -> inv_stop s'.
  Proof.
    intros [H1 [H2 [H3 [H4 H5]]]] Hstep. destruct l as [t| | |]; cbn [step] in Hstep.
    - destruct (nth_error (progs s) t) as [[|r rest]|]; try discriminate.
      inversion Hstep; subst s'; clear Hstep. unfold inv_stop. prj. rewrite fe_append_running.
      repeat split; auto.
      intros Hr. destruct (H2 Hr) as [m [Hm Hle]]. exists m. split; [exact Hm|]. rewrite app_length. lia.
    - assert (Hj : joined (gh s) = false).
      { destruct (joined (gh s)) eqn:Ej; [|reflexivity]. specialize (H5 eq_refl).
        unfold be_step in Hstep. rewrite H5 in Hstep. discriminate. }
      unfold be_step in Hstep.
      destruct (pc (be s)) as [| | |batch|batch|[|b rest] [|]| |] eqn:Epc; inversion Hstep; subst s'; clear Hstep;
        cbn [pc_final] in *.
      + apply loop_head_stop; auto.
      + destruct (bufs (sh s)) eqn:Eb.
        * unfold inv_stop. prj. cbn [pc_final]. repeat split; auto; try discriminate; congruence.
        * unfold inv_stop, do_swap. prj.
          repeat split; auto; try congruence;
            destruct (p_thr P <? length (bufs (sh s) ++ [cur (sh s)]))%nat; cbn [pc_final]; try discriminate; congruence.
      + unfold inv_stop, do_swap. prj.
        repeat split; auto; try congruence;
          destruct (p_thr P <? length (bufs (sh s) ++ [cur (sh s)]))%nat; cbn [pc_final]; try discriminate; congruence.
      + unfold inv_stop. prj. cbn [pc_final]. repeat split; auto; try discriminate; congruence.
      + unfold inv_stop. prj. cbn [pc_final]. repeat split; auto; try discriminate; congruence.
      + unfold inv_stop. prj. cbn [pc_final]. repeat split; auto; try discriminate; congruence.
      + apply loop_head_stop; prj; auto.
      + unfold inv_stop. prj. cbn [pc_final]. repeat split; auto; try discriminate; congruence.
      + unfold inv_stop. prj. cbn [pc_final]. repeat split; auto; try discriminate; congruence.
      + unfold inv_stop, do_final_swap. prj. cbn [pc_final].
        repeat split; auto; try discriminate; try congruence;
          try (intros _ _; apply H2; apply H3; reflexivity).
    - destruct (mark (gh s)) eqn:Em; inversion Hstep; subst s'; clear Hstep.
      unfold inv_stop. prj. repeat split; auto; try discriminate.
      + intros _. eexists. split; [reflexivity|lia].
      + intros Hf Hd. destruct (H4 Hf Hd) as [m [Hm _]]. discriminate.
    - destruct (mark (gh s)) eqn:Em; try discriminate. destruct (pc (be s)) eqn:Epc; try discriminate.
      destruct (joined (gh s)) eqn:Ej; inversion Hstep; subst s'; clear Hstep.
      unfold inv_stop. prj. rewrite ?Epc in *. repeat split; auto.
  Qed.
  (* ------------------------------------------------------------------ invariant 4: bounds, recycling *)
  (* no buffer holds more than its capacity; strictly less with the strict fit test *)
  Definition lt_cap (b : buf R) : Prop := if p_fit_gt P then blen b < p_cap P else blen b <= p_cap P.

  Lemma lt_cap_le b : lt_cap b -> blen b <= p_cap P /\ (p_fit_gt P = true -> blen b < p_cap P).
  Proof. unfold lt_cap. destruct (p_fit_gt P); intros H; split; auto; try lia; try discriminate. Qed.

  Lemma lt_cap_empty : lt_cap empty_buf.
  Proof.
    destruct params_facts as [_ [_ [_ Hc]]]. unfold lt_cap. cbn [empty_buf blen]. destruct (p_fit_gt P); lia.
  Qed.

  Lemma lt_cap_first r : small r -> lt_cap (mkBuf [r] (0 + rlen r)).
  Proof. unfold lt_cap, small. cbn [blen]. destruct (p_fit_gt P); lia. Qed.

  Lemma fits_room r (b : buf R) : fits R rlen P r b = true -> lt_cap (mkBuf (recs b ++ [r]) (blen b + rlen r)).
  Proof.
    unfold fits, lt_cap. cbn [blen]. destruct (p_fit_gt P); intros E; [apply Z.ltb_lt in E|apply Z.leb_le in E]; lia.
  Qed.

  Definition nxt_ok (s : astate) : Prop := nxt (sh s) = false -> bufs (sh s) <> [].

  Definition inv_bound (s : astate) : Prop :=
    fault (be s) = false /\ lt_cap (cur (sh s)) /\ Forall lt_cap (bufs (sh s)) /\
    match pc (be s) with
    | PStart | PLock | PWait | PFinalLock => nb1 (be s) = true /\ nb2 (be s) = true /\ nxt_ok s
    | PAnn b | PWriteAnn b => (p_thr P < length b)%nat /\ twn (be s) = length b /\ nxt_ok s
    | PWrite todo false =>
        (1 <= twn (be s))%nat /\ (nb2 (be s) = false -> (2 <= twn (be s))%nat) /\
        (length todo <= p_thr P)%nat /\ nxt_ok s
    | _ => True
    end.

  Lemma inv_bound_init progs0 : inv_bound (init progs0).
  Proof.
    destruct params_facts as [_ [_ [_ Hc]]].
    unfold inv_bound, init, nxt_ok. prj. repeat split; auto; try apply lt_cap_empty; try (intros; discriminate).
  Qed.

  Lemma recycle_ok (b : backend_t R) :
    fault b = false -> (1 <= twn b)%nat -> (nb2 b = false -> (2 <= twn b)%nat) ->
    fault (recycle R P b) = false /\ nb1 (recycle R P b) = true /\ nb2 (recycle R P b) = true /\
    pc (recycle R P b) = pc b.
  Proof.
    destruct params_facts as [_ [Hr _]].
    intros Hf H1 H2. unfold recycle.
    destruct (Nat.min (twn b) (p_rkeep P)) as [|k0] eqn:Ek; [lia|].
    destruct (nb1 b); destruct (nb2 b) eqn:E2; try (prj; rewrite Hf; auto; fail).
    destruct k0 as [|k1]; [specialize (H2 eq_refl); lia|]. prj. rewrite Hf. auto.
  Qed.

  Lemma fe_append_bound r (s : shared_t R) :
    small r -> lt_cap (cur s) -> Forall lt_cap (bufs s) ->
    lt_cap (cur (fe_append R rlen P r s)) /\ Forall lt_cap (bufs (fe_append R rlen P r s)) /\
    ((nxt s = false -> bufs s <> []) -> nxt (fe_append R rlen P r s) = false -> bufs (fe_append R rlen P r s) <> []).
  Proof.
    intros Hr Hcur Hb. unfold fe_append.
    destruct (fits R rlen P r (cur s)) eqn:E; prj.
    - unfold buf_append. rewrite (fits_copies _ _ E). prj. split; [|split; auto].
      apply fits_room. exact E.
    - unfold buf_append. rewrite (copies_empty r Hr). cbn [empty_buf blen recs app]. prj.
      split; [|split].
      + apply lt_cap_first. exact Hr.
      + apply Forall_app. split; [exact Hb|]. constructor; [exact Hcur|constructor].
      + intros _ _ Hx. destruct (bufs s); discriminate.
  Qed.

  Lemma loop_head_bound (x : astate) :
    fault (be x) = false -> lt_cap (cur (sh x)) -> Forall lt_cap (bufs (sh x)) ->
    nb1 (be x) = true -> nb2 (be x) = true -> nxt_ok x -> inv_bound (loop_head R P x).
  Proof.
    intros. destruct (loop_head_shape x) as [p [E Hcase]]. rewrite E.
    unfold inv_bound, nxt_ok in *. prj.
    destruct Hcase as [[Hp _]|[[Hp _]|[Hp _]]]; subst p; repeat split; auto.
  Qed.

  Lemma inv_bound_step s l s' :
    Forall (Forall small) (progs s) -> inv_bound s -> stepP s l = Some s' -> inv_bound s'.
  Proof.
    destruct params_facts as [Hk [Hrk [Hkt Hc]]].
    intros Hsm [Hf [Hcur [Hb Hpc]]] Hstep. destruct l as [t| | |]; cbn [step] in Hstep.
    - destruct (nth_error (progs s) t) as [[|r rest]|] eqn:Ep; try discriminate.
      inversion Hstep; subst s'; clear Hstep.
      assert (Hr : small r).
      { eapply Forall_forall in Hsm; [|eapply nth_error_In; exact Ep]. inversion Hsm; assumption. }
      destruct (fe_append_bound r (sh s) Hr Hcur Hb) as [A1 [A2 A3]].
      unfold inv_bound, nxt_ok in *. prj. repeat split; auto.
      destruct (pc (be s)) as [| | |batch|batch|todo [|]| |]; auto;
        repeat match goal with H : _ /\ _ |- _ => destruct H end; repeat split; auto.
    - unfold be_step in Hstep.
      destruct (pc (be s)) as [| | |batch|batch|[|b rest] [|]| |] eqn:Epc; inversion Hstep; subst s'; clear Hstep.
      + destruct Hpc as [? [? ?]]. apply loop_head_bound; auto.
      + destruct Hpc as [Hn1 [Hn2 Hnx]]. destruct (bufs (sh s)) eqn:Eb.
        * unfold inv_bound, nxt_ok in *. prj. rewrite Eb in *. repeat split; auto.
        * unfold inv_bound, do_swap, nxt_ok in *. prj.
          repeat split; auto; try apply lt_cap_empty.
          destruct (Nat.ltb_spec (p_thr P) (length (bufs (sh s) ++ [cur (sh s)]))) as [Hgt|Hle].
          -- repeat split; auto. intros; discriminate.
          -- rewrite app_length in *. cbn [length] in *. repeat split; try lia; try (intros; discriminate).
             intros Hx. rewrite Eb. cbn [length]. lia.
      + destruct Hpc as [Hn1 [Hn2 Hnx]].
        unfold inv_bound, do_swap, nxt_ok in *. prj.
        repeat split; auto; try apply lt_cap_empty.
        destruct (Nat.ltb_spec (p_thr P) (length (bufs (sh s) ++ [cur (sh s)]))) as [Hgt|Hle].
        * repeat split; auto. intros; discriminate.
        * rewrite app_length in *. cbn [length] in *. repeat split; try lia; try (intros; discriminate).
          intros Hx. destruct (nxt (sh s)) eqn:En; [congruence|].
          specialize (Hnx eq_refl). destruct (bufs (sh s)); [congruence|]. cbn [length]. lia.
      + destruct Hpc as [? [? ?]]. unfold inv_bound, nxt_ok in *. prj. repeat split; auto.
      + destruct Hpc as [Hgt [Htw Hnx]]. unfold inv_bound, nxt_ok in *. prj. repeat split; auto; try lia.
        rewrite firstn_length. lia.
      + unfold inv_bound. prj. repeat split; auto.
      + destruct Hpc as [Ht1 [Ht2 [Hlen Hnx]]].
        destruct (recycle_ok (be s) Hf Ht1 Ht2) as [R1 [R2 [R3 R4]]].
        apply loop_head_bound; prj; auto.
      + unfold inv_bound. prj. repeat split; auto.
      + destruct Hpc as [Ht1 [Ht2 [Hlen Hnx]]]. unfold inv_bound, nxt_ok in *. prj. cbn [length] in Hlen.
        repeat split; auto. lia.
      + unfold inv_bound, do_final_swap. prj.
        repeat split; auto; try apply lt_cap_empty.
    - destruct (mark (gh s)); inversion Hstep; subst s'; clear Hstep.
      unfold inv_bound, nxt_ok in *. prj. repeat split; auto.
    - destruct (mark (gh s)); try discriminate. destruct (pc (be s)) eqn:Epc; try discriminate.
      destruct (joined (gh s)); inversion Hstep; subst s'; clear Hstep.
      unfold inv_bound in *. prj. rewrite ?Epc in *. repeat split; auto.
  Qed.

  (* ------------------------------------------------------------------ invariant 5: the overload valve *)
  Definition inv_drop (s : astate) : Prop :=
    dropped (gh s) ++ dropping (pc (be s)) = flat_map dropped_ofP (batches (gh s)).

  Lemma inv_drop_init progs0 : inv_drop (init progs0).
  Proof. unfold inv_drop, init. prj. reflexivity. Qed.

  Lemma loop_head_drop (x : astate) :
    dropped (gh x) = flat_map dropped_ofP (batches (gh x)) -> inv_drop (loop_head R P x).
  Proof.
    intros Hd. destruct (loop_head_shape x) as [p [E Hcase]]. rewrite E. unfold inv_drop. prj.
    destruct Hcase as [[Hp _]|[[Hp _]|[Hp _]]]; subst p; cbn [C16_Model.dropping]; rewrite app_nil_r; exact Hd.
  Qed.

  Lemma do_swap_drop s :
    dropped (gh s) = flat_map dropped_ofP (batches (gh s)) -> inv_drop (do_swap R P s).
  Proof.
    intros Hd. unfold inv_drop, do_swap. prj. rewrite flat_map_app. cbn [flat_map]. rewrite app_nil_r, <- Hd.
    unfold dropped_of.
    destruct (p_thr P <? length (bufs (sh s) ++ [cur (sh s)]))%nat; cbn [C16_Model.dropping]; reflexivity.
  Qed.

  Lemma inv_drop_step s l s' : inv_drop s -> stepP s l = Some s' -> inv_drop s'.
  Proof.
    intros Hd Hstep. unfold inv_drop in Hd. destruct l as [t| | |]; cbn [step] in Hstep.
    - destruct (nth_error (progs s) t) as [[|r rest]|]; try discriminate.
      inversion Hstep; subst s'; clear Hstep. unfold inv_drop. prj. exact Hd.
    - unfold be_step in Hstep.
      destruct (pc (be s)) as [| | |batch|batch|[|b rest] [|]| |] eqn:Epc; inversion Hstep; subst s'; clear Hstep;
        cbn [C16_Model.dropping] in Hd; rewrite ?app_nil_r in Hd.
      + apply loop_head_drop. exact Hd.
      + destruct (bufs (sh s)) eqn:Eb.
        * unfold inv_drop. prj. cbn [C16_Model.dropping]. rewrite app_nil_r. exact Hd.
        * apply do_swap_drop. exact Hd.
      + apply do_swap_drop. exact Hd.
      + unfold inv_drop. prj. cbn [C16_Model.dropping]. exact Hd.
      + unfold inv_drop. prj. cbn [C16_Model.dropping]. rewrite app_nil_r. exact Hd.
      + unfold inv_drop. prj. cbn [C16_Model.dropping]. rewrite app_nil_r. exact Hd.
      + apply loop_head_drop. prj. exact Hd.
      + unfold inv_drop. prj. cbn [C16_Model.dropping]. rewrite app_nil_r. exact Hd.
      + unfold inv_drop. prj. cbn [C16_Model.dropping]. rewrite app_nil_r. exact Hd.
      + unfold inv_drop, do_final_swap. prj. cbn [C16_Model.dropping]. rewrite app_nil_r. exact Hd.
    - destruct (mark (gh s)); inversion Hstep; subst s'; clear Hstep.
      unfold inv_drop. prj. exact Hd.
    - destruct (mark (gh s)); try discriminate. destruct (pc (be s)) eqn:Epc; try discriminate.
      destruct (joined (gh s)); inversion Hstep; subst s'; clear Hstep.
      unfold inv_drop. prj. rewrite Epc. exact Hd.
  Qed.

  (* ------------------------------------------------------------------ invariant 6: per-thread order *)
  Definition inv_owner (progs0 : list (list R)) (s : astate) : Prop :=
    length (owner (gh s)) = length (hist (gh s)) /\
    forall t, per_thread t (gh s) ++ nth t (progs s) [] = nth t progs0 [].

  Lemma inv_owner_init progs0 : inv_owner progs0 (init progs0).
  Proof. unfold inv_owner, init, per_thread. prj. split; [reflexivity|]. intros t. reflexivity. Qed.

  Lemma combine_snoc {X Y} (a : list X) (b : list Y) x y :
    length a = length b -> combine (a ++ [x]) (b ++ [y]) = combine a b ++ [(x, y)].
  Proof.
    revert b; induction a as [|h a IH]; intros [|k b] Hl; cbn [length] in Hl; try discriminate; cbn [app combine].
    - reflexivity.
    - rewrite IH by lia. reflexivity.
  Qed.

  Lemma nth_upd_nth_eq {X} (l : list X) n x d : (n < length l)%nat -> nth n (upd_nth n x l) d = x.
  Proof.
    revert n; induction l as [|h l IH]; intros [|n] Hn; cbn [length] in Hn; try lia; cbn [upd_nth nth]; [reflexivity|].
    apply IH. lia.
  Qed.

  Lemma nth_upd_nth_neq {X} (l : list X) n m x d : n <> m -> nth m (upd_nth n x l) d = nth m l d.
  Proof.
    revert n m; induction l as [|h l IH]; intros [|n] [|m] Hn; cbn [upd_nth nth]; try reflexivity; try congruence.
    apply IH. congruence.
  Qed.

  Lemma be_step_frame s s' :
    be_step R P s = Some s' ->
    hist (gh s') = hist (gh s) /\ owner (gh s') = owner (gh s) /\ progs s' = progs s.
  Proof.
    unfold be_step. intros Hstep.
    destruct (pc (be s)) as [| | |batch|batch|[|b rest] [|]| |] eqn:Epc; inversion Hstep; subst s'; clear Hstep.
    - destruct (loop_head_shape s) as [p [E _]]. rewrite E. prj. auto.
    - destruct (bufs (sh s)); unfold do_swap; prj; auto.
    - unfold do_swap; prj; auto.
    - prj; auto.
    - prj; auto.
    - prj; auto.
    - match goal with |- context [loop_head R P ?x] => destruct (loop_head_shape x) as [p [E _]]; rewrite E end. prj. auto.
    - prj; auto.
    - prj; auto.
    - unfold do_final_swap; prj; auto.
  Qed.

  Lemma inv_owner_step progs0 s l s' : inv_owner progs0 s -> stepP s l = Some s' -> inv_owner progs0 s'.
  Proof.
    intros [Hl Ht] Hstep. destruct l as [t| | |]; cbn [step] in Hstep.
    - destruct (nth_error (progs s) t) as [[|r rest]|] eqn:Ep; try discriminate.
      inversion Hstep; subst s'; clear Hstep. unfold inv_owner, per_thread in *. prj.
      split; [rewrite !app_length; cbn [length]; lia|].
      intros t'. rewrite combine_snoc by exact Hl. rewrite filter_app, map_app. cbn [filter fst].
      assert (Hlt : (t < length (progs s))%nat) by (apply nth_error_Some; congruence).
      assert (Hn : nth t (progs s) [] = r :: rest) by (apply nth_error_nth with (d := []) in Ep; exact Ep).
      destruct (Nat.eqb_spec t t') as [E|NE].
      + subst t'. cbn [map snd]. rewrite nth_upd_nth_eq by exact Hlt.
        rewrite <- (Ht t), Hn, <- app_assoc. reflexivity.
      + cbn [map]. rewrite app_nil_r, nth_upd_nth_neq by exact NE. apply Ht.
    - destruct (be_step_frame s s' Hstep) as [E1 [E2 E3]]. unfold inv_owner, per_thread in *.
      rewrite E1, E2, E3. auto.
    - destruct (mark (gh s)); inversion Hstep; subst s'; clear Hstep.
      unfold inv_owner, per_thread in *. prj. auto.
    - destruct (mark (gh s)); try discriminate. destruct (pc (be s)) eqn:Epc; try discriminate.
      destruct (joined (gh s)); inversion Hstep; subst s'; clear Hstep.
      unfold inv_owner, per_thread in *. prj. auto.
  Qed.

  (* ------------------------------------------------------------------ all invariants, every reachable state *)
  Definition inv_all (progs0 : list (list R)) (s : astate) : Prop :=
    inv_hist s /\ inv_out s /\ inv_stop s /\ inv_bound s /\ inv_drop s /\ inv_owner progs0 s.

  Lemma inv_all_reach progs0 s :
    Forall (Forall small) progs0 -> reachP (init progs0) s -> inv_all progs0 s.
  Proof.
    intros Hs Hr. induction Hr as [|s l s' Hr IH Hstep].
    - unfold inv_all.
      split; [apply inv_hist_init; exact Hs|]. split; [apply inv_out_init|]. split; [apply inv_stop_init|].
      split; [apply inv_bound_init|]. split; [apply inv_drop_init|apply inv_owner_init].
    - destruct IH as [I1 [I2 [I3 [I4 [I5 I6]]]]]. unfold inv_all.
      split; [eapply inv_hist_step; eassumption|]. split; [eapply inv_out_step; eassumption|].
      split; [eapply inv_stop_step; eassumption|].
      split; [eapply inv_bound_step; [exact (proj1 (proj2 (proj2 I1)))|eassumption|eassumption]|].
      split; [eapply inv_drop_step; eassumption|eapply inv_owner_step; eassumption].
  Qed.

  (* ------------------------------------------------------------------ what reaches the file *)
  Lemma written_app (a b : list (oev R)) : written_of (a ++ b) = written_of a ++ written_of b.
  Proof. unfold written_of. apply flat_map_app. Qed.

  Lemma written_bufs (l : list (buf R)) : written_of (map OBuf l) = flat l.
  Proof. induction l as [|b l IH]; [reflexivity|]. cbn [map]. change (written_of (OBuf b :: map OBuf l)) with (recs b ++ written_of (map OBuf l)). rewrite IH. reflexivity. Qed.

  Lemma written_render batch : written_of (renderP batch) = flat (kept_ofP batch).
  Proof.
    unfold render_batch, kept_of. destruct (p_thr P <? length batch)%nat.
    - rewrite !written_app, written_bufs. cbn. apply app_nil_r.
    - rewrite written_app, written_bufs. cbn. apply app_nil_r.
  Qed.

  Lemma written_renders bs : written_of (flat_map renderP bs) = flat (flat_map kept_ofP bs).
  Proof.
    induction bs as [|b bs IH]; [reflexivity|]. cbn [flat_map]. rewrite written_app, flat_app, written_render, IH. reflexivity.
  Qed.

  Lemma kept_dropped batch : kept_ofP batch ++ dropped_ofP batch = batch.
  Proof.
    unfold kept_of, dropped_of. destruct (p_thr P <? length batch)%nat; [apply firstn_skipn|apply app_nil_r].
  Qed.

  (* the rendering of a batch, spelled out: an announcement (stderr and file) exactly when buffers are
     erased, carrying their number; the erased ones are the buffers after the first p_keep *)
  Lemma render_cases batch :
    ((length batch <= p_thr P)%nat /\ dropped_ofP batch = [] /\ kept_ofP batch = batch /\
       renderP batch = map OBuf batch ++ [OFlush]) \/
    ((p_thr P < length batch)%nat /\ dropped_ofP batch = skipn (p_keep P) batch /\ dropped_ofP batch <> [] /\
       kept_ofP batch = firstn (p_keep P) batch /\ length (kept_ofP batch) = p_keep P /\
       renderP batch = [OStderr (length (dropped_ofP batch)); OFileAnn (length (dropped_ofP batch))]
                          ++ map OBuf (kept_ofP batch) ++ [OFlush]).
  Proof.
    destruct params_facts as [Hk [_ [Hkt _]]].
    unfold render_batch, kept_of, dropped_of. destruct (Nat.ltb_spec (p_thr P) (length batch)) as [Hgt|Hle].
    - right. rewrite skipn_length, firstn_length. repeat split; auto; try lia.
      intros Hnil. pose proof (skipn_length (p_keep P) batch) as HL. rewrite Hnil in HL. cbn [length] in HL. lia.
    - left. auto.
  Qed.

  Theorem async_exactly_once progs0 s :
    Forall (Forall small) progs0 -> reachP (init progs0) s ->
    hist (gh s) = taken (gh s) ++ flat (bufs (sh s)) ++ recs (cur (sh s)) /\
    (forall t, per_thread t (gh s) ++ nth t (progs s) [] = nth t progs0 []) /\
    length (owner (gh s)) = length (hist (gh s)) /\
    out (gh s) ++ pending (pc (be s)) = flat_map renderP (batches (gh s)) ++ fin_part s /\
    written_of (out (gh s)) ++ written_of (pending (pc (be s))) =
      flat (flat_map kept_ofP (batches (gh s))) ++ (if pc_final (pc (be s)) then flat (fbatch (gh s)) else []) /\
    (pc_final (pc (be s)) = false -> fbatch (gh s) = []).
  Proof.
    intros Hs Hr. destruct (inv_all_reach progs0 s Hs Hr) as [[Hh [_ [_ Hf]]] [[Ho _] [_ [_ [_ [Hl Ht]]]]]].
    repeat split; auto.
    rewrite <- written_app, Ho, written_app, written_renders. f_equal.
    unfold C16_Model.fin_part. destruct (pc_final (pc (be s))); [|reflexivity].
    rewrite written_app, written_bufs. cbn. apply app_nil_r.
  Qed.

  Lemma kept_subseq batch : subseq (flat (kept_ofP batch)) (flat batch).
  Proof.
    rewrite <- (kept_dropped batch) at 2. rewrite flat_app. apply subseq_app_l.
  Qed.

  Lemma kept_all_subseq bs : subseq (flat (flat_map kept_ofP bs)) (flat (concat bs)).
  Proof.
    induction bs as [|b bs IH]; [apply subseq_nil|]. cbn [flat_map concat]. rewrite !flat_app.
    apply subseq_app; [apply kept_subseq|exact IH].
  Qed.

  (* at most once, in order: what has been handed to the file so far is an order-preserving selection of
     the records the back-end took, hence of the appended sequence; distinct records never appear twice *)
  Theorem written_subseq progs0 s :
    Forall (Forall small) progs0 -> reachP (init progs0) s ->
    subseq (written_of (out (gh s))) (taken (gh s)) /\
    subseq (written_of (out (gh s))) (hist (gh s)) /\
    (NoDup (hist (gh s)) -> NoDup (written_of (out (gh s)))).
  Proof.
    intros Hs Hr.
    destruct (async_exactly_once progs0 s Hs Hr) as [Hh [_ [_ [_ [Hw Hf]]]]].
    assert (H1 : subseq (written_of (out (gh s))) (taken (gh s))).
    { eapply subseq_trans; [apply (subseq_app_l _ (written_of (pending (pc (be s)))))|]. rewrite Hw.
      unfold taken. rewrite flat_app. apply subseq_app; [apply kept_all_subseq|].
      destruct (pc_final (pc (be s))); [apply subseq_refl|apply subseq_nil_l]. }
    assert (H2 : subseq (written_of (out (gh s))) (hist (gh s))).
    { eapply subseq_trans; [exact H1|]. rewrite Hh. apply subseq_app_l. }
    split; [exact H1|]. split; [exact H2|]. intros Hn. eapply subseq_NoDup; eauto.
  Qed.

  Theorem drop_only_announced progs0 s :
    Forall (Forall small) progs0 -> reachP (init progs0) s ->
    dropped (gh s) ++ dropping (pc (be s)) = flat_map dropped_ofP (batches (gh s)) /\
    out (gh s) ++ pending (pc (be s)) = flat_map renderP (batches (gh s)) ++ fin_part s /\
    (pc (be s) = PDone -> out (gh s) = final_out R P (gh s) /\ dropped (gh s) = flat_map dropped_ofP (batches (gh s))).
  Proof.
    intros Hs Hr. destruct (inv_all_reach progs0 s Hs Hr) as [_ [[Ho _] [_ [_ [Hd _]]]]].
    unfold inv_drop in Hd. repeat split; auto.
    - rewrite H in Ho. cbn [C16_Model.pending] in Ho. rewrite app_nil_r in Ho. rewrite Ho.
      unfold final_out, C16_Model.fin_part. rewrite H. reflexivity.
    - rewrite H in Hd. cbn [C16_Model.dropping] in Hd. rewrite app_nil_r in Hd. exact Hd.
  Qed.

  Definition within_cap (b : buf R) : Prop := blen b <= p_cap P /\ (p_fit_gt P = true -> blen b < p_cap P).

  Theorem buffers_bounded progs0 s :
    Forall (Forall small) progs0 -> reachP (init progs0) s ->
    fault (be s) = false /\ within_cap (cur (sh s)) /\ Forall within_cap (bufs (sh s)) /\
    (nxt (sh s) = false -> bufs (sh s) <> [] \/ pc_final (pc (be s)) = true) /\
    match pc (be s) with
    | PStart | PLock | PWait | PFinalLock => nb1 (be s) = true /\ nb2 (be s) = true
    | PWrite todo false => (length todo <= p_thr P)%nat /\ (1 <= twn (be s))%nat
    | _ => True
    end.
  Proof.
    intros Hs Hr. destruct (inv_all_reach progs0 s Hs Hr) as [_ [_ [_ [[Hf [Hc [Hb Hpc]]] _]]]].
    split; [exact Hf|]. split; [apply lt_cap_le; exact Hc|].
    split; [eapply Forall_impl; [|exact Hb]; intros b; apply lt_cap_le|]. split.
    - intros Hn. unfold nxt_ok in Hpc.
      destruct (pc (be s)) as [| | |batch|batch|todo [|]| |]; cbn [pc_final]; auto;
        left; repeat match goal with H : _ /\ _ |- _ => destruct H end; auto.
    - destruct (pc (be s)) as [| | |batch|batch|todo [|]| |]; auto;
        repeat match goal with H : _ /\ _ |- _ => destruct H end; auto.
  Qed.

  Theorem stop_flushes progs0 s :
    p_drain P = true ->
    Forall (Forall small) progs0 -> reachP (init progs0) s -> stop_flushed_full R P s.
  Proof.
    intros Hdrain Hs Hr Hj.
    destruct (inv_all_reach progs0 s Hs Hr) as [[Hh [Hm _]] [[Ho _] [[_ [_ [_ [H4 H5]]]] [_ [Hd _]]]]].
    specialize (H5 Hj). rewrite H5 in *. destruct (H4 eq_refl Hdrain) as [m [Em Hle]].
    rewrite Hm in Hle.
    exists m, (skipn m (taken (gh s))). repeat split; auto.
    - rewrite Hh, app_length. lia.
    - rewrite Hh, firstn_app. replace (m - length (taken (gh s)))%nat with 0%nat by lia.
      cbn [firstn]. rewrite app_nil_r, firstn_skipn. reflexivity.
    - cbn [C16_Model.pending] in Ho. rewrite app_nil_r in Ho. rewrite Ho.
      unfold final_out, C16_Model.fin_part. rewrite H5. reflexivity.
    - unfold inv_drop in Hd. rewrite H5 in Hd. cbn [C16_Model.dropping] in Hd. rewrite app_nil_r in Hd. exact Hd.
  Qed.
End AsyncProofs.

(* ====================================================================== stop() terminates *)
Section Termination.
  Variables (R : Type) (rlen : R -> Z) (P : params).
  Notation stepP := (step R rlen P).
  Notation runP := (run R rlen P).

  Ltac prj := cbn [sh be gh progs cur nxt bufs running pc nb1 nb2 twn fault hist owner mark swapmark batches
                   fbatch dropped out joined emit set_pc set_be recs blen] in *.

  (* the back-end is never blocked: it has a step from every park point but the exit (the timed wait
     returns whether or not anybody notifies) *)
  Lemma be_enabled (s : ast R) : pc (be s) <> PDone -> exists s', stepP s LBack = Some s'.
  Proof.
    intros Hn. cbn [step]. unfold be_step.
    destruct (pc (be s)) as [| | |batch|batch|[|b rest] [|]| |]; try (eexists; reflexivity). congruence.
  Qed.

  Lemma fe_append_sh r (x : shared_t R) :
    running (fe_append R rlen P r x) = running x /\
    (length (bufs (fe_append R rlen P r x)) <= length (bufs x) + 1)%nat.
  Proof.
    unfold fe_append. destruct (fits R rlen P r (cur x)); cbn [running bufs]; split; auto; try lia.
    rewrite app_length. cbn [length]. lia.
  Qed.

  Lemma stop_sets (s s' : ast R) : stepP s LStop = Some s' -> running (sh s') = false.
  Proof. cbn [step]. destruct (mark (gh s)); intros H; inversion H; subst. reflexivity. Qed.

  Lemma loop_head_stopped (x : ast R) : running (sh x) = false ->
    sh (loop_head R P x) = sh x /\
    (pc (be (loop_head R P x)) = PFinalLock \/ pc (be (loop_head R P x)) = PWrite [] true).
  Proof.
    intros Hr. unfold loop_head. rewrite Hr. destruct (p_drain P); cbn [set_pc set_be sh be pc]; auto.
  Qed.

  (* once running_ is false: every step keeps it false; a back-end step decreases the rank, an append
     raises it by at most one, stop()/join leave it alone *)
  Lemma rank_step (s : ast R) l s' : running (sh s) = false -> stepP s l = Some s' ->
    running (sh s') = false /\
    match l with
    | LBack => (stop_rank s' < stop_rank s)%nat
    | LApp _ => (stop_rank s' <= stop_rank s + 1)%nat
    | _ => stop_rank s' = stop_rank s
    end.
  Proof.
    intros Hr Hstep. destruct l as [t| | |]; cbn [step] in Hstep.
    - destruct (nth_error (progs s) t) as [[|r rest]|]; try discriminate.
      inversion Hstep; subst s'; clear Hstep. destruct (fe_append_sh r (sh s)) as [E1 E2].
      unfold stop_rank. prj. rewrite E1. split; [exact Hr|].
      destruct (pc (be s)) as [| | |batch|batch|todo [|]| |]; lia.
    - unfold be_step in Hstep.
      destruct (pc (be s)) as [| | |batch|batch|[|b rest] [|]| |] eqn:Epc; inversion Hstep; subst s'; clear Hstep.
      + destruct (loop_head_stopped s Hr) as [E [Hp|Hp]]; unfold stop_rank; rewrite E, Hp, Epc;
          split; auto; cbn [length]; try lia.
      + destruct (bufs (sh s)) eqn:Eb.
        * unfold stop_rank. prj. rewrite Epc, Eb. split; [auto|cbn [length]; lia].
        * unfold stop_rank, do_swap. prj. rewrite Epc. split; [auto|].
          destruct (p_thr P <? length (bufs (sh s) ++ [cur (sh s)]))%nat; rewrite app_length; cbn [length]; lia.
      + unfold stop_rank, do_swap. prj. rewrite Epc. split; [auto|].
        destruct (p_thr P <? length (bufs (sh s) ++ [cur (sh s)]))%nat; rewrite app_length; cbn [length]; lia.
      + unfold stop_rank. prj. rewrite Epc. split; [auto|lia].
      + unfold stop_rank. prj. rewrite Epc. split; [auto|rewrite firstn_length; lia].
      + unfold stop_rank. prj. rewrite Epc. split; [auto|cbn [length]; lia].
      + match goal with |- context [loop_head R P ?x] =>
          destruct (loop_head_stopped x Hr) as [E [Hp|Hp]]; unfold stop_rank; rewrite E, Hp end;
          prj; rewrite Epc; split; auto; cbn [length]; try lia.
      + unfold stop_rank. prj. rewrite Epc. split; [auto|cbn [length]; lia].
      + unfold stop_rank. prj. rewrite Epc. split; [auto|cbn [length]; lia].
      + unfold stop_rank, do_final_swap. prj. rewrite Epc. split; [auto|rewrite app_length; cbn [length]; lia].
    - destruct (mark (gh s)); inversion Hstep; subst s'; clear Hstep. unfold stop_rank. prj. auto.
    - destruct (mark (gh s)); try discriminate. destruct (pc (be s)) eqn:Epc; try discriminate.
      destruct (joined (gh s)); inversion Hstep; subst s'; clear Hstep. unfold stop_rank. prj. auto.
  Qed.

  (* every continuation: the number of back-end steps is bounded by the rank plus the number of appends *)
  Lemma rank_run ls : forall (s s' : ast R), running (sh s) = false -> runP s ls = Some s' ->
    running (sh s') = false /\ (count_back ls + stop_rank s' <= stop_rank s + count_app ls)%nat.
  Proof.
    induction ls as [|l ls IH]; intros s s' Hr Hrun; cbn [run] in Hrun.
    - inversion Hrun; subst. split; auto. cbn. lia.
    - destruct (stepP s l) as [s1|] eqn:E; [|discriminate].
      destruct (rank_step s l s1 Hr E) as [Hr1 Hk]. destruct (IH s1 s' Hr1 Hrun) as [Hr' Hb].
      split; [exact Hr'|]. unfold count_back, count_app in *. destruct l; cbn [filter length] in *; lia.
  Qed.

  Lemma back_frame (s s' : ast R) : stepP s LBack = Some s' ->
    hist (gh s') = hist (gh s) /\ mark (gh s') = mark (gh s).
  Proof.
    cbn [step]. unfold be_step. intros Hstep.
    destruct (pc (be s)) as [| | |batch|batch|[|b rest] [|]| |]; inversion Hstep; subst s'; clear Hstep;
      try (destruct (bufs (sh s)));
      unfold loop_head, do_swap, do_final_swap;
      try match goal with |- context [if running ?x then _ else _] => destruct (running x); [|destruct (p_drain P)] end;
      prj; auto.
  Qed.

  (* left alone, the back-end reaches its exit within stop_rank steps *)
  Lemma rank_finishes n : forall (s : ast R), running (sh s) = false -> (stop_rank s <= n)%nat ->
    exists k s', (k <= n)%nat /\ runP s (repeat LBack k) = Some s' /\ pc (be s') = PDone /\
                 hist (gh s') = hist (gh s) /\ mark (gh s') = mark (gh s).
  Proof.
    induction n as [|n IH]; intros s Hr Hn.
    - exists 0%nat, s. cbn [repeat run]. repeat split; auto.
      unfold stop_rank in Hn. destruct (pc (be s)) as [| | |batch|batch|todo [|]| |]; try lia. reflexivity.
    - assert (Hd : pc (be s) = PDone \/ pc (be s) <> PDone)
        by (destruct (pc (be s)); try (left; reflexivity); right; discriminate).
      destruct Hd as [Hd|Hd].
      + exists 0%nat, s. cbn [repeat run]. repeat split; auto. lia.
      + destruct (be_enabled s Hd) as [s1 E1].
        destruct (rank_step s LBack s1 Hr E1) as [Hr1 Hlt].
        destruct (back_frame s s1 E1) as [F1 F2].
        destruct (IH s1 Hr1) as [k [s' [Hk [Hrun [Hp [Hh Hm]]]]]]; [lia|].
        exists (S k), s'. cbn [repeat run]. rewrite E1. repeat split; auto; try lia; congruence.
  Qed.

  Lemma join_returns (s : ast R) :
    pc (be s) = PDone -> mark (gh s) <> None -> joined (gh s) = false ->
    exists s', stepP s LJoin = Some s' /\ joined (gh s') = true /\ sh s' = sh s /\ out (gh s') = out (gh s).
  Proof.
    intros Hp Hm Hj. cbn [step]. rewrite Hp, Hj. destruct (mark (gh s)); [|congruence].
    eexists. split; [reflexivity|]. prj. auto.
  Qed.

  Theorem stop_terminates (s : ast R) :
    running (sh s) = false ->
    (forall ls s', runP s ls = Some s' ->
       running (sh s') = false /\ (count_back ls + stop_rank s' <= stop_rank s + count_app ls)%nat /\
       (pc (be s') <> PDone -> exists s'', stepP s' LBack = Some s'')) /\
    (exists k s', (k <= stop_rank s)%nat /\ runP s (repeat LBack k) = Some s' /\ pc (be s') = PDone /\
       hist (gh s') = hist (gh s) /\ mark (gh s') = mark (gh s)).
  Proof.
    intros Hr. split.
    - intros ls s' Hrun. destruct (rank_run ls s s' Hr Hrun) as [H1 H2]. repeat split; auto. apply be_enabled.
    - apply (rank_finishes (stop_rank s) s Hr). lia.
  Qed.
End Termination.

(* ====================================================================== ~AsyncLogging, liveness *)
Section DtorLive.
  Variables (R : Type) (rlen : R -> Z) (P : params).
  Hypothesis HP : params_ok P = true.
  Hypothesis Hagree : sites_agree P = true.
  Notation stepP := (step R rlen P).
  Notation runP := (run R rlen P).
  Notation reachP := (reach R rlen P).

  Ltac prj := cbn [sh be gh progs cur nxt bufs running pc nb1 nb2 twn fault hist owner mark swapmark batches
                   fbatch dropped out joined emit set_pc set_be recs blen] in *.

  Lemma reach_run ls : forall s0 (s s' : ast R), reachP s0 s -> runP s ls = Some s' -> reachP s0 s'.
  Proof.
    induction ls as [|l ls IH]; intros s0 s s' Hr Hrun; cbn [run] in Hrun.
    - inversion Hrun; subst. exact Hr.
    - destruct (stepP s l) as [s1|] eqn:E; [|discriminate]. eapply IH; [|exact Hrun]. eapply reach_step; eauto.
  Qed.

  (* the history only grows and the mark of stop() stays *)
  Lemma step_hist_mark (s : ast R) l s' : stepP s l = Some s' ->
    (exists ext, hist (gh s') = hist (gh s) ++ ext) /\ (forall m, mark (gh s) = Some m -> mark (gh s') = Some m).
  Proof.
    intros H. destruct l as [t| | |].
    - cbn [step] in H. destruct (nth_error (progs s) t) as [[|r rest]|]; try discriminate.
      inversion H; subst s'. prj. split; [eexists; reflexivity|auto].
    - destruct (back_frame R rlen P s s' H) as [E1 E2]. rewrite E1, E2. split; [exists []; rewrite app_nil_r; reflexivity|auto].
    - cbn [step] in H. destruct (mark (gh s)) eqn:Em; inversion H; subst s'. prj.
      split; [exists []; rewrite app_nil_r; reflexivity|intros m Hm; discriminate].
    - cbn [step] in H. destruct (mark (gh s)); try discriminate. destruct (pc (be s)); try discriminate.
      destruct (joined (gh s)); inversion H; subst s'. prj. split; [exists []; rewrite app_nil_r; reflexivity|auto].
  Qed.

  Lemma run_hist_mark ls : forall (s s' : ast R), runP s ls = Some s' ->
    (exists ext, hist (gh s') = hist (gh s) ++ ext) /\ (forall m, mark (gh s) = Some m -> mark (gh s') = Some m).
  Proof.
    induction ls as [|l ls IH]; intros s s' Hrun; cbn [run] in Hrun.
    - inversion Hrun; subst. split; [exists []; rewrite app_nil_r; reflexivity|auto].
    - destruct (stepP s l) as [s1|] eqn:E; [|discriminate].
      destruct (step_hist_mark s l s1 E) as [[e1 H1] M1]. destruct (IH s1 s' Hrun) as [[e2 H2] M2].
      split; [exists (e1 ++ e2); rewrite H2, H1, app_assoc; reflexivity|auto].
  Qed.

  (* ~AsyncLogging while the logger is running: when the destructor has returned (the join inside its stop()
     has returned), every record appended before the destructor was entered has been taken by the back-end,
     all batches were rendered, the final batch written, the last event is a flush.  If stop() had been
     called before, the destructor does nothing *)
  Theorem destructor_flushes progs0 (s : ast R) ls s2 :
    p_drain P = true ->
    Forall (Forall (fun r => rlen r < p_cap P)) progs0 -> reachP (init progs0) s ->
    (mark (gh s) <> None -> dtor_entry R rlen P s = s) /\
    (mark (gh s) = None -> runP (dtor_entry R rlen P s) ls = Some s2 -> joined (gh s2) = true ->
       exists rest,
         taken (gh s2) = hist (gh s) ++ rest /\ pc (be s2) = PDone /\
         out (gh s2) = final_out R P (gh s2) /\
         dropped (gh s2) = flat_map (dropped_of R P) (batches (gh s2))).
  Proof.
    intros Hd Hs Hr. unfold dtor_entry. cbn [step]. split.
    - intros Hm. destruct (mark (gh s)); [reflexivity|congruence].
    - intros Hm Hrun Hj. rewrite Hm in Hrun.
      set (s1 := mkA (mkSh (cur (sh s)) (nxt (sh s)) (bufs (sh s)) false) (be s)
                     (mkGh (hist (gh s)) (owner (gh s)) (Some (length (hist (gh s)))) (swapmark (gh s)) (batches (gh s))
                           (fbatch (gh s)) (dropped (gh s)) (out (gh s)) (joined (gh s))) (progs s)) in *.
      assert (Hs1 : stepP s LStop = Some s1) by (cbn [step]; rewrite Hm; reflexivity).
      assert (Hr2 : reachP (init progs0) s2).
      { eapply reach_run; [|exact Hrun]. eapply reach_step; eauto. }
      destruct (run_hist_mark ls s1 s2 Hrun) as [[ext He] Hmk]. subst s1. prj.
      specialize (Hmk _ eq_refl).
      destruct (stop_flushes R rlen P HP Hagree progs0 s2 Hd Hs Hr2 Hj) as [m [rest [Em [_ [Et [Hp [Ho Hdr]]]]]]].
      rewrite Hmk in Em. inversion Em; subst m.
      exists rest. repeat split; auto.
      rewrite Et, He, firstn_app, Nat.sub_diag, firstn_all. cbn [firstn]. rewrite app_nil_r. reflexivity.
  Qed.

  (* ---- liveness ---- *)
  Definition weight (s : ast R) : nat := (stop_rank s + 2 * remaining R s)%nat.

  Lemma remaining_upd (ps : list (list R)) t r rest :
    nth_error ps t = Some (r :: rest) ->
    (fold_right (fun p a => length p + a) 0 (upd_nth t rest ps) + 1 = fold_right (fun p a => length p + a) 0 ps)%nat.
  Proof.
    revert t; induction ps as [|p ps IH]; intros [|t] H; cbn [nth_error] in H; try discriminate.
    - inversion H; subst. cbn [upd_nth fold_right length]. lia.
    - cbn [upd_nth fold_right]. specialize (IH _ H). lia.
  Qed.

  Lemma weight_step (s : ast R) l : running (sh s) = false ->
    running (sh (step_or_stay R rlen P s l)) = false /\
    (weight (step_or_stay R rlen P s l) <= weight s)%nat /\
    (l = LBack -> pc (be s) <> PDone -> (weight (step_or_stay R rlen P s l) < weight s)%nat).
  Proof.
    intros Hr. unfold step_or_stay. destruct (stepP s l) as [s'|] eqn:E.
    - destruct (rank_step R rlen P s l s' Hr E) as [Hr' Hk]. split; [exact Hr'|]. unfold weight, remaining.
      destruct l as [t| | |].
      + cbn [step] in E. destruct (nth_error (progs s) t) as [[|r rest]|] eqn:En; try discriminate.
        inversion E; subst s'. prj. pose proof (remaining_upd _ _ _ _ En). split; [lia|discriminate].
      + assert (Ep : progs s' = progs s).
        { cbn [step] in E. unfold be_step in E.
          destruct (pc (be s)) as [| | |batch|batch|[|b rest] [|]| |]; inversion E; subst s'; clear E;
            try (destruct (bufs (sh s))); unfold loop_head, do_swap, do_final_swap;
            try match goal with |- context [if running ?x then _ else _] => destruct (running x); [|destruct (p_drain P)] end;
            prj; reflexivity. }
        rewrite Ep. split; [lia|intros _ _; lia].
      + cbn [step] in E. destruct (mark (gh s)); inversion E; subst s'. prj. split; [lia|discriminate].
      + cbn [step] in E. destruct (mark (gh s)); try discriminate. destruct (pc (be s)); try discriminate.
        destruct (joined (gh s)); inversion E; subst s'. prj. split; [lia|discriminate].
    - split; [exact Hr|]. split; [lia|]. intros -> Hp. destruct (be_enabled R rlen P s Hp) as [s' E']. congruence.
  Qed.

  Lemma exec_snoc (s : ast R) ls l : exec R rlen P s (ls ++ [l]) = step_or_stay R rlen P (exec R rlen P s ls) l.
  Proof. unfold exec. rewrite fold_left_app. reflexivity. Qed.

  Lemma prefix_succ (f : nat -> label) n : sched_prefix f (S n) = sched_prefix f n ++ [f n].
  Proof. unfold sched_prefix. rewrite seq_S, map_app. reflexivity. Qed.

  Lemma exec_mono (f : nat -> label) (s : ast R) : running (sh s) = false ->
    forall n, running (sh (exec R rlen P s (sched_prefix f n))) = false /\
              forall k, (k <= n)%nat ->
                (weight (exec R rlen P s (sched_prefix f n)) <= weight (exec R rlen P s (sched_prefix f k)))%nat.
  Proof.
    intros Hr. induction n as [|n [IH1 IH2]].
    - split; [exact Hr|]. intros k Hk. assert (k = 0%nat) by lia. subst. lia.
    - rewrite prefix_succ, exec_snoc.
      destruct (weight_step (exec R rlen P s (sched_prefix f n)) (f n) IH1) as [W1 [W2 _]].
      split; [exact W1|]. intros k Hk. destruct (Nat.eq_dec k (S n)) as [->|Hne].
      + rewrite prefix_succ, exec_snoc. lia.
      + specialize (IH2 k ltac:(lia)). lia.
  Qed.

  Lemma exec_reach (s0 s : ast R) ls : reachP s0 s -> reachP s0 (exec R rlen P s ls).
  Proof.
    revert s; induction ls as [|l ls IH]; intros s Hr; [exact Hr|]. unfold exec. cbn [fold_left]. apply IH.
    unfold step_or_stay. destruct (stepP s l) as [s'|] eqn:E; [eapply reach_step; eauto|exact Hr].
  Qed.

  Lemma rank_zero_done (s : ast R) : stop_rank s = 0%nat -> pc (be s) = PDone.
  Proof. unfold stop_rank. destruct (pc (be s)) as [| | |batch|batch|todo [|]| |]; intros H; try lia. reflexivity. Qed.

  (* under every schedule that is fair to the back-end, whatever the front-end threads do in between: once
     running_ is false the back-end reaches its exit *)
  Lemma fair_reaches_done (f : nat -> label) (s : ast R) :
    running (sh s) = false -> fair_to_backend f ->
    forall k n0, (weight (exec R rlen P s (sched_prefix f n0)) <= k)%nat ->
      exists n, (n0 <= n)%nat /\ pc (be (exec R rlen P s (sched_prefix f n))) = PDone.
  Proof.
    intros Hr Hf. induction k as [|k IH]; intros n0 Hw.
    - exists n0. split; [lia|]. apply rank_zero_done. unfold weight in Hw. lia.
    - destruct (Hf n0) as [m [Hm Em]].
      destruct (exec_mono f s Hr m) as [Rm Mm]. specialize (Mm n0 Hm).
      assert (Hd : pc (be (exec R rlen P s (sched_prefix f m))) = PDone \/ pc (be (exec R rlen P s (sched_prefix f m))) <> PDone)
        by (destruct (pc (be (exec R rlen P s (sched_prefix f m)))); try (left; reflexivity); right; discriminate).
      destruct Hd as [Hd|Hd]; [exists m; auto|].
      destruct (weight_step _ (f m) Rm) as [_ [_ W3]]. specialize (W3 Em Hd).
      destruct (IH (S m)) as [n [Hn Hp]]; [rewrite prefix_succ, exec_snoc; lia|].
      exists n. split; [lia|exact Hp].
  Qed.

  (* liveness of stop(): from every reachable state in which stop() has stored running_ = false, under every
     schedule fair to the back-end (labels that are not enabled are skipped), the back-end reaches its exit;
     there the join is enabled (unless it has happened), and the state after the join satisfies the stop
     guarantee *)
  Theorem stop_liveness progs0 (s : ast R) (f : nat -> label) :
    p_drain P = true ->
    Forall (Forall (fun r => rlen r < p_cap P)) progs0 -> reachP (init progs0) s ->
    running (sh s) = false -> fair_to_backend f ->
    exists n, let s' := exec R rlen P s (sched_prefix f n) in
      reachP (init progs0) s' /\ pc (be s') = PDone /\
      (joined (gh s') = true \/
       exists s'', stepP s' LJoin = Some s'' /\ joined (gh s'') = true /\ reachP (init progs0) s'' /\
                   stop_flushed_full R P s'').
  Proof.
    intros Hd Hs Hr Hrun Hf.
    destruct (fair_reaches_done f s Hrun Hf _ 0%nat (le_n _)) as [n [_ Hp]].
    exists n. cbv zeta. set (s' := exec R rlen P s (sched_prefix f n)) in *.
    assert (Hr' : reachP (init progs0) s') by (apply exec_reach; exact Hr).
    split; [exact Hr'|]. split; [exact Hp|].
    destruct (joined (gh s')) eqn:Ej; [left; reflexivity|right].
    destruct (exec_mono f s Hrun n) as [Rn _]. fold s' in Rn.
    destruct (inv_all_reach R rlen P HP Hagree progs0 s' Hs Hr') as [_ [_ [[_ [H2 _]] _]]].
    destruct (H2 Rn) as [m [Em _]].
    destruct (join_returns R rlen P s' Hp ltac:(congruence) Ej) as [s'' [E1 [E2 _]]].
    exists s''. assert (Hr'' : reachP (init progs0) s'') by (eapply reach_step; eauto).
    repeat split; auto. apply (stop_flushes R rlen P HP Hagree progs0 s'' Hd Hs Hr'').
  Qed.
End DtorLive.

(* ====================================================================== AsyncLogging on top of LogFile *)
Section ComposeProofs.
  Variables (R A : Type) (bytes : R -> list A).

  Lemma evs_ops_records es ops chs :
    evs_ops R A bytes es ops chs -> concat (flat_map (@op_record A) ops) = concat chs.
  Proof.
    induction 1 as [|e o ch es os chs He Hes IH]; [reflexivity|].
    rewrite flat_map_app, concat_app, IH. cbn [concat]. f_equal.
    destruct He; cbn [flat_map op_record app concat]; rewrite ?app_nil_r; reflexivity.
  Qed.

  (* whatever the clock, the roll size, the flush interval and the short-write pattern: as long as the
     stream reports no error, the files in creation order, concatenated, are the bytes of the events in
     order, and every file consists of whole appends (a buffer is never split across two files) *)
  Lemma compose_files c now es ops chs :
    0 < now -> evs_ops R A bytes es ops chs ->
    forallb (fun o => negb (op_error o)) ops = true ->
    let s := lf_run c (lf_new now) ops in
    concat (map snd (files_in_order s)) = concat chs /\
    exists groups : list (list (list A)),
      Forall2 (fun f g => snd f = concat g) (files_in_order s) groups /\
      concat groups = flat_map (@op_record A) ops.
  Proof.
    intros Hn He Hok s.
    destruct (files_concat_groups A c now ops Hn) as [groups [HF [Hg Hc]]]. fold s in HF, Hc.
    rewrite (chunks_no_error A ops Hok) in Hg, Hc. split.
    - rewrite Hc. eapply evs_ops_records; exact He.
    - exists groups. split; assumption.
  Qed.
End ComposeProofs.

(* ====================================================================== stop(): from append to the files *)
Section EndToEndProofs.
  Variables (R A : Type) (bytes : R -> list A) (rlen : R -> Z) (P : params).
  Hypothesis HP : params_ok P = true.
  Hypothesis Hagree : sites_agree P = true.

  Notation evs := (evs_ops R A bytes).
  Notation bb := (bufs_bytes bytes).
  Notation renderP := (render_batch R P).

  Lemma bufs_bytes_app (l1 l2 : list (buf R)) : bb (l1 ++ l2) = bb l1 ++ bb l2.
  Proof. unfold bufs_bytes. rewrite map_app, concat_app. reflexivity. Qed.

  Lemma bufs_bytes_one (b : buf R) : bb [b] = buf_bytes bytes b.
  Proof. unfold bufs_bytes. cbn [map concat]. apply app_nil_r. Qed.

  Lemma concat_map_app {X Y} (f : X -> list Y) (l1 l2 : list X) :
    concat (map f (l1 ++ l2)) = concat (map f l1) ++ concat (map f l2).
  Proof. rewrite map_app, concat_app. reflexivity. Qed.

  (* the bytes of a list of buffers are the bytes of their records, in order *)
  Lemma bufs_bytes_flat (l : list (buf R)) : bb l = concat (map bytes (flat l)).
  Proof.
    induction l as [|b l IH]; [reflexivity|].
    change (b :: l) with ([b] ++ l). rewrite bufs_bytes_app, flat_app, concat_map_app, IH. f_equal.
    rewrite bufs_bytes_one, flat_one. reflexivity.
  Qed.

  Lemma evs_app_inv es1 : forall es2 ops chs, evs (es1 ++ es2) ops chs ->
    exists ops1 ops2 chs1 chs2, ops = ops1 ++ ops2 /\ chs = chs1 ++ chs2 /\ evs es1 ops1 chs1 /\ evs es2 ops2 chs2.
  Proof.
    induction es1 as [|e es1 IH]; intros es2 ops chs H.
    - exists [], ops, [], chs. repeat split; auto. constructor.
    - cbn [app] in H. inversion H as [|e' o ch es os chs' He Hes]; subst.
      destruct (IH _ _ _ Hes) as [ops1 [ops2 [chs1 [chs2 [E1 [E2 [H1 H2]]]]]]]. subst.
      exists (o ++ ops1), ops2, (ch :: chs1), chs2. rewrite app_assoc. repeat split; auto. constructor; assumption.
  Qed.

  Lemma evs_bufs l : forall ops chs, evs (map OBuf l) ops chs -> concat chs = bb l.
  Proof.
    induction l as [|b l IH]; intros ops chs H; cbn [map] in H; inversion H as [|e o ch es os chs' He Hes]; subst.
    - reflexivity.
    - inversion He; subst. cbn [concat]. change (b :: l) with ([b] ++ l).
      rewrite bufs_bytes_app, (IH _ _ Hes), bufs_bytes_one. reflexivity.
  Qed.

  Lemma evs_flush ops chs : evs [OFlush] ops chs -> concat chs = [].
  Proof.
    intros H. inversion H as [|e o ch es os chs' He Hes]; subst. inversion He; subst. inversion Hes; subst. reflexivity.
  Qed.

  Lemma evs_bufs_flush l ops chs : evs (map OBuf l ++ [OFlush]) ops chs -> concat chs = bb l.
  Proof.
    intros H. destruct (evs_app_inv _ _ _ _ H) as [o1 [o2 [c1 [c2 [_ [E [H1 H2]]]]]]]. subst.
    rewrite concat_app, (evs_bufs _ _ _ H1), (evs_flush _ _ H2). apply app_nil_r.
  Qed.

  (* the bytes one loop iteration puts into the file *)
  Lemma evs_render batch ops chs : evs (renderP batch) ops chs ->
    ((length batch <= p_thr P)%nat /\ concat chs = bb batch) \/
    ((p_thr P < length batch)%nat /\ exists line, concat chs = line ++ bb (firstn (p_keep P) batch)).
  Proof.
    intros H. destruct (render_cases R P HP batch) as [[Hle [_ [_ Er]]]|[Hgt [_ [_ [Ek [_ Er]]]]]]; rewrite Er in H.
    - left. split; [exact Hle|]. apply (evs_bufs_flush _ _ _ H).
    - right. split; [exact Hgt|]. cbn [app] in H.
      inversion H as [|e o ch es os chs' He Hes]; subst. inversion He; subst.
      inversion Hes as [|e2 o2 ch2 es2 os2 chs2 He2 Hes2]; subst. inversion He2; subst.
      exists ch2. cbn [concat app]. rewrite (evs_bufs_flush _ _ _ Hes2), Ek. reflexivity.
  Qed.

  Lemma evs_stream bs fb : forall ops chs,
    evs (flat_map renderP bs ++ map OBuf fb ++ [OFlush]) ops chs -> stream_ok R A bytes P bs fb (concat chs).
  Proof.
    induction bs as [|b bs IH]; intros ops chs H; cbn [flat_map app] in H.
    - rewrite (evs_bufs_flush _ _ _ H). constructor.
    - rewrite <- app_assoc in H. destruct (evs_app_inv _ _ _ _ H) as [o1 [o2 [c1 [c2 [_ [E [H1 H2]]]]]]]. subst.
      rewrite concat_app. specialize (IH _ _ H2).
      destruct (evs_render _ _ _ H1) as [[Hle Ec]|[Hgt [line Ec]]]; rewrite Ec.
      + apply so_whole; assumption.
      + rewrite <- app_assoc. apply so_drop; assumption.
  Qed.

  Lemma stream_whole bs fb st : stream_ok R A bytes P bs fb st ->
    Forall (fun b => (length b <= p_thr P)%nat) bs -> st = bb (concat bs ++ fb).
  Proof.
    induction 1 as [fb|b bs fb st Hle Hs IH|b bs fb st line Hgt Hs IH]; intros HF.
    - reflexivity.
    - inversion HF; subst. cbn [concat]. rewrite <- app_assoc, bufs_bytes_app, <- IH by assumption. reflexivity.
    - inversion HF; subst. lia.
  Qed.

  Lemma no_drop_all_whole (bs : list (list (buf R))) :
    flat_map (dropped_of R P) bs = [] -> Forall (fun b => (length b <= p_thr P)%nat) bs.
  Proof.
    induction bs as [|b bs IH]; intros H; constructor; cbn [flat_map] in H; apply app_eq_nil in H; destruct H as [Hb Hr].
    - destruct (render_cases R P HP b) as [[Hle _]|[_ [_ [Hne _]]]]; [exact Hle|congruence].
    - apply IH. exact Hr.
  Qed.

  Lemma evs_last_flush es ops chs : evs (es ++ [OFlush]) ops chs -> exists ops', ops = ops' ++ [SFlush].
  Proof.
    intros H. destruct (evs_app_inv _ _ _ _ H) as [o1 [o2 [c1 [c2 [E [_ [_ H2]]]]]]]. subst.
    inversion H2 as [|e o ch es' os chs' He Hes]; subst. inversion He; subst. inversion Hes; subst.
    exists o1. reflexivity.
  Qed.

  (* ... and nothing is left in the stdio buffer: the last LogFile operation was a flush *)
  Theorem stop_nothing_buffered progs0 (s : ast R) c now ops chs :
    p_drain P = true ->
    Forall (Forall (fun r => rlen r < p_cap P)) progs0 ->
    reach R rlen P (init progs0) s -> joined (gh s) = true ->
    evs (out (gh s)) ops chs ->
    dirty (lf_run c (lf_new now) ops) = 0 /\
    lf_run c (lf_new now) (ops ++ [SClose]) = do_close (lf_run c (lf_new now) ops).
  Proof.
    intros Hdrain Hs Hr Hj He.
    destruct (stop_flushes R rlen P HP Hagree progs0 s Hdrain Hs Hr Hj) as [m [rest [_ [_ [_ [_ [Eo _]]]]]]].
    rewrite Eo in He. unfold final_out in He. rewrite !app_assoc in He.
    destruct (evs_last_flush _ _ _ He) as [ops' ->]. split.
    - rewrite lf_run_snoc. reflexivity.
    - rewrite (lf_run_snoc A c (lf_new now) (ops' ++ [SFlush]) SClose). reflexivity.
  Qed.

  (* ONE theorem from append to the files: stop() has returned (drain after the loop) and the events the
     back-end produced were performed as LogFile operations without a stream error, with any clock, roll
     size, flush interval, short-write pattern.  Then
       - every record appended before the call is among the records the back-end took ([taken] =
         [firstn m hist ++ rest], [rest] = records appended while stop() was in progress);
       - the files concatenated in creation order are, batch by batch, the bytes of the taken buffers minus
         the announced drops ([stream_ok]: an over-threshold batch contributes one announcement line and
         its first p_keep buffers); the erased buffers are exactly [flat_map dropped_of batches];
       - every file consists of whole appends (a buffer is never split across two files);
       - if nothing was dropped the files are exactly the bytes of [firstn m hist ++ rest] *)
  Theorem stop_end_to_end progs0 (s : ast R) c now ops chs :
    p_drain P = true ->
    Forall (Forall (fun r => rlen r < p_cap P)) progs0 ->
    reach R rlen P (init progs0) s -> joined (gh s) = true ->
    0 < now -> evs (out (gh s)) ops chs ->
    forallb (fun o => negb (op_error o)) ops = true ->
    let files := files_in_order (lf_run c (lf_new now) ops) in
    exists m rest,
      mark (gh s) = Some m /\ (m <= length (hist (gh s)))%nat /\
      taken (gh s) = firstn m (hist (gh s)) ++ rest /\
      stream_ok R A bytes P (batches (gh s)) (fbatch (gh s)) (concat (map snd files)) /\
      dropped (gh s) = flat_map (dropped_of R P) (batches (gh s)) /\
      (exists groups : list (list (list A)),
         Forall2 (fun f g => snd f = concat g) files groups /\ concat groups = flat_map (@op_record A) ops) /\
      (dropped (gh s) = [] -> concat (map snd files) = concat (map bytes (firstn m (hist (gh s)) ++ rest))).
  Proof.
    intros Hdrain Hs Hr Hj Hn He Hok files.
    destruct (stop_flushes R rlen P HP Hagree progs0 s Hdrain Hs Hr Hj) as [m [rest [Em [Hle [Et [_ [Eo Ed]]]]]]].
    destruct (compose_files R A bytes c now _ _ _ Hn He Hok) as [Ec Hg]. fold files in Ec, Hg.
    assert (Hst : stream_ok R A bytes P (batches (gh s)) (fbatch (gh s)) (concat (map snd files))).
    { rewrite Ec. rewrite Eo in He. unfold final_out in He. eapply evs_stream; exact He. }
    exists m, rest. repeat split; auto.
    intros Hnil. rewrite (stream_whole _ _ _ Hst).
    - rewrite bufs_bytes_flat. rewrite <- Et. reflexivity.
    - apply no_drop_all_whole. rewrite <- Ed. exact Hnil.
  Qed.
End EndToEndProofs.

(* ====================================================================== the two trees of F-8 *)
(* the schedule of corpus/C16/f8_stop_loses_tail.case: start, lock, wait; a record; the back-end swaps
   and is about to write; a second record; stop(); the back-end writes, flushes, tests running_,
   leaves; join *)
Definition f8_progs : list (list nat) := [[1; 2]]%nat.
Definition f8_sched : list label :=
  [LBack; LBack; LApp 0; LBack; LApp 0; LStop; LBack; LBack; LBack; LJoin].
(* the same with the two further back-end steps of the drain (lock + swap, write) *)
Definition f8_sched_drain : list label :=
  [LBack; LBack; LApp 0; LBack; LApp 0; LStop; LBack; LBack; LBack; LBack; LBack; LJoin].
Definition f8_rlen (_ : nat) : Z := 100.

(* without the drain after the loop: stop() returns, record 2 (appended before the call) was never
   taken out of currentBuffer_ *)
Lemma stop_flushes_refuted :
  exists progs0 sched s,
    run nat f8_rlen (with_drain false current_params) (init progs0) sched = Some s /\
    joined (gh s) = true /\ ~ stop_flushed nat s.
Proof.
  exists f8_progs, f8_sched. eexists. split; [vm_compute; reflexivity|].
  split; [reflexivity|]. intros H. specialize (H eq_refl 2%nat eq_refl). destruct H as [rest H].
  vm_compute in H. discriminate.
Qed.

(* with the drain (the premises are closed boolean facts about the regenerated constants; they are
   discharged by computation in Properties_C16.v, so that this file does not depend on their values) *)
Lemma stop_flushes_repaired :
  params_ok (with_drain true current_params) = true -> sites_agree current_params = true ->
  forall (R : Type) (rlen : R -> Z) progs0 s,
  Forall (Forall (fun r => rlen r < p_cap current_params)) progs0 ->
  reach R rlen (with_drain true current_params) (init progs0) s ->
  stop_flushed_full R (with_drain true current_params) s.
Proof.
  intros Hok Hfit R rlen progs0 s Hs Hr.
  exact (stop_flushes R rlen (with_drain true current_params) Hok Hfit progs0 s eq_refl Hs Hr).
Qed.

(* the verdict for the tree the generated fact describes *)
Definition current_verdict (drain : bool) : Prop :=
  if drain then
    forall (R : Type) (rlen : R -> Z) progs0 s,
      Forall (Forall (fun r => rlen r < p_cap current_params)) progs0 ->
      reach R rlen (with_drain true current_params) (init progs0) s ->
      stop_flushed_full R (with_drain true current_params) s
  else
    exists progs0 sched s,
      run nat f8_rlen (with_drain false current_params) (init progs0) sched = Some s /\
      joined (gh s) = true /\ ~ stop_flushed nat s.

Lemma current_tree :
  params_ok (with_drain true current_params) = true -> sites_agree current_params = true ->
  current_verdict AsyncLogging_drain_after_loop /\
  with_drain AsyncLogging_drain_after_loop current_params = current_params.
Proof.
  intros Hok Hfit. split; [|reflexivity].
  unfold current_verdict. cbv [AsyncLogging_drain_after_loop].
  first [ exact (stop_flushes_repaired Hok Hfit) | exact stop_flushes_refuted ].
Qed.

(* every length a LogStream line can have is small *)
Lemma small_lines :
  (LogStream_kSmallBuffer <? p_cap current_params) = true ->
  forall n, n <= LogStream_kSmallBuffer -> n < p_cap current_params.
Proof. intros H n Hn. apply Z.ltb_lt in H. lia. Qed.

(* the defaults a LogFile is constructed with make the flush / check theorems applicable *)
Lemma default_cfg_sane :
  ((0 <=? LogFile_default_flushInterval) && (1 <=? LogFile_default_checkEveryN) && (0 <? LogFile_kRollPerSeconds)) = true ->
  0 <= flushInterval (default_cfg 0) /\ 1 <= checkEveryN (default_cfg 0) /\ 0 < LogFile_kRollPerSeconds.
Proof.
  intros H. apply andb_true_iff in H. destruct H as [H H3]. apply andb_true_iff in H. destruct H as [H1 H2].
  apply Z.leb_le in H1. apply Z.leb_le in H2. apply Z.ltb_lt in H3. cbn [default_cfg flushInterval checkEveryN]. auto.
Qed.

(* the theorems instantiated with the constants of the current tree *)
Section Current.
  Hypothesis Hok : params_ok current_params = true.
  Hypothesis Hfit : sites_agree current_params = true.
  Variables (R : Type) (rlen : R -> Z) (progs0 : list (list R)) (s : ast R).
  Hypothesis Hlines : Forall (Forall (fun r => rlen r <= LogStream_kSmallBuffer)) progs0.
  Hypothesis Hsm : (LogStream_kSmallBuffer <? p_cap current_params) = true.
  Hypothesis Hr : reach R rlen current_params (init progs0) s.

  Lemma lines_small : Forall (Forall (small R rlen current_params)) progs0.
  Proof.
    eapply Forall_impl; [|exact Hlines]. intros l Hl. eapply Forall_impl; [|exact Hl].
    intros r Hle. unfold small. apply small_lines; assumption.
  Qed.

  Lemma current_exactly_once :
    hist (gh s) = taken (gh s) ++ flat (bufs (sh s)) ++ recs (cur (sh s)) /\
    (forall t, per_thread t (gh s) ++ nth t (progs s) [] = nth t progs0 []) /\
    written_of (out (gh s)) ++ written_of (pending R current_params (pc (be s))) =
      flat (flat_map (kept_of R current_params) (batches (gh s))) ++
      (if pc_final (pc (be s)) then flat (fbatch (gh s)) else []) /\
    dropped (gh s) ++ dropping R current_params (pc (be s)) =
      flat_map (dropped_of R current_params) (batches (gh s)) /\
    fault (be s) = false.
  Proof.
    pose proof lines_small as Hs.
    destruct (async_exactly_once R rlen current_params Hok Hfit progs0 s Hs Hr) as [H1 [H2 [_ [_ [H5 _]]]]].
    destruct (drop_only_announced R rlen current_params Hok Hfit progs0 s Hs Hr) as [H6 _].
    destruct (buffers_bounded R rlen current_params Hok Hfit progs0 s Hs Hr) as [H7 _].
    auto.
  Qed.
End Current.
