(* C16_Proofs: lemmas and invariants for C16_Model (AppendFile / LogFile / AsyncLogging). *)
From Coq Require Import List ZArith Bool Arith Lia Sorted.
From Muduo Require Import Gen_Consts Gen_C16 C16_Model.
Import ListNotations.
Local Open Scope Z_scope.

(* ====================================================================== AppendFile::append *)
Section SeqProofs.
  Variable A : Type.
  Implicit Types (data acc : list A) (env : list wres).

  (* for every pattern of short writes: what the stream got is a prefix of the record, in order; it is
     the whole record (and [written] = len) unless the stream reported an error, in which case it is a
     strict prefix *)
  Lemma af_loop_spec env : forall data,
    match af_loop env data with
    | (acc, w, er) =>
        exists tail, data = acc ++ tail /\
          (er = false -> tail = [] /\ w = length data) /\
          (er = true -> tail <> [])
    end.
  Proof.
    induction env as [|[k e] env IH]; intros data.
    - destruct data as [|a d]; cbn [af_loop].
      + exists []. repeat split; auto; discriminate.
      + exists []. rewrite app_nil_r. repeat split; auto; discriminate.
    - destruct data as [|a d]; cbn [af_loop].
      + exists []. repeat split; auto; discriminate.
      + destruct (Nat.leb_spec (length (a :: d)) k) as [Hle|Hlt].
        * exists []. rewrite app_nil_r. repeat split; auto; discriminate.
        * destruct e.
          -- exists (skipn k (a :: d)). rewrite firstn_skipn. repeat split; try discriminate.
             intros _ Hnil. pose proof (skipn_length k (a :: d)) as HL. rewrite Hnil in HL. cbn [length] in HL, Hlt. lia.
          -- specialize (IH (skipn k (a :: d))).
             destruct (af_loop env (skipn k (a :: d))) as [[acc w] er].
             destruct IH as [tail [Hd [Hok Herr]]].
             exists tail. split.
             ++ rewrite <- app_assoc, <- Hd, firstn_skipn. reflexivity.
             ++ split; [|exact Herr].
                intros Hf. destruct (Hok Hf) as [Ht Hw]. split; [exact Ht|].
                rewrite Hw, skipn_length. lia.
  Qed.

  Lemma af_loop_no_error env data acc w :
    af_loop env data = (acc, w, false) -> acc = data /\ w = length data.
  Proof.
    intros H. pose proof (af_loop_spec env data) as S. rewrite H in S.
    destruct S as [tail [Hd [Hok _]]]. destruct (Hok eq_refl) as [Ht Hw].
    subst tail. rewrite app_nil_r in Hd. auto.
  Qed.

  (* ==================================================================== LogFile *)
  Implicit Types (s : lf A) (o : sop_t A).

  Definition groups_ok s (chunks : list (list A)) : Prop :=
    files s <> [] /\
    exists groups : list (list (list A)),
      Forall2 (fun f g => snd f = concat g) (files s) groups /\ concat (rev groups) = chunks.

  Lemma groups_put s chunks acc w :
    groups_ok s chunks -> groups_ok (put acc w s) (chunks ++ [acc]).
  Proof.
    intros [Hne [groups [HF Hc]]]. unfold put.
    destruct (files s) as [|[nm d] r] eqn:Ef; [congruence|].
    inversion HF as [|f g fs gs Hfg HF' E1 E2]; subst. cbn [snd] in Hfg.
    split; [cbn [files]; discriminate|].
    exists ((g ++ [acc]) :: gs). cbn [files]. split.
    - constructor; [|exact HF']. cbn [snd]. rewrite Hfg, concat_app. cbn [concat]. rewrite app_nil_r. reflexivity.
    - cbn [rev]. rewrite !concat_app. cbn [concat]. rewrite !app_nil_r, app_assoc. reflexivity.
  Qed.

  Lemma groups_roll s chunks now :
    groups_ok s chunks -> groups_ok (fst (roll now s)) chunks.
  Proof.
    intros [Hne [groups [HF Hc]]]. unfold roll.
    destruct (lastRoll s <? now); cbn [fst]; [|split; [exact Hne|exists groups; auto]].
    split; [cbn [files]; discriminate|].
    exists ([] :: groups). cbn [files]. split.
    - constructor; [reflexivity|exact HF].
    - cbn [rev]. rewrite concat_app. cbn [concat]. rewrite !app_nil_r. exact Hc.
  Qed.

  Lemma groups_same_files s s' chunks :
    files s' = files s -> groups_ok s chunks -> groups_ok s' chunks.
  Proof. intros E [Hne H]. unfold groups_ok. rewrite E. auto. Qed.

  Lemma groups_step c s o chunks :
    groups_ok s chunks ->
    groups_ok (lf_step c s o) (chunks ++ match o with SAppend _ _ _ _ => [handed o] | _ => [] end).
  Proof.
    intros H. destruct o as [d env now now2| |now]; cbn [lf_step handed].
    - unfold lf_append. destruct (af_loop env d) as [[acc w] er]. cbn [fst snd].
      pose proof (groups_put s chunks acc w H) as H1.
      destruct (rollSize c <? wb (put acc w s)); [apply groups_roll; exact H1|].
      destruct (checkEveryN c <=? cnt (put acc w s) + 1).
      + destruct (period now =? sop (set_cnt 0 (put acc w s))).
        * destruct (flushInterval c <? now - lastFlush (set_cnt 0 (put acc w s)));
            (eapply groups_same_files; [|exact H1]); reflexivity.
        * apply groups_roll. eapply groups_same_files; [|exact H1]. reflexivity.
      + eapply groups_same_files; [|exact H1]. reflexivity.
    - rewrite app_nil_r. eapply groups_same_files; [|exact H]. reflexivity.
    - rewrite app_nil_r. apply groups_roll. exact H.
  Qed.

  Definition chunk_of o : list (list A) :=
    match o with SAppend _ _ _ _ => [handed o] | _ => [] end.

  Lemma groups_run c ops : forall s chunks,
    groups_ok s chunks -> groups_ok (lf_run c s ops) (chunks ++ flat_map chunk_of ops).
  Proof.
    induction ops as [|o ops IH]; intros s chunks H; cbn [lf_run fold_left flat_map].
    - rewrite app_nil_r. exact H.
    - change (fold_left (lf_step c) ops (lf_step c s o)) with (lf_run c (lf_step c s o) ops).
      rewrite app_assoc. apply IH. apply groups_step. exact H.
  Qed.

  Lemma groups_new now : 0 < now -> groups_ok (lf_new now) [].
  Proof.
    intros Hn. unfold lf_new, roll. cbn [lastRoll].
    destruct (Z.ltb_spec 0 now) as [_|Hc]; [|lia]. cbn [fst].
    split; [cbn [files]; discriminate|]. exists [[]]. cbn [files]. split.
    - constructor; [reflexivity|constructor].
    - reflexivity.
  Qed.

  Lemma concat_map_concat (l : list (list (list A))) : concat (map (@concat A) l) = concat (concat l).
  Proof.
    induction l as [|x l IH]; cbn [map concat]; [reflexivity|]. rewrite concat_app, IH. reflexivity.
  Qed.

  Lemma Forall2_rev {X Y} (Rel : X -> Y -> Prop) l1 l2 : Forall2 Rel l1 l2 -> Forall2 Rel (rev l1) (rev l2).
  Proof.
    induction 1 as [|x y l1 l2 Hxy HF IH]; cbn [rev]; [constructor|].
    apply Forall2_app; [exact IH|]. constructor; [exact Hxy|constructor].
  Qed.

  Lemma groups_content s chunks :
    groups_ok s chunks -> concat (map snd (files_in_order s)) = concat chunks.
  Proof.
    intros [_ [groups [HF Hc]]]. unfold files_in_order. subst chunks.
    apply Forall2_rev in HF. rewrite <- concat_map_concat.
    f_equal. induction HF as [|f g fs gs Hfg HF IH]; cbn [map]; [reflexivity|]. rewrite Hfg, IH. reflexivity.
  Qed.

  (* the theorem: files in creation order = groups of whole chunks *)
  Lemma files_concat_groups c now ops :
    0 < now ->
    let s := lf_run c (lf_new now) ops in
    exists groups : list (list (list A)),
      Forall2 (fun f g => snd f = concat g) (files_in_order s) groups /\
      concat groups = flat_map chunk_of ops /\
      concat (map snd (files_in_order s)) = concat (flat_map chunk_of ops).
  Proof.
    intros Hn s. pose proof (groups_run c ops (lf_new now) [] (groups_new now Hn)) as H.
    cbn [app] in H. fold s in H. pose proof (groups_content _ _ H) as Hc.
    destruct H as [_ [groups [HF Hg]]].
    exists (rev groups). split; [apply Forall2_rev; exact HF|]. split; [exact Hg|exact Hc].
  Qed.

  Lemma chunks_no_error ops :
    forallb (fun o => negb (op_error o)) ops = true ->
    flat_map chunk_of ops = flat_map (@op_record A) ops.
  Proof.
    induction ops as [|o ops IH]; cbn [forallb flat_map]; [reflexivity|].
    intros H. apply andb_true_iff in H. destruct H as [Ho Hr]. rewrite (IH Hr). f_equal.
    destruct o as [d env now now2| |now]; cbn [chunk_of op_record handed]; try reflexivity.
    cbn [op_error] in Ho. destruct (af_loop env d) as [[acc w] er] eqn:E. cbn [snd fst] in *.
    destruct er; [discriminate|]. apply af_loop_no_error in E. destruct E as [E _]. subst. reflexivity.
  Qed.

  (* ---- at most one new file per second: names strictly increase with creation ---- *)
  Definition names_ok s : Prop :=
    StronglySorted (fun a b => b < a) (map fst (files s)) /\ Forall (fun n => n <= lastRoll s) (map fst (files s)).

  Lemma names_roll s now : names_ok s -> names_ok (fst (roll now s)).
  Proof.
    intros [Hs Hf]. unfold roll. destruct (Z.ltb_spec (lastRoll s) now) as [Hlt|Hge]; cbn [fst]; [|split; assumption].
    split; cbn [files map fst lastRoll].
    - constructor; [exact Hs|]. eapply Forall_impl; [|exact Hf]. cbn. intros a Ha. lia.
    - constructor; [lia|]. eapply Forall_impl; [|exact Hf]. cbn. intros a Ha. lia.
  Qed.

  Lemma names_same s s' :
    map fst (files s') = map fst (files s) -> lastRoll s' = lastRoll s -> names_ok s -> names_ok s'.
  Proof. intros E1 E2 H. unfold names_ok. rewrite E1, E2. exact H. Qed.

  Lemma names_put s acc w : names_ok s -> names_ok (put acc w s).
  Proof.
    intros H. eapply names_same; [| |exact H]; unfold put; destruct (files s) as [|[nm d] r] eqn:E; cbn [files lastRoll map fst]; rewrite ?E; reflexivity.
  Qed.

  Lemma names_step c s o : names_ok s -> names_ok (lf_step c s o).
  Proof.
    intros H. destruct o as [d env now now2| |now]; cbn [lf_step].
    - unfold lf_append. destruct (af_loop env d) as [[acc w] er]. cbn [fst].
      pose proof (names_put s acc w H) as H1.
      destruct (rollSize c <? wb (put acc w s)); [apply names_roll; exact H1|].
      destruct (checkEveryN c <=? cnt (put acc w s) + 1).
      + destruct (period now =? sop (set_cnt 0 (put acc w s))).
        * destruct (flushInterval c <? now - lastFlush (set_cnt 0 (put acc w s)));
            (eapply names_same; [| |exact H1]); reflexivity.
        * apply names_roll. eapply names_same; [| |exact H1]; reflexivity.
      + eapply names_same; [| |exact H1]; reflexivity.
    - eapply names_same; [| |exact H]; reflexivity.
    - apply names_roll. exact H.
  Qed.

  Lemma names_run c ops : forall s, names_ok s -> names_ok (lf_run c s ops).
  Proof.
    induction ops as [|o ops IH]; intros s H; cbn [lf_run fold_left]; [exact H|].
    apply IH. apply names_step. exact H.
  Qed.

  Lemma names_new now : names_ok (lf_new now).
  Proof.
    unfold lf_new. apply names_roll. split; cbn [files map]; constructor.
  Qed.

  Lemma ss_snoc {X} (Rel : X -> X -> Prop) l a :
    StronglySorted Rel l -> Forall (fun x => Rel x a) l -> StronglySorted Rel (l ++ [a]).
  Proof.
    induction l as [|x l IH]; intros Hs Hf; cbn [app].
    - constructor; constructor.
    - inversion Hs as [|y l' Hs' Hx]; subst. inversion Hf as [|y l' Hxa Hf']; subst.
      constructor; [apply IH; assumption|]. apply Forall_app. split; [exact Hx|]. constructor; [exact Hxa|constructor].
  Qed.

  Lemma ss_rev {X} (Rel : X -> X -> Prop) l :
    StronglySorted Rel l -> StronglySorted (fun a b => Rel b a) (rev l).
  Proof.
    induction 1 as [|a l Hs IH Hf]; cbn [rev]; [constructor|].
    apply ss_snoc; [exact IH|]. apply Forall_rev. exact Hf.
  Qed.

  Lemma names_increasing c now ops :
    StronglySorted Z.lt (map fst (files_in_order (lf_run c (@lf_new A now) ops))).
  Proof.
    pose proof (names_run c ops _ (names_new now)) as [Hs _].
    unfold files_in_order. rewrite map_rev. apply ss_rev in Hs. exact Hs.
  Qed.

  (* a roll creates a file only when the clock is past the previous creation second *)
  Lemma roll_guard now s : snd (roll now s) = true -> lastRoll s < now /\ lastRoll (fst (roll now s)) = now.
  Proof.
    unfold roll. destruct (Z.ltb_spec (lastRoll s) now); cbn [fst snd]; [auto|discriminate].
  Qed.
End SeqProofs.

(* ====================================================================== AsyncLogging *)
Section AsyncProofs.
  Variable R : Type.
  Variable rlen : R -> Z.
  Variable P : params.
  Hypothesis HP : params_ok P = true.

  Notation astate := (ast R).
  Notation stepP := (step R rlen P).
  Notation reachP := (reach R rlen P).
  Notation renderP := (render_batch R P).

  Lemma params_facts : (2 <= p_keep P)%nat /\ (2 <= p_rkeep P)%nat /\ (p_keep P <= p_thr P)%nat /\ 0 < p_cap P.
  Proof.
    pose proof HP as H. unfold params_ok in H.
    apply andb_true_iff in H. destruct H as [H H4]. apply andb_true_iff in H. destruct H as [H H3].
    apply andb_true_iff in H. destruct H as [H1 H2].
    apply Nat.leb_le in H1. apply Nat.leb_le in H2. apply Nat.leb_le in H3. apply Z.ltb_lt in H4. auto.
  Qed.

  Definition small (r : R) : Prop := rlen r < p_cap P.

  Ltac prj := cbn [sh be gh progs cur nxt bufs running pc nb1 nb2 twn fault hist mark swapmark batches
                   fbatch dropped out joined emit set_pc set_be recs blen] in *.

  Definition pc_final (p : bpc R) : bool :=
    match p with PWrite _ true | PDone => true | _ => false end.

  Lemma flat_app (l1 l2 : list (buf R)) : flat (l1 ++ l2) = flat l1 ++ flat l2.
  Proof. unfold flat. apply flat_map_app. Qed.
  Lemma flat_one (b : buf R) : flat [b] = recs b.
  Proof. unfold flat. cbn [flat_map]. apply app_nil_r. Qed.

  Lemma Forall_upd_nth {X} (Q : X -> Prop) (l : list X) n x :
    Forall Q l -> Q x -> Forall Q (upd_nth n x l).
  Proof.
    revert n; induction l as [|h l IH]; intros n Hf Hx; destruct n; cbn [upd_nth]; auto;
      inversion Hf; subst; constructor; auto.
  Qed.

  (* ------------------------------------------------------------------ invariant 1: accounting *)
  Definition inv_hist (s : astate) : Prop :=
    hist (gh s) = taken (gh s) ++ flat (bufs (sh s)) ++ recs (cur (sh s)) /\
    swapmark (gh s) = length (taken (gh s)) /\
    Forall (Forall small) (progs s) /\
    (pc_final (pc (be s)) = false -> fbatch (gh s) = []).

  Lemma fe_append_recs r (s : shared_t R) :
    small r ->
    flat (bufs (fe_append R rlen P r s)) ++ recs (cur (fe_append R rlen P r s)) =
    (flat (bufs s) ++ recs (cur s)) ++ [r].
  Proof.
    intros Hr. unfold fe_append.
    destruct (rlen r <? p_cap P - blen (cur s)) eqn:E; prj.
    - unfold buf_append. rewrite E. prj. rewrite app_assoc. reflexivity.
    - unfold buf_append. cbn [empty_buf blen recs].
      destruct (Z.ltb_spec (rlen r) (p_cap P - 0)) as [_|Hc]; [|unfold small in Hr; lia].
      prj. rewrite flat_app, flat_one. cbn [app]. reflexivity.
  Qed.

  Lemma inv_hist_init progs0 : Forall (Forall small) progs0 -> inv_hist (init progs0).
  Proof. intros H. unfold inv_hist, init, taken. prj. cbn. auto. Qed.

  Lemma loop_head_shape (s : astate) :
    exists p, loop_head R P s = set_pc R p s /\
      ((p = PLock /\ running (sh s) = true) \/
       (p = PFinalLock /\ running (sh s) = false /\ p_drain P = true) \/
       (p = PWrite [] true /\ running (sh s) = false /\ p_drain P = false)).
  Proof.
    unfold loop_head. destruct (running (sh s)); [eexists; split; [reflexivity|auto]|].
    destruct (p_drain P); eexists; (split; [reflexivity|auto]).
  Qed.

  Lemma inv_hist_step s l s' : inv_hist s -> stepP s l = Some s' -> inv_hist s'.
  Proof.
    intros [Hh [Hm [Hp Hf]]] Hstep. destruct l as [t| | |]; cbn [step] in Hstep.
    - destruct (nth_error (progs s) t) as [[|r rest]|] eqn:Ep; try discriminate.
      inversion Hstep; subst s'; clear Hstep. unfold inv_hist. prj.
      assert (Hrr : Forall small (r :: rest)).
      { eapply Forall_forall in Hp; [exact Hp|]. eapply nth_error_In; exact Ep. }
      inversion Hrr as [|x y Hr Hrest]; subst.
      repeat split.
      + rewrite Hh. unfold taken. prj. rewrite fe_append_recs by exact Hr.
        rewrite !app_assoc. reflexivity.
      + exact Hm.
      + apply Forall_upd_nth; assumption.
      + exact Hf.
    - unfold be_step in Hstep.
      destruct (pc (be s)) as [| | |batch|batch|[|b rest] [|]| |] eqn:Epc; inversion Hstep; subst s'; clear Hstep;
        cbn [pc_final] in Hf.
      + destruct (loop_head_shape s) as [p [E Hcase]]. rewrite E. unfold inv_hist. prj.
        repeat split; auto.
      + destruct (bufs (sh s)) eqn:Eb.
        * unfold inv_hist. prj. rewrite Eb. repeat split; auto.
        * unfold inv_hist, do_swap, taken. prj. rewrite Hf by reflexivity. rewrite !app_nil_r.
          rewrite concat_app. cbn [concat]. rewrite app_nil_r, !flat_app, flat_one. cbn [flat flat_map app].
          unfold taken in Hh. rewrite Hf, app_nil_r in Hh by reflexivity. rewrite Eb.
          repeat split; auto; rewrite Hh; rewrite ?app_assoc; reflexivity.
      + unfold inv_hist, do_swap, taken. prj. rewrite Hf by reflexivity. rewrite !app_nil_r.
        rewrite concat_app. cbn [concat]. rewrite app_nil_r, !flat_app, flat_one. cbn [flat flat_map app].
        unfold taken in Hh. rewrite Hf, app_nil_r in Hh by reflexivity.
        repeat split; auto; rewrite Hh; rewrite ?app_assoc; reflexivity.
      + unfold inv_hist, taken in *. prj. repeat split; auto.
      + unfold inv_hist, taken in *. prj. repeat split; auto.
      + unfold inv_hist, taken in *. prj. repeat split; auto.
      + match goal with |- inv_hist (loop_head R P ?x) => destruct (loop_head_shape x) as [p [E Hcase]]; rewrite E end.
        unfold inv_hist, taken in *. prj. repeat split; auto.
      + unfold inv_hist, taken in *. prj. repeat split; auto; try (intros Hx; discriminate).
      + unfold inv_hist, taken in *. prj. repeat split; auto.
      + unfold inv_hist, do_final_swap, taken. prj. cbn [pc_final].
        unfold taken in Hh. rewrite Hf, app_nil_r in Hh by reflexivity.
        rewrite !flat_app, flat_one.
        repeat split; auto; try (rewrite Hh; rewrite ?flat_app, !app_assoc; reflexivity);
          try (intros Hx; discriminate).
        cbn [flat flat_map empty_buf recs app]. rewrite app_nil_r. exact Hh.
    - destruct (mark (gh s)); inversion Hstep; subst s'; clear Hstep.
      unfold inv_hist, taken in *. prj. repeat split; auto.
    - destruct (mark (gh s)); try discriminate. destruct (pc (be s)) eqn:Epc; try discriminate.
      destruct (joined (gh s)); inversion Hstep; subst s'; clear Hstep.
      unfold inv_hist, taken in *. prj. rewrite Epc in *. repeat split; auto.
  Qed.
  (* ------------------------------------------------------------------ invariant 2: output accounting *)
  Definition pending (p : bpc R) : list (oev R) :=
    match p with
    | PAnn batch => renderP batch
    | PWriteAnn batch => OFileAnn (length batch - p_keep P) :: map OBuf (firstn (p_keep P) batch) ++ [OFlush]
    | PWrite todo _ => map OBuf todo ++ [OFlush]
    | _ => []
    end.

  Definition fin_part (s : astate) : list (oev R) :=
    if pc_final (pc (be s)) then map OBuf (fbatch (gh s)) ++ [OFlush] else [].

  Definition inv_out (s : astate) : Prop :=
    out (gh s) ++ pending (pc (be s)) = flat_map renderP (batches (gh s)) ++ fin_part s /\
    (pc_final (pc (be s)) = false -> fbatch (gh s) = []) /\
    match pc (be s) with PAnn b | PWriteAnn b => (p_thr P <? length b)%nat = true | _ => True end.

  Lemma inv_out_init progs0 : inv_out (init progs0).
  Proof. unfold inv_out, init, fin_part. prj. cbn. auto. Qed.

  Lemma loop_head_out (x : astate) :
    out (gh x) = flat_map renderP (batches (gh x)) -> fbatch (gh x) = [] -> inv_out (loop_head R P x).
  Proof.
    intros Ho Hf. destruct (loop_head_shape x) as [p [E Hcase]]. rewrite E.
    unfold inv_out, fin_part. prj.
    destruct Hcase as [[Hp _]|[[Hp _]|[Hp _]]]; subst p; cbn [pending pc_final]; rewrite Hf, Ho; cbn [map app];
      rewrite ?app_nil_r; auto.
  Qed.

  Lemma inv_out_step s l s' : inv_out s -> stepP s l = Some s' -> inv_out s'.
  Proof.
    intros [Ho [Hf Ht]] Hstep. destruct l as [t| | |]; cbn [step] in Hstep.
    - destruct (nth_error (progs s) t) as [[|r rest]|]; try discriminate.
      inversion Hstep; subst s'; clear Hstep. unfold inv_out, fin_part in *. prj. auto.
    - unfold be_step in Hstep. unfold fin_part in Ho.
      destruct (pc (be s)) as [| | |batch|batch|[|b rest] [|]| |] eqn:Epc; inversion Hstep; subst s'; clear Hstep;
        cbn [pc_final pending] in *; rewrite ?app_nil_r in Ho.
      + apply loop_head_out; auto.
      + destruct (bufs (sh s)) eqn:Eb.
        * unfold inv_out, fin_part. prj. cbn [pc_final pending]. rewrite !app_nil_r. auto.
        * clear Eb. unfold inv_out, fin_part, do_swap. prj.
          rewrite flat_map_app. cbn [flat_map]. rewrite app_nil_r.
          destruct (p_thr P <? length (bufs (sh s) ++ [cur (sh s)]))%nat eqn:E; cbn [pc_final pending];
            rewrite app_nil_r, Ho; repeat split; auto.
          unfold render_batch. rewrite E. reflexivity.
      + unfold inv_out, fin_part, do_swap. prj.
        rewrite flat_map_app. cbn [flat_map]. rewrite app_nil_r.
        destruct (p_thr P <? length (bufs (sh s) ++ [cur (sh s)]))%nat eqn:E; cbn [pc_final pending];
          rewrite app_nil_r, Ho; repeat split; auto.
        unfold render_batch. rewrite E. reflexivity.
      + unfold inv_out, fin_part. prj. cbn [pc_final pending]. rewrite app_nil_r, <- Ho.
        repeat split; auto. unfold render_batch. rewrite Ht. rewrite <- app_assoc. reflexivity.
      + unfold inv_out, fin_part. prj. cbn [pc_final pending]. rewrite app_nil_r, <- Ho.
        repeat split; auto. rewrite <- app_assoc. reflexivity.
      + unfold inv_out, fin_part. prj. cbn [pc_final pending]. rewrite <- Ho.
        repeat split; auto. cbn [map app]. rewrite app_nil_r. reflexivity.
      + apply loop_head_out; prj; auto.
      + unfold inv_out, fin_part. prj. cbn [pc_final pending]. rewrite <- Ho.
        repeat split; auto. cbn [map app]. rewrite <- app_assoc. reflexivity.
      + unfold inv_out, fin_part. prj. cbn [pc_final pending]. rewrite app_nil_r, <- Ho.
        repeat split; auto. cbn [map app]. rewrite <- app_assoc. reflexivity.
      + unfold inv_out, fin_part, do_final_swap. prj. cbn [pc_final pending]. rewrite Ho.
        repeat split; auto. intros Hx; discriminate.
    - destruct (mark (gh s)); inversion Hstep; subst s'; clear Hstep.
      unfold inv_out, fin_part in *. prj. auto.
    - destruct (mark (gh s)); try discriminate. destruct (pc (be s)) eqn:Epc; try discriminate.
      destruct (joined (gh s)); inversion Hstep; subst s'; clear Hstep.
      unfold inv_out, fin_part in *. prj. rewrite Epc in *. auto.
  Qed.
  (* ------------------------------------------------------------------ invariant 3: stop() *)
  Definition inv_stop (s : astate) : Prop :=
    (running (sh s) = true -> mark (gh s) = None) /\
    (running (sh s) = false -> exists m, mark (gh s) = Some m /\ (m <= length (hist (gh s)))%nat) /\
    (pc (be s) = PFinalLock -> running (sh s) = false) /\
    (pc_final (pc (be s)) = true -> p_drain P = true ->
       exists m, mark (gh s) = Some m /\ (m <= swapmark (gh s))%nat) /\
    (joined (gh s) = true -> pc (be s) = PDone).

  Lemma inv_stop_init progs0 : inv_stop (init progs0).
  Proof. unfold inv_stop, init. prj. cbn [pc_final]. repeat split; intros; try discriminate; auto. Qed.

  Lemma fe_append_running r (s : shared_t R) : running (fe_append R rlen P r s) = running s.
  Proof. unfold fe_append. destruct (rlen r <? p_cap P - blen (cur s)); reflexivity. Qed.

  Lemma loop_head_stop (x : astate) :
    (running (sh x) = true -> mark (gh x) = None) ->
    (running (sh x) = false -> exists m, mark (gh x) = Some m /\ (m <= length (hist (gh x)))%nat) ->
    joined (gh x) = false ->
    inv_stop (loop_head R P x).
  Proof.
    intros H1 H2 Hj. destruct (loop_head_shape x) as [p [E Hcase]]. rewrite E.
    unfold inv_stop. prj.
    destruct Hcase as [[Hp Hr]|[[Hp [Hr Hd]]|[Hp [Hr Hd]]]]; subst p; cbn [pc_final];
      repeat split; auto; try discriminate; try congruence.
  Qed.

  Lemma inv_stop_step s l s' : inv_stop s -> stepP s l = Some s' -> inv_stop s'.
  Proof.
    intros [H1 [H2 [H3 [H4 H5]]]] Hstep. destruct l as [t| | |]; cbn [step] in Hstep.
    - destruct (nth_error (progs s) t) as [[|r rest]|]; try discriminate.
      inversion Hstep; subst s'; clear Hstep. unfold inv_stop. prj. rewrite fe_append_running.
      repeat split; auto.
      intros Hr. destruct (H2 Hr) as [m [Hm Hle]]. exists m. split; [exact Hm|]. rewrite app_length. lia.
    - assert (Hj : joined (gh s) = false).
      { destruct (joined (gh s)) eqn:Ej; [|reflexivity]. specialize (H5 eq_refl).
        unfold be_step in Hstep. rewrite H5 in Hstep. discriminate. }
      unfold be_step in Hstep.
      destruct (pc (be s)) as [| | |batch|batch|[|b rest] [|]| |] eqn:Epc; inversion Hstep; subst s'; clear Hstep;
        cbn [pc_final] in *.
      + apply loop_head_stop; auto.
      + destruct (bufs (sh s)) eqn:Eb.
        * unfold inv_stop. prj. cbn [pc_final]. repeat split; auto; try discriminate; congruence.
        * unfold inv_stop, do_swap. prj.
          repeat split; auto; try congruence;
            destruct (p_thr P <? length (bufs (sh s) ++ [cur (sh s)]))%nat; cbn [pc_final]; try discriminate; congruence.
      + unfold inv_stop, do_swap. prj.
        repeat split; auto; try congruence;
          destruct (p_thr P <? length (bufs (sh s) ++ [cur (sh s)]))%nat; cbn [pc_final]; try discriminate; congruence.
      + unfold inv_stop. prj. cbn [pc_final]. repeat split; auto; try discriminate; congruence.
      + unfold inv_stop. prj. cbn [pc_final]. repeat split; auto; try discriminate; congruence.
      + unfold inv_stop. prj. cbn [pc_final]. repeat split; auto; try discriminate; congruence.
      + apply loop_head_stop; prj; auto.
      + unfold inv_stop. prj. cbn [pc_final]. repeat split; auto; try discriminate; congruence.
      + unfold inv_stop. prj. cbn [pc_final]. repeat split; auto; try discriminate; congruence.
      + unfold inv_stop, do_final_swap. prj. cbn [pc_final].
        repeat split; auto; try discriminate; try congruence;
          try (intros _ _; apply H2; apply H3; reflexivity).
    - destruct (mark (gh s)) eqn:Em; inversion Hstep; subst s'; clear Hstep.
      unfold inv_stop. prj. repeat split; auto; try discriminate.
      + intros _. eexists. split; [reflexivity|lia].
      + intros Hf Hd. destruct (H4 Hf Hd) as [m [Hm _]]. discriminate.
    - destruct (mark (gh s)) eqn:Em; try discriminate. destruct (pc (be s)) eqn:Epc; try discriminate.
      destruct (joined (gh s)) eqn:Ej; inversion Hstep; subst s'; clear Hstep.
      unfold inv_stop. prj. rewrite ?Epc in *. repeat split; auto.
  Qed.
  (* ------------------------------------------------------------------ invariant 4: bounds, recycling *)
  Definition lt_cap (b : buf R) : Prop := blen b < p_cap P.

  Definition nxt_ok (s : astate) : Prop := nxt (sh s) = false -> bufs (sh s) <> [].

  Definition inv_bound (s : astate) : Prop :=
    fault (be s) = false /\ lt_cap (cur (sh s)) /\ Forall lt_cap (bufs (sh s)) /\
    match pc (be s) with
    | PStart | PLock | PWait | PFinalLock => nb1 (be s) = true /\ nb2 (be s) = true /\ nxt_ok s
    | PAnn b | PWriteAnn b => (p_thr P < length b)%nat /\ twn (be s) = length b /\ nxt_ok s
    | PWrite todo false =>
        (1 <= twn (be s))%nat /\ (nb2 (be s) = false -> (2 <= twn (be s))%nat) /\
        (length todo <= p_thr P)%nat /\ nxt_ok s
    | _ => True
    end.

  Lemma inv_bound_init progs0 : inv_bound (init progs0).
  Proof.
    destruct params_facts as [_ [_ [_ Hc]]].
    unfold inv_bound, init, lt_cap, nxt_ok. prj. cbn [empty_buf blen]. repeat split; auto. intros; discriminate.
  Qed.

  Lemma recycle_ok (b : backend_t R) :
    fault b = false -> (1 <= twn b)%nat -> (nb2 b = false -> (2 <= twn b)%nat) ->
    fault (recycle R P b) = false /\ nb1 (recycle R P b) = true /\ nb2 (recycle R P b) = true /\
    pc (recycle R P b) = pc b.
  Proof.
    destruct params_facts as [_ [Hr _]].
    intros Hf H1 H2. unfold recycle.
    destruct (Nat.min (twn b) (p_rkeep P)) as [|k0] eqn:Ek; [lia|].
    destruct (nb1 b); destruct (nb2 b) eqn:E2; try (prj; rewrite Hf; auto; fail).
    destruct k0 as [|k1]; [specialize (H2 eq_refl); lia|]. prj. rewrite Hf. auto.
  Qed.

  Lemma fe_append_bound r (s : shared_t R) :
    lt_cap (cur s) -> Forall lt_cap (bufs s) ->
    lt_cap (cur (fe_append R rlen P r s)) /\ Forall lt_cap (bufs (fe_append R rlen P r s)) /\
    ((nxt s = false -> bufs s <> []) -> nxt (fe_append R rlen P r s) = false -> bufs (fe_append R rlen P r s) <> []).
  Proof.
    destruct params_facts as [_ [_ [_ Hc]]].
    intros Hcur Hb. unfold fe_append, lt_cap in *.
    destruct (Z.ltb_spec (rlen r) (p_cap P - blen (cur s))) as [Hfit|Hno]; prj.
    - unfold buf_append. destruct (Z.ltb_spec (rlen r) (p_cap P - blen (cur s))); prj; repeat split; auto; lia.
    - unfold buf_append. cbn [empty_buf blen].
      repeat split.
      + destruct (rlen r <? p_cap P - 0) eqn:E; prj; cbn [empty_buf blen]; [apply Z.ltb_lt in E; lia|lia].
      + apply Forall_app. split; [exact Hb|]. constructor; [exact Hcur|constructor].
      + intros _ _ Hx. destruct (bufs s); discriminate.
  Qed.

  Lemma loop_head_bound (x : astate) :
    fault (be x) = false -> lt_cap (cur (sh x)) -> Forall lt_cap (bufs (sh x)) ->
    nb1 (be x) = true -> nb2 (be x) = true -> nxt_ok x -> inv_bound (loop_head R P x).
  Proof.
    intros. destruct (loop_head_shape x) as [p [E Hcase]]. rewrite E.
    unfold inv_bound, nxt_ok in *. prj.
    destruct Hcase as [[Hp _]|[[Hp _]|[Hp _]]]; subst p; repeat split; auto.
  Qed.

  Lemma inv_bound_step s l s' : inv_bound s -> stepP s l = Some s' -> inv_bound s'.
  Proof.
    destruct params_facts as [Hk [Hrk [Hkt Hc]]].
    intros [Hf [Hcur [Hb Hpc]]] Hstep. destruct l as [t| | |]; cbn [step] in Hstep.
    - destruct (nth_error (progs s) t) as [[|r rest]|]; try discriminate.
      inversion Hstep; subst s'; clear Hstep.
      destruct (fe_append_bound r (sh s) Hcur Hb) as [A1 [A2 A3]].
      unfold inv_bound, nxt_ok in *. prj. repeat split; auto.
      destruct (pc (be s)) as [| | |batch|batch|todo [|]| |]; auto;
        repeat match goal with H : _ /\ _ |- _ => destruct H end; repeat split; auto.
    - unfold be_step in Hstep.
      destruct (pc (be s)) as [| | |batch|batch|[|b rest] [|]| |] eqn:Epc; inversion Hstep; subst s'; clear Hstep.
      + destruct Hpc as [? [? ?]]. apply loop_head_bound; auto.
      + destruct Hpc as [Hn1 [Hn2 Hnx]]. destruct (bufs (sh s)) eqn:Eb.
        * unfold inv_bound, nxt_ok in *. prj. rewrite Eb in *. repeat split; auto.
        * unfold inv_bound, do_swap, nxt_ok, lt_cap in *. prj. cbn [empty_buf blen].
          repeat split; auto.
          destruct (Nat.ltb_spec (p_thr P) (length (bufs (sh s) ++ [cur (sh s)]))) as [Hgt|Hle].
          -- repeat split; auto. intros; discriminate.
          -- rewrite app_length in *. cbn [length] in *. repeat split; try lia; try (intros; discriminate).
             intros Hx. rewrite Eb. cbn [length]. lia.
      + destruct Hpc as [Hn1 [Hn2 Hnx]].
        unfold inv_bound, do_swap, nxt_ok, lt_cap in *. prj. cbn [empty_buf blen].
        repeat split; auto.
        destruct (Nat.ltb_spec (p_thr P) (length (bufs (sh s) ++ [cur (sh s)]))) as [Hgt|Hle].
        * repeat split; auto. intros; discriminate.
        * rewrite app_length in *. cbn [length] in *. repeat split; try lia; try (intros; discriminate).
          intros Hx. destruct (nxt (sh s)) eqn:En; [congruence|].
          specialize (Hnx eq_refl). destruct (bufs (sh s)); [congruence|]. cbn [length]. lia.
      + destruct Hpc as [? [? ?]]. unfold inv_bound, nxt_ok in *. prj. repeat split; auto.
      + destruct Hpc as [Hgt [Htw Hnx]]. unfold inv_bound, nxt_ok in *. prj. repeat split; auto; try lia.
        rewrite firstn_length. lia.
      + unfold inv_bound. prj. repeat split; auto.
      + destruct Hpc as [Ht1 [Ht2 [Hlen Hnx]]].
        destruct (recycle_ok (be s) Hf Ht1 Ht2) as [R1 [R2 [R3 R4]]].
        apply loop_head_bound; prj; auto.
      + unfold inv_bound. prj. repeat split; auto.
      + destruct Hpc as [Ht1 [Ht2 [Hlen Hnx]]]. unfold inv_bound, nxt_ok in *. prj. cbn [length] in Hlen.
        repeat split; auto. lia.
      + unfold inv_bound, do_final_swap, lt_cap. prj. cbn [empty_buf blen]. repeat split; auto.
    - destruct (mark (gh s)); inversion Hstep; subst s'; clear Hstep.
      unfold inv_bound, nxt_ok in *. prj. repeat split; auto.
    - destruct (mark (gh s)); try discriminate. destruct (pc (be s)) eqn:Epc; try discriminate.
      destruct (joined (gh s)); inversion Hstep; subst s'; clear Hstep.
      unfold inv_bound in *. prj. rewrite ?Epc in *. repeat split; auto.
  Qed.
End AsyncProofs.
