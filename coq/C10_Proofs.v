(* C10_Proofs: invariants and refinement of the Buffer model to a FIFO of bytes. *)
From Coq Require Import List ZArith Lia Bool Arith NArith.
From Coq.Strings Require Import Byte.
From Muduo Require Import Base_Bytes Gen_Consts C10_Model.
Import ListNotations.

Local Opaque kCheapPrepend kInitialSize kExtraBuf.

(* The representation invariant: the vector is prefix ++ content ++ slack, the
   indices delimit the content, and the cheap-prepend area is intact up to what
   the caller itself prepended since the last reset. *)
Definition Inv (b : buf) (l : list byte) : Prop :=
  exists pre post,
    store b = pre ++ l ++ post /\
    length pre = ridx b /\
    widx b = ridx b + length l /\
    kCheapPrepend <= ridx b + up b /\
    kCheapPrepend <= length (store b).

Lemma inv_sizes b l : Inv b l ->
  ridx b <= widx b /\ widx b <= length (store b) /\ readableBytes b = length l /\
  prependableBytes b + readableBytes b + writableBytes b = length (store b).
Proof.
  intros (pre & post & Hs & Hp & Hw & _ & _).
  unfold readableBytes, writableBytes, prependableBytes.
  rewrite Hs, !app_length. lia.
Qed.

Lemma inv_readable b l : Inv b l -> readable b = l.
Proof.
  intros H. pose proof (inv_sizes b l H) as (_ & _ & Hr & _).
  destruct H as (pre & post & Hs & Hp & Hw & _ & _).
  unfold readable. rewrite Hr, Hs, <- Hp, skipn_app_exact, firstn_app_exact.
  reflexivity.
Qed.

Lemma inv_writable b l pre post :
  store b = pre ++ l ++ post -> length pre = ridx b -> widx b = ridx b + length l ->
  writableBytes b = length post.
Proof.
  intros Hs Hp Hw. unfold writableBytes. rewrite Hs, !app_length. lia.
Qed.

(* ---- checked memory on a decomposed store -------------------------------- *)
Lemma read_at_mid (pre mid post : list byte) :
  read_at (pre ++ mid ++ post) (length pre) (length mid) = Some mid.
Proof.
  unfold read_at. rewrite !app_length.
  destruct (Nat.leb_spec (length pre + length mid) (length pre + (length mid + length post))); [|lia].
  rewrite skipn_app_exact, firstn_app_exact. reflexivity.
Qed.

Lemma read_at_some s pos len d : read_at s pos len = Some d ->
  pos + len <= length s /\ d = firstn len (skipn pos s).
Proof.
  unfold read_at. destruct (Nat.leb_spec (pos + len) (length s)); [|discriminate].
  intros [= <-]. split; [assumption|reflexivity].
Qed.

Lemma write_at_mid (pre old post d : list byte) :
  length old = length d ->
  write_at (pre ++ old ++ post) (length pre) d = Some (pre ++ d ++ post).
Proof.
  intros Hl. unfold write_at. rewrite !app_length.
  destruct (Nat.leb_spec (length pre + length d) (length pre + (length old + length post))); [|lia].
  rewrite firstn_app_exact. f_equal. f_equal. f_equal.
  rewrite skipn_app, skipn_all2 by lia. cbn [app].
  replace (length pre + length d - length pre) with (length old) by lia.
  apply skipn_app_exact.
Qed.

Lemma split_at (n : nat) (l : list byte) : n <= length l ->
  exists a c, l = a ++ c /\ length a = n.
Proof.
  intros H. exists (firstn n l), (skipn n l). split.
  - symmetry; apply firstn_skipn.
  - apply firstn_length_le; exact H.
Qed.

(* split the tail of pre: pre = a ++ c with |c| = n *)
Lemma split_tail (n : nat) (l : list byte) : n <= length l ->
  exists a c, l = a ++ c /\ length c = n /\ length a = length l - n.
Proof.
  intros H. destruct (split_at (length l - n) l) as (a & c & E & La); [lia|].
  exists a, c. split; [exact E|]. split; [|exact La].
  apply (f_equal (@length byte)) in E. rewrite app_length in E. lia.
Qed.

(* ---- per-function lemmas -------------------------------------------------- *)

Lemma new_buf_inv n : Inv (new_buf n) [].
Proof.
  exists (repeat x00 kCheapPrepend), (repeat x00 n). cbn [new_buf store ridx widx up length].
  unfold new_buf; cbn [store ridx widx up length].
  rewrite repeat_app, !app_length, !repeat_length. cbn [app]. repeat split; lia.
Qed.

Lemma new_buf_writable n : writableBytes (new_buf n) = n.
Proof.
  unfold writableBytes, new_buf. cbn [store widx]. rewrite repeat_length. lia.
Qed.

Lemma vresize_grow s n : length s <= n -> vresize s n = s ++ repeat x00 (n - length s).
Proof. intros H. unfold vresize. rewrite firstn_all2 by exact H. reflexivity. Qed.

Lemma makeSpace_ok len b l : Inv b l -> writableBytes b < len ->
  exists b', makeSpace len b = Ok b' /\ Inv b' l /\ len <= writableBytes b' /\
             (ridx b' + up b' = ridx b + up b \/ (ridx b' = kCheapPrepend /\ up b' = 0)).
Proof.
  intros HI Hlt. pose proof (inv_sizes b l HI) as (H1 & H2 & H3 & H4).
  destruct HI as (pre & post & Hs & Hp & Hw & Hc & Hl).
  pose proof (inv_writable b l pre post Hs Hp Hw) as Hwr.
  unfold makeSpace.
  destruct (Nat.ltb_spec (writableBytes b + prependableBytes b) (len + kCheapPrepend)) as [Hg|Hg].
  - (* grow *)
    eexists; split; [reflexivity|]. unfold writableBytes in *. cbn [store ridx widx up].
    rewrite vresize_grow by lia.
    split; [|split; [rewrite app_length, repeat_length; lia|left; reflexivity]].
    exists pre, (post ++ repeat x00 (widx b + len - length (store b))).
    cbn [store ridx widx up]. rewrite app_length.
    split; [rewrite Hs at 1; rewrite <- !app_assoc; reflexivity|].
    repeat split; try assumption; lia.
  - (* compact *)
    unfold prependableBytes in *.
    destruct (Nat.ltb_spec kCheapPrepend (ridx b)) as [Hk|Hk]; [|lia].
    rewrite Hs, H3, <- Hp, read_at_mid. cbn [mem bind].
    (* pre = a ++ c with |a| = kCheapPrepend *)
    destruct (split_at kCheapPrepend pre) as (a & c & Ea & La); [lia|].
    (* the region being overwritten: c ++ l ++ post, first |l| bytes *)
    destruct (split_at (length l) (c ++ l ++ post)) as (old & rest & Eo & Lo);
      [rewrite !app_length; lia|].
    rewrite Ea, <- app_assoc, Eo, <- La. rewrite write_at_mid by exact Lo.
    cbn [mem bind]. eexists; split; [reflexivity|].
    assert (Hrest : length rest = length c + length post).
    { apply (f_equal (@length byte)) in Eo. rewrite !app_length in Eo. lia. }
    assert (Hc' : length c = ridx b - kCheapPrepend).
    { apply (f_equal (@length byte)) in Ea. rewrite app_length in Ea. lia. }
    split; [|split].
    + exists a, rest. cbn [store ridx widx up]. rewrite !app_length.
      repeat split; lia.
    + unfold writableBytes. cbn [store widx]. rewrite !app_length. lia.
    + right. cbn [ridx up]. split; [lia|reflexivity].
Qed.

Lemma ensureWritable_ok len b l : Inv b l ->
  exists b', ensureWritable len b = Ok b' /\ Inv b' l /\ len <= writableBytes b' /\
             (ridx b' + up b' = ridx b + up b \/ (ridx b' = kCheapPrepend /\ up b' = 0)).
Proof.
  intros HI. unfold ensureWritable.
  destruct (Nat.ltb_spec (writableBytes b) len) as [Hlt|Hge].
  - destruct (makeSpace_ok len b l HI Hlt) as (b' & -> & HI' & Hw & Hu).
    cbn [bind]. destruct (Nat.leb_spec len (writableBytes b')); [|lia].
    exists b'. repeat split; assumption.
  - cbn [bind]. destruct (Nat.leb_spec len (writableBytes b)); [|lia].
    exists b. repeat split; try assumption. left; reflexivity.
Qed.

(* storing d right after the content, given enough slack *)
Lemma store_tail b l d : Inv b l -> length d <= writableBytes b ->
  exists s', write_at (store b) (widx b) d = Some s' /\
             Inv (mkBuf s' (ridx b) (widx b + length d) (up b)) (l ++ d) /\
             length s' = length (store b).
Proof.
  intros (pre & post & Hs & Hp & Hw & Hc & Hl) Hd.
  pose proof (inv_writable b l pre post Hs Hp Hw) as Hwr.
  destruct (split_at (length d) post) as (old & rest & Eo & Lo); [lia|].
  assert (E : store b = (pre ++ l) ++ old ++ rest) by (rewrite Hs, Eo, <- app_assoc; reflexivity).
  assert (Hwl : widx b = length (pre ++ l)) by (rewrite app_length; lia).
  rewrite E, Hwl, write_at_mid by exact Lo.
  eexists; split; [reflexivity|]. split.
  - exists pre, rest. cbn [store ridx widx up]. rewrite <- !app_assoc, !app_length.
    rewrite Hs, Eo, !app_length in Hl. repeat split; lia.
  - rewrite !app_length. lia.
Qed.

Lemma append_ok d b l : Inv b l ->
  exists b', append d b = Ok b' /\ Inv b' (l ++ d).
Proof.
  intros HI. unfold append.
  destruct (ensureWritable_ok (length d) b l HI) as (b1 & -> & HI1 & Hw & _).
  cbn [bind]. destruct (store_tail b1 l d HI1 Hw) as (s' & -> & HI' & _).
  cbn [mem bind]. destruct (Nat.leb_spec (length d) (writableBytes b1)); [|lia].
  eexists; split; [reflexivity|exact HI'].
Qed.

Lemma hasWritten_ok d b l : Inv b l -> length d <= writableBytes b ->
  exists b', hasWrittenBytes d b = Ok b' /\ Inv b' (l ++ d).
Proof.
  intros HI Hd. unfold hasWrittenBytes.
  destruct (Nat.leb_spec (length d) (writableBytes b)); [|lia].
  destruct (store_tail b l d HI Hd) as (s' & -> & HI' & _). cbn [mem bind].
  eexists; split; [reflexivity|exact HI'].
Qed.

Lemma prepend_ok d b l : Inv b l -> length d <= prependableBytes b ->
  exists b', prepend d b = Ok b' /\ Inv b' (d ++ l).
Proof.
  intros (pre & post & Hs & Hp & Hw & Hc & Hl) Hd. unfold prepend, prependableBytes in *.
  destruct (Nat.leb_spec (length d) (ridx b)); [|lia].
  destruct (split_tail (length d) pre) as (a & c & Ea & Lc & La); [lia|].
  assert (E : store b = a ++ c ++ (l ++ post)) by (rewrite Hs, Ea, <- app_assoc; reflexivity).
  replace (ridx b - length d) with (length a) by lia.
  rewrite E, write_at_mid by exact Lc. cbn [mem bind].
  eexists; split; [reflexivity|].
  exists a, post. cbn [store ridx widx up]. rewrite <- !app_assoc, !app_length.
  rewrite Hs, Ea, !app_length in Hl. repeat split; lia.
Qed.


Lemma retrieveAll_inv b l : Inv b l -> Inv (retrieveAll b) [].
Proof.
  intros (pre & post & Hs & Hp & Hw & Hc & Hl).
  destruct (split_at kCheapPrepend (store b)) as (a & c & Ea & La); [lia|].
  exists a, c. unfold retrieveAll. cbn [store ridx widx up app length].
  repeat split; try lia. exact Ea.
Qed.

Lemma retrieve_ok n b l : Inv b l -> n <= readableBytes b ->
  exists b', retrieve n b = Ok b' /\ Inv b' (skipn n l).
Proof.
  intros HI Hn. pose proof (inv_sizes b l HI) as (H1 & H2 & H3 & H4).
  unfold retrieve. destruct (Nat.leb_spec n (readableBytes b)); [|lia].
  destruct (Nat.ltb_spec n (readableBytes b)) as [Hlt|Hge].
  - eexists; split; [reflexivity|].
    destruct HI as (pre & post & Hs & Hp & Hw & Hc & Hl).
    exists (pre ++ firstn n l), post. cbn [store ridx widx up].
    rewrite <- app_assoc, (app_assoc (firstn n l)), firstn_skipn, app_length,
      firstn_length_le, skipn_length by lia.
    repeat split; try lia. exact Hs.
  - eexists; split; [reflexivity|].
    rewrite skipn_all2 by lia. eapply retrieveAll_inv; exact HI.
Qed.

Lemma peekBytes_ok n b l : Inv b l -> n <= readableBytes b ->
  peekBytes n b = Ok (firstn n l).
Proof.
  intros HI Hn. pose proof (inv_sizes b l HI) as (H1 & H2 & H3 & H4).
  destruct HI as (pre & post & Hs & Hp & Hw & Hc & Hl).
  unfold peekBytes. destruct (Nat.leb_spec n (readableBytes b)); [|lia].
  unfold read_at. destruct (Nat.leb_spec (ridx b + n) (length (store b))); [|lia].
  cbn [mem]. f_equal. rewrite Hs, <- Hp, skipn_app_exact.
  rewrite firstn_app. replace (n - length l) with 0 by lia.
  cbn [firstn]. apply app_nil_r.
Qed.

Lemma unwrite_ok n b l : Inv b l -> n <= readableBytes b ->
  exists b', unwrite n b = Ok b' /\ Inv b' (firstn (length l - n) l).
Proof.
  intros HI Hn. pose proof (inv_sizes b l HI) as (H1 & H2 & H3 & H4).
  destruct HI as (pre & post & Hs & Hp & Hw & Hc & Hl).
  unfold unwrite. destruct (Nat.leb_spec n (readableBytes b)); [|lia].
  eexists; split; [reflexivity|].
  exists pre, (skipn (length l - n) l ++ post). cbn [store ridx widx up].
  rewrite (app_assoc (firstn _ l)), firstn_skipn, firstn_length_le by lia.
  repeat split; try lia. exact Hs.
Qed.

Lemma read_content b l : Inv b l ->
  read_at (store b) (ridx b) (readableBytes b) = Some l.
Proof.
  intros HI. pose proof (inv_sizes b l HI) as (H1 & H2 & H3 & H4).
  destruct HI as (pre & post & Hs & Hp & Hw & Hc & Hl).
  rewrite Hs, H3, <- Hp. apply read_at_mid.
Qed.

Lemma shrink_ok r b l : Inv b l -> exists b', shrink r b = Ok b' /\ Inv b' l.
Proof.
  intros HI. unfold shrink. rewrite (read_content b l HI). cbn [mem bind].
  destruct (ensureWritable_ok (readableBytes b + r) (new_buf kInitialSize) [] (new_buf_inv _))
    as (o1 & -> & HI1 & _). cbn [bind].
  destruct (append_ok l o1 [] HI1) as (b' & -> & HI'). cbn [app] in HI'.
  exists b'. split; [reflexivity|exact HI'].
Qed.

Lemma readFd_capacity_iovcnt b :
  readFd_capacity b = writableBytes b + (if readFd_iovcnt b =? 2 then kExtraBuf else 0).
Proof.
  unfold readFd_capacity, readFd_iovcnt.
  destruct (Nat.ltb_spec (writableBytes b) kExtraBuf); cbn [Nat.eqb]; lia.
Qed.

Lemma readFd_data_ok avail b l : Inv b l ->
  let d := firstn (readFd_capacity b) avail in
  exists b', readFd (KData avail) b =
               Ok (b', mkRfd (Z.of_nat (length d)) (readFd_iovcnt b) (writableBytes b) None) /\
             Inv b' (l ++ d).
Proof.
  intros HI. cbn zeta. unfold readFd.
  set (data := firstn (readFd_capacity b) avail).
  destruct (Nat.leb_spec (length data) (writableBytes b)) as [Hle|Hgt].
  - destruct (store_tail b l data HI Hle) as (s' & -> & HI' & _). cbn [mem bind].
    eexists; split; [reflexivity|exact HI'].
  - assert (Hf : length (firstn (writableBytes b) data) = writableBytes b)
      by (apply firstn_length_le; lia).
    destruct (store_tail b l (firstn (writableBytes b) data) HI) as (s' & -> & HI' & Hlen); [lia|].
    cbn [mem bind]. rewrite Hf in HI'.
    assert (Hcap : length data <= readFd_capacity b).
    { unfold data. rewrite firstn_length. lia. }
    rewrite readFd_capacity_iovcnt in Hcap.
    rewrite skipn_length.
    destruct (Nat.eqb_spec (readFd_iovcnt b) 2) as [Hc|Hc]; [|lia].
    destruct (Nat.leb_spec (length data - writableBytes b) kExtraBuf); [|lia].
    cbn [andb].
    pose proof (inv_sizes b l HI) as (H1 & H2 & H3 & H4).
    assert (Hwe : widx b + writableBytes b = length s') by (unfold writableBytes in *; lia).
    rewrite Hwe in HI'.
    destruct (append_ok (skipn (writableBytes b) data) _ _ HI') as (b2 & -> & HI2).
    cbn [bind]. eexists; split; [reflexivity|].
    rewrite <- app_assoc, firstn_skipn in HI2. exact HI2.
Qed.

(* ---- searches: declarative characterisation -------------------------------- *)
Definition crlf_at (l : list byte) (i : nat) : Prop :=
  nth_error l i = Some CR /\ nth_error l (S i) = Some LF.
Definition eol_at (l : list byte) (i : nat) : Prop := nth_error l i = Some LF.

Lemma byte_eqb_eq a b : Byte.eqb a b = true <-> a = b.
Proof. split; [apply Byte.byte_dec_bl|apply Byte.byte_dec_lb]. Qed.

Lemma find_crlf_spec l :
  match find_crlf l with
  | Some i => crlf_at l i /\ forall j, j < i -> ~ crlf_at l j
  | None => forall j, ~ crlf_at l j
  end.
Proof.
  induction l as [|a t IH]; [intros j [H _]; destruct j; discriminate|].
  cbn [find_crlf]. destruct t as [|b t'].
  - intros j [H1 H2]. destruct j as [|j]; cbn in H2; [discriminate|destruct j; discriminate].
  - destruct (Byte.eqb a CR && Byte.eqb b LF)%bool eqn:E.
    + apply andb_true_iff in E as [Ea Eb]. apply byte_eqb_eq in Ea, Eb. subst.
      split; [split; reflexivity|intros j Hj; lia].
    + assert (Hn : ~ crlf_at (a :: b :: t') 0).
      { intros [H1 H2]. cbn in H1, H2. injection H1 as ->. injection H2 as ->.
        cbn in E. discriminate. }
      destruct (find_crlf (b :: t')) as [i|]; cbn [option_map].
      * destruct IH as [Hat Hmin]. split; [exact Hat|].
        intros j Hj. destruct j as [|j]; [exact Hn|]. apply (Hmin j). lia.
      * intros j. destruct j as [|j]; [exact Hn|]. apply (IH j).
Qed.

Lemma find_eol_spec l :
  match find_eol l with
  | Some i => eol_at l i /\ forall j, j < i -> ~ eol_at l j
  | None => forall j, ~ eol_at l j
  end.
Proof.
  induction l as [|a t IH]; [intros j H; destruct j; discriminate|].
  cbn [find_eol]. destruct (Byte.eqb a LF) eqn:E.
  - apply byte_eqb_eq in E. subst. split; [reflexivity|intros j Hj; lia].
  - assert (Hn : ~ eol_at (a :: t) 0).
    { intros H. cbn in H. injection H as ->. cbn in E. discriminate. }
    destruct (find_eol t) as [i|]; cbn [option_map].
    + destruct IH as [Hat Hmin]. split; [exact Hat|].
      intros j Hj. destruct j as [|j]; [exact Hn|]. apply (Hmin j). lia.
    + intros j. destruct j as [|j]; [exact Hn|]. apply (IH j).
Qed.

Lemma findFrom_ok f from b l : Inv b l -> from <= readableBytes b ->
  findFrom f from b = Ok (option_map (fun i => from + i) (f (skipn from l))).
Proof.
  intros HI Hn. pose proof (inv_sizes b l HI) as (H1 & H2 & H3 & H4).
  destruct HI as (pre & post & Hs & Hp & Hw & Hc & Hl).
  unfold findFrom. destruct (Nat.leb_spec from (readableBytes b)); [|lia].
  unfold read_at.
  destruct (Nat.leb_spec (ridx b + from + (readableBytes b - from)) (length (store b))); [|lia].
  cbn [mem bind]. do 3 f_equal.
  rewrite Hs, <- Hp, <- skipn_add, skipn_app_exact, H3.
  rewrite skipn_app. replace (from - length l) with 0 by lia. cbn [skipn].
  rewrite firstn_app, skipn_length. replace (length l - from - (length l - from)) with 0 by lia.
  cbn [firstn]. rewrite app_nil_r. apply firstn_all2. rewrite skipn_length. lia.
Qed.

(* ---- rejected preconditions ------------------------------------------------- *)
Lemma retrieve_rej n b : readableBytes b < n -> retrieve n b = Rejected.
Proof. intros H. unfold retrieve. destruct (Nat.leb_spec n (readableBytes b)); [lia|reflexivity]. Qed.

Lemma peekBytes_rej n b : readableBytes b < n -> peekBytes n b = Rejected.
Proof. intros H. unfold peekBytes. destruct (Nat.leb_spec n (readableBytes b)); [lia|reflexivity]. Qed.

Lemma ptr_ok_true off b : ptr_ok off b = true ->
  (0 <= off)%Z /\ Z.to_nat off <= readableBytes b.
Proof.
  unfold ptr_ok. intros H. apply andb_true_iff in H as [H1 H2].
  apply Z.leb_le in H1, H2. split; [exact H1|lia].
Qed.

(* ---- the derived members ----------------------------------------------------- *)
Lemma retrieveAsString_ok n b l : Inv b l -> n <= readableBytes b ->
  exists b', retrieveAsString n b = Ok (b', firstn n l) /\ Inv b' (skipn n l).
Proof.
  intros HI Hn. unfold retrieveAsString. rewrite (peekBytes_ok n b l HI Hn). cbn [bind].
  destruct (retrieve_ok n b l HI Hn) as (b' & -> & HI'). cbn [bind].
  exists b'. split; [reflexivity|exact HI'].
Qed.

Lemma peekInt_ok w b l : Inv b l -> wbytes w <= readableBytes b ->
  peekInt w b = Ok (be_decode_signed (firstn (wbytes w) l)).
Proof. intros HI Hn. unfold peekInt. rewrite (peekBytes_ok _ b l HI Hn). reflexivity. Qed.

Lemma readInt_ok w b l : Inv b l -> wbytes w <= readableBytes b ->
  exists b', readInt w b = Ok (b', be_decode_signed (firstn (wbytes w) l)) /\
             Inv b' (skipn (wbytes w) l).
Proof.
  intros HI Hn. unfold readInt, retrieveInt. rewrite (peekInt_ok w b l HI Hn). cbn [bind].
  destruct (retrieve_ok _ b l HI Hn) as (b' & -> & HI'). cbn [bind].
  exists b'. split; [reflexivity|exact HI'].
Qed.

Lemma findAt_ok f off b l : Inv b l -> ptr_ok off b = true ->
  findAt f off b = Ok (option_map (fun i => Z.to_nat off + i) (f (skipn (Z.to_nat off) l))).
Proof.
  intros HI Hp. unfold findAt. rewrite Hp. apply ptr_ok_true in Hp as [_ Hn].
  apply findFrom_ok; assumption.
Qed.

(* ---- one step ------------------------------------------------------------- *)
Definition Inv2 (st : state) (s : sstate) : Prop :=
  Inv (fst st) (fst s) /\ Inv (snd st) (snd s).

Theorem step_refines st s o : Inv2 st s ->
  if guard (fst st) o then
    exists st', step st o = Ok (st', snd (spec_step s (fst st) o)) /\
                Inv2 st' (fst (spec_step s (fst st) o))
  else step st o = Rejected.
Proof.
  destruct st as [b b2], s as [l l2]. intros [HI HI2]. cbn [fst snd] in *.
  pose proof (inv_sizes b l HI) as (H1 & H2 & H3 & H4).
  destruct o; cbn [guard step spec_step fst snd on_fst].
  - (* Append *)
    destruct (append_ok d b l HI) as (b' & -> & HI'). cbn [bind].
    eexists; split; [reflexivity|split; assumption].
  - (* Prepend *)
    destruct (Nat.leb_spec (length d) (prependableBytes b)) as [Hg|Hg].
    + destruct (prepend_ok d b l HI Hg) as (b' & -> & HI'). cbn [bind].
      eexists; split; [reflexivity|split; assumption].
    + unfold prepend. destruct (Nat.leb_spec (length d) (prependableBytes b)); [lia|reflexivity].
  - (* Retrieve *)
    destruct (Nat.leb_spec n (readableBytes b)) as [Hg|Hg].
    + destruct (retrieve_ok n b l HI Hg) as (b' & -> & HI'). cbn [bind].
      eexists; split; [reflexivity|split; assumption].
    + rewrite retrieve_rej by exact Hg. reflexivity.
  - (* RetrieveUntil *)
    unfold retrieveUntil. destruct (ptr_ok off b) eqn:Hp; [|reflexivity].
    apply ptr_ok_true in Hp as [_ Hn].
    destruct (retrieve_ok _ b l HI Hn) as (b' & -> & HI'). cbn [bind].
    eexists; split; [reflexivity|split; assumption].
  - (* RetrieveInt *)
    unfold retrieveInt. destruct (Nat.leb_spec (wbytes w) (readableBytes b)) as [Hg|Hg].
    + destruct (retrieve_ok _ b l HI Hg) as (b' & -> & HI'). cbn [bind].
      eexists; split; [reflexivity|split; assumption].
    + rewrite retrieve_rej by exact Hg. reflexivity.
  - (* RetrieveAll *)
    eexists; split; [reflexivity|split; [eapply retrieveAll_inv; exact HI|assumption]].
  - (* RetrieveAsString *)
    destruct (Nat.leb_spec n (readableBytes b)) as [Hg|Hg].
    + destruct (retrieveAsString_ok n b l HI Hg) as (b' & -> & HI'). cbn [bind fst snd].
      eexists; split; [reflexivity|split; assumption].
    + unfold retrieveAsString. rewrite peekBytes_rej by exact Hg. reflexivity.
  - (* RetrieveAllAsString *)
    unfold retrieveAllAsString.
    destruct (retrieveAsString_ok (readableBytes b) b l HI (le_n _)) as (b' & -> & HI').
    cbn [bind fst snd]. rewrite H3, firstn_all in *. rewrite skipn_all in HI'.
    eexists; split; [reflexivity|split; assumption].
  - (* ToStringPiece *)
    unfold toStringPiece. rewrite (peekBytes_ok _ b l HI (le_n _)). cbn [bind].
    rewrite H3, firstn_all. eexists; split; [reflexivity|split; assumption].
  - (* EnsureWritable *)
    destruct (ensureWritable_ok n b l HI) as (b' & -> & HI' & _). cbn [bind].
    eexists; split; [reflexivity|split; assumption].
  - (* HasWritten *)
    destruct (Nat.leb_spec (length d) (writableBytes b)) as [Hg|Hg].
    + destruct (hasWritten_ok d b l HI Hg) as (b' & -> & HI'). cbn [bind].
      eexists; split; [reflexivity|split; assumption].
    + unfold hasWrittenBytes. destruct (Nat.leb_spec (length d) (writableBytes b)); [lia|reflexivity].
  - (* Unwrite *)
    destruct (Nat.leb_spec n (readableBytes b)) as [Hg|Hg].
    + destruct (unwrite_ok n b l HI Hg) as (b' & -> & HI'). cbn [bind].
      eexists; split; [reflexivity|split; assumption].
    + unfold unwrite. destruct (Nat.leb_spec n (readableBytes b)); [lia|reflexivity].
  - (* Shrink *)
    destruct (shrink_ok reserve b l HI) as (b' & -> & HI'). cbn [bind].
    eexists; split; [reflexivity|split; assumption].
  - (* InternalCapacity *)
    unfold internalCapacity_lb. rewrite H4.
    eexists; split; [reflexivity|split; assumption].
  - (* Swap *)
    eexists; split; [reflexivity|split; assumption].
  - (* Assign *)
    eexists; split; [reflexivity|split; assumption].
  - (* ReadFd *)
    destruct k as [avail|e]; cbn [delivered].
    + destruct (readFd_data_ok avail b l HI) as (b' & -> & HI'). cbn [bind fst snd].
      eexists; split; [reflexivity|split; assumption].
    + cbn [readFd bind fst snd]. rewrite app_nil_r.
      eexists; split; [reflexivity|split; assumption].
  - (* AppendInt *)
    unfold appendInt. destruct (append_ok (be_encode (wbytes w) x) b l HI) as (b' & -> & HI').
    cbn [bind]. eexists; split; [reflexivity|split; assumption].
  - (* PrependInt *)
    unfold prependInt. pose proof (be_encode_length (wbytes w) x) as Hlen.
    destruct (Nat.leb_spec (wbytes w) (prependableBytes b)) as [Hg|Hg].
    + destruct (prepend_ok (be_encode (wbytes w) x) b l HI) as (b' & -> & HI'); [lia|]. cbn [bind].
      eexists; split; [reflexivity|split; assumption].
    + unfold prepend. rewrite Hlen.
      destruct (Nat.leb_spec (wbytes w) (prependableBytes b)); [lia|reflexivity].
  - (* PeekInt *)
    destruct (Nat.leb_spec (wbytes w) (readableBytes b)) as [Hg|Hg].
    + rewrite (peekInt_ok w b l HI Hg). cbn [bind].
      eexists; split; [reflexivity|split; assumption].
    + unfold peekInt. rewrite peekBytes_rej by exact Hg. reflexivity.
  - (* ReadInt *)
    destruct (Nat.leb_spec (wbytes w) (readableBytes b)) as [Hg|Hg].
    + destruct (readInt_ok w b l HI Hg) as (b' & -> & HI'). cbn [bind fst snd].
      eexists; split; [reflexivity|split; assumption].
    + unfold readInt, peekInt. rewrite peekBytes_rej by exact Hg. reflexivity.
  - (* FindCRLF0 *)
    rewrite (findFrom_ok _ 0 b l HI (Nat.le_0_l _)). cbn [bind].
    eexists; split; [reflexivity|split; assumption].
  - (* FindEOL0 *)
    rewrite (findFrom_ok _ 0 b l HI (Nat.le_0_l _)). cbn [bind].
    eexists; split; [reflexivity|split; assumption].
  - (* FindCRLF *)
    destruct (ptr_ok from b) eqn:Hp.
    + rewrite (findAt_ok _ from b l HI Hp). cbn [bind].
      eexists; split; [reflexivity|split; assumption].
    + unfold findAt. rewrite Hp. reflexivity.
  - (* FindEOL *)
    destruct (ptr_ok from b) eqn:Hp.
    + rewrite (findAt_ok _ from b l HI Hp). cbn [bind].
      eexists; split; [reflexivity|split; assumption].
    + unfold findAt. rewrite Hp. reflexivity.
Qed.

(* ---- every reachable state -------------------------------------------------- *)
Inductive reach : state -> sstate -> Prop :=
| reach_init n m : reach (new_buf n, new_buf m) ([], [])
| reach_step st s o st' out :
    reach st s -> step st o = Ok (st', out) ->
    reach st' (fst (spec_step s (fst st) o)).

Lemma reach_inv st s : reach st s -> Inv2 st s.
Proof.
  induction 1 as [n m|st s o st' out Hr IH Hstep].
  - split; apply new_buf_inv.
  - pose proof (step_refines st s o IH) as H.
    destruct (guard (fst st) o).
    + destruct H as (st1 & E & HI). rewrite E in Hstep. injection Hstep as <- _. exact HI.
    + rewrite H in Hstep. discriminate.
Qed.

(* lock-step run used by the executable checks: concrete and abstract together *)
Fixpoint spec_run (st : state) (s : sstate) (ops : list op) : sstate :=
  match ops with
  | [] => s
  | o :: rest =>
      match step st o with
      | Ok (st', _) => spec_run st' (fst (spec_step s (fst st) o)) rest
      | _ => s
      end
  end.

Lemma run_reach st s ops st' outs :
  reach st s -> run st ops = Ok (st', outs) -> reach st' (spec_run st s ops).
Proof.
  revert st s st' outs. induction ops as [|o rest IH]; intros st s st' outs Hr Hrun.
  - cbn in Hrun. injection Hrun as <- _. exact Hr.
  - cbn [run] in Hrun. cbn [spec_run].
    destruct (step st o) as [[st1 o1]| |] eqn:E; cbn [bind] in Hrun; try discriminate.
    cbn [fst snd] in Hrun.
    destruct (run st1 rest) as [[st2 o2]| |] eqn:E2; cbn [bind] in Hrun; try discriminate.
    cbn [fst snd] in Hrun. injection Hrun as <- _.
    eapply IH; [|exact E2]. eapply reach_step; eassumption.
Qed.

(* ---- integers ------------------------------------------------------------- *)
Lemma int_roundtrip_spec k x rest : 0 < k -> signed_range k x ->
  be_decode_signed (firstn k (be_encode k x ++ rest)) = x.
Proof.
  intros Hk Hx. rewrite <- (be_encode_length k x) at 1. rewrite firstn_app_exact.
  apply be_signed_roundtrip; assumption.
Qed.

(* ---- statements used by Properties_C10 ------------------------------------- *)
Lemma refines_fifo st s : reach st s ->
  readable (fst st) = fst s /\ readable (snd st) = snd s /\
  forall o,
    if guard (fst st) o then
      exists st', step st o = Ok (st', snd (spec_step s (fst st) o)) /\
                  reach st' (fst (spec_step s (fst st) o))
    else step st o = Rejected.
Proof.
  intros Hr. pose proof (reach_inv st s Hr) as [HI HI2].
  split; [apply inv_readable; exact HI|]. split; [apply inv_readable; exact HI2|].
  intros o. pose proof (step_refines st s o (conj HI HI2)) as H.
  destruct (guard (fst st) o); [|exact H].
  destruct H as (st' & E & _). exists st'. split; [exact E|].
  eapply reach_step; eassumption.
Qed.

Lemma sizes_consistent st s : reach st s ->
  let b := fst st in
  ridx b <= widx b /\ widx b <= length (store b) /\
  readableBytes b = length (fst s) /\
  prependableBytes b + readableBytes b + writableBytes b = length (store b).
Proof. intros Hr. apply inv_sizes. apply (reach_inv st s Hr). Qed.

Lemma ensure_writable_post st s n st' o : reach st s ->
  step st (EnsureWritable n) = Ok (st', o) -> n <= writableBytes (fst st').
Proof.
  intros Hr. pose proof (reach_inv st s Hr) as [HI _].
  cbn [step on_fst]. destruct (ensureWritable_ok n (fst st) (fst s) HI) as (b' & -> & _ & Hw & _).
  cbn [bind]. intros [= <- _]. exact Hw.
Qed.

Lemma cheap_prepend st s : reach st s ->
  kCheapPrepend <= prependableBytes (fst st) + up (fst st).
Proof.
  intros Hr. destruct (reach_inv st s Hr) as [(pre & post & _ & _ & _ & Hc & _) _]. exact Hc.
Qed.

Lemma in_bounds st s o : reach st s -> step st o <> Fault.
Proof.
  intros Hr. pose proof (step_refines st s o (reach_inv st s Hr)) as H.
  destruct (guard (fst st) o).
  - destruct H as (st' & -> & _). discriminate.
  - rewrite H. discriminate.
Qed.

Lemma readfd_exact st s avail : reach st s ->
  let cap := readFd_capacity (fst st) in
  let n := Nat.min cap (length avail) in
  exists st', step st (ReadFd (KData avail)) =
                Ok (st', ORead (mkRfd (Z.of_nat n) (readFd_iovcnt (fst st)) (writableBytes (fst st)) None)) /\
              readable (fst st') = readable (fst st) ++ firstn n avail /\
              readable (snd st') = readable (snd st).
Proof.
  intros Hr cap n. pose proof (reach_inv st s Hr) as [HI HI2].
  pose proof (step_refines st s (ReadFd (KData avail)) (conj HI HI2)) as H.
  cbn [guard spec_step fst snd delivered] in H. destruct H as (st' & E & [HI' HI2']).
  cbn [fst snd] in HI', HI2'.
  exists st'. fold cap in E, HI'. rewrite firstn_length in E.
  split; [exact E|].
  rewrite (inv_readable _ _ HI'), (inv_readable _ _ HI), (inv_readable _ _ HI2'), (inv_readable _ _ HI2).
  split; [|reflexivity]. f_equal. unfold n.
  destruct (Nat.le_ge_cases cap (length avail)).
  - rewrite Nat.min_l by assumption. reflexivity.
  - rewrite Nat.min_r by assumption. rewrite !firstn_all2 by lia. reflexivity.
Qed.

(* readv failed: the buffer (the whole concrete state, not only its readable part) is
   untouched, -1 is returned and errno is handed to the caller *)
Lemma readfd_error st e :
  step st (ReadFd (KErr e)) =
  Ok (st, ORead (mkRfd (-1) (readFd_iovcnt (fst st)) (writableBytes (fst st)) (Some e))).
Proof. destruct st as [b b2]. reflexivity. Qed.

(* the iovec choice: the second iovec (extrabuf) is offered exactly when the buffer's own
   writable space is smaller than extrabuf; the capacity offered is the sum of the iovecs *)
Lemma readfd_iovcnt b :
  readFd_iovcnt b = (if writableBytes b <? kExtraBuf then 2 else 1) /\
  readFd_capacity b = writableBytes b + (if readFd_iovcnt b =? 2 then kExtraBuf else 0) /\
  readFd_capacity b < 2 * Nat.max (writableBytes b) kExtraBuf + 1 /\
  (readFd_iovcnt b = 2 -> readFd_capacity b <= 2 * kExtraBuf - 1).
Proof.
  split; [reflexivity|]. split; [apply readFd_capacity_iovcnt|].
  unfold readFd_capacity, readFd_iovcnt.
  destruct (Nat.ltb_spec (writableBytes b) kExtraBuf); split; try lia; intros; discriminate.
Qed.

Lemma capacity_bound st s : reach st s ->
  step st InternalCapacity =
    Ok (st, ONat (prependableBytes (fst st) + readableBytes (fst st) + writableBytes (fst st))) /\
  internalCapacity_lb (fst st) = length (store (fst st)).
Proof.
  intros Hr. pose proof (sizes_consistent st s Hr) as (_ & _ & _ & H4). cbn zeta in H4.
  split; [|reflexivity]. cbn [step]. unfold internalCapacity_lb. rewrite H4. reflexivity.
Qed.

Lemma append_peek_roundtrip st s w x st1 o1 :
  reach st s -> fst s = [] -> signed_range (wbytes w) x ->
  step st (AppendInt w x) = Ok (st1, o1) ->
  step st1 (PeekInt w) = Ok (st1, OInt x) /\ readable (fst st1) = be_encode (wbytes w) x /\
  exists st2, step st1 (ReadInt w) = Ok (st2, OInt x) /\ readable (fst st2) = [].
Proof.
  intros Hr Hs Hx E1. assert (Hk : 0 < wbytes w) by (destruct w; cbn; lia).
  pose proof (refines_fifo st s Hr) as (_ & _ & H). specialize (H (AppendInt w x)).
  cbn [guard] in H. destruct H as (st' & E & Hr').
  rewrite E in E1. injection E1 as <- _.
  cbn [spec_step fst snd] in Hr'. rewrite Hs in Hr'. cbn [app] in Hr'.
  pose proof (refines_fifo _ _ Hr') as (Hrd & _ & H). cbn [fst] in Hrd.
  pose proof (sizes_consistent _ _ Hr') as (_ & _ & Hlen & _). cbn [fst] in Hlen.
  rewrite be_encode_length in Hlen.
  assert (Hdec : be_decode_signed (firstn (wbytes w) (be_encode (wbytes w) x)) = x).
  { rewrite <- (app_nil_r (be_encode (wbytes w) x)). apply int_roundtrip_spec; assumption. }
  split; [|split; [exact Hrd|]].
  - specialize (H (PeekInt w)). cbn [guard] in H. rewrite Hlen, Nat.leb_refl in H.
    destruct H as (st2 & E2 & _). cbn [spec_step fst snd] in E2. rewrite Hdec in E2.
    cbn [step] in E2 |- *. destruct (peekInt w (fst st')) as [z| |]; cbn [bind] in *; try discriminate.
    injection E2 as _ ->. reflexivity.
  - specialize (H (ReadInt w)). cbn [guard] in H. rewrite Hlen, Nat.leb_refl in H.
    destruct H as (st2 & E2 & Hr2). cbn [spec_step fst snd] in E2, Hr2. rewrite Hdec in E2.
    exists st2. split; [exact E2|].
    pose proof (refines_fifo _ _ Hr2) as (Hrd2 & _ & _). cbn [fst] in Hrd2.
    rewrite Hrd2. rewrite <- (be_encode_length (wbytes w) x) at 1. apply skipn_all.
Qed.

Lemma prepend_peek_roundtrip st s w x st1 o1 :
  reach st s -> signed_range (wbytes w) x ->
  step st (PrependInt w x) = Ok (st1, o1) ->
  step st1 (PeekInt w) = Ok (st1, OInt x) /\
  readable (fst st1) = be_encode (wbytes w) x ++ readable (fst st) /\
  exists st2, step st1 (ReadInt w) = Ok (st2, OInt x) /\ readable (fst st2) = readable (fst st).
Proof.
  intros Hr Hx E1. assert (Hk : 0 < wbytes w) by (destruct w; cbn; lia).
  pose proof (refines_fifo st s Hr) as (Hrd0 & _ & H). specialize (H (PrependInt w x)).
  destruct (guard (fst st) (PrependInt w x)); [|rewrite H in E1; discriminate].
  destruct H as (st' & E & Hr').
  rewrite E in E1. injection E1 as <- _.
  cbn [spec_step fst snd] in Hr'.
  pose proof (refines_fifo _ _ Hr') as (Hrd & _ & H). cbn [fst] in Hrd.
  pose proof (sizes_consistent _ _ Hr') as (_ & _ & Hlen & _). cbn [fst] in Hlen.
  rewrite app_length, be_encode_length in Hlen.
  split; [|split; [rewrite Hrd, Hrd0; reflexivity|]].
  - specialize (H (PeekInt w)). cbn [guard] in H.
    destruct (Nat.leb_spec (wbytes w) (readableBytes (fst st'))); [|lia].
    destruct H as (st2 & E2 & _). cbn [spec_step fst snd] in E2.
    rewrite int_roundtrip_spec in E2 by assumption.
    cbn [step] in E2 |- *. destruct (peekInt w (fst st')) as [z| |]; cbn [bind] in *; try discriminate.
    injection E2 as _ ->. reflexivity.
  - specialize (H (ReadInt w)). cbn [guard] in H.
    destruct (Nat.leb_spec (wbytes w) (readableBytes (fst st'))); [|lia].
    destruct H as (st2 & E2 & Hr2). cbn [spec_step fst snd] in E2, Hr2.
    rewrite int_roundtrip_spec in E2 by assumption.
    exists st2. split; [exact E2|].
    pose proof (refines_fifo _ _ Hr2) as (Hrd2 & _ & _). cbn [fst] in Hrd2.
    rewrite Hrd2, Hrd0. rewrite <- (be_encode_length (wbytes w) x) at 1. apply skipn_app_exact.
Qed.

(* first match at or after a start pointer, inside the readable region only *)
Lemma find_spec_crlf (l : list byte) from : from <= length l ->
  match option_map (fun i => from + i) (find_crlf (skipn from l)) with
  | Some i => from <= i /\ crlf_at l i /\ S i < length l /\
              forall j, from <= j < i -> ~ crlf_at l j
  | None => forall j, from <= j -> ~ crlf_at l j
  end.
Proof.
  intros Hf.
  pose proof (find_crlf_spec (skipn from l)) as Hspec.
  assert (Hnth : forall j, nth_error (skipn from l) j = nth_error l (from + j)).
  { intros j. rewrite <- (firstn_skipn from l) at 2.
    rewrite nth_error_app2; rewrite firstn_length_le by lia; [|lia].
    f_equal. lia. }
  destruct (find_crlf (skipn from l)) as [i|]; cbn [option_map].
  - destruct Hspec as [[Ha Hb] Hmin]. rewrite Hnth in Ha, Hb.
    split; [lia|]. split; [split; [exact Ha|rewrite <- Nat.add_succ_r; exact Hb]|].
    split.
    + apply nth_error_Some. rewrite <- Nat.add_succ_r, Hb. discriminate.
    + intros j Hj [Hc1 Hc2]. apply (Hmin (j - from)); [lia|].
      split; rewrite Hnth.
      * replace (from + (j - from)) with j by lia. exact Hc1.
      * replace (from + S (j - from)) with (S j) by lia. exact Hc2.
  - intros j Hj [Hc1 Hc2]. apply (Hspec (j - from)).
    split; rewrite Hnth.
    + replace (from + (j - from)) with j by lia. exact Hc1.
    + replace (from + S (j - from)) with (S j) by lia. exact Hc2.
Qed.

Lemma find_spec_eol (l : list byte) from : from <= length l ->
  match option_map (fun i => from + i) (find_eol (skipn from l)) with
  | Some i => from <= i /\ eol_at l i /\ i < length l /\
              forall j, from <= j < i -> ~ eol_at l j
  | None => forall j, from <= j -> ~ eol_at l j
  end.
Proof.
  intros Hf.
  pose proof (find_eol_spec (skipn from l)) as Hspec.
  assert (Hnth : forall j, nth_error (skipn from l) j = nth_error l (from + j)).
  { intros j. rewrite <- (firstn_skipn from l) at 2.
    rewrite nth_error_app2; rewrite firstn_length_le by lia; [|lia].
    f_equal. lia. }
  destruct (find_eol (skipn from l)) as [i|]; cbn [option_map].
  - destruct Hspec as [Ha Hmin]. unfold eol_at in *. rewrite Hnth in Ha.
    split; [lia|]. split; [exact Ha|]. split.
    + apply nth_error_Some. rewrite Ha. discriminate.
    + intros j Hj Hc. apply (Hmin (j - from)); [lia|].
      rewrite Hnth. replace (from + (j - from)) with j by lia. exact Hc.
  - intros j Hj Hc. apply (Hspec (j - from)). unfold eol_at in *.
    rewrite Hnth. replace (from + (j - from)) with j by lia. exact Hc.
Qed.

(* [o] is FindCRLF off or (off = 0) FindCRLF0; accepted iff the start pointer lies in
   [peek(), beginWrite()] *)
Lemma find_first_crlf st s off r o : reach st s ->
  o = FindCRLF off \/ (o = FindCRLF0 /\ off = 0%Z) ->
  step st o = Ok (st, OIdx r) ->
  let l := readable (fst st) in
  let from := Z.to_nat off in
  (0 <= off <= Z.of_nat (length l))%Z /\
  match r with
  | Some i => from <= i /\ crlf_at l i /\ S i < length l /\
              forall j, from <= j < i -> ~ crlf_at l j
  | None => forall j, from <= j -> ~ crlf_at l j
  end.
Proof.
  intros Hr Ho E l from.
  pose proof (refines_fifo st s Hr) as (Hrd & _ & H). specialize (H o).
  pose proof (sizes_consistent _ _ Hr) as (_ & _ & Hlen & _). cbn zeta in Hlen.
  assert (Hg : guard (fst st) o = true -> (0 <= off <= Z.of_nat (length l))%Z).
  { destruct Ho as [->|[-> ->]]; cbn [guard]; [|lia].
    intros Hp. apply ptr_ok_true in Hp. unfold l. rewrite Hrd. lia. }
  destruct (guard (fst st) o); [|rewrite H in E; discriminate].
  specialize (Hg eq_refl). split; [exact Hg|].
  destruct H as (st' & E' & _). rewrite E' in E.
  assert (Er : option_map (fun i => from + i) (find_crlf (skipn from (fst s))) = r).
  { destruct Ho as [->|[-> ->]]; cbn [spec_step fst snd] in E; injection E as _ Er; exact Er. }
  unfold l. rewrite Hrd. rewrite <- Er.
  apply find_spec_crlf. unfold l in Hg. rewrite Hrd in Hg. unfold from. lia.
Qed.

Lemma find_first_eol st s off r o : reach st s ->
  o = FindEOL off \/ (o = FindEOL0 /\ off = 0%Z) ->
  step st o = Ok (st, OIdx r) ->
  let l := readable (fst st) in
  let from := Z.to_nat off in
  (0 <= off <= Z.of_nat (length l))%Z /\
  match r with
  | Some i => from <= i /\ eol_at l i /\ i < length l /\
              forall j, from <= j < i -> ~ eol_at l j
  | None => forall j, from <= j -> ~ eol_at l j
  end.
Proof.
  intros Hr Ho E l from.
  pose proof (refines_fifo st s Hr) as (Hrd & _ & H). specialize (H o).
  pose proof (sizes_consistent _ _ Hr) as (_ & _ & Hlen & _). cbn zeta in Hlen.
  assert (Hg : guard (fst st) o = true -> (0 <= off <= Z.of_nat (length l))%Z).
  { destruct Ho as [->|[-> ->]]; cbn [guard]; [|lia].
    intros Hp. apply ptr_ok_true in Hp. unfold l. rewrite Hrd. lia. }
  destruct (guard (fst st) o); [|rewrite H in E; discriminate].
  specialize (Hg eq_refl). split; [exact Hg|].
  destruct H as (st' & E' & _). rewrite E' in E.
  assert (Er : option_map (fun i => from + i) (find_eol (skipn from (fst s))) = r).
  { destruct Ho as [->|[-> ->]]; cbn [spec_step fst snd] in E; injection E as _ Er; exact Er. }
  unfold l. rewrite Hrd. rewrite <- Er.
  apply find_spec_eol. unfold l in Hg. rewrite Hrd in Hg. unfold from. lia.
Qed.

(* ---- the ghost counter [up]: only prepend / prependIntN raise it -------------- *)
Ltac split_ok H :=
  repeat (match type of H with
          | context [if ?c then _ else _] => destruct c
          | context [mem ?o] => destruct o; cbn [mem bind] in H
          | Rejected = Ok _ => discriminate H
          | Fault = Ok _ => discriminate H
          | bind Rejected _ = _ => discriminate H
          | bind Fault _ = _ => discriminate H
          | Ok _ = Ok _ => injection H as H
          end; cbn [bind] in H).

Lemma makeSpace_up len b b' : makeSpace len b = Ok b' -> up b' <= up b.
Proof. unfold makeSpace. intros H. split_ok H; subst b'; cbn [up]; lia. Qed.

Lemma ensureWritable_up len b b' : ensureWritable len b = Ok b' -> up b' <= up b.
Proof.
  unfold ensureWritable. intros H.
  destruct (writableBytes b <? len).
  - destruct (makeSpace len b) as [b1| |] eqn:E; cbn [bind] in H; try discriminate.
    apply makeSpace_up in E. split_ok H. subst b'. exact E.
  - cbn [bind] in H. split_ok H. subst b'. lia.
Qed.

Lemma append_up d b b' : append d b = Ok b' -> up b' <= up b.
Proof.
  unfold append. intros H.
  destruct (ensureWritable (length d) b) as [b1| |] eqn:E; cbn [bind] in H; try discriminate.
  apply ensureWritable_up in E. split_ok H. subst b'. cbn [up]. exact E.
Qed.

Lemma retrieve_up n b b' : retrieve n b = Ok b' -> up b' <= up b.
Proof. unfold retrieve, retrieveAll. intros H. split_ok H; subst b'; cbn [up]; lia. Qed.

Lemma hasWritten_up d b b' : hasWrittenBytes d b = Ok b' -> up b' <= up b.
Proof. unfold hasWrittenBytes. intros H. split_ok H; subst b'; cbn [up]; lia. Qed.

Lemma unwrite_up n b b' : unwrite n b = Ok b' -> up b' <= up b.
Proof. unfold unwrite. intros H. split_ok H; subst b'; cbn [up]; lia. Qed.

Lemma shrink_up r b b' : shrink r b = Ok b' -> up b' = 0.
Proof.
  unfold shrink. intros H.
  destruct (mem (read_at (store b) (ridx b) (readableBytes b))) as [d| |]; cbn [bind] in H; try discriminate.
  destruct (ensureWritable _ (new_buf kInitialSize)) as [o1| |] eqn:E; cbn [bind] in H; try discriminate.
  apply ensureWritable_up in E. apply append_up in H. cbn [new_buf up] in E. lia.
Qed.

Lemma readFd_up k b b' r : readFd k b = Ok (b', r) -> up b' <= up b.
Proof.
  unfold readFd. intros H. destruct k as [avail|e]; [|injection H as <- _; lia].
  destruct (length (firstn (readFd_capacity b) avail) <=? writableBytes b).
  - split_ok H. subst b'. cbn [up]. lia.
  - destruct (mem (write_at (store b) (widx b) _)) as [s'| |]; cbn [bind] in H; try discriminate.
    destruct (_ && _); [|discriminate].
    destruct (append _ _) as [b2| |] eqn:E; cbn [bind] in H; try discriminate.
    apply append_up in E. cbn [up] in E. injection H as <- _. exact E.
Qed.

(* an op that is not a prepend (and not a swap with / copy to the other buffer) never raises [up] *)
Definition prepends (o : op) : bool :=
  match o with Prepend _ | PrependInt _ _ => true | _ => false end.

Lemma step_up st o st' out : step st o = Ok (st', out) -> prepends o = false ->
  (up (fst st') <= up (fst st) /\ up (snd st') <= up (snd st)) \/
  (o = Swap /\ st' = (snd st, fst st)) \/ (o = Assign /\ st' = (fst st, fst st)).
Proof.
  destruct st as [b b2]. intros H Hp.
  destruct o; cbn [prepends] in Hp; try discriminate Hp; cbn [step on_fst fst snd] in H.
  - destruct (append d b) as [b'| |] eqn:E; cbn [bind] in H; try discriminate.
    apply append_up in E. injection H as <- _. left. cbn [fst snd]. lia.
  - destruct (retrieve n b) as [b'| |] eqn:E; cbn [bind] in H; try discriminate.
    apply retrieve_up in E. injection H as <- _. left. cbn [fst snd]. lia.
  - unfold retrieveUntil in H. destruct (ptr_ok off b); [|discriminate].
    destruct (retrieve _ b) as [b'| |] eqn:E; cbn [bind] in H; try discriminate.
    apply retrieve_up in E. injection H as <- _. left. cbn [fst snd]. lia.
  - unfold retrieveInt in H.
    destruct (retrieve _ b) as [b'| |] eqn:E; cbn [bind] in H; try discriminate.
    apply retrieve_up in E. injection H as <- _. left. cbn [fst snd]. lia.
  - injection H as <- _. left. cbn [fst snd retrieveAll up]. lia.
  - unfold retrieveAsString in H.
    destruct (peekBytes n b) as [d| |]; cbn [bind] in H; try discriminate.
    destruct (retrieve n b) as [b'| |] eqn:E; cbn [bind fst snd] in H; try discriminate.
    apply retrieve_up in E. injection H as <- _. left. cbn [fst snd]. lia.
  - unfold retrieveAllAsString, retrieveAsString in H.
    destruct (peekBytes _ b) as [d| |]; cbn [bind] in H; try discriminate.
    destruct (retrieve _ b) as [b'| |] eqn:E; cbn [bind fst snd] in H; try discriminate.
    apply retrieve_up in E. injection H as <- _. left. cbn [fst snd]. lia.
  - destruct (toStringPiece b); cbn [bind] in H; try discriminate.
    injection H as <- _. left. cbn [fst snd]. lia.
  - destruct (ensureWritable n b) as [b'| |] eqn:E; cbn [bind] in H; try discriminate.
    apply ensureWritable_up in E. injection H as <- _. left. cbn [fst snd]. lia.
  - destruct (hasWrittenBytes d b) as [b'| |] eqn:E; cbn [bind] in H; try discriminate.
    apply hasWritten_up in E. injection H as <- _. left. cbn [fst snd]. lia.
  - destruct (unwrite n b) as [b'| |] eqn:E; cbn [bind] in H; try discriminate.
    apply unwrite_up in E. injection H as <- _. left. cbn [fst snd]. lia.
  - destruct (shrink reserve b) as [b'| |] eqn:E; cbn [bind] in H; try discriminate.
    apply shrink_up in E. injection H as <- _. left. cbn [fst snd]. lia.
  - injection H as <- _. left. cbn [fst snd]. lia.
  - injection H as <- _. right. left. split; reflexivity.
  - injection H as <- _. right. right. split; reflexivity.
  - destruct (readFd k b) as [[b' r]| |] eqn:E; cbn [bind fst snd] in H; try discriminate.
    apply readFd_up in E. injection H as <- _. left. cbn [fst snd]. lia.
  - unfold appendInt in H.
    destruct (append _ b) as [b'| |] eqn:E; cbn [bind] in H; try discriminate.
    apply append_up in E. injection H as <- _. left. cbn [fst snd]. lia.
  - destruct (peekInt w b); cbn [bind] in H; try discriminate.
    injection H as <- _. left. cbn [fst snd]. lia.
  - unfold readInt, retrieveInt in H.
    destruct (peekInt w b); cbn [bind] in H; try discriminate.
    destruct (retrieve _ b) as [b'| |] eqn:E; cbn [bind fst snd] in H; try discriminate.
    apply retrieve_up in E. injection H as <- _. left. cbn [fst snd]. lia.
  - destruct (findFrom find_crlf 0 b); cbn [bind] in H; try discriminate.
    injection H as <- _. left. cbn [fst snd]. lia.
  - destruct (findFrom find_eol 0 b); cbn [bind] in H; try discriminate.
    injection H as <- _. left. cbn [fst snd]. lia.
  - destruct (findAt find_crlf from b); cbn [bind] in H; try discriminate.
    injection H as <- _. left. cbn [fst snd]. lia.
  - destruct (findAt find_eol from b); cbn [bind] in H; try discriminate.
    injection H as <- _. left. cbn [fst snd]. lia.
Qed.

Lemma run_up0 ops : forall st st' outs,
  run st ops = Ok (st', outs) -> forallb (fun o => negb (prepends o)) ops = true ->
  up (fst st) = 0 -> up (snd st) = 0 -> up (fst st') = 0 /\ up (snd st') = 0.
Proof.
  induction ops as [|o rest IH]; intros st st' outs Hrun Hall U1 U2.
  - cbn in Hrun. injection Hrun as <- _. split; assumption.
  - cbn [run] in Hrun. cbn [forallb] in Hall. apply andb_true_iff in Hall as [Ho Hall].
    apply negb_true_iff in Ho.
    destruct (step st o) as [[st1 o1]| |] eqn:E; cbn [bind fst snd] in Hrun; try discriminate.
    destruct (run st1 rest) as [[st2 o2]| |] eqn:E2; cbn [bind fst snd] in Hrun; try discriminate.
    injection Hrun as <- _.
    apply (IH st1 st2 o2 E2 Hall).
    + destruct (step_up st o st1 o1 E Ho) as [[A B]|[[_ ->]|[_ ->]]]; cbn [fst snd]; lia.
    + destruct (step_up st o st1 o1 E Ho) as [[A B]|[[_ ->]|[_ ->]]]; cbn [fst snd]; lia.
Qed.

(* the corollary the property text states: as long as the caller has not used the prepend
   area (no prepend / prependIntN in the history, on either buffer), at least kCheapPrepend
   bytes are prependable -- after growth, compaction, retrieve-all, shrink, swap, readFd *)
Lemma cheap_prepend_unused n m ops st outs :
  run (new_buf n, new_buf m) ops = Ok (st, outs) ->
  forallb (fun o => negb (prepends o)) ops = true ->
  kCheapPrepend <= prependableBytes (fst st) /\ kCheapPrepend <= prependableBytes (snd st).
Proof.
  intros Hrun Hall.
  destruct (run_up0 ops _ _ _ Hrun Hall eq_refl eq_refl) as [U1 U2].
  pose proof (run_reach _ ([], []) ops st outs (reach_init n m) Hrun) as Hr.
  destruct (reach_inv _ _ Hr) as [(p1 & q1 & _ & _ & _ & C1 & _) (p2 & q2 & _ & _ & _ & C2 & _)].
  unfold prependableBytes. lia.
Qed.

(* consequently a prependIntN / prepend of at most kCheapPrepend bytes is accepted then;
   this is what ProtobufCodecLite::fillEmptyBuffer relies on (C18) *)
Lemma prepend_accepted_when_unused n m ops st outs d :
  run (new_buf n, new_buf m) ops = Ok (st, outs) ->
  forallb (fun o => negb (prepends o)) ops = true ->
  length d <= kCheapPrepend ->
  exists st', step st (Prepend d) = Ok (st', OUnit) /\
              readable (fst st') = d ++ readable (fst st).
Proof.
  intros Hrun Hall Hd.
  destruct (cheap_prepend_unused n m ops st outs Hrun Hall) as [Hp _].
  pose proof (run_reach _ ([], []) ops st outs (reach_init n m) Hrun) as Hr.
  pose proof (refines_fifo _ _ Hr) as (Hrd & _ & H). specialize (H (Prepend d)).
  cbn [guard] in H. destruct (Nat.leb_spec (length d) (prependableBytes (fst st))); [|lia].
  destruct H as (st' & E & Hr'). exists st'. split; [exact E|].
  pose proof (refines_fifo _ _ Hr') as (Hrd' & _ & _). cbn [spec_step fst snd] in Hrd'.
  rewrite Hrd', Hrd. reflexivity.
Qed.

(* ---- the constructor's three assertions (Buffer.h:53-55) ---------------------- *)
Lemma constructor_asserts n :
  readableBytes (new_buf n) = 0 /\ writableBytes (new_buf n) = n /\
  prependableBytes (new_buf n) = kCheapPrepend /\ readable (new_buf n) = [].
Proof.
  pose proof (new_buf_writable n) as Hw. pose proof (inv_readable _ _ (new_buf_inv n)) as Hr.
  unfold readableBytes, prependableBytes, new_buf in *. cbn [ridx widx] in *.
  repeat split; try lia; assumption.
Qed.

(* ---- shrink(reserve) leaves at least [reserve] writable bytes and a fresh prepend area --- *)
Lemma append_fits d b l : Inv b l -> length d <= writableBytes b ->
  exists b', append d b = Ok b' /\ ridx b' = ridx b /\
             writableBytes b' = writableBytes b - length d.
Proof.
  intros HI Hd. unfold append, ensureWritable.
  destruct (Nat.ltb_spec (writableBytes b) (length d)) as [Hlt|_]; [lia|].
  cbn [bind]. destruct (Nat.leb_spec (length d) (writableBytes b)); [|lia].
  cbn [bind]. destruct (store_tail b l d HI Hd) as (s' & -> & _ & Hlen). cbn [mem bind].
  destruct (Nat.leb_spec (length d) (writableBytes b)); [|lia].
  eexists; split; [reflexivity|]. cbn [ridx]. split; [reflexivity|].
  unfold writableBytes in *. cbn [store widx]. lia.
Qed.

Lemma shrink_post r b l b' : Inv b l -> shrink r b = Ok b' ->
  r <= writableBytes b' /\ prependableBytes b' = kCheapPrepend.
Proof.
  intros HI. pose proof (inv_sizes b l HI) as (_ & _ & H3 & _).
  unfold shrink. rewrite (read_content b l HI). cbn [mem bind].
  destruct (ensureWritable_ok (readableBytes b + r) (new_buf kInitialSize) [] (new_buf_inv _))
    as (o1 & E & HI1 & Hw & Hu).
  pose proof (ensureWritable_up _ _ _ E) as Hup. cbn [new_buf up] in Hup.
  rewrite E. cbn [bind].
  destruct (append_fits l o1 [] HI1) as (b2 & -> & Hr & Hw2); [lia|].
  intros [= <-]. split; [lia|].
  unfold prependableBytes. rewrite Hr.
  cbn [new_buf ridx up] in Hu. destruct Hu as [Hu|[Hu _]]; [lia|exact Hu].
Qed.

Lemma shrink_reserve st s r st' o : reach st s ->
  step st (Shrink r) = Ok (st', o) ->
  r <= writableBytes (fst st') /\ prependableBytes (fst st') = kCheapPrepend.
Proof.
  intros Hr. destruct (reach_inv st s Hr) as [HI _]. cbn [step on_fst].
  destruct (shrink r (fst st)) as [b'| |] eqn:E; cbn [bind]; try discriminate.
  intros [= <- _]. cbn [fst]. eapply shrink_post; eassumption.
Qed.

(* ---- where the reader index can end up (used by C18: fillEmptyBuffer's final prepend) ---- *)
Lemma ensureWritable_ridx len b b' : ensureWritable len b = Ok b' ->
  ridx b' = ridx b \/ ridx b' = kCheapPrepend.
Proof.
  unfold ensureWritable, makeSpace. intros H.
  destruct (writableBytes b <? len); cbn [bind] in H.
  - destruct (writableBytes b + prependableBytes b <? len + kCheapPrepend); cbn [bind] in H.
    + split_ok H. subst b'. left. reflexivity.
    + split_ok H; subst b'; right; reflexivity.
  - split_ok H. subst b'. left. reflexivity.
Qed.

Lemma append_ridx d b b' : append d b = Ok b' -> ridx b' = ridx b \/ ridx b' = kCheapPrepend.
Proof.
  unfold append. intros H.
  destruct (ensureWritable (length d) b) as [b1| |] eqn:E; cbn [bind] in H; try discriminate.
  apply ensureWritable_ridx in E. split_ok H. subst b'. exact E.
Qed.

Lemma hasWritten_ridx d b b' : hasWrittenBytes d b = Ok b' -> ridx b' = ridx b.
Proof. unfold hasWrittenBytes. intros H. split_ok H; subst b'; reflexivity. Qed.

Lemma be_encode_mod n x : be_encode n (x mod 256 ^ Z.of_nat n) = be_encode n x.
Proof.
  pose proof (be_encode_decode (be_encode n x)) as H.
  rewrite be_encode_length, be_decode_encode in H. exact H.
Qed.
