(* Link_Properties_L1: cross-model link L1 (TcpConnection over its two Buffers: Conn_Model over C10_Model).  Only statements, closed by [exact], each followed by
   Print Assumptions, and non-vacuity examples.  The component models are tied to the C++ by their own
   checks; the link proves that the composition the prose relied on is sound (docs/Link.md).
   Quoted (appended section "Cross-model links") by the Properties_Cxx.v files named in docs/Link.md,
   so that the checks of those properties rebuild and re-check it on every run. *)
From Coq Require Import List ZArith Lia Bool Arith NArith.
From Coq.Strings Require Import Byte.
From Muduo Require C10_Model C10_Proofs.
From Muduo Require Import Conn_Model Conn_Proofs Conn_Trace Link_ConnBuf_Model Link_ConnBuf.
Import ListNotations.

(* ========================================================================================== *)
(* L1. TcpConnection over its two Buffers                                                       *)
(* ========================================================================================== *)
(* Concrete machine (Link_ConnBuf_Model): state = (ctl, obuf, ibuf); ctl = the control fields of
   Conn_Model (its outb / inb fields dead), obuf / ibuf = C10_Model.buf (vector, readerIndex_,
   writerIndex_).  c_step performs exactly the Buffer calls of TcpConnection.cc (sendInLoop:
   readableBytes / append(data+nwrote, remaining); handleWrite: peek+readableBytes / retrieve(n) /
   readableBytes; handleRead: readFd, branches on its return value; the message callback's
   retrieve(n) / retrieveAll()); a call C10 does not accept makes the step Fault.
   abs forgets vector and indices: outb := readable obuf, inb := readable ibuf.
   bufs_ok c := both buffers are reachable Buffer states (C10_Proofs.reach).
   abs_op c o := the Conn_Model op a concrete op amounts to (CRead (KData avail) is
   EvReadData (first readFd_capacity bytes of avail), or EvReadEOF when that is empty).        *)

(* HEADLINE (refinement, concrete => abstract): whatever the concrete connection does in one
   step, Conn_Model does on the abstraction - same result kind, same events - and both buffers
   remain reachable Buffer states. *)
Theorem L1_conn_refines_over_buffers : forall c o, bufs_ok c -> cop_wf o = true ->
  match c_step c o with
  | Ok (c', e) => step (abs c) (abs_op c o) = Ok (abs c', e) /\ bufs_ok c'
  | Rejected => step (abs c) (abs_op c o) = Rejected
  | Fault => step (abs c) (abs_op c o) = Fault
  end.
Proof. exact c_step_refines. Qed.
Print Assumptions L1_conn_refines_over_buffers.

(* the relation of the design text, spelled out *)
Theorem L1_relation_def : forall a c, R a c <->
  (B.readable (obuf c) = outb a /\ B.readable (ibuf c) = inb a /\
   BP.reach (obuf c, ibuf c) (outb a, inb a) /\
   st a = st (ctl c) /\ writing a = writing (ctl c) /\ rd_chan a = rd_chan (ctl c) /\
   rd_flag a = rd_flag (ctl c) /\ registered a = registered (ctl c) /\ hwm a = hwm (ctl c) /\
   has_wc a = has_wc (ctl c) /\ has_hwm a = has_hwm (ctl c) /\ wire a = wire (ctl c) /\
   fin a = fin (ctl c) /\ pending a = pending (ctl c) /\ chk a = chk (ctl c) /\
   delayed a = delayed (ctl c) /\ accepted a = accepted (ctl c) /\ consumed a = consumed (ctl c) /\
   delivered a = delivered (ctl c) /\ enq a = enq (ctl c) /\ ran a = ran (ctl c) /\
   ups a = ups (ctl c) /\ downs a = downs (ctl c)).
Proof. exact R_spelled. Qed.
Print Assumptions L1_relation_def.

(* HEADLINE (simulation, abstract => concrete): every accepted Conn_Model step from a state
   related to a concrete state is performed by the concrete machine: every Buffer call it makes
   is accepted by C10's guards (the step is Ok, neither Rejected nor Fault), the events are the
   same and the relation is re-established.  Side condition [fits]: an EvReadData d must fit into
   what readFd offers to readv (length d <= readFd_capacity inputBuffer_); Conn_Model allows any
   d, i.e. over-approximates the environment there. *)
Theorem L1_conn_simulated_over_buffers : forall a c o a' e, R a c -> fits c o = true ->
  step a o = Ok (a', e) ->
  exists c', c_step c (conc_op o) = Ok (c', e) /\ R a' c'.
Proof. exact c_step_simulates. Qed.
Print Assumptions L1_conn_simulated_over_buffers.

Theorem L1_refines_R : forall a c o, R a c -> cop_wf o = true ->
  match c_step c o with
  | Ok (c', e) => exists a', step a (abs_op c o) = Ok (a', e) /\ R a' c'
  | Rejected => step a (abs_op c o) = Rejected
  | Fault => step a (abs_op c o) = Fault
  end.
Proof. exact c_step_refines_R. Qed.
Print Assumptions L1_refines_R.

(* whole histories *)
Theorem L1_run_refines : forall ops c, bufs_ok c -> forallb cop_wf ops = true ->
  match c_run c ops with
  | Ok (c', e) => run (abs c) (abs_ops c ops) = Ok (abs c', e) /\ bufs_ok c'
  | Rejected => run (abs c) (abs_ops c ops) = Rejected
  | Fault => run (abs c) (abs_ops c ops) = Fault
  end.
Proof. exact c_run_refines. Qed.
Print Assumptions L1_run_refines.

(* TcpConnection never violates a precondition of Buffer (and no assert of TcpConnection.cc
   fires): no history of the concrete connection faults.  By construction of c_step, Fault is
   the result of any Buffer call of sendInLoop / handleWrite / handleRead that C10 rejects
   (documented precondition) or faults (bounds / internal assert). *)
Theorem L1_no_buffer_precondition_violated : forall mark wc hw ops, forallb cop_wf ops = true ->
  c_run (c_init mark wc hw) ops <> Fault.
Proof. exact c_run_no_fault. Qed.
Print Assumptions L1_no_buffer_precondition_violated.

(* the two Buffer calls with a precondition / internal assertion, individually *)
Theorem L1_sendInLoop_append_accepted : forall c d k, bufs_ok c ->
  exists c', c_sendInLoop c d k = Ok (c', snd (sendInLoop (abs c) d k)) /\
             abs c' = fst (sendInLoop (abs c) d k) /\ bufs_ok c'.
Proof. exact c_sendInLoop_ok. Qed.
Print Assumptions L1_sendInLoop_append_accepted.

Theorem L1_handleWrite_retrieve_accepted : forall c k, bufs_ok c ->
  exists c', c_handleWrite c k = Ok (c', snd (handleWrite (abs c) k)) /\
             abs c' = fst (handleWrite (abs c) k) /\ bufs_ok c'.
Proof. exact c_handleWrite_ok. Qed.
Print Assumptions L1_handleWrite_retrieve_accepted.

(* THE TRANSFER PRINCIPLE: every theorem about the reachable states of Conn_Model is a theorem
   about the readable contents of the two Buffers of every reachable concrete state
   (outb (abs c) = B.readable (obuf c), inb (abs c) = B.readable (ibuf c): L1_abs_fields), and
   the buffers are reachable Buffer states, so every C10 theorem applies to them. *)
Theorem L1_transfer : forall P : conn -> Prop,
  (forall a, reach a -> P a) -> forall c, c_reach c -> P (abs c).
Proof. exact transfer. Qed.
Print Assumptions L1_transfer.

Theorem L1_abs_fields : forall c,
  outb (abs c) = B.readable (obuf c) /\ inb (abs c) = B.readable (ibuf c) /\
  wire (abs c) = wire (ctl c) /\ st (abs c) = st (ctl c) /\ writing (abs c) = writing (ctl c) /\
  consumed (abs c) = consumed (ctl c) /\ delivered (abs c) = delivered (ctl c) /\
  accepted (abs c) = accepted (ctl c) /\ pending (abs c) = pending (ctl c) /\ fin (abs c) = fin (ctl c).
Proof. exact abs_fields. Qed.
Print Assumptions L1_abs_fields.

Theorem L1_reachable_buffers : forall c, c_reach c ->
  exists lo li, BP.reach (obuf c, ibuf c) (lo, li).
Proof. exact c_reach_buffers. Qed.
Print Assumptions L1_reachable_buffers.

Theorem L1_run_reaches : forall ops c c' e, c_reach c -> forallb cop_wf ops = true ->
  c_run c ops = Ok (c', e) -> c_reach c'.
Proof. exact c_run_reach. Qed.
Print Assumptions L1_run_reaches.

(* instances.  C01_outbound_stream_trace on the real buffer: for every history, what the peer
   read followed by the readable bytes of outputBuffer_ is the in-order concatenation of the
   blocks of the history's sendInLoops *)
Theorem L1_outbound_stream_on_buffer : forall mark wc hw ops c e, forallb cop_wf ops = true ->
  c_run (c_init mark wc hw) ops = Ok (c, e) ->
  wire (ctl c) ++ B.readable (obuf c) =
  flat_map step_block (trace (init mark wc hw) (abs_ops (c_init mark wc hw) ops)).
Proof. exact c_outbound_stream. Qed.
Print Assumptions L1_outbound_stream_on_buffer.

(* C01_inbound_stream_trace on the real buffer: what the user retrieved followed by the readable
   bytes of inputBuffer_ is the concatenation, over the handleReads of the history, of what
   readFd delivered; one message callback per non-empty delivery *)
Theorem L1_inbound_stream_on_buffer : forall mark wc hw ops c e, forallb cop_wf ops = true ->
  c_run (c_init mark wc hw) ops = Ok (c, e) ->
  consumed (ctl c) ++ B.readable (ibuf c) = c_reads (c_init mark wc hw) ops /\
  length (filter is_msg e) = c_nreads (c_init mark wc hw) ops.
Proof. exact c_inbound_stream. Qed.
Print Assumptions L1_inbound_stream_on_buffer.

Theorem L1_c_reads_def : forall c ops,
  c_reads c ops = match ops with
                  | [] => []
                  | o :: rest =>
                      (match o with CRead k => B.delivered (B.readFd_capacity (ibuf c)) k | _ => [] end)
                      ++ match c_step c o with Ok (c', _) => c_reads c' rest | _ => [] end
                  end.
Proof. intros c [|o rest]; reflexivity. Qed.
Print Assumptions L1_c_reads_def.

(* one handleRead: readFd's extrabuf path.  Exactly min(available, capacity) bytes are appended to
   inputBuffer_, capacity = writable + sizeof extrabuf when writable < sizeof extrabuf (65536),
   = writable otherwise; the output buffer is untouched; the callback sees the whole input *)
Theorem L1_handleRead_delivers : forall c avail, bufs_ok c ->
  rd_chan (ctl c) && registered (ctl c) = true ->
  let cap := B.readFd_capacity (ibuf c) in
  let n := Nat.min (length avail) cap in
  cap = (if B.writableBytes (ibuf c) <? B.kExtraBuf
         then B.writableBytes (ibuf c) + B.kExtraBuf else B.writableBytes (ibuf c)) /\
  (0 < n ->
   exists c', c_step c (CRead (B.KData avail)) = Ok (c', [EvMsg (length (B.readable (ibuf c)) + n)]) /\
              B.readable (ibuf c') = B.readable (ibuf c) ++ firstn n avail /\
              B.readable (obuf c') = B.readable (obuf c) /\
              delivered (ctl c') = delivered (ctl c) ++ firstn n avail).
Proof. exact c_handleRead_delivers. Qed.
Print Assumptions L1_handleRead_delivers.

(* C01_write_interest_iff_backlog on the real buffer *)
Theorem L1_write_interest_iff_buffer_nonempty : forall c, c_reach c ->
  st (ctl c) = Connected \/ st (ctl c) = Disconnecting ->
  (writing (ctl c) = true <-> B.readableBytes (obuf c) <> 0).
Proof. exact c_write_interest. Qed.
Print Assumptions L1_write_interest_iff_buffer_nonempty.

(* the outb / inb fields of the control part are dead: they do not influence what the concrete
   machine does, and they stay empty *)
Theorem L1_dead_fields : forall a ob ib x y o, bufs_ok (mkCC a ob ib) -> cop_wf o = true ->
  match c_step (mkCC a ob ib) o, c_step (mkCC (with_bufs a x y) ob ib) o with
  | Ok (c1, e1), Ok (c2, e2) => abs c1 = abs c2 /\ e1 = e2
  | Rejected, Rejected => True
  | Fault, Fault => True
  | _, _ => False
  end.
Proof. exact c_step_dead_fields. Qed.
Print Assumptions L1_dead_fields.

Theorem L1_dead_fields_empty : forall c, c_reach c -> outb (ctl c) = [] /\ inb (ctl c) = [].
Proof. exact c_reach_blank. Qed.
Print Assumptions L1_dead_fields_empty.

(* ---- non-vacuity -------------------------------------------------------------------------- *)
Definition l1_a : byte := "a"%byte.

(* a history with a partial direct write, a queued remainder drained by handleWrite, a foreign
   send through the functor queue, reads, both retrieve forms and the end of file *)
Definition l1_ops : list cop :=
  [ COp Establish;
    COp (Send [l1_a; l1_a; l1_a] (Accept 1));
    COp (FSendCheck 7); COp (FSendEnq 7 [l1_a; l1_a]); COp (RunOne AcceptAll);
    COp (EvWritable (Accept 3)); COp (EvWritable AcceptAll);
    CRead (B.KData [l1_a; l1_a; l1_a; l1_a]); COp (Retrieve 1); CRead (B.KErr 11%Z);
    CRead (B.KData [l1_a]); CRetrieveAll;
    COp Shutdown; CRead (B.KData []) ].

Example l1_ex_run :
  match c_run (c_init 100 true true) l1_ops with
  | Ok (c, e) =>
      length (wire (ctl c)) = 5 /\ B.readable (obuf c) = [] /\ B.readable (ibuf c) = [] /\
      length (consumed (ctl c)) = 5 /\ st (ctl c) = Disconnected /\
      e = [EvUp; EvMsg 4; EvErrorLogged; EvMsg 4; EvFin; EvDown]
  | _ => False
  end.
Proof. vm_compute. repeat split; reflexivity. Qed.

Example l1_ex_run_ok :
  exists c e, c_run (c_init 100 true true) l1_ops = Ok (c, e) /\ forallb cop_wf l1_ops = true /\
              length (wire (ctl c)) = 5 /\ length (consumed (ctl c)) = 5 /\ st (ctl c) = Disconnected.
Proof.
  destruct (c_run (c_init 100 true true) l1_ops) as [[c e]| |] eqn:E; try (vm_compute in E; discriminate).
  exists c, e. split; [reflexivity|]. vm_compute in E. injection E as <- <-. vm_compute. auto.
Qed.

(* the extrabuf path: a fresh input buffer has 1024 writable bytes, so one handleRead of a
   descriptor holding 70000 bytes delivers 1024 + 65536 = 66560 of them *)
Example l1_ex_spill :
  match c_run (c_init 100 false false)
              [COp Establish; CRead (B.KData (repeat l1_a (Z.to_nat 70000)))] with
  | Ok (c, e) => (B.readableBytes (ibuf c) =? Z.to_nat 66560) && (length e =? 2)
  | _ => false
  end = true.
Proof. vm_compute. reflexivity. Qed.

(* the hypotheses of the simulation theorem are inhabited: the initial states are related *)
Example l1_ex_R : R (init 100 true true) (c_init 100 true true).
Proof. rewrite <- abs_c_init. apply R_abs. apply c_init_ok. Qed.

(* a user's retrieve beyond readableBytes() is rejected (the user's violation, not the library's) *)
Example l1_ex_user_violation :
  c_run (c_init 100 false false) [COp Establish; CRead (B.KData [l1_a]); COp (Retrieve 2)] = Rejected.
Proof. vm_compute. reflexivity. Qed.

