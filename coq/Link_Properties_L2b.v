(* Link_Properties_L2b: cross-model link L2b (the timer channel of C09's iteration is C06's TimerQueue; the combined blocks-iff and progress statements).  Only statements, closed by [exact], each followed by
   Print Assumptions, and non-vacuity examples (docs/Link.md, section L2).  Quoted (appended section
   "Cross-model links") by the Properties_Cxx.v files named in docs/Link.md.
   Module names: L = C04_Model, LP = C04_Proofs, P = C09_Model, PQ = C09_Proofs, PL = C09_ProofsPoll,
   PP = C09_ProofsLoop, T = C06_Model, TH = C06_Hist, W = C09_Witness. *)
From Coq Require Import List ZArith Lia Bool Arith NArith.
From Coq.Strings Require Import Byte.
From Muduo Require C09_Witness.
From Muduo Require Import Link_LoopTimer.
Import ListNotations.
Module W := Muduo.C09_Witness.

(* ---- L2b: the timer channel of C09's iteration is C06's TimerQueue -------------------------- *)
(* due tq := the timerfd is armed for an instant that has passed (the kernel's timerfd contract,
   as a definition); env_of w rd tq := the environment C09's poll sees: eventfd counter w, timerfd
   readable iff due tq, other descriptors rd *)
Theorem L2b_env_def : forall w rd tq,
  P.k_wake (env_of w rd tq) = w /\ P.k_rd (env_of w rd tq) = rd /\
  ((0 < P.k_texp (env_of w rd tq))%N <-> exists x, T.armed tq = Some x /\ (x <= T.clk tq)%Z).
Proof. intros w rd tq. split; [reflexivity|]. split; [reflexivity|]. apply env_of_texp. Qed.
Print Assumptions L2b_env_def.

(* HEADLINE: C09's last sentence and C06's last sentence as one statement.  In any combined state
   (poller reached by any history, the loop's two channels registered, functor queue p under the
   queue invariant, timer queue reached by any history): the next poll blocks IFF no functor
   wake-up is pending (counter 0), no armed instant of the timerfd has passed, and no other
   registered channel with interest is ready; then no functor is queued, and a registered timer
   means the timerfd is armed for a later instant no later than max(earliest deadline, last arming
   + 100 us floor); a registered timer whose deadline has passed keeps the poll from blocking. *)
Theorem L2_next_poll_blocks_iff : forall st sp wc tc wfd tfd w rd (p : list nat) tq,
  PQ.reachEC st sp -> PP.loop_channels sp wc tc wfd tfd -> (p <> [] -> (0 < w)%N) -> tq_reach tq ->
  let e := env_of w rd tq in
  (P.ep_full st (P.env_ready wfd tfd e) = [] <-> (w = 0%N /\ ~ due tq /\ PP.others_quiet sp wc tc e)) /\
  (P.ep_full st (P.env_ready wfd tfd e) = [] ->
     p = [] /\
     forall d a r, T.timers tq = (d, a) :: r ->
       exists x, T.armed tq = Some x /\ (T.clk tq < x <= Z.max d (T.arm_at tq + floor_val))%Z) /\
  (forall d a, In (d, a) (T.timers tq) -> (d <= T.clk tq)%Z -> (T.arm_at tq + floor_val <= T.clk tq)%Z ->
     P.ep_full st (P.env_ready wfd tfd e) <> []).
Proof. exact combined_blocks_iff. Qed.
Print Assumptions L2_next_poll_blocks_iff.

Theorem L2_next_poll_blocks_iff_poll : forall st sp wc tc wfd tfd w rd (p : list nat) tq choice,
  PL.reachPC st sp -> PP.loop_channels sp wc tc wfd tfd -> (p <> [] -> (0 < w)%N) -> tq_reach tq ->
  let e := env_of w rd tq in
  let blocks := P.pp_step_current st (P.Poll (P.env_ready wfd tfd e) choice) = P.Ok (st, []) in
  (blocks <-> (w = 0%N /\ ~ due tq /\ PP.others_quiet sp wc tc e)) /\
  (blocks ->
     p = [] /\
     forall d a r, T.timers tq = (d, a) :: r ->
       exists x, T.armed tq = Some x /\ (T.clk tq < x <= Z.max d (T.arm_at tq + floor_val))%Z) /\
  (forall d a, In (d, a) (T.timers tq) -> (d <= T.clk tq)%Z -> (T.arm_at tq + floor_val <= T.clk tq)%Z ->
     ~ blocks).
Proof. exact combined_blocks_iff_poll. Qed.
Print Assumptions L2_next_poll_blocks_iff_poll.

(* a poll that has something to return returns at least one channel: an iteration that does not
   block dispatches something, whatever else is registered *)
Theorem L2_unblocked_poll_returns_a_channel : forall st sp ready choice,
  PQ.reachEC st sp -> P.ep_full st ready <> [] ->
  exists st' act, P.ep_step_current st (P.Poll ready choice) = P.Ok (st', act) /\ act <> [].
Proof. exact poll_returns_something. Qed.
Print Assumptions L2_unblocked_poll_returns_a_channel.

(* HEADLINE (progress).  combined_iter = C09's whole iteration (epoll back-end of the current
   tree) in the environment env_of w rd tq, where the timer channel's read callback, if it ran, is
   C06's fire on tq.  If only the loop's own channels can be ready and the poll does not block,
   the iteration succeeds and makes progress: a callback runs (handleRead of the wake-up channel
   iff w > 0, TimerQueue::handleRead iff the timerfd is due); every functor queued at poll time
   runs, in order; the wake-up counter is consumed (a stale wake-up is not repeated); a due timerfd
   makes handleRead run the earliest timer, or - stale arming - re-arm for exactly
   max(earliest, now + floor); a timerfd that is not due leaves the timer queue untouched. *)
Theorem L2_unblocked_iteration_progress :
  forall h hq fb runs user qw wc tc wfd tfd st sp w rd p tq choice script,
  PQ.reachEC st sp -> PP.loop_channels sp wc tc wfd tfd ->
  PP.others_quiet sp wc tc (env_of w rd tq) ->
  runs wc = true -> runs tc = true -> (forall k, h wc k = []) -> (forall k, h tc k = []) ->
  tq_reach tq ->
  (forall log, (forall ck, In ck log -> ck = (wc, P.CbRead) \/ ck = (tc, P.CbRead)) ->
     P.functors_ok fb sp (p ++ flat_map (fun ck => hq (fst ck) (snd ck)) log)) ->
  (0 < w)%N \/ due tq ->
  exists st' e' p' tq' act log ran ev,
    combined_iter h hq fb runs user qw wc tc wfd tfd st w rd p tq choice script
      = Some (st', e', p', tq', (act, log, ran, ev)) /\
    PQ.reachEC st' (P.spec_run sp (P.functors_ops fb ran)) /\
    log <> [] /\
    (In (wc, P.CbRead) log <-> (0 < w)%N) /\ (In (tc, P.CbRead) log <-> due tq) /\
    ran = p ++ flat_map (fun ck => hq (fst ck) (snd ck)) log /\
    p' = P.functors_queued fb ran /\
    P.k_wake e' = ((if qw true false true
                    then N.of_nat (length (flat_map (fun ck => hq (fst ck) (snd ck)) log)) else 0)
                   + (if qw true true true then N.of_nat (length p') else 0))%N /\
    (due tq ->
       T.fire tq script = T.Ok (tq', ev) /\
       forall d a r x, T.timers tq = (d, a) :: r -> T.armed tq = Some x ->
         ((d <= T.clk tq)%Z /\
            exists o t, T.hget a (T.heap tq) = Some o /\ In (T.ERun (T.o_seq o) d (T.clk tq) t) ev) \/
         ((T.clk tq < d)%Z /\ (x < d)%Z /\ TH.rlog ev = [] /\ T.timers tq' = T.timers tq /\
            T.clk tq' = T.clk tq /\ T.armed tq' = Some (Z.max d (T.clk tq + floor_val)))) /\
    (~ due tq -> tq' = tq /\ ev = []).
Proof. exact combined_progress. Qed.
Print Assumptions L2_unblocked_iteration_progress.

Theorem L2b_combined_iter_def : forall h hq fb runs user qw wc tc wfd tfd st w rd p tq choice script,
  combined_iter h hq fb runs user qw wc tc wfd tfd st w rd p tq choice script =
  match P.loop_iter_full_env P.ep P.ep_step_current h hq fb runs (PP.effects_current wc tc user) qw wfd tfd
          st (env_of w rd tq) p choice with
  | P.Ok (st', e', p', (act, log, ran)) =>
      if timer_fired tc log then
        match T.fire tq script with
        | T.Ok (tq', ev) => Some (st', e', p', tq', (act, log, ran, ev))
        | _ => None
        end
      else Some (st', e', p', tq, (act, log, ran, []))
  | _ => None
  end.
Proof. reflexivity. Qed.
Print Assumptions L2b_combined_iter_def.

(* what C09 assumes of the timer callback's effect on the environment (unread expirations := 0)
   is what C06's handleRead does: readTimerfd consumes the expiration, and at the end of
   handleRead a registered timer means the timerfd is armed for a later instant *)
Theorem L2b_timer_read_agrees : forall tq script tq' ev,
  (due tq -> T.armed (T.consume tq) = None) /\
  (tq_reach tq -> T.fire tq script = T.Ok (tq', ev) -> T.timers tq' <> [] -> ~ due tq').
Proof. intros. split; [apply consume_clears|apply fire_leaves_not_due]. Qed.
Print Assumptions L2b_timer_read_agrees.

Theorem L2_timer_defs : forall tq tc log,
  (due tq <-> exists x, T.armed tq = Some x /\ (x <= T.clk tq)%Z) /\
  (tq_reach tq <-> exists c ops evs, T.run (T.init c) ops = T.Ok (tq, evs)) /\
  floor_val = Gen_C06.TimerQueue_floor_val /\
  (timer_fired tc log = true <-> In (tc, P.CbRead) log).
Proof.
  intros tq tc log. split; [reflexivity|]. split; [reflexivity|]. split; [reflexivity|apply timer_fired_in].
Qed.
Print Assumptions L2_timer_defs.

(* the timer side on its own (for Properties_C06): with a timer registered the loop cannot sleep
   past it - a blocked poll has the timerfd armed for a later instant no later than
   max(earliest deadline, last arming + floor), and a timer whose deadline has passed (the floor
   since the last arming too) keeps the poll from blocking *)
Theorem L2b_registered_timer_bounds_the_poll : forall st sp wc tc wfd tfd w rd (p : list nat) tq,
  PQ.reachEC st sp -> PP.loop_channels sp wc tc wfd tfd -> (p <> [] -> (0 < w)%N) -> tq_reach tq ->
  let blocks := P.ep_full st (P.env_ready wfd tfd (env_of w rd tq)) = [] in
  (blocks -> forall d a r, T.timers tq = (d, a) :: r ->
     exists x, T.armed tq = Some x /\ (T.clk tq < x <= Z.max d (T.arm_at tq + floor_val))%Z) /\
  (forall d a, In (d, a) (T.timers tq) -> (d <= T.clk tq)%Z -> (T.arm_at tq + floor_val <= T.clk tq)%Z ->
     ~ blocks).
Proof.
  intros st sp wc tc wfd tfd w rd p tq HR HL Hp Ht blocks.
  destruct (combined_blocks_iff st sp wc tc wfd tfd w rd p tq HR HL Hp Ht) as (_ & H2 & H3).
  split; [intros Hb; exact (proj2 (H2 Hb))|exact H3].
Qed.
Print Assumptions L2b_registered_timer_bounds_the_poll.


(* ---- non-vacuity --------------------------------------------------------------------------- *)

(* the loop's constructor state (timer channel 0 on fd 3, wake-up channel 1 on fd 4) *)
Lemma l2_ex_loop_state : exists st,
  PQ.reachEC st (P.spec_run P.spec0 W.w_loop_init) /\
  PP.loop_channels (P.spec_run P.spec0 W.w_loop_init) 1 0 4 3 /\
  forall e, PP.others_quiet (P.spec_run P.spec0 W.w_loop_init) 1 0 e.
Proof.
  destruct (PQ.run_reachEC W.w_loop_init P.ep_init P.spec0 PQ.reachEC_init W.w_loop_init_ok) as [st [outs [E R]]].
  exists st. split; [exact R|]. split.
  - split; [discriminate|]. split; exists false; vm_compute; reflexivity.
  - intros e c s H _ _ N1 N0. destruct c as [|[|c]]; [contradiction|contradiction|]. cbn in H. discriminate.
Qed.

(* a timer queue with one timer (deadline 5000, added at clock 1000): not due; after 5 ms: due *)
Definition l2_tq_ops : list T.op := [T.Cb (T.CAdd 5000 (-1) 16)].
Definition l2_tq_ops2 : list T.op := [T.Cb (T.CAdd 5000 (-1) 16); T.Cb (T.CTick 5000)].

Example l2_ex_blocked : exists st sp tq,
  PQ.reachEC st sp /\ PP.loop_channels sp 1 0 4 3 /\ tq_reach tq /\ T.timers tq <> [] /\
  P.ep_full st (P.env_ready 4 3 (env_of 0 (fun _ => 0%N) tq)) = [] /\
  exists x, T.armed tq = Some x /\ (T.clk tq < x)%Z.
Proof.
  destruct l2_ex_loop_state as (st & HR & HL & HQ).
  destruct (T.run (T.init 1000) l2_tq_ops) as [[tq evs]| |] eqn:E; try (vm_compute in E; discriminate).
  assert (Hreach : tq_reach tq) by (exists 1000%Z, l2_tq_ops, evs; exact E).
  vm_compute in E. injection E as <- _.
  exists st, (P.spec_run P.spec0 W.w_loop_init). eexists. split; [exact HR|]. split; [exact HL|].
  split; [exact Hreach|]. split; [discriminate|].
  split.
  - apply (combined_blocks_iff st _ 1 0 4 3 0%N (fun _ => 0%N) [] _ HR HL (fun H => False_ind _ (H eq_refl)) Hreach).
    split; [reflexivity|]. split; [|apply HQ]. intros (x & Hx & Hle). vm_compute in Hx. injection Hx as <-.
    vm_compute in Hle. apply Hle. reflexivity.
  - eexists. split; [vm_compute; reflexivity|]. vm_compute. reflexivity.
Qed.

Example l2_ex_due : exists tq, tq_reach tq /\ due tq /\ T.timers tq <> [].
Proof.
  destruct (T.run (T.init 1000) l2_tq_ops2) as [[tq evs]| |] eqn:E; try (vm_compute in E; discriminate).
  assert (Hreach : tq_reach tq) by (exists 1000%Z, l2_tq_ops2, evs; exact E).
  vm_compute in E. injection E as <- _. eexists. split; [exact Hreach|]. split.
  - eexists. split; [vm_compute; reflexivity|]. vm_compute. discriminate.
  - discriminate.
Qed.


(* ========================================================================================== *)
(* The two views of pendingFunctors_ and of the timer callbacks, connected                      *)
(* ========================================================================================== *)
(* In L2_unblocked_iteration_progress the C06 side (callback scripts [script], queue
   [T.pending tq]) and the C09 side (functor ids: queue p, [hq tc CbRead] = what the timer
   channel's read callback queued) are independent parameters.  Here they are tied together by
   three explicit hypotheses under a naming [fun_of] of C09's ids by C06's functors:
     T.pending tq = map fun_of p                                    (same queue at poll time)
     due tq -> fire tq script = Ok (tq', _) -> T.pending tq' = T.pending tq ++ map fun_of (hq tc CbRead)
                                                                     (same functors queued by the timer callbacks)
     hq wc CbRead = []                                               (EventLoop::handleRead queues nothing)
   Then the batch C09's doPendingFunctors runs is C06's queue after the expiry, in the same order;
   and (last clause) THE STALE WAKE-UP CASE: empty queue, timerfd not due, w > 0 - the iteration
   runs exactly handleRead of the wake-up channel, no functor, no timer, and leaves the counter 0. *)
Theorem L2_iteration_views_connected :
  forall h hq fb runs user qw wc tc wfd tfd st sp w rd p tq choice script (fun_of : nat -> T.pfun),
  PQ.reachEC st sp -> PP.loop_channels sp wc tc wfd tfd ->
  PP.others_quiet sp wc tc (env_of w rd tq) ->
  runs wc = true -> runs tc = true -> (forall k, h wc k = []) -> (forall k, h tc k = []) ->
  tq_reach tq ->
  (forall log, (forall ck, In ck log -> ck = (wc, P.CbRead) \/ ck = (tc, P.CbRead)) ->
     P.functors_ok fb sp (p ++ flat_map (fun ck => hq (fst ck) (snd ck)) log)) ->
  (0 < w)%N \/ due tq ->
  hq wc P.CbRead = [] ->
  T.pending tq = map fun_of p ->
  (due tq -> forall tq' ev, T.fire tq script = T.Ok (tq', ev) ->
     T.pending tq' = T.pending tq ++ map fun_of (hq tc P.CbRead)) ->
  exists st' e' p' tq' act log ran ev,
    combined_iter h hq fb runs user qw wc tc wfd tfd st w rd p tq choice script
      = Some (st', e', p', tq', (act, log, ran, ev)) /\
    PQ.reachEC st' (P.spec_run sp (P.functors_ops fb ran)) /\
    ran = p ++ (if dueb tq then hq tc P.CbRead else []) /\
    T.pending tq' = map fun_of ran /\
    p' = P.functors_queued fb ran /\
    P.k_wake e' = ((if qw true false true
                    then N.of_nat (length (if dueb tq then hq tc P.CbRead else [])) else 0)
                   + (if qw true true true then N.of_nat (length p') else 0))%N /\
    (p = [] -> ~ due tq ->
       log = [(wc, P.CbRead)] /\ ran = [] /\ p' = [] /\ P.k_wake e' = 0%N /\ tq' = tq /\ ev = []).
Proof. exact combined_progress_connected. Qed.
Print Assumptions L2_iteration_views_connected.

Theorem L2_dueb_def : forall tq,
  dueb tq = match T.armed tq with Some x => (x <=? T.clk tq)%Z | None => false end /\
  (dueb tq = true <-> due tq).
Proof. exact (fun tq => conj eq_refl (dueb_due tq)). Qed.
Print Assumptions L2_dueb_def.

(* non-vacuity 1: the connecting hypotheses are satisfied.  Loop constructor state (timer channel 0,
   wake-up channel 1); timer queue with one due timer whose callback queues a user functor
   (script [[CQueue []]]); C09 says the timer channel's read callback queues functor 7; 7 stands
   for that user functor.  Result: the batch is [7] on the C09 side and [PUser []] on the C06 side. *)
Definition l2c_hq : nat -> P.cb -> list nat := fun c k => match c, k with 0, P.CbRead => [7] | _, _ => [] end.
Definition l2c_fb : P.fnbody := fun i => ([], match i with 7 => [8] | _ => [] end).
Definition l2c_fun_of (i : nat) : T.pfun := T.PUser [].
Definition l2c_script : list (list T.cbop) := [[T.CQueue []]].
Definition l2c_st0 : P.ep :=
  match P.ep_run_current P.ep_init W.w_loop_init with P.Ok (st, _) => st | _ => P.ep_init end.

Lemma l2c_functors_ok : forall sp ids, P.functors_ok l2c_fb sp ids.
Proof. intros sp ids. revert sp. induction ids as [|i r IH]; intros sp; cbn; auto. Qed.

Lemma l2c_st0_reach : PQ.reachEC l2c_st0 (P.spec_run P.spec0 W.w_loop_init).
Proof.
  destruct (PQ.run_reachEC W.w_loop_init P.ep_init P.spec0 PQ.reachEC_init W.w_loop_init_ok) as [st [outs [E R]]].
  unfold l2c_st0. rewrite E. exact R.
Qed.

Example l2_ex_views_connected : exists tq st' e' p' tq' act log ev,
  tq_reach tq /\ due tq /\ T.pending tq = map l2c_fun_of [] /\ l2c_hq 1 P.CbRead = [] /\
  (forall tq1 ev1, T.fire tq l2c_script = T.Ok (tq1, ev1) ->
     T.pending tq1 = T.pending tq ++ map l2c_fun_of (l2c_hq 0 P.CbRead)) /\
  combined_iter (fun _ _ => []) l2c_hq l2c_fb W.all_run (fun _ _ e => e) P.queue_wakes 1 0 4 3
    l2c_st0 0 (fun _ => 0%N) [] tq [] l2c_script = Some (st', e', p', tq', (act, log, [7], ev)) /\
  T.pending tq' = [T.PUser []] /\ p' = [8] /\ P.k_wake e' = 1%N.
Proof.
  destruct l2_ex_loop_state as (_ & _ & HL & HQ).
  destruct (T.run (T.init 1000) l2_tq_ops2) as [[tq evs]| |] eqn:E; try (vm_compute in E; discriminate).
  assert (Hreach : tq_reach tq) by (exists 1000%Z, l2_tq_ops2, evs; exact E).
  vm_compute in E. injection E as <- _.
  match type of Hreach with tq_reach ?t => set (tq := t) in * end.
  assert (Hdue : due tq) by (eexists; split; [vm_compute; reflexivity|vm_compute; discriminate]).
  assert (Hscr : forall tq1 ev1, T.fire tq l2c_script = T.Ok (tq1, ev1) ->
                   T.pending tq1 = T.pending tq ++ map l2c_fun_of (l2c_hq 0 P.CbRead)).
  { intros tq1 ev1 H. vm_compute in H. injection H as <- _. reflexivity. }
  destruct (combined_progress_connected (fun _ _ => []) l2c_hq l2c_fb W.all_run (fun _ _ e => e) P.queue_wakes
              1 0 4 3 l2c_st0 _ 0%N (fun _ => 0%N) [] tq [] l2c_script l2c_fun_of
              l2c_st0_reach HL (HQ _) eq_refl eq_refl (fun _ => eq_refl) (fun _ => eq_refl) Hreach
              (fun log _ => l2c_functors_ok _ _) (or_intror Hdue) eq_refl eq_refl (fun _ => Hscr))
    as (st' & e' & p' & tq' & act & log & ran & ev & H1 & _ & Hran & Hpend & Hp' & Hkw & _).
  assert (Ed : dueb tq = true) by (apply dueb_due; exact Hdue).
  rewrite Ed in Hran, Hkw. cbn [app] in Hran. subst ran.
  exists tq, st', e', p', tq', act, log, ev.
  split; [exact Hreach|]. split; [exact Hdue|]. split; [reflexivity|]. split; [reflexivity|]. split; [exact Hscr|].
  split; [exact H1|]. split; [exact Hpend|]. split; [subst p'; reflexivity|]. subst p'. exact Hkw.
Qed.

(* non-vacuity 2, THE STALE WAKE-UP: the same loop state, wake-up counter 1, nothing queued, the
   timer not yet due: the iteration runs handleRead of the wake-up channel only, the counter is 0
   afterwards, no functor ran, the timer queue is untouched - and the next poll blocks *)
Example l2_ex_stale_wakeup : exists tq st' e' p' tq' act ev,
  tq_reach tq /\ ~ due tq /\
  combined_iter (fun _ _ => []) l2c_hq l2c_fb W.all_run (fun _ _ e => e) P.queue_wakes 1 0 4 3
    l2c_st0 1 (fun _ => 0%N) [] tq [] l2c_script = Some (st', e', p', tq', (act, [(1, P.CbRead)], [], ev)) /\
  p' = [] /\ P.k_wake e' = 0%N /\ tq' = tq /\ ev = [] /\
  P.ep_full st' (P.env_ready 4 3 (env_of (P.k_wake e') (fun _ => 0%N) tq')) = [].
Proof.
  destruct l2_ex_loop_state as (_ & _ & HL & HQ).
  destruct (T.run (T.init 1000) l2_tq_ops) as [[tq evs]| |] eqn:E; try (vm_compute in E; discriminate).
  assert (Hreach : tq_reach tq) by (exists 1000%Z, l2_tq_ops, evs; exact E).
  vm_compute in E. injection E as <- _.
  match type of Hreach with tq_reach ?t => set (tq := t) in * end.
  assert (Hnd : ~ due tq).
  { intros (x & Hx & Hle). vm_compute in Hx. injection Hx as <-. vm_compute in Hle. apply Hle. reflexivity. }
  destruct (combined_progress_connected (fun _ _ => []) l2c_hq l2c_fb W.all_run (fun _ _ e => e) P.queue_wakes
              1 0 4 3 l2c_st0 _ 1%N (fun _ => 0%N) [] tq [] l2c_script l2c_fun_of
              l2c_st0_reach HL (HQ _) eq_refl eq_refl (fun _ => eq_refl) (fun _ => eq_refl) Hreach
              (fun log _ => l2c_functors_ok _ _) (or_introl eq_refl) eq_refl eq_refl (fun Hd => False_ind _ (Hnd Hd)))
    as (st' & e' & p' & tq' & act & log & ran & ev & H1 & HRe & _ & _ & _ & _ & Hstale).
  destruct (Hstale eq_refl Hnd) as (-> & -> & -> & Hk & -> & ->).
  exists tq, st', e', [], tq, act, []. split; [exact Hreach|]. split; [exact Hnd|]. split; [exact H1|].
  split; [reflexivity|]. split; [exact Hk|]. split; [reflexivity|]. split; [reflexivity|].
  rewrite Hk. cbn [P.functors_ops flat_map P.spec_run fold_left] in HRe.
  apply (combined_blocks_iff st' (P.spec_run P.spec0 W.w_loop_init) 1 0 4 3 0%N (fun _ => 0%N) [] tq HRe HL
           (fun H => False_ind _ (H eq_refl)) Hreach).
  split; [reflexivity|]. split; [exact Hnd|apply HQ].
Qed.
