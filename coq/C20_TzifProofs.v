(* C20_TzifProofs: the TZif reader model (C20_TzifModel, = detail::readTimeZoneFile /
   readDataBlock) -- what every table it returns looks like, and that it reads back what an
   RFC 8536 writer wrote. *)
From Coq Require Import List ZArith Bool Arith Lia.
From Coq.Strings Require Import Byte.
From Muduo Require Import Base_Bytes C20_Model Gen_C20Tz C20_TzifModel C20_TzProofs.
Import ListNotations.
Local Open Scope Z_scope.

(* ---- shape of every table the reader returns ------------------------------------------------ *)

Definition idx_ok (tb : tzdata) : Prop := Forall (fun tr => (tidx tr < length (offs tb))%nat) (trans tb).

Lemma addTransitions_idx offs : forall ts is trs, addTransitions offs ts is = AddOk trs ->
  Forall (fun tr => (tidx tr < length offs)%nat) trs /\ map tutc trs = firstn (length trs) ts /\
  length trs = Nat.min (length ts) (length is).
Proof.
  induction ts as [|t ts IH]; intros is trs H.
  - cbn in H. injection H as <-. cbn. auto.
  - destruct is as [|i is]; [cbn in H; injection H as <-; cbn; auto|].
    cbn [addTransitions] in H.
    destruct (Nat.ltb_spec (Z.to_nat i) (length offs)) as [Hlt|Hge]; [|discriminate].
    destruct (fits_int64 (t + nth (Z.to_nat i) offs 0)); [|discriminate].
    destruct (addTransitions offs ts is) as [r| |] eqn:E; try discriminate.
    injection H as <-. destruct (IH _ _ E) as (F & M & L).
    split; [constructor; [exact Hlt|exact F]|]. cbn [map length firstn tutc Nat.min]. rewrite M, L. auto.
Qed.

Lemma readDataBlock_idx c v1 tb : readDataBlock c v1 = TzOk tb -> idx_ok tb.
Proof.
  unfold readDataBlock. intros H.
  repeat match type of H with
  | match ?x with _ => _ end = _ => destruct x eqn:?; try discriminate
  | (if ?x then _ else _) = _ => destruct x eqn:?; try discriminate
  | (let (_, _) := ?x in _) = _ => destruct x eqn:?
  end.
  injection H as <-. unfold idx_ok. cbn [trans offs].
  match goal with E : addTransitions _ _ _ = AddOk _ |- _ => exact (proj1 (addTransitions_idx _ _ _ _ E)) end.
Qed.

Lemma tzif_parse_idx file tb : tzif_parse file = TzOk tb -> idx_ok tb.
Proof.
  unfold tzif_parse. intros H.
  repeat match type of H with
  | readDataBlock _ _ = _ => fail 1
  | match ?x with _ => _ end = _ => destruct x eqn:?; try discriminate
  | (if ?x then _ else _) = _ => destruct x eqn:?; try discriminate
  | (let (_, _) := ?x in _) = _ => destruct x eqn:?
  end; eapply readDataBlock_idx; exact H.
Qed.

(* With valid indices, well-formedness is: at least one type, and the spacing condition on the
   instants (the part of [wf] that is about the zone's history, not about the file format). *)
Fixpoint wf_gaps (tb : tzdata) (o0 : Z) (l : list transition) : bool :=
  match l with
  | [] => true
  | a :: rest =>
    match rest with
    | [] => true
    | b :: _ =>
      let o1 := off_of tb (tidx a) in
      let o2 := off_of tb (tidx b) in
      (tutc a <? tutc b) && (tutc a + o1 <=? tutc b + o2) &&
      (tutc a + o0 <=? tutc b + o1) && (tutc a + o0 <=? tutc b + o2)
    end && wf_gaps tb (off_of tb (tidx a)) rest
  end.

Lemma wf_from_gaps tb : forall l o0, Forall (fun tr => (tidx tr < length (offs tb))%nat) l ->
  wf_from tb o0 l = wf_gaps tb o0 l.
Proof.
  induction l as [|a r IH]; intros o0 F; [reflexivity|].
  inversion F as [|? ? Ha Fr]; subst. cbn [wf_from wf_gaps].
  apply Nat.ltb_lt in Ha. rewrite Ha, (IH _ Fr). reflexivity.
Qed.

Lemma tzif_parse_wf file tb : tzif_parse file = TzOk tb ->
  wf tb = (0 <? length (offs tb))%nat && wf_gaps tb (off_of tb 0) (trans tb).
Proof. intros H. unfold wf. rewrite wf_from_gaps by exact (tzif_parse_idx _ _ H). reflexivity. Qed.

(* ---- reading back what a writer wrote --------------------------------------------------------- *)

Lemma take_n_app a r : take_n (length a) (a ++ r) = Some (a, r).
Proof. induction a as [|b a IH]; [reflexivity|]. cbn [length take_n app]. rewrite IH. reflexivity. Qed.

Lemma readBytes_app p a r : readBytes (length a) (mkCur p (a ++ r)) = Some (a, mkCur (p + length a) r).
Proof. unfold readBytes. cbn [crest cpos]. rewrite take_n_app. reflexivity. Qed.

Lemma readBytes_n n p a r : length a = n -> readBytes n (mkCur p (a ++ r)) = Some (a, mkCur (p + n) r).
Proof. intros <-. apply readBytes_app. Qed.

Lemma readInt32_enc p x r : signed_range 4 x ->
  readInt32 (mkCur p (be32 x ++ r)) = Some (x, mkCur (p + 4) r).
Proof.
  intros Hx. unfold readInt32, be32. rewrite (readBytes_n 4) by apply be_encode_length.
  rewrite be_signed_roundtrip by (lia || exact Hx). reflexivity.
Qed.

Lemma readInt64_enc p x r : signed_range 8 x ->
  readInt64 (mkCur p (be_encode 8 x ++ r)) = Some (x, mkCur (p + 8) r).
Proof.
  intros Hx. unfold readInt64. rewrite (readBytes_n 8) by apply be_encode_length.
  rewrite be_signed_roundtrip by (lia || exact Hx). reflexivity.
Qed.

Lemma readUInt8_enc p b r : readUInt8 (mkCur p (b :: r)) = Some (Z_of_byte b, mkCur (p + 1) r).
Proof. reflexivity. Qed.

(* n items, each written by [enc] as k bytes and read back by [rd1] *)
Lemma readMany_enc {A} (rd1 : cur -> option (A * cur)) (enc : A -> list byte) (k : nat) (P : A -> Prop) :
  (forall x p r, P x -> rd1 (mkCur p (enc x ++ r)) = Some (x, mkCur (p + k) r)) ->
  forall xs p r, Forall P xs ->
    readMany rd1 (length xs) (mkCur p (concat (map enc xs) ++ r)) = Some (xs, mkCur (p + k * length xs) r).
Proof.
  intros Hrd. induction xs as [|x xs IH]; intros p r F.
  - cbn. rewrite Nat.mul_0_r, Nat.add_0_r. reflexivity.
  - inversion F as [|? ? Hx Fx]; subst. cbn [length readMany map concat]. rewrite <- app_assoc.
    rewrite (Hrd x p _ Hx). rewrite (IH _ r Fx).
    f_equal. f_equal. f_equal. lia.
Qed.

Lemma sr4_nat n : Z.of_nat n < 2 ^ 31 -> signed_range 4 (Z.of_nat n).
Proof. intros H. unfold signed_range. change (256 ^ Z.of_nat 4 / 2) with (2 ^ 31). lia. Qed.

Lemma sr4_0 : signed_range 4 0.
Proof. apply (sr4_nat 0). reflexivity. Qed.

(* the conditions under which [encode_block w] is a faithful RFC 8536 block of the table *)
Definition encodable (w : nat) (tb : tzdata) (abbr isstd isut : list byte) : Prop :=
  Forall (fun tr => signed_range w (tutc tr) /\ (tidx tr < length (offs tb))%nat /\ (tidx tr < 256)%nat /\
                    signed_range 8 (tutc tr + off_of tb (tidx tr))) (trans tb) /\
  Forall (signed_range 4) (offs tb) /\
  Z.of_nat (length (trans tb)) < 2 ^ 31 /\ Z.of_nat (length (offs tb)) < 2 ^ 31 /\ 0 < Z.of_nat (length abbr) < 2 ^ 31 /\
  (length isstd = 0%nat \/ length isstd = length (offs tb)) /\
  (length isut = 0%nat \/ length isut = length (offs tb)).

Lemma readCounts_enc p a b c d e f r :
  signed_range 4 a -> signed_range 4 b -> signed_range 4 c -> signed_range 4 d -> signed_range 4 e -> signed_range 4 f ->
  readCounts (mkCur p (be32 a ++ be32 b ++ be32 c ++ be32 d ++ be32 e ++ be32 f ++ r)) =
  Some ([a; b; c; d; e; f], mkCur (p + 4 + 4 + 4 + 4 + 4 + 4) r).
Proof.
  intros Ha Hb Hc Hd He Hf. unfold readCounts. cbn [readMany].
  rewrite (readInt32_enc _ a) by exact Ha. rewrite (readInt32_enc _ b) by exact Hb.
  rewrite (readInt32_enc _ c) by exact Hc. rewrite (readInt32_enc _ d) by exact Hd.
  rewrite (readInt32_enc _ e) by exact He. rewrite (readInt32_enc _ f) by exact Hf. reflexivity.
Qed.

Lemma readType_enc_g p o d i r : signed_range 4 o ->
  readType (mkCur p ((be32 o ++ [d; i]) ++ r)) = Some (o, mkCur (p + 6) r).
Proof.
  intros Ho. unfold readType. rewrite <- app_assoc. rewrite readInt32_enc by exact Ho.
  cbn [app]. rewrite !readUInt8_enc. f_equal. f_equal. f_equal. lia.
Qed.

Lemma readType_enc p o r : signed_range 4 o ->
  readType (mkCur p ((be32 o ++ [x00; x00]) ++ r)) = Some (o, mkCur (p + 6) r).
Proof. apply readType_enc_g. Qed.

(* the ttinfo loop on what the general writer wrote: the offsets come back, whatever the isdst /
   abbreviation-index bytes are *)
Lemma readTypes_enc : forall (os : list Z) (tts : list (byte * byte)) p r,
  length tts = length os -> Forall (signed_range 4) os ->
  readMany readType (length os) (mkCur p (concat (map ttinfo_bytes (combine os tts)) ++ r)) =
  Some (os, mkCur (p + 6 * length os) r).
Proof.
  induction os as [|o os IH]; intros tts p r Hl F.
  - cbn. rewrite Nat.add_0_r. reflexivity.
  - destruct tts as [|[d i] tts]; [discriminate|]. injection Hl as Hl.
    inversion F as [|? ? Ho Fo]; subst.
    cbn [length readMany combine map concat]. unfold ttinfo_bytes at 1. cbn [fst snd].
    rewrite <- app_assoc. rewrite (readType_enc_g p o d i _ Ho). rewrite (IH tts _ r Hl Fo).
    f_equal. f_equal. f_equal. lia.
Qed.

Lemma ttinfo_zero : forall (os : list Z),
  concat (map (fun o => be32 o ++ [x00; x00]) os) =
  concat (map ttinfo_bytes (combine os (repeat (x00, x00) (length os)))).
Proof.
  induction os as [|o os IH]; [reflexivity|].
  cbn [length repeat combine map concat]. rewrite IH. reflexivity.
Qed.

(* the writer with isdst = 0 and abbreviation index 0 everywhere is a special case *)
Lemma encode_block_zero w tb abbr isstd isut :
  encode_block w tb abbr isstd isut = encode_block_g w tb (tts_zero tb) abbr isstd isut.
Proof. unfold encode_block, encode_block_g, tts_zero. rewrite ttinfo_zero. reflexivity. Qed.

Lemma encode_v1_zero version tb abbr isstd isut tail :
  encode_v1 version tb abbr isstd isut tail = encode_v1_g version tb (tts_zero tb) abbr isstd isut tail.
Proof. unfold encode_v1, encode_v1_g. rewrite encode_block_zero. reflexivity. Qed.

Lemma encode_v2_zero tb1 abbr1 isstd1 isut1 tb abbr isstd isut footer :
  encode_v2 tb1 abbr1 isstd1 isut1 tb abbr isstd isut footer =
  encode_v2_g tb1 (tts_zero tb1) abbr1 isstd1 isut1 tb (tts_zero tb) abbr isstd isut footer.
Proof. unfold encode_v2, encode_v2_g. rewrite !encode_block_zero. reflexivity. Qed.

Lemma tts_zero_length tb : length (tts_zero tb) = length (offs tb).
Proof. apply repeat_length. Qed.

Lemma addTransitions_enc offs : forall trs,
  Forall (fun tr => (tidx tr < length offs)%nat /\ signed_range 8 (tutc tr + nth (tidx tr) offs 0)) trs ->
  addTransitions offs (map tutc trs) (map (fun tr => Z.of_nat (tidx tr)) trs) = AddOk trs.
Proof.
  induction trs as [|[u i] trs IH]; intros F; [reflexivity|].
  inversion F as [|? ? [Hi Hs] Fr]; subst. cbn [map addTransitions tutc tidx] in *.
  rewrite Nat2Z.id. apply Nat.ltb_lt in Hi. rewrite Hi, (IH Fr).
  assert (Hf : fits_int64 (u + nth i offs 0) = true).
  { unfold fits_int64. unfold signed_range in Hs. change (256 ^ Z.of_nat 8 / 2) with 9223372036854775808 in Hs.
    rewrite andb_true_iff, !Z.leb_le. lia. }
  rewrite Hf. reflexivity.
Qed.

Lemma Forall_and_l {A} (P Q : A -> Prop) l : Forall (fun x => P x /\ Q x) l -> Forall P l.
Proof. intros H. eapply Forall_impl; [|exact H]. cbv beta. tauto. Qed.

Lemma readIdx_enc : forall (trs : list transition) p r,
  Forall (fun tr => (tidx tr < 256)%nat) trs ->
  readMany readUInt8 (length trs) (mkCur p (map (fun tr => byte_of_Z (Z.of_nat (tidx tr))) trs ++ r)) =
  Some (map (fun tr => Z.of_nat (tidx tr)) trs, mkCur (p + length trs) r).
Proof.
  induction trs as [|t trs IH]; intros p r F.
  - cbn. rewrite Nat.add_0_r. reflexivity.
  - inversion F as [|? ? Ht Fr]; subst. cbn [length readMany map app].
    rewrite readUInt8_enc, (IH _ _ Fr). rewrite Z_of_byte_of_Z by lia.
    f_equal. f_equal. f_equal. lia.
Qed.

Lemma readDataBlock_enc_g w v1 tb tts abbr isstd isut tail p :
  (w = 4%nat /\ v1 = true) \/ (w = 8%nat /\ v1 = false) ->
  encodable w tb abbr isstd isut -> length tts = length (offs tb) ->
  readDataBlock (mkCur p (encode_block_g w tb tts abbr isstd isut ++ tail)) v1 = TzOk tb.
Proof.
  intros Hw (Ftr & Foff & Hnt & Hno & Hna & Hstd & Hut) Htts.
  assert (Hsn : signed_range 4 (Z.of_nat (length isstd))) by (apply sr4_nat; destruct Hstd as [->| ->]; [reflexivity|exact Hno]).
  assert (Hun : signed_range 4 (Z.of_nat (length isut))) by (apply sr4_nat; destruct Hut as [->| ->]; [reflexivity|exact Hno]).
  unfold readDataBlock, encode_block_g. rewrite <- !app_assoc.
  rewrite readCounts_enc by (auto using sr4_nat, sr4_0; apply sr4_nat; lia).
  (* the facts generated from readDataBlock: which count is tested / bounds which loop *)
  unfold readDataBlock_reject, readDataBlock_reserve_times, readDataBlock_ntimes, readDataBlock_reserve_idx,
    readDataBlock_nidx, readDataBlock_reserve_types, readDataBlock_ntypes, readDataBlock_nadd, readDataBlock_nchars.
  cbn [Z.eqb negb orb].
  assert (E1 : negb (Z.of_nat (length isut) =? 0) && negb (Z.of_nat (length isut) =? Z.of_nat (length (offs tb))) = false).
  { destruct Hut as [->| ->]; [reflexivity|]. rewrite Z.eqb_refl. cbn. apply andb_false_r. }
  assert (E2 : negb (Z.of_nat (length isstd) =? 0) && negb (Z.of_nat (length isstd) =? Z.of_nat (length (offs tb))) = false).
  { destruct Hstd as [->| ->]; [reflexivity|]. rewrite Z.eqb_refl. cbn. apply andb_false_r. }
  rewrite E1, E2. cbn [orb].
  destruct (Z.ltb_spec (Z.of_nat (length (trans tb))) 0) as [Hneg|_]; [lia|].
  destruct (Z.ltb_spec (Z.of_nat (length (offs tb))) 0) as [Hneg|_]; [lia|].
  destruct (Z.leb_spec (Z.of_nat (length abbr)) 0) as [Hneg|_]; [lia|].
  rewrite !Nat2Z.id.
  assert (Hts : exists c2, readMany (if v1 then readInt32 else readInt64) (length (trans tb))
             (mkCur (p + 4 + 4 + 4 + 4 + 4 + 4)
                (concat (map (fun tr => be_encode w (tutc tr)) (trans tb)) ++
                 map (fun tr => byte_of_Z (Z.of_nat (tidx tr))) (trans tb) ++
                 concat (map ttinfo_bytes (combine (offs tb) tts)) ++ abbr ++ isstd ++ isut ++ tail)) =
             Some (map tutc (trans tb), mkCur c2
                (map (fun tr => byte_of_Z (Z.of_nat (tidx tr))) (trans tb) ++
                 concat (map ttinfo_bytes (combine (offs tb) tts)) ++ abbr ++ isstd ++ isut ++ tail))).
  { rewrite <- (map_length tutc (trans tb)).
    rewrite <- (map_map tutc (fun u => be_encode w u)).
    assert (F : Forall (signed_range w) (map tutc (trans tb))).
    { apply Forall_forall. intros u Hu. apply in_map_iff in Hu. destruct Hu as (tr & <- & Hin).
      rewrite Forall_forall in Ftr. exact (proj1 (Ftr tr Hin)). }
    destruct Hw as [[-> ->]|[-> ->]]; eexists.
    - apply (readMany_enc readInt32 (fun u => be_encode 4 u) 4 (signed_range 4)); [|exact F].
      intros x p0 r0 Hx. apply readInt32_enc. exact Hx.
    - apply (readMany_enc readInt64 (fun u => be_encode 8 u) 8 (signed_range 8)); [|exact F].
      intros x p0 r0 Hx. apply readInt64_enc. exact Hx. }
  destruct Hts as (c2 & ->).
  rewrite readIdx_enc.
  2:{ eapply Forall_impl; [|exact Ftr]. cbv beta. tauto. }
  rewrite (readTypes_enc _ _ _ _ Htts Foff).
  rewrite <- (map_length tutc (trans tb)) at 1. rewrite firstn_all.
  rewrite <- (map_length (fun tr => Z.of_nat (tidx tr)) (trans tb)). rewrite firstn_all.
  rewrite addTransitions_enc.
  2:{ eapply Forall_impl; [|exact Ftr]. cbv beta. tauto. }
  rewrite readBytes_app. destruct tb; reflexivity.
Qed.

Lemma readDataBlock_enc w v1 tb abbr isstd isut tail p :
  (w = 4%nat /\ v1 = true) \/ (w = 8%nat /\ v1 = false) ->
  encodable w tb abbr isstd isut ->
  readDataBlock (mkCur p (encode_block w tb abbr isstd isut ++ tail)) v1 = TzOk tb.
Proof.
  intros Hw Henc. rewrite encode_block_zero. apply readDataBlock_enc_g; [exact Hw|exact Henc|apply tts_zero_length].
Qed.

Lemma header_length v : length (header v) = 20%nat.
Proof. reflexivity. Qed.

Lemma bytes_eqb_refl a : bytes_eqb a a = true.
Proof.
  induction a as [|b a IH]; [reflexivity|]. cbn [bytes_eqb]. rewrite IH.
  assert (E : Byte.eqb b b = true) by (apply Byte.byte_dec_lb; reflexivity). rewrite E. reflexivity.
Qed.

(* the counts of a block, as the reader of the FIRST header sees them *)
Lemma encode_block_counts_g w tb tts abbr isstd isut : length tts = length (offs tb) ->
  exists body, encode_block_g w tb tts abbr isstd isut =
    be32 (Z.of_nat (length isut)) ++ be32 (Z.of_nat (length isstd)) ++ be32 0 ++
    be32 (Z.of_nat (length (trans tb))) ++ be32 (Z.of_nat (length (offs tb))) ++ be32 (Z.of_nat (length abbr)) ++ body /\
    length body = (w * length (trans tb) + length (trans tb) + 6 * length (offs tb) + length abbr + length isstd + length isut)%nat.
Proof.
  intros Htts. eexists. split; [unfold encode_block_g; reflexivity|].
  rewrite !app_length, map_length.
  assert (L1 : forall (l : list transition), length (concat (map (fun tr => be_encode w (tutc tr)) l)) = (w * length l)%nat).
  { induction l as [|a l IH]; [cbn; lia|]. cbn [map concat length]. rewrite app_length, be_encode_length, IH. lia. }
  assert (L2 : forall (l : list Z) (t : list (byte * byte)), length t = length l ->
            length (concat (map ttinfo_bytes (combine l t))) = (6 * length l)%nat).
  { induction l as [|a l IH]; intros t Ht; [reflexivity|]. destruct t as [|x t]; [discriminate|]. injection Ht as Ht.
    cbn [combine map concat length]. unfold ttinfo_bytes at 1. rewrite !app_length, (IH _ Ht). unfold be32. rewrite be_encode_length. cbn [length]. lia. }
  rewrite L1, (L2 _ _ Htts). lia.
Qed.

Lemma encode_block_counts w tb abbr isstd isut :
  exists body, encode_block w tb abbr isstd isut =
    be32 (Z.of_nat (length isut)) ++ be32 (Z.of_nat (length isstd)) ++ be32 0 ++
    be32 (Z.of_nat (length (trans tb))) ++ be32 (Z.of_nat (length (offs tb))) ++ be32 (Z.of_nat (length abbr)) ++ body /\
    length body = (w * length (trans tb) + length (trans tb) + 6 * length (offs tb) + length abbr + length isstd + length isut)%nat.
Proof. rewrite encode_block_zero. apply encode_block_counts_g, tts_zero_length. Qed.

(* the literals and constants generated from readTimeZoneFile, as the writer's side spells them
   (fails, closing the proof, when the source says something else) *)
Ltac tz_consts :=
  change (Z.to_nat readTimeZoneFile_head_len) with 4%nat;
  change (chars readTimeZoneFile_magic) with magic;
  change (Z.to_nat readTimeZoneFile_version_len) with 1%nat;
  change (Z.to_nat readTimeZoneFile_reserved_len) with 15%nat;
  change (chars readTimeZoneFile_v2) with [x32];
  change (Z.to_nat readTimeZoneFile_head2_len) with 4%nat;
  change (chars readTimeZoneFile_magic2) with magic;
  change readTimeZoneFile_skip2 with 16;
  change readTimeZoneFile_v2_block_v1 with false;
  change readTimeZoneFile_rewind with (-24);
  change readTimeZoneFile_v1_block_v1 with true;
  unfold readTimeZoneFile_skip, readTimeZoneFile_skip_fits.

(* a version-1 file, and any file whose version byte is not '2' (muduo reads its 32-bit data) *)
Lemma parse_encode_v1_g version tb tts abbr isstd isut tail :
  version <> x32 -> encodable 4 tb abbr isstd isut -> length tts = length (offs tb) ->
  tzif_parse (encode_v1_g version tb tts abbr isstd isut tail) = TzOk tb.
Proof.
  intros Hv Henc Htts. pose proof Henc as (Ftr & Foff & Hnt & Hno & Hna & Hstd & Hut).
  assert (Hsn : signed_range 4 (Z.of_nat (length isstd))) by (apply sr4_nat; destruct Hstd as [->| ->]; [reflexivity|exact Hno]).
  assert (Hun : signed_range 4 (Z.of_nat (length isut))) by (apply sr4_nat; destruct Hut as [->| ->]; [reflexivity|exact Hno]).
  destruct (encode_block_counts_g 4 tb tts abbr isstd isut Htts) as (body & Eb & _).
  unfold tzif_parse, encode_v1_g. tz_consts.
  set (file := header version ++ encode_block_g 4 tb tts abbr isstd isut ++ tail).
  assert (Hf : file = magic ++ [version] ++ repeat x00 15 ++ encode_block_g 4 tb tts abbr isstd isut ++ tail).
  { unfold file, header. rewrite <- !app_assoc. reflexivity. }
  rewrite Hf at 1.
  rewrite (readBytes_n 4 0 magic) by reflexivity. rewrite bytes_eqb_refl. cbn [negb].
  rewrite (readBytes_n 1 _ [version]) by reflexivity.
  rewrite (readBytes_n 15 _ (repeat x00 15)) by reflexivity.
  rewrite Eb. rewrite <- !app_assoc.
  rewrite readCounts_enc by (auto using sr4_nat, sr4_0; apply sr4_nat; lia).
  assert (Ev : bytes_eqb [version] [x32] = false).
  { cbn [bytes_eqb]. rewrite andb_true_r. destruct (Byte.eqb version x32) eqn:E; [|reflexivity].
    apply Byte.byte_dec_bl in E. contradiction. }
  rewrite Ev.
  assert (Hsk : skip file (-24) (mkCur (0 + 4 + 1 + 15 + 4 + 4 + 4 + 4 + 4 + 4)
                   (body ++ tail)) = mkCur 20 (encode_block_g 4 tb tts abbr isstd isut ++ tail)).
  { unfold skip. cbn [cpos]. change (Z.of_nat (0 + 4 + 1 + 15 + 4 + 4 + 4 + 4 + 4 + 4) + -24) with 20.
    destruct (Z.ltb_spec 20 0) as [H|_]; [lia|].
    assert (Hl : 20 <= Z.of_nat (length file)).
    { unfold file. rewrite app_length, header_length. lia. }
    rewrite Z.min_l by exact Hl. change (Z.to_nat 20) with 20%nat. reflexivity. }
  rewrite Hsk. apply readDataBlock_enc_g; [left; auto|exact Henc|exact Htts].
Qed.

Lemma parse_encode_v1 version tb abbr isstd isut tail :
  version <> x32 -> encodable 4 tb abbr isstd isut ->
  tzif_parse (encode_v1 version tb abbr isstd isut tail) = TzOk tb.
Proof.
  intros Hv Henc. rewrite encode_v1_zero. apply parse_encode_v1_g; [exact Hv|exact Henc|apply tts_zero_length].
Qed.

(* a version-2 file: whatever well-formed 32-bit block comes first, the 64-bit table is read
   (`6 * typecnt` of the first header is computed in int by the C++) *)
Lemma parse_encode_v2_g tb1 tts1 abbr1 isstd1 isut1 tb tts abbr isstd isut footer :
  encodable 4 tb1 abbr1 isstd1 isut1 -> length tts1 = length (offs tb1) -> 6 * Z.of_nat (length (offs tb1)) < 2 ^ 31 ->
  encodable 8 tb abbr isstd isut -> length tts = length (offs tb) ->
  tzif_parse (encode_v2_g tb1 tts1 abbr1 isstd1 isut1 tb tts abbr isstd isut footer) = TzOk tb.
Proof.
  intros Henc1 Htts1 Hty6 Henc Htts. pose proof Henc1 as (Ftr & Foff & Hnt & Hno & Hna & Hstd & Hut).
  assert (Hsn : signed_range 4 (Z.of_nat (length isstd1))) by (apply sr4_nat; destruct Hstd as [->| ->]; [reflexivity|exact Hno]).
  assert (Hun : signed_range 4 (Z.of_nat (length isut1))) by (apply sr4_nat; destruct Hut as [->| ->]; [reflexivity|exact Hno]).
  destruct (encode_block_counts_g 4 tb1 tts1 abbr1 isstd1 isut1 Htts1) as (body & Eb & Lb).
  unfold tzif_parse, encode_v2_g. tz_consts.
  set (rest2 := header x32 ++ encode_block_g 8 tb tts abbr isstd isut ++ footer).
  set (file := header x32 ++ encode_block_g 4 tb1 tts1 abbr1 isstd1 isut1 ++ rest2).
  assert (Hf : file = magic ++ [x32] ++ repeat x00 15 ++ encode_block_g 4 tb1 tts1 abbr1 isstd1 isut1 ++ rest2).
  { unfold file, header. rewrite <- !app_assoc. reflexivity. }
  rewrite Hf at 1.
  rewrite (readBytes_n 4 0 magic) by reflexivity. rewrite bytes_eqb_refl. cbn [negb].
  rewrite (readBytes_n 1 _ [x32]) by reflexivity.
  rewrite (readBytes_n 15 _ (repeat x00 15)) by reflexivity.
  rewrite Eb. rewrite <- !app_assoc.
  rewrite readCounts_enc by (auto using sr4_nat, sr4_0; apply sr4_nat; lia).
  rewrite bytes_eqb_refl.
  set (nt := Z.of_nat (length (trans tb1))) in *. set (no := Z.of_nat (length (offs tb1))) in *.
  assert (Hfit : fits_int (6 * no) && fits_int (8 * 0) = true).
  { unfold fits_int. rewrite !andb_true_iff, !Z.leb_le. unfold no in *. lia. }
  rewrite Hfit. cbn [negb].
  set (sk := 4 * nt + nt + 6 * no + Z.of_nat (length abbr1) + 8 * 0 + Z.of_nat (length isstd1) + Z.of_nat (length isut1)).
  assert (Hskv : sk = Z.of_nat (length body)) by (rewrite Lb; unfold sk, nt, no; lia).
  assert (Hlen : length file = (44 + length body + length rest2)%nat).
  { rewrite Hf, Eb. rewrite !app_length. unfold be32. rewrite !be_encode_length, repeat_length. change (length magic) with 4%nat. cbn [length]. lia. }
  assert (Hsk : skip file sk (mkCur (0 + 4 + 1 + 15 + 4 + 4 + 4 + 4 + 4 + 4) (body ++ rest2)) =
                mkCur (44 + length body) rest2).
  { unfold skip. cbn [cpos]. rewrite Hskv.
    destruct (Z.ltb_spec (Z.of_nat (0 + 4 + 1 + 15 + 4 + 4 + 4 + 4 + 4 + 4) + Z.of_nat (length body)) 0) as [H|_]; [lia|].
    rewrite Z.min_l by (rewrite Hlen; lia).
    replace (Z.to_nat (Z.of_nat (0 + 4 + 1 + 15 + 4 + 4 + 4 + 4 + 4 + 4) + Z.of_nat (length body))) with (44 + length body)%nat by lia.
    f_equal.
    assert (Hf2 : file = (magic ++ [x32] ++ repeat x00 15 ++
                          be32 (Z.of_nat (length isut1)) ++ be32 (Z.of_nat (length isstd1)) ++ be32 0 ++
                          be32 nt ++ be32 no ++ be32 (Z.of_nat (length abbr1)) ++ body) ++ rest2).
    { rewrite Hf, Eb. rewrite <- !app_assoc. reflexivity. }
    rewrite Hf2.
    match goal with |- skipn ?n (?a ++ _) = _ => replace n with (length a) end; [apply skipn_app_exact|].
    rewrite !app_length. unfold be32. rewrite !be_encode_length, repeat_length. change (length magic) with 4%nat. cbn [length]. lia. }
  rewrite Hsk.
  unfold rest2 at 1. unfold header. rewrite <- !app_assoc.
  rewrite (readBytes_n 4 _ magic) by reflexivity. rewrite bytes_eqb_refl. cbn [negb].
  set (blk := encode_block_g 8 tb tts abbr isstd isut ++ footer).
  assert (Hsk2 : exists p2, skip file 16 (mkCur (44 + length body + 4) ([x32] ++ repeat x00 15 ++ blk)) = mkCur p2 blk).
  { unfold skip. cbn [cpos].
    destruct (Z.ltb_spec (Z.of_nat (44 + length body + 4) + 16) 0) as [H|_]; [lia|].
    assert (Hr2 : length rest2 = (20 + length blk)%nat).
    { unfold rest2, blk. rewrite app_length, header_length. reflexivity. }
    rewrite Z.min_l by (rewrite Hlen, Hr2; lia).
    eexists. f_equal.
    assert (Hf3 : file = (magic ++ [x32] ++ repeat x00 15 ++
                          be32 (Z.of_nat (length isut1)) ++ be32 (Z.of_nat (length isstd1)) ++ be32 0 ++
                          be32 nt ++ be32 no ++ be32 (Z.of_nat (length abbr1)) ++ body ++ header x32) ++ blk).
    { rewrite Hf, Eb. unfold rest2, blk. rewrite <- !app_assoc. reflexivity. }
    rewrite Hf3.
    match goal with |- skipn ?n (?a ++ _) = _ => replace n with (length a) end; [apply skipn_app_exact|].
    rewrite !app_length. unfold be32. rewrite !be_encode_length, repeat_length, header_length. change (length magic) with 4%nat. cbn [length]. lia. }
  destruct Hsk2 as (p2 & ->).
  unfold blk. apply readDataBlock_enc_g; [right; auto|exact Henc|exact Htts].
Qed.

Lemma parse_encode_v2 tb1 abbr1 isstd1 isut1 tb abbr isstd isut footer :
  encodable 4 tb1 abbr1 isstd1 isut1 -> 6 * Z.of_nat (length (offs tb1)) < 2 ^ 31 ->
  encodable 8 tb abbr isstd isut ->
  tzif_parse (encode_v2 tb1 abbr1 isstd1 isut1 tb abbr isstd isut footer) = TzOk tb.
Proof.
  intros Henc1 Hty6 Henc. rewrite encode_v2_zero.
  apply parse_encode_v2_g; [exact Henc1|apply tts_zero_length|exact Hty6|exact Henc|apply tts_zero_length].
Qed.

(* the 32-bit half a conforming writer puts in front may be empty *)
Definition tb_empty : tzdata := mkTz [] [0].

Lemma encodable_empty : encodable 4 tb_empty [x00] [] [].
Proof.
  unfold encodable, tb_empty. cbn [trans offs length].
  repeat split; auto; try (cbn; lia).
  constructor; [|constructor]. unfold signed_range. cbn. lia.
Qed.

(* the loop bounds generated from readDataBlock agree with each other: the vectors indexed by
   the addTransition loop were filled by loops with the same bound, each reserve call is given
   the bound of the loop that follows it (for all values of the six counts) *)
Lemma reader_plan_consistent a b c d e f :
  readDataBlock_nadd a b c d e f = readDataBlock_ntimes a b c d e f /\
  readDataBlock_nidx a b c d e f = readDataBlock_ntimes a b c d e f /\
  readDataBlock_reserve_times a b c d e f = readDataBlock_ntimes a b c d e f /\
  readDataBlock_reserve_idx a b c d e f = readDataBlock_nidx a b c d e f /\
  readDataBlock_reserve_types a b c d e f = readDataBlock_ntypes a b c d e f.
Proof. repeat split; reflexivity. Qed.
