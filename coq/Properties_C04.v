(* Properties_C04: tasks given to a loop run exactly once, in order, on its thread, without delay.
   Model: C04_Model (LoopModel, DESIGN B.2); `reach_t` = every schedule of every number of foreign
   threads with arbitrary programs, arbitrary scripts for tasks / callbacks, poll time-outs
   allowed; `reach` = the same without poll time-outs (TSpur is not a step: a state that only a
   time-out could leave is a stuck state, not a delay).  The loop thread's program is
   prefix; loop(); later_1; loop(); later_2; loop(); ... : every theorem covers re-entering
   loop() after it returned, any number of times.
   The wake-up test of queueInLoop, the place where loop() resets quit_ (on entry / on exit /
   never) and the test in quit() are the `shape`; Gen_C04.gen_shape is regenerated from the
   current /repo on every run. *)
From Coq Require Import List Bool Arith.
Import ListNotations.
From Muduo Require Import C04_Model C04_Proofs Gen_C04.

(* ------------------------------------------------------------ the tie to the source (Gen = Model) *)
(* the generated wake-up test wakes for every foreign caller and for every call nested in a drain *)
Theorem C04_gen_wake_weak : wake_weak Gen_C04.gen_shape = true.
Proof. vm_compute. reflexivity. Qed.
Print Assumptions C04_gen_wake_weak.

(* the generated test is, as a function, the pinned one or the repaired one *)
Theorem C04_gen_is_model :
  (forall il c l, wake Gen_C04.gen_shape il c l = wake pinned_shape il c l) \/
  (forall il c l, wake Gen_C04.gen_shape il c l = wake repaired_shape il c l).
Proof. first [ left; intros [|] [|] [|]; reflexivity | right; intros [|] [|] [|]; reflexivity ]. Qed.
Print Assumptions C04_gen_is_model.

(* ------------------------------------------------------------ exactly once *)
(* for every shape (the wake-up test plays no role), every reachable state: a task is executed
   from the queue at most as often as it was submitted; distinct submissions run at most once;
   and nothing is lost: what was submitted is executed, in the running batch, or still queued *)
Theorem C04_at_most_once : forall sh scr prefix later progs s,
  reach_t sh scr (init prefix later progs) s ->
  (forall t, count_occ Nat.eq_dec (execq (log (sg s))) t <= count_occ Nat.eq_dec (subs (log (sg s))) t) /\
  (NoDup (subs (log (sg s))) -> NoDup (execq (log (sg s)))) /\
  execq (log (sg s)) ++ batch (pc s) ++ pending (sg s) = subs (log (sg s)).
Proof.
  intros sh scr prefix later progs s R. pose proof (acct_reach _ _ _ _ _ _ R) as A.
  split; [apply count_execq_le_subs; exact A|]. split; [apply nodup_execq; exact A|exact A].
Qed.
Print Assumptions C04_at_most_once.

(* ------------------------------------------------------------ on the loop thread *)
(* no step of a foreign thread executes a task (queued or inline) *)
Theorem C04_on_loop_thread : forall sh scr s i s',
  step sh scr s (TF i) = Some s' -> execs (log (sg s')) = execs (log (sg s)).
Proof. exact foreign_never_executes. Qed.
Print Assumptions C04_on_loop_thread.

(* ------------------------------------------------------------ order *)
(* (a) tasks submitted through the queue run in submission (= lock) order: the executed
       sequence is a prefix of the submitted sequence, the rest is the batch then the queue;
   (b) what foreign thread i has appended so far, followed by what its remaining code will
       append, is its program's task list: per thread, lock order = program order *)
Theorem C04_fifo_queue : forall sh scr prefix later progs s,
  reach_t sh scr (init prefix later progs) s ->
  subs (log (sg s)) = execq (log (sg s)) ++ (batch (pc s) ++ pending (sg s)) /\
  forall i, subs_by (S i) (log (sg s)) ++ fq i s = ptasks (nth i progs []).
Proof.
  intros sh scr prefix later progs s R. split.
  - symmetry. exact (acct_reach _ _ _ _ _ _ R).
  - intros i. eapply thread_order_reach; exact R.
Qed.
Print Assumptions C04_fifo_queue.

(* ------------------------------------------------------------ runInLoop on the loop thread *)
(* expand true (ARun t) = [MExec t]: on the loop thread runInLoop never touches the queue; its
   step runs t at once (the script is spliced in front of the caller's remaining code), the
   queue is unchanged: ahead of everything queued, before runInLoop returns *)
Theorem C04_run_in_loop_sync : forall sh scr s t rest,
  expand true (ARun t) = [MExec t] /\ expand false (ARun t) = [MQueue t] /\
  (code_ctx (pc s) = true -> lcode s = MExec t :: rest ->
   exists s', step sh scr s TLoop = Some s' /\
     log (sg s') = log (sg s) ++ [EExecI t] /\ pending (sg s') = pending (sg s) /\
     pc s' = pc s /\ lcode s' = expand_all true (scr t) ++ rest).
Proof. intros. split; [reflexivity|]. split; [reflexivity|]. apply run_in_loop_sync_step. Qed.
Print Assumptions C04_run_in_loop_sync.

(* ------------------------------------------------------------ queued from an I/O or a timer callback *)
(* Callbacks -- of I/O channels and of timers alike: a timer callback is the script of the event that
   TimerQueue::addTimerInLoop offers by arming the timerfd; runAfter() itself is runInLoop(addTimerInLoop),
   i.e. ARun of a task whose script is [AOffer k] -- run while the loop thread is between the return of
   poll and the swap.  (a) queueInLoop there appends the task; (b) from there up to the swap every step of
   any thread keeps every queued task queued or moves it into the batch of THIS iteration's drain, and the
   loop thread never passes through poll: the task does not wait for another event.  (The no-lost-wake-up
   theorem C04_no_stall covers the same submissions through its disjunct `will_drain`.) *)
Theorem C04_callback_submission : forall sh scr,
  (forall s t rest wk, pc s = LHandle wk -> lcode s = MQueue t :: rest ->
     exists s', step sh scr s TLoop = Some s' /\ pc s' = LHandle wk /\
                pending (sg s') = pending (sg s) ++ [t] /\ lcode s' = MWakeTest :: rest) /\
  (forall s lab s', in_handling (pc s) = true -> step sh scr s lab = Some s' ->
     (in_handling (pc s') = true \/ exists b, pc s' = LRun b) /\
     (forall t, In t (pending (sg s)) -> In t (pending (sg s')) \/ In t (batch (pc s')))).
Proof. intros sh scr. split; [apply callback_queue_step|apply handling_step]. Qed.
Print Assumptions C04_callback_submission.

(* ------------------------------------------------------------ without delay: no lost wake-up *)
(* FULL statement (property text: foreign thread, I/O callback, timer callback, nested in a
   functor, or before loop() was entered).  Holds for every shape whose wake-up test also fires
   for (loop thread, not draining, not looping) -- the repaired shape:
   in every reachable state, a non-empty queue implies that the wake-up descriptor is readable,
   or the loop thread is between the return of poll and the swap of its drain, or some thread
   is between its append and a wake-up that will be written; hence no quiescent state (all
   foreign threads finished, loop thread in a poll that only a time-out could end) has an
   unexecuted task. *)
Theorem C04_no_stall : forall sh scr prefix later progs s,
  wake_ok sh = true ->
  reach sh scr (init prefix later progs) s ->
  NoStall sh s /\ (quiescent s = true -> pending (sg s) = []).
Proof.
  intros sh scr prefix later progs s W R. unfold wake_ok in W. apply andb_true_iff in W as [W1 W2].
  assert (N : NoStall sh s) by (eapply no_stall_reach; eauto).
  split; [exact N|apply nostall_quiescent with (sh := sh); exact N].
Qed.
Print Assumptions C04_no_stall.

(* PARTIAL: for the pinned wake-up test (any shape with wake_weak) the same holds when the code
   that runs on the loop thread outside loop() (before the first call and between calls) only
   calls quit() -- i.e. everything except the clause "or before loop() was entered" *)
Theorem C04_no_stall_partial : forall sh scr prefix later progs s,
  wake_weak sh = true -> quits_only prefix = true -> later_quits_only later = true ->
  reach sh scr (init prefix later progs) s ->
  NoStall sh s /\ (quiescent s = true -> pending (sg s) = []).
Proof.
  intros sh scr prefix later progs s W Q Q2 R.
  assert (N : NoStall sh s) by (eapply no_stall_reach; eauto).
  split; [exact N|apply nostall_quiescent with (sh := sh); exact N].
Qed.
Print Assumptions C04_no_stall_partial.

(* REFUTED for the pinned shape (finding F-2): queueInLoop on the loop's own thread before
   loop(), then loop(): the loop is alive (looping), sits in a poll that only the 10 s time-out
   can end, and task 0 is in the queue.  Witness: prefix [AQueue 0], no foreign thread,
   four steps of the loop thread. *)
Theorem C04_no_stall_refuted : exists scr prefix progs s,
  reach pinned_shape scr (init prefix [] progs) s /\
  quiescent s = true /\ pending (sg s) <> [] /\ looping (sg s) = true.
Proof.
  exists (fun _ => []), stall_witness_prefix, [], stall_witness_state.
  apply stall_witness_reach. reflexivity.
Qed.
Print Assumptions C04_no_stall_refuted.

(* what holds of the CURRENT tree: computed from the generated wake-up test *)
Definition C04_current_tree_has_F2 : bool := negb (wake_pre Gen_C04.gen_shape).
Theorem C04_no_stall_current_tree :
  if wake_pre Gen_C04.gen_shape
  then forall scr prefix later progs s, reach Gen_C04.gen_shape scr (init prefix later progs) s ->
         NoStall Gen_C04.gen_shape s /\ (quiescent s = true -> pending (sg s) = [])
  else exists scr prefix progs s, reach Gen_C04.gen_shape scr (init prefix [] progs) s /\
         quiescent s = true /\ pending (sg s) <> [] /\ looping (sg s) = true.
Proof.
  destruct (wake_pre Gen_C04.gen_shape) eqn:E.
  - intros scr prefix later progs s R.
    apply C04_no_stall with (scr := scr) (prefix := prefix) (later := later) (progs := progs); [|exact R].
    unfold wake_ok. rewrite C04_gen_wake_weak, E. reflexivity.
  - exists (fun _ => []), stall_witness_prefix, [], stall_witness_state.
    apply stall_witness_reach. exact E.
Qed.
Print Assumptions C04_no_stall_current_tree.
Eval vm_compute in (C04_current_tree_has_F2, 404).   (* parsed by lib/props/C04.py *)

(* ------------------------------------------------------------ non-vacuity *)
(* two foreign threads, a task that queues another task from inside the drain, an I/O callback
   that queues: all of it reachable, ends quiescent with everything executed in lock order *)
Definition ex_scr : scripts := fun t => match t with 1 => [AQueue 4] | 9 => [AQueue 5] | _ => [] end.
Definition ex_labels : list label :=
  [TLoop; TLoop; TF 0; TF 1; TF 1; TF 1; TLoop; TRead; TLoop; TF 0; TF 0; TF 0; TLoop; TLoop; TLoop; TLoop; TLoop;
   TLoop; TLoop; TLoop; TLoop; TLoop; TLoop; TLoop; TRead; TLoop; TLoop; TLoop; TLoop; TLoop].
Example C04_example_reach :
  exists s, run repaired_shape ex_scr (init [] [] [[AQueue 1; ARun 2]; [AQueue 3; AOffer 9]]) ex_labels = Some s /\
            execq (log (sg s)) = [1; 3; 5; 2; 4] /\ quiescent s = true /\ pending (sg s) = [].
Proof. eexists. split; [vm_compute; reflexivity|]. vm_compute. auto. Qed.
(* runAfter(0, cb 9) from a foreign thread (task 100 = addTimerInLoop, script [AOffer 9]); the timer
   callback 9 queues task 5, which the same iteration drains: poll, read, run 100, poll (timer), callback,
   swap, run 5 *)
Definition ex_timer_scr : scripts := fun t => match t with 100 => [AOffer 9] | 9 => [AQueue 5] | _ => [] end.
Example C04_example_timer_callback :
  exists s, run fixed_shape ex_timer_scr (init [] [] [[ARun 100]])
              [TLoop; TLoop; TF 0; TF 0; TLoop; TRead; TLoop; TLoop; TLoop; TLoop; TLoop; TLoop; TLoop; TLoop;
               TLoop; TLoop; TLoop; TLoop; TLoop; TLoop] = Some s /\
            execq (log (sg s)) = [100; 5] /\ pending (sg s) = [] /\ quiescent s = true.
Proof. eexists. split; [vm_compute; reflexivity|]. vm_compute. auto. Qed.
Example C04_shapes_inhabited :
  wake_ok repaired_shape = true /\ wake_ok fixed_shape = true /\
  wake_weak pinned_shape = true /\ wake_pre pinned_shape = false.
Proof. vm_compute. auto. Qed.
(* re-entering loop(): a foreign quit ends the first call; between the calls the loop thread queues
   task 7 (woken: the loop is not looping) and calls runInLoop(8); the second call runs 7 and the
   foreign thread's task 3, and is ended by the second quit; everything ran once, in lock order *)
Definition ex2_labels : list label :=
  [TLoop; TLoop; TF 0; TF 0; TLoop; TRead; TLoop; TLoop; TLoop; TLoop; TLoop; TLoop;
   TLoop; TLoop; TLoop; TLoop; TF 0; TF 0; TLoop; TLoop; TRead; TLoop; TLoop; TLoop; TLoop; TLoop;
   TF 0; TF 0; TLoop; TLoop].
Example C04_example_reentry :
  exists s, run fixed_shape (fun _ => []) (init [] [[AQueue 7; ARun 8]] [[AQuit; AQueue 3; AQuit]]) ex2_labels = Some s /\
            execq (log (sg s)) = [7; 3] /\ pc s = LDone /\ pending (sg s) = [] /\
            length (filter (fun e => match e with ERet => true | _ => false end) (log (sg s))) = 2.
Proof. eexists. split; [vm_compute; reflexivity|]. vm_compute. auto. Qed.


(* ========================================================================================== *)
(* Cross-model links (appended; owner: the links, docs/Link.md section L2)                      *)
(* ========================================================================================== *)
(* C09's model of one EventLoop iteration (P = C09_Model: loop_iter_full_env / loop_run; PP =
   C09_ProofsLoop) carries a functor queue and a wake-up counter but has external events only
   BETWEEN iterations.  Link_LoopQueue shows that its queue behaviour is a schedule of THIS file's
   micro-step transition system (L = C04_Model, LP = C04_Proofs): the loop thread's steps L3..L7
   with no foreign thread moving in between; and that C09's run invariant is this file's NoStall
   read at the poll. *)
From Coq Require Import NArith.
From Muduo Require Import Link_LoopQueue Link_Properties_L2a.

(* what is related: a state of this model whose loop thread is about to poll, and the
   (environment, queue) pair C09's run carries from one iteration to the next *)
Theorem C04_link_relation_def : forall s e p, Rq s e p <->
  (L.pc s = L.LPoll /\ L.calling (L.sg s) = false /\ L.looping (L.sg s) = true /\
   N.of_nat (L.evfd (L.sg s)) = P.k_wake e /\ L.pending (L.sg s) = p).
Proof. exact L2a_relation_def. Qed.
Print Assumptions C04_link_relation_def.

Theorem C04_link_defs : forall labs scr q,
  (loop_only labs <-> Forall (fun l => l = L.TLoop \/ l = L.TRead) labs) /\
  (pure_q scr q <-> forall n, scr n = map L.AQueue (q n)).
Proof. exact L2a_defs. Qed.
Print Assumptions C04_link_defs.

(* HEADLINE.  Whatever back-end, channels, callbacks and Channel-API calls C09's iteration
   involves: from a state of this model related to C09's (environment, queue) pair, the loop
   thread alone (labels TLoop / TRead only) reaches the end of its batch having run exactly C09's
   batch [ran] in order, with C09's left-over queue and C09's wake-up counter.  Hypotheses: the
   wake-up guard is the same function (wake sh; both sides are tied to EventLoop::queueInLoop by
   their own generated facts); functors and callbacks only queue (what functor i queues is q i on
   both sides); the callbacks of C09's batch queue what the event this model's poll dispatches
   queues; this model's poll has a reason to return; handleRead drains the wake-up descriptor. *)
Theorem C04_iteration_is_loop_thread_schedule :
  forall S step h hq fb runs eff wfd tfd sh scr q s st e pending choice st' e' pend' act log ran,
  P.loop_iter_full_env S step h hq fb runs eff (L.wake sh) wfd tfd st e pending choice
    = P.Ok (st', e', pend', (act, log, ran)) ->
  Rq s e pending ->
  pure_q scr q -> (forall i, In i ran -> snd (fb i) = q i) ->
  flat_map (fun ck => hq (fst ck) (snd ck)) log = (match L.evq (L.sg s) with k :: _ => q k | [] => [] end) ->
  L.poll_ready (L.sg s) = true ->
  P.k_wake (P.apply_effects eff log e) = 0%N ->
  exists labs s', loop_only labs /\ L.run sh scr s labs = Some s' /\
    L.pc s' = L.LTest /\ L.lcode s' = [] /\
    L.calling (L.sg s') = false /\ L.looping (L.sg s') = true /\
    L.fcode s' = L.fcode s /\ L.lnext s' = L.lnext s /\ L.quit (L.sg s') = L.quit (L.sg s) /\
    L.evq (L.sg s') = tl (L.evq (L.sg s)) /\
    N.of_nat (L.evfd (L.sg s')) = P.k_wake e' /\
    L.pending (L.sg s') = pend' /\
    L.execq (L.log (L.sg s')) = L.execq (L.log (L.sg s)) ++ ran.
Proof. exact L2a_iteration_is_loop_thread_schedule. Qed.
Print Assumptions C04_iteration_is_loop_thread_schedule.

(* after the batch the loop thread tests quit_ and polls again: the relation is re-established,
   so iterations compose *)
Theorem C04_link_next_poll : forall sh scr s e p,
  L.pc s = L.LTest -> L.quit (L.sg s) = false -> L.calling (L.sg s) = false -> L.looping (L.sg s) = true ->
  N.of_nat (L.evfd (L.sg s)) = P.k_wake e -> L.pending (L.sg s) = p ->
  exists s', L.step sh scr s L.TLoop = Some s' /\ Rq s' e p /\ L.sg s' = L.sg s /\ L.fcode s' = L.fcode s.
Proof. exact L2a_next_poll. Qed.
Print Assumptions C04_link_next_poll.

(* C09's external event "a task is queued from another thread between two iterations" (XQueue i)
   is the foreign thread's two micro-steps of this model while the loop thread is in poll *)
Theorem C04_xqueue_is_foreign_microsteps : forall sh scr s e p i j rest,
  Rq s e p -> nth_error (L.fcode s) j = Some (L.MQueue i :: rest) ->
  exists s', L.run sh scr s [L.TF j; L.TF j] = Some s' /\
    Rq s' (fst (P.apply_ext (L.wake sh) (e, p) (P.XQueue i))) (snd (P.apply_ext (L.wake sh) (e, p) (P.XQueue i))) /\
    nth_error (L.fcode s') j = Some rest /\
    L.execq (L.log (L.sg s')) = L.execq (L.log (L.sg s)).
Proof. exact L2a_xqueue_is_foreign_microsteps. Qed.
Print Assumptions C04_xqueue_is_foreign_microsteps.

(* C09's run invariant (C09_queued_task_wakes: at every poll a non-empty task queue comes with a
   non-zero wake-up counter) IS this file's NoStall read at the poll when no thread is between its
   append and its wake-up; so it holds at every such poll of EVERY schedule of this model - any
   number of foreign threads, any programs (C09 proved it for its own coarser runs only) *)
Theorem C04_pend_inv_is_nostall : forall sh s e p, Rq s e p -> L.midwake sh s = false ->
  (LP.NoStall sh s <-> (p <> [] -> (0 < P.k_wake e)%N)).
Proof. exact L2a_pend_inv_is_nostall. Qed.
Print Assumptions C04_pend_inv_is_nostall.

Theorem C04_pend_inv_all_schedules : forall sh scr prefix later progs s e p,
  L.wake_ok sh = true -> LP.reach sh scr (L.init prefix later progs) s ->
  Rq s e p -> L.midwake sh s = false -> (p <> [] -> (0 < P.k_wake e)%N).
Proof. exact L2a_pend_inv_all_schedules. Qed.
Print Assumptions C04_pend_inv_all_schedules.

(* non-vacuity: the hypotheses of C04_iteration_is_loop_thread_schedule are inhabited - C09's
   witness iteration on the loop's constructor state (the timer callback queues functor 7, which
   queues functor 8; wake-up guard generated from the current tree) against a state of this model
   with event 9 (script: queue 7) ready *)
Example C04_link_ex : exists st' e' act log,
  P.loop_iter_full_env P.ep P.ep_step_current (fun _ _ => []) W.hq_ex W.fb_ex W.all_run
    (PP.effects_current 1 0 (fun _ _ e => e)) (L.wake Gen_C04.gen_shape) 4 3 l2_st0 l2_e [] []
    = P.Ok (st', e', [8], (act, log, [7])) /\
  Rq l2_s l2_e [] /\ pure_q l2_scr l2_q /\
  (forall i, In i [7] -> snd (W.fb_ex i) = l2_q i) /\
  flat_map (fun ck => W.hq_ex (fst ck) (snd ck)) log = (match L.evq (L.sg l2_s) with k :: _ => l2_q k | [] => [] end) /\
  L.poll_ready (L.sg l2_s) = true /\
  P.k_wake (P.apply_effects (PP.effects_current 1 0 (fun _ _ e => e)) log l2_e) = 0%N /\
  P.k_wake e' = 1%N.
Proof. exact l2_ex_queue_link. Qed.

(* the case the headline theorem is about: a wake-up pending (counter 1), functor 7 already queued,
   no event ready - only the wake-up channel is dispatched, handleRead consumes the wake-up, the
   batch [7] runs and queues 8, which wakes again: C09's iteration and this model's loop-thread
   schedule agree (batch [7], left-over queue [8], counter 1) *)
Example C04_link_ex_wakeup_nonempty_batch : exists st' e' act log labs s',
  P.loop_iter_full_env P.ep P.ep_step_current (fun _ _ => []) W.hq_ex W.fb_ex W.all_run
    (PP.effects_current 1 0 (fun _ _ e => e)) (L.wake Gen_C04.gen_shape) 4 3 l2_st0 l2_e_stale [7] []
    = P.Ok (st', e', [8], (act, log, [7])) /\
  log = [(1, P.CbRead)] /\
  Rq l2_s_stale l2_e_stale [7] /\
  flat_map (fun ck => W.hq_ex (fst ck) (snd ck)) log = [] /\
  P.k_wake (P.apply_effects (PP.effects_current 1 0 (fun _ _ e => e)) log l2_e_stale) = 0%N /\
  loop_only labs /\ L.run Gen_C04.gen_shape l2_scr l2_s_stale labs = Some s' /\
  L.pc s' = L.LTest /\ L.pending (L.sg s') = [8] /\ L.evfd (L.sg s') = 1 /\
  L.execq (L.log (L.sg s')) = [7] /\ P.k_wake e' = 1%N.
Proof. exact l2_ex_queue_link_wakeup. Qed.
