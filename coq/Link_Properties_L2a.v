(* Link_Properties_L2a: cross-model link L2a (the queue / wake-up part of C09's iteration is a schedule of C04's micro-step system).  Only statements, closed by [exact], each followed by
   Print Assumptions, and non-vacuity examples (docs/Link.md, section L2).  Quoted (appended section
   "Cross-model links") by the Properties_Cxx.v files named in docs/Link.md.
   Module names: L = C04_Model, LP = C04_Proofs, P = C09_Model, PQ = C09_Proofs, PL = C09_ProofsPoll,
   PP = C09_ProofsLoop, T = C06_Model, TH = C06_Hist, W = C09_Witness. *)
From Coq Require Import List ZArith Lia Bool Arith NArith.
From Coq.Strings Require Import Byte.
From Muduo Require Gen_C04 C09_Witness.
From Muduo Require Import Link_LoopQueue.
Import ListNotations.
Module W := Muduo.C09_Witness.

(* ---- L2a: the queue / wake-up part of C09's iteration and C04's micro-step system ---------- *)
(* the queue view of ANY successful C09 iteration (any back-end S/step, channels, callbacks,
   Channel-API calls): the batch is the queue at poll time followed by what the callbacks queued,
   the left-over queue is what the batch queued, the wake-up counter is what the callbacks'
   effects left plus one per functor queued where queueInLoop's guard says so *)
Theorem L2a_iteration_queue_view :
  forall S step h hq fb runs eff qw wfd tfd st e pending choice st' e' pend' act log ran,
  P.loop_iter_full_env S step h hq fb runs eff qw wfd tfd st e pending choice
    = P.Ok (st', e', pend', (act, log, ran)) ->
  (ran, pend', P.k_wake e') =
  q_iter qw fb (P.k_wake (P.apply_effects eff log e)) pending (flat_map (fun ck => hq (fst ck) (snd ck)) log).
Proof. exact c09_iteration_queue_view. Qed.
Print Assumptions L2a_iteration_queue_view.

Theorem L2a_q_iter_def : forall qw fb w1 pending hqs,
  q_iter qw fb w1 pending hqs =
  (pending ++ hqs, P.functors_queued fb (pending ++ hqs),
   (w1 + (if qw true false true then N.of_nat (length hqs) else 0)
       + (if qw true true true then N.of_nat (length (P.functors_queued fb (pending ++ hqs))) else 0))%N).
Proof. reflexivity. Qed.
Print Assumptions L2a_q_iter_def.

(* HEADLINE.  The queue behaviour C09 attributes to one iteration IS a schedule of C04's
   transition system: from a C04 state related to C09's (environment, queue) pair - loop thread
   about to poll, same wake-up counter, same queue - the loop thread alone (labels TLoop / TRead
   only: steps L3..L7 of DESIGN B.2) reaches the end of its batch having run exactly C09's batch
   [ran] in order, with C09's left-over queue and C09's wake-up counter.  Hence every state C09's
   iteration view passes through is a reachable state of C04's system and C04's theorems (at most
   once, FIFO, no lost wake-up, for ALL schedules) apply to it. *)
Theorem L2a_iteration_is_loop_thread_schedule :
  forall S step h hq fb runs eff wfd tfd sh scr q s st e pending choice st' e' pend' act log ran,
  P.loop_iter_full_env S step h hq fb runs eff (L.wake sh) wfd tfd st e pending choice
    = P.Ok (st', e', pend', (act, log, ran)) ->
  Rq s e pending ->
  pure_q scr q -> (forall i, In i ran -> snd (fb i) = q i) ->
  flat_map (fun ck => hq (fst ck) (snd ck)) log = (match L.evq (L.sg s) with k :: _ => q k | [] => [] end) ->
  L.poll_ready (L.sg s) = true ->
  P.k_wake (P.apply_effects eff log e) = 0%N ->
  exists labs s', loop_only labs /\ L.run sh scr s labs = Some s' /\
    L.pc s' = L.LTest /\ L.lcode s' = [] /\
    L.calling (L.sg s') = false /\ L.looping (L.sg s') = true /\
    L.fcode s' = L.fcode s /\ L.lnext s' = L.lnext s /\ L.quit (L.sg s') = L.quit (L.sg s) /\
    L.evq (L.sg s') = tl (L.evq (L.sg s)) /\
    N.of_nat (L.evfd (L.sg s')) = P.k_wake e' /\
    L.pending (L.sg s') = pend' /\
    L.execq (L.log (L.sg s')) = L.execq (L.log (L.sg s)) ++ ran.
Proof. exact c09_iteration_is_c04_schedule. Qed.
Print Assumptions L2a_iteration_is_loop_thread_schedule.

Theorem L2a_relation_def : forall s e p, Rq s e p <->
  (L.pc s = L.LPoll /\ L.calling (L.sg s) = false /\ L.looping (L.sg s) = true /\
   N.of_nat (L.evfd (L.sg s)) = P.k_wake e /\ L.pending (L.sg s) = p).
Proof. intros s e p. split; [intros [A B C D E]; auto|intros (A & B & C & D & E); constructor; assumption]. Qed.
Print Assumptions L2a_relation_def.

(* the C04 side on its own: what the loop thread does from the poll to the end of the batch *)
Theorem L2a_c04_iteration : forall sh scr q, pure_q scr q -> forall g c0 ln fc,
  L.calling g = false -> L.looping g = true -> L.poll_ready g = true ->
  let hqs := match L.evq g with k :: _ => q k | [] => [] end in
  let w1 := L.wake sh true false true in
  let w2 := L.wake sh true true true in
  let ran := L.pending g ++ hqs in
  let pend' := flat_map q ran in
  exists labs, loop_only labs /\
    L.run sh scr (L.mkSt g L.LPoll c0 ln fc) labs =
    Some (L.mkSt (L.mkG pend' ((if w1 then length hqs else 0) + (if w2 then length pend' else 0))
                        (tl (L.evq g)) (L.quit g) false true
                        (L.log g ++ qlog w1 0 hqs ++ blog w2 q ran))
                 L.LTest [] ln fc).
Proof. exact c04_iteration. Qed.
Print Assumptions L2a_c04_iteration.

(* after the batch: test quit_, poll again; the relation is re-established *)
Theorem L2a_next_poll : forall sh scr s e p,
  L.pc s = L.LTest -> L.quit (L.sg s) = false -> L.calling (L.sg s) = false -> L.looping (L.sg s) = true ->
  N.of_nat (L.evfd (L.sg s)) = P.k_wake e -> L.pending (L.sg s) = p ->
  exists s', L.step sh scr s L.TLoop = Some s' /\ Rq s' e p /\ L.sg s' = L.sg s /\ L.fcode s' = L.fcode s.
Proof. exact c04_test_to_poll. Qed.
Print Assumptions L2a_next_poll.

(* C09's external event XQueue i (a task queued from another thread between two iterations) is
   the foreign thread's two micro-steps of C04 while the loop thread is in poll *)
Theorem L2a_xqueue_is_foreign_microsteps : forall sh scr s e p i j rest,
  Rq s e p -> nth_error (L.fcode s) j = Some (L.MQueue i :: rest) ->
  exists s', L.run sh scr s [L.TF j; L.TF j] = Some s' /\
    Rq s' (fst (P.apply_ext (L.wake sh) (e, p) (P.XQueue i))) (snd (P.apply_ext (L.wake sh) (e, p) (P.XQueue i))) /\
    nth_error (L.fcode s') j = Some rest /\
    L.execq (L.log (L.sg s')) = L.execq (L.log (L.sg s)).
Proof. exact c09_xqueue_is_c04_foreign. Qed.
Print Assumptions L2a_xqueue_is_foreign_microsteps.

(* C09's run invariant pend_inv (C09_queued_task_wakes) is C04's NoStall (C04_no_stall) read at
   the poll; so it holds at every poll of EVERY schedule of C04's system *)
Theorem L2a_pend_inv_is_nostall : forall sh s e p, Rq s e p -> L.midwake sh s = false ->
  (LP.NoStall sh s <-> PP.pend_inv e p).
Proof. exact pend_inv_is_nostall. Qed.
Print Assumptions L2a_pend_inv_is_nostall.

Theorem L2a_pend_inv_all_schedules : forall sh scr prefix later progs s e p,
  L.wake_ok sh = true -> LP.reach sh scr (L.init prefix later progs) s ->
  Rq s e p -> L.midwake sh s = false -> PP.pend_inv e p.
Proof. exact c04_reach_pend_inv. Qed.
Print Assumptions L2a_pend_inv_all_schedules.

Theorem L2a_defs : forall labs scr q,
  (loop_only labs <-> Forall (fun l => l = L.TLoop \/ l = L.TRead) labs) /\
  (pure_q scr q <-> forall n, scr n = map L.AQueue (q n)).
Proof. intros. split; reflexivity. Qed.
Print Assumptions L2a_defs.


(* ---- non-vacuity --------------------------------------------------------------------------- *)
(* the hypotheses of L2a are inhabited: C09_Witness' iteration "the timer callback queues functor
   7, which queues functor 8" against a C04 state with event 9 (script: queue 7) ready *)
Definition l2_q (n : nat) : list nat := match n with 9 => [7] | 7 => [8] | _ => [] end.
Definition l2_scr : L.scripts := fun n => map L.AQueue (l2_q n).
Definition l2_s : L.st := L.mkSt (L.mkG [] 0 [9] false false true []) L.LPoll [] [] [].
Definition l2_e : P.kenv := P.mkKenv 0 1 (fun _ => 0%N).

Definition l2_st0 : P.ep :=
  match P.ep_run_current P.ep_init W.w_loop_init with P.Ok (st, _) => st | _ => P.ep_init end.

Example l2_ex_queue_link : exists st' e' act log,
  P.loop_iter_full_env P.ep P.ep_step_current (fun _ _ => []) W.hq_ex W.fb_ex W.all_run
    (PP.effects_current 1 0 (fun _ _ e => e)) (L.wake Gen_C04.gen_shape) 4 3 l2_st0 l2_e [] []
    = P.Ok (st', e', [8], (act, log, [7])) /\
  Rq l2_s l2_e [] /\ pure_q l2_scr l2_q /\
  (forall i, In i [7] -> snd (W.fb_ex i) = l2_q i) /\
  flat_map (fun ck => W.hq_ex (fst ck) (snd ck)) log = (match L.evq (L.sg l2_s) with k :: _ => l2_q k | [] => [] end) /\
  L.poll_ready (L.sg l2_s) = true /\
  P.k_wake (P.apply_effects (PP.effects_current 1 0 (fun _ _ e => e)) log l2_e) = 0%N /\
  P.k_wake e' = 1%N.
Proof.
  destruct (P.loop_iter_full_env P.ep P.ep_step_current (fun _ _ => []) W.hq_ex W.fb_ex W.all_run
              (PP.effects_current 1 0 (fun _ _ e => e)) (L.wake Gen_C04.gen_shape) 4 3 l2_st0 l2_e [] [])
    as [[[[st' e'] p'] [[act log] ran]]| |] eqn:Eit; try (vm_compute in Eit; discriminate).
  vm_compute in Eit. injection Eit as <- <- <- <- <- <-.
  eexists _, _, _, _. split; [reflexivity|].
  split; [constructor; reflexivity|]. split; [intros n; reflexivity|].
  split; [intros i [<-|[]]; reflexivity|]. repeat split; vm_compute; reflexivity.
Qed.



(* the case the headline theorem is about: a wake-up pending (counter 1), functor 7 already queued,
   NO event ready - only the wake-up channel is dispatched, handleRead consumes the wake-up, the
   batch [7] runs and queues 8, which wakes again (counter 1 afterwards) *)
Definition l2_s_stale : L.st := L.mkSt (L.mkG [7] 1 [] false false true []) L.LPoll [] [] [].
Definition l2_e_stale : P.kenv := P.mkKenv 1 0 (fun _ => 0%N).

Example l2_ex_queue_link_wakeup : exists st' e' act log labs s',
  P.loop_iter_full_env P.ep P.ep_step_current (fun _ _ => []) W.hq_ex W.fb_ex W.all_run
    (PP.effects_current 1 0 (fun _ _ e => e)) (L.wake Gen_C04.gen_shape) 4 3 l2_st0 l2_e_stale [7] []
    = P.Ok (st', e', [8], (act, log, [7])) /\
  log = [(1, P.CbRead)] /\
  Rq l2_s_stale l2_e_stale [7] /\
  flat_map (fun ck => W.hq_ex (fst ck) (snd ck)) log = [] /\
  P.k_wake (P.apply_effects (PP.effects_current 1 0 (fun _ _ e => e)) log l2_e_stale) = 0%N /\
  loop_only labs /\ L.run Gen_C04.gen_shape l2_scr l2_s_stale labs = Some s' /\
  L.pc s' = L.LTest /\ L.pending (L.sg s') = [8] /\ L.evfd (L.sg s') = 1 /\
  L.execq (L.log (L.sg s')) = [7] /\ P.k_wake e' = 1%N.
Proof.
  destruct (P.loop_iter_full_env P.ep P.ep_step_current (fun _ _ => []) W.hq_ex W.fb_ex W.all_run
              (PP.effects_current 1 0 (fun _ _ e => e)) (L.wake Gen_C04.gen_shape) 4 3 l2_st0 l2_e_stale [7] [])
    as [[[[st' e'] p'] [[act log] ran]]| |] eqn:Eit; try (vm_compute in Eit; discriminate).
  assert (Hshape : exists a b c, (p', log, ran, P.k_wake e') = (a, b, c, 1%N) /\ a = [8] /\ b = [(1, P.CbRead)] /\ c = [7]).
  { pose proof Eit as E2. vm_compute in E2. injection E2 as _ <- <- _ <- <-. eexists _, _, _. repeat split. }
  destruct Hshape as (a & b & c & Hx & -> & -> & ->). injection Hx as -> -> -> Hk.
  destruct (c09_iteration_is_c04_schedule P.ep P.ep_step_current (fun _ _ => []) W.hq_ex W.fb_ex W.all_run
              (PP.effects_current 1 0 (fun _ _ e => e)) 4 3 Gen_C04.gen_shape l2_scr l2_q l2_s_stale
              l2_st0 l2_e_stale [7] [] st' e' [8] act [(1, P.CbRead)] [7] Eit)
    as (labs & s' & Hlo & Hrun & Hpc & _ & _ & _ & _ & _ & _ & _ & Hev & Hpend & Hex).
  - constructor; reflexivity.
  - intros n; reflexivity.
  - intros i [<-|[]]; reflexivity.
  - reflexivity.
  - reflexivity.
  - vm_compute. reflexivity.
  - exists st', e', act, [(1, P.CbRead)], labs, s'. split; [reflexivity|]. split; [reflexivity|].
    split; [constructor; reflexivity|]. split; [reflexivity|]. split; [vm_compute; reflexivity|].
    split; [exact Hlo|]. split; [exact Hrun|]. split; [exact Hpc|]. split; [exact Hpend|].
    split; [rewrite Hk in Hev; lia|]. split; [exact Hex|exact Hk].
Qed.
