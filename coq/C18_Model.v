(* C18_Model: executable models of the two stream decoders of muduo.
   (1) the length-prefixed, checksummed protobuf framing:
       ProtobufCodecLite::onMessage / parse / validateChecksum / checksum / asInt32 /
       fillEmptyBuffer (muduo/net/protobuf/ProtobufCodecLite.{h,cc}), also used as RpcCodec
       (muduo/net/protorpc/RpcCodec.{h,cc}, tag "RPC0");
   (2) the HTTP request parser: HttpContext::parseRequest / processRequestLine
       (muduo/net/http/HttpContext.cc), HttpRequest::setMethod / addHeader (HttpRequest.h).
   The input Buffer is abstracted to the list of its readable bytes (justified by C10:
   append = ++ at the end, retrieve n = skipn n, peek = the list).  Every read the codec
   performs goes through the bounds-checked [read_at]/[retrieve]; a failed check is the
   event [CFault].  No proofs in this file. *)
From Coq Require Import List ZArith Lia Bool Arith NArith.
From Coq.Strings Require Import Byte.
From Muduo Require Import Base_Bytes Gen_Consts.
Import ListNotations.
Local Open Scope Z_scope.

(* ======================================================================== *)
(* Generic chunk-fed decoder: a buffer of unconsumed bytes, a parser state,  *)
(* and "run the decode loop after every append".                             *)
(* ======================================================================== *)
Section Stream.
  Variables (St Ev : Type).

  (* result of one iteration of the decode loop on the current buffer *)
  Inductive sres : Type :=
  | SWait                                             (* leave the loop, keep everything *)
  | SEmit (evs : list Ev) (s' : St) (rest : list byte) (* callbacks ran, bytes consumed, loop again *)
  | SStop (evs : list Ev).                            (* error reported, nothing consumed, abandon *)

  Variable step : St -> list byte -> sres.

  Record dstate : Type := mkD {
    d_st : St;                (* parser state *)
    d_buf : list byte;        (* unconsumed bytes = Buffer's readable region *)
    d_abandoned : bool;       (* an error was reported: the stream is abandoned *)
    d_oof : bool              (* the fuel of the loop ran out (proved impossible) *)
  }.

  Fixpoint run (fuel : nat) (s : St) (b : list byte) : list Ev * dstate :=
    match fuel with
    | O => ([], mkD s b false true)
    | S f =>
        match step s b with
        | SWait => ([], mkD s b false false)
        | SEmit evs s' r => let (e2, d) := run f s' r in (evs ++ e2, d)
        | SStop evs => (evs, mkD s b true false)
        end
    end.

  (* one delivery: Buffer::append(chunk) then the decode loop; after an error the
     bytes still accumulate in the Buffer but the decoder is not run any more *)
  Definition feed (d : dstate) (chunk : list byte) : list Ev * dstate :=
    if d_abandoned d || d_oof d
    then ([], mkD (d_st d) (d_buf d ++ chunk) (d_abandoned d) (d_oof d))
    else run (S (length (d_buf d ++ chunk))) (d_st d) (d_buf d ++ chunk).

  Fixpoint feed_all (d : dstate) (chunks : list (list byte)) : list Ev * dstate :=
    match chunks with
    | [] => ([], d)
    | c :: cs => let (e1, d1) := feed d c in
                 let (e2, d2) := feed_all d1 cs in (e1 ++ e2, d2)
    end.

  Definition init (s0 : St) : dstate := mkD s0 [] false false.

  (* bytes consumed so far, given the number of bytes delivered so far *)
  Definition consumed (fed : nat) (d : dstate) : nat := (fed - length (d_buf d))%nat.
End Stream.
Arguments SWait {St Ev}.
Arguments SEmit {St Ev} evs s' rest.
Arguments SStop {St Ev} evs.
Arguments mkD {St} d_st d_buf d_abandoned d_oof.
Arguments d_st {St} d.
Arguments d_buf {St} d.
Arguments d_abandoned {St} d.
Arguments d_oof {St} d.
Arguments run {St Ev} step fuel s b.
Arguments feed {St Ev} step d chunk.
Arguments feed_all {St Ev} step d chunks.
Arguments init {St} s0.
Arguments consumed {St} fed d.

(* ======================================================================== *)
(* Bytes                                                                     *)
(* ======================================================================== *)
Fixpoint bytes_eqb (a b : list byte) : bool :=
  match a, b with
  | [], [] => true
  | x :: a', y :: b' => Byte.eqb x y && bytes_eqb a' b'
  | _, _ => false
  end.

(* the only way the codec reads the buffer: [len] bytes at offset [off], both signed
   machine integers; None = the access is not inside the readable bytes *)
Definition read_at (b : list byte) (off len : Z) : option (list byte) :=
  if (0 <=? off) && (0 <=? len) && (off + len <=? Z.of_nat (length b))
  then Some (firstn (Z.to_nat len) (skipn (Z.to_nat off) b)) else None.

(* Buffer::retrieve(n): assert(n <= readableBytes()) *)
Definition retrieve (b : list byte) (n : Z) : option (list byte) :=
  if (0 <=? n) && (n <=? Z.of_nat (length b)) then Some (skipn (Z.to_nat n) b) else None.

(* ---- Adler-32, RFC 1950 section 8.2 (zlib adler32(1, buf, len)) ----------- *)
Definition adler_base : Z := 65521.
Definition adler_step (st : Z * Z) (x : byte) : Z * Z :=
  let a := (fst st + Z_of_byte x) mod adler_base in
  let b := (snd st + a) mod adler_base in (a, b).
Definition adler32 (l : list byte) : Z :=
  let st := fold_left adler_step l (1, 0) in snd st * 65536 + fst st.

(* ======================================================================== *)
(* The framing codec                                                         *)
(* ======================================================================== *)
Definition kHeaderLen : Z := Gen_Consts.ProtobufCodecLite_kHeaderLen.
Definition kChecksumLen : Z := Gen_Consts.ProtobufCodecLite_kChecksumLen.
Definition kMaxMessageLen : Z := Gen_Consts.ProtobufCodecLite_kMaxMessageLen.

(* ProtobufCodecLite::ErrorCode *)
Inductive err : Type :=
| kInvalidLength | kCheckSumError | kInvalidNameLen | kUnknownMessageType | kParseError.

(* wire format (ProtobufCodecLite.h:40-47):
     size 4-byte M+N+4 | tag M-byte | payload N-byte | checksum 4-byte adler32 of tag+payload *)
Definition encode (tag payload : list byte) : list byte :=
  be_encode 4 (Z.of_nat (length tag) + Z.of_nat (length payload) + 4)
  ++ tag ++ payload ++ be_encode 4 (adler32 (tag ++ payload)).

Section Codec.
  Variable msg : Type.
  Variable parse : list byte -> option msg.   (* parseFromBuffer: protobuf's ParseFromArray *)
  Variable ser : msg -> list byte.            (* serializeToBuffer *)
  Variable tag : list byte.                   (* tag_ *)

  Inductive cevent : Type :=
  | CMsg (m : msg)       (* messageCallback_ *)
  | CErr (e : err)       (* errorCallback_ *)
  | CFault.              (* a read outside the received bytes / failed assert: a bug *)

  (* constructor: kMinMessageLen(tagArg.size() + kChecksumLen) *)
  Definition kMinMessageLen : Z := Z.of_nat (length tag) + kChecksumLen.

  (* ProtobufCodecLite.cc:65  if (len > kMaxMessageLen || len < kMinMessageLen) *)
  Definition length_bad (len : Z) : bool := (len >? kMaxMessageLen) || (len <? kMinMessageLen).

  (* checksum(): static_cast<int32_t>(adler32(1, buf, len)) *)
  Definition checksum32 (l : list byte) : Z := to_signed 4 (adler32 l).

  (* validateChecksum(buf, len), buf = peek() + off:
       expected = asInt32(buf + len - kChecksumLen); checksum(buf, len - kChecksumLen) *)
  Definition validateChecksum (b : list byte) (off len : Z) : option bool :=
    match read_at b (off + len - kChecksumLen) 4, read_at b off (len - kChecksumLen) with
    | Some tr, Some body => Some (checksum32 body =? be_decode_signed tr)
    | _, _ => None
    end.

  Inductive pres : Type := POk (m : msg) | PErr (e : err) | PFault.

  (* parse(buf, len, message), buf = peek() + off  (ProtobufCodecLite.cc:209-243) *)
  Definition parse_frame (b : list byte) (off len : Z) : pres :=
    match validateChecksum b off len with
    | None => PFault
    | Some false => PErr kCheckSumError
    | Some true =>
        match read_at b off (Z.of_nat (length tag)) with      (* memcmp(buf, tag_.data(), tag_.size()) *)
        | None => PFault
        | Some t =>
            if bytes_eqb t tag then
              match read_at b (off + Z.of_nat (length tag))
                              (len - kChecksumLen - Z.of_nat (length tag)) with
              | None => PFault
              | Some p => match parse p with Some m => POk m | None => PErr kParseError end
              end
            else PErr kUnknownMessageType
        end
    end.

  (* one iteration of the while loop of onMessage (ProtobufCodecLite.cc:58-97), rawCb_ unset *)
  Definition cstep (_ : unit) (b : list byte) : sres unit cevent :=
    if Z.of_nat (length b) >=? kMinMessageLen + kHeaderLen then
      match read_at b 0 4 with                                 (* peekInt32 *)
      | None => SStop [CFault]
      | Some l4 =>
          let len := be_decode_signed l4 in
          if length_bad len then SStop [CErr kInvalidLength]
          else if Z.of_nat (length b) >=? kHeaderLen + len then
            match parse_frame b kHeaderLen len with
            | PFault => SStop [CFault]
            | PErr e => SStop [CErr e]
            | POk m =>
                match retrieve b (kHeaderLen + len) with
                | Some r => SEmit [CMsg m] tt r
                | None => SStop [CFault]
                end
            end
          else SWait
      end
    else SWait.

  Definition codec_init : dstate unit := init tt.
  Definition codec_feed := feed cstep.
  Definition codec_feed_all := feed_all cstep.

  (* fillEmptyBuffer: tag, payload, checksum appended, then the length prepended *)
  Definition encode_msg (m : msg) : list byte := encode tag (ser m).

  (* ---- the independent reference: greedy split of the whole stream by the length
     prefix, written from the wire-format comment and the property text (64 MiB),
     with unsigned checksum comparison and list surgery instead of offsets -------- *)
  Inductive ref_frame : Type :=
  | RIncomplete
  | RBad (e : err)
  | RFrame (m : msg) (rest : list byte).

  Definition ref_split (s : list byte) : ref_frame :=
    let M := length tag in
    if (length s <? 4 + M + 4)%nat then RIncomplete           (* shorter than the smallest frame *)
    else
      let size := be_decode_signed (firstn 4 s) in
      if (size <? Z.of_nat M + 4) || (64 * 1024 * 1024 <? size) then RBad kInvalidLength
      else
        let n := Z.to_nat size in
        if (length s <? 4 + n)%nat then RIncomplete
        else
          let body := firstn n (skipn 4 s) in
          let rest := skipn (4 + n) s in
          let tp := firstn (n - 4) body in                     (* tag + payload *)
          let ck := skipn (n - 4) body in                      (* checksum *)
          if negb (be_decode ck =? adler32 tp) then RBad kCheckSumError
          else if negb (bytes_eqb (firstn M tp) tag) then RBad kUnknownMessageType
          else match parse (skipn M tp) with
               | None => RBad kParseError
               | Some m => RFrame m rest
               end.

  (* messages, first error (if any), unconsumed rest *)
  Fixpoint ref_decode (fuel : nat) (s : list byte) : list msg * option err * list byte :=
    match fuel with
    | O => ([], None, s)
    | S f =>
        match ref_split s with
        | RIncomplete => ([], None, s)
        | RBad e => ([], Some e, s)
        | RFrame m rest => let '(ms, e, r) := ref_decode f rest in (m :: ms, e, r)
        end
    end.

  Definition ref_events (r : list msg * option err * list byte) : list cevent :=
    let '(ms, e, _) := r in
    map CMsg ms ++ match e with Some x => [CErr x] | None => [] end.
End Codec.
Arguments CMsg {msg} m.
Arguments CErr {msg} e.
Arguments CFault {msg}.

(* ---- instance A: a trivial payload format with an exact oracle ---------------
   message = byte string; payload = '*' followed by the string. *)
Definition raw_ser (m : list byte) : list byte := x2a :: m.
Definition raw_parse (p : list byte) : option (list byte) :=
  match p with
  | x :: m => if Byte.eqb x x2a then Some m else None
  | [] => None
  end.

(* ---- instance B: RpcMessage (rpc.proto): the payload format is modelled by the C19 owner in
   C19_Wire.v (wire_parse / wire_ser); C18_RpcInstance.v instantiates this Section with it. *)

(* ======================================================================== *)
(* HTTP request parser                                                       *)
(* ======================================================================== *)
Definition CR : byte := x0d.
Definition LF : byte := x0a.
Definition SP : byte := x20.
Definition COLON : byte := x3a.
Definition QMARK : byte := x3f.

(* Buffer::findCRLF(): std::search(peek(), beginWrite(), kCRLF, kCRLF+2) *)
Fixpoint find_crlf (b : list byte) : option nat :=
  match b with
  | [] => None
  | x :: t =>
      match t with
      | y :: _ => if Byte.eqb x CR && Byte.eqb y LF then Some O
                  else option_map S (find_crlf t)
      | [] => None
      end
  end.

(* std::find(first, last, c): None = returned last *)
Fixpoint find_byte (c : byte) (l : list byte) : option nat :=
  match l with
  | [] => None
  | x :: t => if Byte.eqb x c then Some O else option_map S (find_byte c t)
  end.

Inductive method : Type := kInvalid | kGet | kPost | kHead | kPut | kDelete.
Inductive version : Type := kUnknown | kHttp10 | kHttp11.

Record request : Type := mkReq {
  q_method : method; q_version : version;
  q_path : list byte; q_query : list byte;
  q_headers : list (list byte * list byte)   (* std::map: insertion order kept here, keys unique *)
}.
Definition empty_request : request := mkReq kInvalid kUnknown [] [] [].

Definition s_GET : list byte := [x47; x45; x54].
Definition s_POST : list byte := [x50; x4f; x53; x54].
Definition s_HEAD : list byte := [x48; x45; x41; x44].
Definition s_PUT : list byte := [x50; x55; x54].
Definition s_DELETE : list byte := [x44; x45; x4c; x45; x54; x45].
Definition s_HTTP1dot : list byte := [x48; x54; x54; x50; x2f; x31; x2e].   (* "HTTP/1." *)

(* HttpRequest::setMethod *)
Definition set_method (m : list byte) : method :=
  if bytes_eqb m s_GET then kGet
  else if bytes_eqb m s_POST then kPost
  else if bytes_eqb m s_HEAD then kHead
  else if bytes_eqb m s_PUT then kPut
  else if bytes_eqb m s_DELETE then kDelete
  else kInvalid.

Definition is_invalid (m : method) : bool := match m with kInvalid => true | _ => false end.

(* HttpContext::processRequestLine(begin, end) on the line without its CRLF; None = false.
   (On failure the C++ leaves request_ partly assigned; the stream is abandoned then and
   the request is never looked at, so the model returns no request.) *)
Definition processRequestLine (line : list byte) (r : request) : option request :=
  match find_byte SP line with
  | None => None
  | Some i =>
      let m := set_method (firstn i line) in
      if is_invalid m then None else
      let rest1 := skipn (i + 1) line in
      match find_byte SP rest1 with
      | None => None
      | Some j =>
          let target := firstn j rest1 in
          let pq := match find_byte QMARK target with
                    | Some q => (firstn q target, skipn q target)
                    | None => (target, q_query r)
                    end in
          let ver := skipn (j + 1) rest1 in
          if (length ver =? 8)%nat && bytes_eqb (firstn 7 ver) s_HTTP1dot then
            match skipn 7 ver with
            | [c] => if Byte.eqb c x31 then Some (mkReq m kHttp11 (fst pq) (snd pq) (q_headers r))
                     else if Byte.eqb c x30 then Some (mkReq m kHttp10 (fst pq) (snd pq) (q_headers r))
                     else None
            | _ => None
            end
          else None
      end
  end.

(* isspace in the "C" locale *)
Definition isspace (b : byte) : bool :=
  let z := Z_of_byte b in (z =? 32) || ((9 <=? z) && (z <=? 13)).
Fixpoint drop_space (l : list byte) : list byte :=
  match l with
  | x :: t => if isspace x then drop_space t else l
  | [] => []
  end.
Definition trim_right (l : list byte) : list byte := rev (drop_space (rev l)).

(* headers_[field] = value *)
Fixpoint map_set (k v : list byte) (h : list (list byte * list byte)) : list (list byte * list byte) :=
  match h with
  | [] => [(k, v)]
  | (k', v') :: t => if bytes_eqb k k' then (k, v) :: t else (k', v') :: map_set k v t
  end.

(* HttpRequest::addHeader(start, colon, end) *)
Definition add_header (r : request) (line : list byte) (colon : nat) : request :=
  let field := firstn colon line in
  let value := trim_right (drop_space (skipn (colon + 1) line)) in
  mkReq (q_method r) (q_version r) (q_path r) (q_query r) (map_set field value (q_headers r)).

Inductive hstate : Type := kExpectRequestLine | kExpectHeaders | kExpectBody | kGotAll.
Record hctx : Type := mkCtx { h_state : hstate; h_req : request }.
Definition ctx0 : hctx := mkCtx kExpectRequestLine empty_request.   (* HttpContext() / reset() *)
Definition gotAll (c : hctx) : bool := match h_state c with kGotAll => true | _ => false end.

Inductive pr_res : Type :=
| PRFuel                                            (* while(hasMore) did not terminate *)
| PRDone (ok : bool) (c : hctx) (b : list byte).

(* HttpContext::parseRequest (HttpContext.cc:60-118), the while loop literally *)
Fixpoint parseRequest (fuel : nat) (c : hctx) (b : list byte) : pr_res :=
  match fuel with
  | O => PRFuel
  | S f =>
      match h_state c with
      | kExpectRequestLine =>
          match find_crlf b with
          | Some i =>
              match processRequestLine (firstn i b) (h_req c) with
              | Some r => parseRequest f (mkCtx kExpectHeaders r) (skipn (i + 2) b)
              | None => PRDone false c b
              end
          | None => PRDone true c b
          end
      | kExpectHeaders =>
          match find_crlf b with
          | Some i =>
              let line := firstn i b in
              match find_byte COLON line with
              | Some k => parseRequest f (mkCtx kExpectHeaders (add_header (h_req c) line k))
                                       (skipn (i + 2) b)
              | None => PRDone true (mkCtx kGotAll (h_req c)) (skipn (i + 2) b)
              end
          | None => PRDone true c b
          end
      | kExpectBody => parseRequest f c b    (* "FIXME": no exit from the loop *)
      | kGotAll => parseRequest f c b        (* no branch taken, hasMore stays true *)
      end
  end.

Inductive hevent : Type := HReq (r : request) | HBad.

(* the caller's loop (as HttpServer::onMessage, repeated while a request completes):
   parseRequest; false => 400 and abandon; gotAll => hand the request over, reset(), again *)
Fixpoint http_loop (fuel : nat) (c : hctx) (b : list byte) : list hevent * dstate hctx :=
  match fuel with
  | O => ([], mkD c b false true)
  | S f =>
      match parseRequest (S (length b)) c b with
      | PRFuel => ([], mkD c b false true)
      | PRDone false c' b' => ([HBad], mkD c' b' true false)
      | PRDone true c' b' =>
          if gotAll c' then
            let (e, d) := http_loop f ctx0 b' in (HReq (h_req c') :: e, d)
          else ([], mkD c' b' false false)
      end
  end.

Definition http_feed (d : dstate hctx) (chunk : list byte) : list hevent * dstate hctx :=
  if d_abandoned d || d_oof d
  then ([], mkD (d_st d) (d_buf d ++ chunk) (d_abandoned d) (d_oof d))
  else http_loop (S (length (d_buf d ++ chunk))) (d_st d) (d_buf d ++ chunk).

Fixpoint http_feed_all (d : dstate hctx) (chunks : list (list byte)) : list hevent * dstate hctx :=
  match chunks with
  | [] => ([], d)
  | c :: cs => let (e1, d1) := http_feed d c in
               let (e2, d2) := http_feed_all d1 cs in (e1 ++ e2, d2)
  end.

Definition http_init : dstate hctx := init ctx0.

(* the same decoder as one line-at-a-time step of the generic loop (used by the proofs;
   proved equal to http_feed) *)
Definition hstep (c : hctx) (b : list byte) : sres hctx hevent :=
  match h_state c with
  | kExpectRequestLine =>
      match find_crlf b with
      | None => SWait
      | Some i =>
          match processRequestLine (firstn i b) (h_req c) with
          | Some r => SEmit [] (mkCtx kExpectHeaders r) (skipn (i + 2) b)
          | None => SStop [HBad]
          end
      end
  | kExpectHeaders =>
      match find_crlf b with
      | None => SWait
      | Some i =>
          match find_byte COLON (firstn i b) with
          | Some k => SEmit [] (mkCtx kExpectHeaders (add_header (h_req c) (firstn i b) k))
                            (skipn (i + 2) b)
          | None => SEmit [HReq (h_req c)] ctx0 (skipn (i + 2) b)
          end
      end
  | _ => SWait
  end.
