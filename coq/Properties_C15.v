(* Properties_C15: ThreadPool runs each accepted task once, applies back-pressure, always stops.
   Statements only.  Model: C15_Model ([pool_body maxq] = the critical sections of
   muduo/base/ThreadPool.cc over the monitor semantics of Conc_Model, [pstep nw maxq] = these plus
   the steps outside the mutex: the unguarded read of running_ in runInThread, the call of a task,
   the start of a client call, the joins of stop()).  Every theorem quantifies over ALL numbers of
   workers [nw] (0 = inline), ALL maximum queue sizes [maxq] (0 = unbounded), ALL numbers of client
   threads and ALL their programs [progs] (any mix of run(k), stop(), queueSize()), and ALL
   schedules: [preach] is closed under every enabled step, including the choice of the waiter a
   notify() releases and spurious wake-ups.  Threads 0..nw-1 are the workers, nw.. the clients.
   [evs s] is the log of what happened, in order:  EvAccept t k (run(k) queued k), EvReject t k
   (run(k) left at `if (!running_) return`), EvTake t k (take() popped k), EvStart t k (worker t
   calls k), EvInline t k, EvStopSec t (first block of stop()), EvStopRet t (stop() returned).
   The tie to the C++: Gen_C15 (guards regenerated from ThreadPool.cc, link theorem below) and the
   trace validation of bin/check C15. *)
From Coq Require Import List ZArith Arith Bool Lia.
From Muduo Require Import Conc_Model Conc_Proofs C15_Model Gen_C15 C15_Proofs.
Import ListNotations.
Open Scope nat_scope.

(* Every task accepted by run() is executed at most once: for every task identity k, the number of
   times k was started never exceeds the number of times k was accepted; exactly: accepted =
   started + held by a worker between take() and the call + still queued. *)
Theorem C15_at_most_once : forall nw maxq progs s, preach nw maxq (pinit nw progs) s -> forall k,
  count_occ Nat.eq_dec (started (evs s)) k <= count_occ Nat.eq_dec (accepted (evs s)) k /\
  count_occ Nat.eq_dec (accepted (evs s)) k =
    count_occ Nat.eq_dec (started (evs s)) k + count_occ Nat.eq_dec (inhand (pcs s)) k +
    count_occ Nat.eq_dec (queue (shared (mon s))) k.
Proof. exact at_most_once_full. Qed.
Print Assumptions C15_at_most_once.

(* Every run(k) call of every client program is decided exactly once - accepted, rejected because
   the pool had been stopped, or executed inline - or is still pending (in progress / not reached);
   hence tasks that are submitted once each are executed at most once each. *)
Theorem C15_every_run_decided_once : forall nw maxq progs s, preach nw maxq (pinit nw progs) s ->
  (forall k, count_occ Nat.eq_dec (accepted (evs s)) k + count_occ Nat.eq_dec (rejected (evs s)) k +
             count_occ Nat.eq_dec (inlined (evs s)) k + count_occ Nat.eq_dec (pending s) k =
             count_occ Nat.eq_dec (submitted progs) k) /\
  (NoDup (submitted progs) ->
     forall k, count_occ Nat.eq_dec (started (evs s)) k + count_occ Nat.eq_dec (inlined (evs s)) k <= 1).
Proof. exact every_run_decided_once. Qed.
Print Assumptions C15_every_run_decided_once.

(* ... and exactly once unless stop() intervenes while it is still queued: when nothing but a
   spurious wake-up can happen any more, no worker holds a task, every accepted task has been
   started or is still in the queue, and the queue can only be non-empty if stop()'s first block
   has run. *)
Theorem C15_exactly_once_unless_stopped : forall nw maxq progs s,
  preach nw maxq (pinit nw progs) s -> pquiescent nw maxq s ->
  inhand (pcs s) = [] /\
  (forall k, count_occ Nat.eq_dec (accepted (evs s)) k =
             count_occ Nat.eq_dec (started (evs s)) k + count_occ Nat.eq_dec (queue (shared (mon s))) k) /\
  (queue (shared (mon s)) <> [] -> running (shared (mon s)) = false /\ existsb is_stopsec (evs s) = true).
Proof. exact exactly_once_unless_stopped. Qed.
Print Assumptions C15_exactly_once_unless_stopped.

(* Tasks are taken up in the order they were accepted: the tasks popped by take(), in the order of
   the take() sections, are a prefix of the accepted tasks in the order of the run() sections;
   every worker calls the tasks it took in the order it took them; with a single worker the tasks
   are executed in acceptance order. *)
Theorem C15_fifo_start_order : forall nw maxq progs s, preach nw maxq (pinit nw progs) s ->
  (exists rest, accepted (evs s) = taken (evs s) ++ rest) /\
  (forall i k, nth_error (taken (evs s)) i = Some k -> nth_error (accepted (evs s)) i = Some k) /\
  (forall t, taken_by t (evs s) = started_by t (evs s) ++ inhand_at s t) /\
  (nw <= 1 -> taken (evs s) = started (evs s) ++ inhand (pcs s)).
Proof. exact fifo_start_order. Qed.
Print Assumptions C15_fifo_start_order.

(* Tasks run on pool threads: whoever pops or starts a queued task is a worker; only clients of a
   pool that has threads get a task queued; inline execution happens only without threads. *)
Theorem C15_on_pool_thread : forall nw maxq progs s, preach nw maxq (pinit nw progs) s ->
  (forall t k, In (EvStart t k) (evs s) -> t < nw) /\
  (forall t k, In (EvTake t k) (evs s) -> t < nw) /\
  (forall t k, In (EvAccept t k) (evs s) -> nw <= t /\ nw <> 0) /\
  (forall t k, In (EvInline t k) (evs s) -> nw = 0).
Proof. exact on_pool_thread. Qed.
Print Assumptions C15_on_pool_thread.

(* a pool without threads never queues anything (run() executes in the caller: step LNext) *)
Theorem C15_inline_when_empty : forall nw maxq progs s, preach nw maxq (pinit nw progs) s -> nw = 0 ->
  accepted (evs s) = [] /\ taken (evs s) = [] /\ started (evs s) = [] /\ queue (shared (mon s)) = [].
Proof. exact inline_when_empty. Qed.
Print Assumptions C15_inline_when_empty.

Theorem C15_bounded : forall nw maxq progs s, preach nw maxq (pinit nw progs) s ->
  0 < maxq -> length (queue (shared (mon s))) <= maxq.
Proof. exact bounded. Qed.
Print Assumptions C15_bounded.

(* nobody is left waiting: in a state in which nothing but a spurious wake-up can happen, every
   thread has returned / finished its program (or was aborted by the assertion of Thread::join, which
   needs a second stop(): C15_second_stop), or is a worker blocked in take() on an empty queue of a
   running pool, or a client blocked in run() on a full queue of a running pool *)
Theorem C15_quiescent_shape : forall nw maxq progs s, preach nw maxq (pinit nw progs) s -> pquiescent nw maxq s ->
  forall t p th, nth_error (pcs s) t = Some p -> nth_error (threads (mon s)) t = Some th ->
    p = WDone \/ p = CIdle [] \/ (exists ops, p = CFault ops) \/
    (p = WTake /\ st th = Waiting notEmpty /\ queue (shared (mon s)) = [] /\ running (shared (mon s)) = true) \/
    (exists ops, p = CCall ops /\ st th = Waiting notFull /\ isFull maxq (queue (shared (mon s))) = true /\
                 running (shared (mon s)) = true).
Proof. exact quiescent_shape. Qed.
Print Assumptions C15_quiescent_shape.

(* the ranking argument: from every reachable state, every schedule makes at most
   pmeasure + 2 * (number of spurious wake-ups) further steps that are not spurious wake-ups, and a
   quiescent state is reachable without any *)
Theorem C15_quiescence_reached : forall nw maxq progs s, preach nw maxq (pinit nw progs) s ->
  (forall ls s', prun nw maxq s ls = Some s' -> pmeasure nw s' + pnonspur ls <= pmeasure nw s + 2 * pnspur ls) /\
  (exists ls s', prun nw maxq s ls = Some s' /\ pnspur ls = 0 /\ preach nw maxq (pinit nw progs) s' /\ pquiescent nw maxq s').
Proof. exact quiescence_reached. Qed.
Print Assumptions C15_quiescence_reached.

(* stop() returns for every interleaving.  In every reachable state in which stop()'s first block
   has run (running_ = false): (1) no thread is blocked on a condition - idle workers and producers
   blocked on a full queue have been released, and nobody blocks again; (2) EVERY continuation,
   whatever the schedule, has at most [pmeasure nw s] steps; (3) a continuation that cannot be
   extended ends with every worker returned from runInThread (also those that were in the middle of
   a task), every client at the end of its program and every stop() returned - the alternatives
   `CFault` / `EvFault` (abort in Thread::join) arise only if stop() is called more than once, see
   C15_second_stop; (4) such a continuation exists. *)
Theorem C15_stop_terminates : forall nw maxq progs s, preach nw maxq (pinit nw progs) s ->
  running (shared (mon s)) = false ->
  (forall t th c, nth_error (threads (mon s)) t = Some th -> st th <> Waiting c) /\
  (forall ls s', prun nw maxq s ls = Some s' -> length ls <= pmeasure nw s) /\
  (forall ls s', prun nw maxq s ls = Some s' -> (forall l, pstep nw maxq s' l = None) ->
     (forall t, t < nw -> pc_at s' t = Some WDone) /\
     (forall t p, nw <= t -> pc_at s' t = Some p -> p = CIdle [] \/ exists ops, p = CFault ops) /\
     (forall t, In (EvStopSec t) (evs s') -> In (EvStopRet t) (evs s') \/ exists i, In (EvFault t i) (evs s'))) /\
  (exists ls s', prun nw maxq s ls = Some s' /\ forall l, pstep nw maxq s' l = None).
Proof. exact stop_terminates. Qed.
Print Assumptions C15_stop_terminates.

(* A second stop() is an explicit state of the model: joining a worker that has been joined before
   is the assertion failure of muduo::Thread::join (`assert(!joined_)`), modelled as the absorbing
   control state CFault with the event EvFault.  If the client programs contain at most one stop()
   in total, no fault is reachable: no EvFault is ever logged and no client is ever at CFault - so
   with the documented use the disjuncts `CFault` of the theorems above are empty. *)
Theorem C15_second_stop : forall nw maxq progs s, preach nw maxq (pinit nw progs) s -> total_stops progs <= 1 ->
  (forall x, In x (evs s) -> is_fault x = false) /\ (forall t ops, pc_at s t <> Some (CFault ops)).
Proof. exact single_stop_no_fault. Qed.
Print Assumptions C15_second_stop.

(* The thread-init callback (`if (threadInitCallback_) threadInitCallback_();` at the top of
   runInThread) is an explicit step of every worker: it happens at most once per worker, a worker that
   has left the initial state has passed it, and whoever popped or started a task has passed it
   before (the statement holds in every reachable state, i.e. for every prefix of the log). *)
Theorem C15_init_callback : forall nw maxq progs s, preach nw maxq (pinit nw progs) s ->
  (forall t, count_occ Nat.eq_dec (inits (evs s)) t <= 1) /\
  (forall t, pc_at s t = Some WInit -> ~ In (EvInit t) (evs s)) /\
  (forall t p, pc_at s t = Some p -> t < nw -> p <> WInit -> In (EvInit t) (evs s)) /\
  (forall t k, In (EvTake t k) (evs s) -> In (EvInit t) (evs s)) /\
  (forall t k, In (EvStart t k) (evs s) -> In (EvInit t) (evs s)).
Proof. exact init_callback. Qed.
Print Assumptions C15_init_callback.

(* Per client, in program order: client number c (thread nw + c) has had the run() calls of its
   program decided one after the other - accepted, rejected (pool stopped) or run inline - so that
   program = decided so far ++ call in progress ++ calls still to come; for a pool without
   threads: every run(k) was executed inline by the caller, in program order. *)
Theorem C15_client_program_order : forall nw maxq progs s c p th, preach nw maxq (pinit nw progs) s ->
  nth_error (pcs s) (nw + c) = Some p -> nth_error (threads (mon s)) (nw + c) = Some th ->
  runs_of (nth c progs []) = decided_by (nw + c) (evs s) ++ prog_runs th ++ runs_of (pc_ops p).
Proof. exact client_program_order. Qed.
Print Assumptions C15_client_program_order.

Theorem C15_inline_program_order : forall nw maxq progs s c p, preach nw maxq (pinit nw progs) s -> nw = 0 ->
  nth_error (pcs s) c = Some p ->
  runs_of (nth c progs []) = decided_by c (evs s) ++ runs_of (pc_ops p).
Proof. exact inline_program_order. Qed.
Print Assumptions C15_inline_program_order.

(* after stop() has returned no queued task starts (nothing is popped, started or accepted after
   the first EvStopRet), and by then every worker has returned *)
Theorem C15_nothing_starts_after_stop_returns : forall nw maxq progs s, preach nw maxq (pinit nw progs) s ->
  Forall after_stop_ok (after is_stopret (evs s)) /\
  (existsb is_stopret (evs s) = true ->
     running (shared (mon s)) = false /\ forall j, j < nw -> pc_at s j = Some WDone).
Proof. exact nothing_starts_after_stop_returns. Qed.
Print Assumptions C15_nothing_starts_after_stop_returns.

(* later run() calls on a pool that has threads return without executing anything: nothing is
   accepted after stop()'s first block; running_ is false exactly from that block on; and a run(k)
   section evaluated then returns at once, changing nothing, notifying nobody *)
Theorem C15_run_after_stop_noop : forall nw maxq progs s, preach nw maxq (pinit nw progs) s ->
  Forall not_accept (after is_stopsec (evs s)) /\
  running (shared (mon s)) = negb (existsb is_stopsec (evs s)) /\
  (forall k, running (shared (mon s)) = false ->
     pool_body maxq (PRun k) (shared (mon s)) = Ret (shared (mon s)) RRejected []).
Proof. exact run_after_stop_noop. Qed.
Print Assumptions C15_run_after_stop_noop.

(* the guards of the model are the guards of ThreadPool.cc: the body rebuilt from the guards that
   lib/gen_C15.py regenerates from the clang AST (isFull's comparison, the wait conditions of take()
   and run(), `if (!running_) return`, the conditions for pop_front() and notFull_.notify()) is the
   body of the model, for all arguments; the worker's loop condition is running_ itself *)
Theorem C15_guards_are_the_sources : forall maxq o s, gen_body maxq o s = pool_body maxq o s.
Proof. exact link_body. Qed.
Print Assumptions C15_guards_are_the_sources.

Theorem C15_worker_loop_guard : forall r, gen_worker_loops r = r.
Proof. exact link_worker_loops. Qed.
Print Assumptions C15_worker_loop_guard.

(* ------------------------------------------------------------------ non-vacuity *)
(* one worker, queue bound 1, one client: run 7; run 8; stop.  A complete run in which both tasks
   are executed and stop() returns *)
Example C15_ex_run :
  exists s, preach 1 1 (pinit 1 [[URun 7; URun 8; UStop]]) s /\
            started (evs s) = [7; 8] /\ accepted (evs s) = [7; 8] /\ existsb is_stopret (evs s) = true /\
            running (shared (mon s)) = false /\ pcs s = [WDone; CIdle []].
Proof.
  eexists. split.
  - eapply preach_prun; [apply preach_refl|].
    instantiate (2 := [LInit 0; LLoad 0; LMon (LAcquire 0); LMon (LBody 0 []);
                       LNext 1; LMon (LAcquire 1); LMon (LBody 1 [0]);
                       LNext 1; LMon (LAcquire 1); LMon (LBody 1 []);
                       LMon (LReacquire 0); LMon (LBody 0 []); LExec 0;
                       LMon (LReacquire 1); LMon (LBody 1 []);
                       LLoad 0; LMon (LAcquire 0); LMon (LBody 0 []); LExec 0;
                       LNext 1; LMon (LAcquire 1); LMon (LBody 1 []);
                       LLoad 0; LJoin 1; LJoin 1]).
    vm_compute. reflexivity.
  - vm_compute. auto 10.
Qed.

(* stop() while a task is still queued: it is never started (the "unless" of exactly-once), and a
   run() after stop is rejected *)
Example C15_ex_stop_with_queued_task :
  exists s, preach 1 0 (pinit 1 [[URun 7; URun 8; UStop; URun 9]]) s /\
            started (evs s) = [7] /\ queue (shared (mon s)) = [8] /\ rejected (evs s) = [9] /\
            (forall l, pstep 1 0 s l = None).
Proof.
  eexists. split; [|split; [|split; [|split]]].
  - eapply preach_prun; [apply preach_refl|].
    instantiate (2 := [LNext 1; LMon (LAcquire 1); LMon (LBody 1 []);
                       LNext 1; LMon (LAcquire 1); LMon (LBody 1 []);
                       LInit 0; LLoad 0; LMon (LAcquire 0); LMon (LBody 0 []);
                       LNext 1; LMon (LAcquire 1); LMon (LBody 1 []);
                       LExec 0; LLoad 0; LJoin 1; LJoin 1;
                       LNext 1; LMon (LAcquire 1); LMon (LBody 1 [])]).
    vm_compute. reflexivity.
  - vm_compute. reflexivity.
  - vm_compute. reflexivity.
  - vm_compute. reflexivity.
  - intros l. destruct l as [[t|t p|t|t]|t|t|t|t|t]; destruct t as [|[|t]]; vm_compute; try reflexivity;
      destruct t; reflexivity.
Qed.

(* a quiescent reachable state with a (legitimately) waiting worker and a producer blocked on a
   full queue is impossible here; a waiting idle worker is *)
Example C15_ex_quiescent_idle_worker :
  exists s, preach 1 0 (pinit 1 [[]]) s /\ pquiescent 1 0 s /\
            nth_error (pcs s) 0 = Some WTake /\ exists th, nth_error (threads (mon s)) 0 = Some th /\ st th = Waiting notEmpty.
Proof.
  assert (H : exists s, prun 1 0 (pinit 1 [[]]) [LInit 0; LLoad 0; LMon (LAcquire 0); LMon (LBody 0 [])] = Some s /\
                        psome_move 1 0 s = None /\ nth_error (pcs s) 0 = Some WTake /\
                        exists th, nth_error (threads (mon s)) 0 = Some th /\ st th = Waiting notEmpty).
  { eexists. split; [vm_compute; reflexivity|]. split; [vm_compute; reflexivity|]. split; [vm_compute; reflexivity|].
    eexists. split; vm_compute; reflexivity. }
  destruct H as (s & Hrun & Hnone & Hpc & Hth). exists s.
  assert (Hr : preach 1 0 (pinit 1 [[]]) s) by (eapply preach_prun; [apply preach_refl|exact Hrun]).
  split; auto. split; auto. apply psome_move_none; auto. eapply coh_reach; eauto.
Qed.

(* back-pressure: with maxQueueSize 1 and no worker having taken the first task yet, the second
   run() blocks on notFull *)
Example C15_ex_backpressure :
  exists s, preach 1 1 (pinit 1 [[URun 7; URun 8]]) s /\ queue (shared (mon s)) = [7] /\
            exists th, nth_error (threads (mon s)) 1 = Some th /\ st th = Waiting notFull.
Proof.
  eexists. split; [|split].
  - eapply preach_prun; [apply preach_refl|].
    instantiate (2 := [LNext 1; LMon (LAcquire 1); LMon (LBody 1 []); LNext 1; LMon (LAcquire 1); LMon (LBody 1 [])]).
    vm_compute. reflexivity.
  - vm_compute. reflexivity.
  - eexists. split; vm_compute; reflexivity.
Qed.

(* no pool threads: run() executes inline *)
Example C15_ex_inline :
  exists s, preach 0 0 (pinit 0 [[URun 7; UStop; URun 8]]) s /\ inlined (evs s) = [7; 8] /\ accepted (evs s) = [].
Proof.
  eexists. split; [|split].
  - eapply preach_prun; [apply preach_refl|].
    instantiate (2 := [LNext 0; LNext 0; LMon (LAcquire 0); LMon (LBody 0 []); LJoin 0; LNext 0]).
    vm_compute. reflexivity.
  - vm_compute. reflexivity.
  - vm_compute. reflexivity.
Qed.

Example C15_ex_generated_guards :
  gen_isFull 2 1 = false /\ gen_isFull 2 2 = true /\ gen_isFull 0 5 = false /\
  gen_take_waits true true = true /\ gen_take_waits true false = false /\
  gen_run_waits true false = false /\ gen_run_rejects false = true.
Proof. vm_compute. auto 10. Qed.

(* a second stop(): the assertion of Thread::join is reachable (the hypothesis of C15_second_stop
   cannot be dropped); with one worker, client 1 calls stop() twice *)
Example C15_ex_second_stop_faults :
  exists s, preach 1 0 (pinit 1 [[UStop; UStop]]) s /\ total_stops [[UStop; UStop]] = 2 /\
            In (EvFault 1 0) (evs s) /\ pc_at s 1 = Some (CFault []).
Proof.
  eexists. split; [|split; [|split]].
  - eapply preach_prun; [apply preach_refl|].
    instantiate (2 := [LInit 0; LNext 1; LMon (LAcquire 1); LMon (LBody 1 []); LLoad 0; LJoin 1; LJoin 1;
                       LNext 1; LMon (LAcquire 1); LMon (LBody 1 []); LJoin 1]).
    vm_compute. reflexivity.
  - reflexivity.
  - vm_compute. auto 10.
  - vm_compute. reflexivity.
Qed.

(* the init callback precedes the first take *)
Example C15_ex_init_then_take :
  exists s, preach 1 0 (pinit 1 [[URun 7]]) s /\ evs s = [EvInit 0; EvAccept 1 7; EvTake 0 7; EvStart 0 7].
Proof.
  eexists. split.
  - eapply preach_prun; [apply preach_refl|].
    instantiate (2 := [LInit 0; LNext 1; LMon (LAcquire 1); LMon (LBody 1 []); LLoad 0; LMon (LAcquire 0); LMon (LBody 0 []); LExec 0]).
    vm_compute. reflexivity.
  - vm_compute. reflexivity.
Qed.
